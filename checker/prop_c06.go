package main

import (
	"fmt"
	"go/constant"
	"go/types"
	"sort"
	"strings"

	"golang.org/x/tools/go/ssa"
)

func init() {
	register(&propMeta{
		ID: "C06",
		Explain: "Decides structural necessary conditions of 'config expansion equals the declarative feature/include/exclude specification' by guard-formula reasoning over opaque atoms (typed keys such as elem(supportedFeatures.Versions)==2, supportedFeatures.SupportsH2C): " +
			"(possible) the single insertion into the case set is unreachable under every impossible combination (gRPC off HTTP/2, no TLS with HTTP/3 or with HTTP/2 without H2C, client certs without TLS, full-duplex over HTTP/1.1, half-duplex over HTTP/1.1 when not declared, the deprecated text codec) and reachable under representative possible ones; GET cases only for Connect with GET support; " +
			"(wire) the four same-typed boolean fields of an inserted case come from their own loop variables; " +
			"(contradictions) every contradictory feature set named in the statement makes resolveFeatures' success return unreachable and representative consistent ones (e.g. HTTP/3 without HTTP/2 with full-duplex) keep it reachable; the defaulted version/protocol/stream-type lists are selected by the right flags; the five default-true flags are forced true exactly when unset; " +
			"(entries) every contradictory include/exclude entry makes resolveCase's expansion unreachable, a consistent entry with explicit false values keeps it reachable, and the three optional booleans restrict the expansion exactly when present (presence, not value); " +
			"(algebra) include entries are unioned and exclude entries removed from the feature-implied set, excludes after includes, every resolution error is propagated, an empty result is an error. " +
			"It does NOT decide set equality with the specification for all configurations.",
		NotDecided: []string{"set equality with the specification for all 2^19 × 3^7 configurations (needs evaluation of the loop nest)", "that the opaque atoms mean what their names say (they are typed field/constant references, not interpreted)"},
		Assume:     []string{"branch conditions are opaque atoms keyed by struct type, field and constant; a field is assumed not to change between the branches that test it except where the code stores to it in between (resolveFeatures' defaults precede the tests)"},
		Trusted:    commonTrusted,
		Run:        runC06,
	})
	f := "internal/app/connectconformance/config.go"
	addMutants(
		Mutant{ID: "C06-onlyHTTP1", Prop: "C06", File: f, Old: "onlyHTTP1 := !includesHTTP2 && !includesHTTP3", New: "onlyHTTP1 := !includesHTTP2",
			Expect: []string{"contradictions.valid.", "contradictions.defaults."}, Note: "seed C06-1: HTTP/3 without HTTP/2 treated as HTTP/1.1 only"},
		Mutant{ID: "C06-clientcert-by-value", Prop: "C06", File: f, Old: "\tif unresolvedCase.UseTlsClientCerts != nil {\n\t\tif unresolvedCase.GetUseTlsClientCerts() {", New: "\tif unresolvedCase.GetUseTlsClientCerts() {\n\t\tif unresolvedCase.GetUseTlsClientCerts() {",
			Expect: []string{"entries.presence."}, Note: "seed C06-2: explicit useTlsClientCerts:false treated as omitted"},
		Mutant{ID: "C06-D10", Prop: "C06", File: f, Old: "\tif unresolvedCase.UseTlsClientCerts != nil {\n\t\tif unresolvedCase.GetUseTlsClientCerts() {", New: "\tif unresolvedCase.UseTlsClientCerts != nil {\n\t\t{",
			Expect: []string{"entries.valid."}, Note: "original defect D10: consistent entry with explicit false rejected"},
		Mutant{ID: "C06-grpc-http3", Prop: "C06", File: f, Old: "\t\t\t\t\t\tversion != conformancev1.HTTPVersion_HTTP_VERSION_2 {\n\t\t\t\t\t\tcontinue // gRPC requires HTTP/2", New: "\t\t\t\t\t\tversion == conformancev1.HTTPVersion_HTTP_VERSION_1 {\n\t\t\t\t\t\tcontinue // gRPC requires HTTP/2",
			Expect: []string{"possible.impossible."}, Note: "gRPC over HTTP/3 cases generated"},
		Mutant{ID: "C06-h2c-ignored", Prop: "C06", File: f, Old: "(version == conformancev1.HTTPVersion_HTTP_VERSION_2 && !features.SupportsH2C)) {", New: "(version == conformancev1.HTTPVersion_HTTP_VERSION_2 && !features.SupportsTLS)) {",
			Expect: []string{"possible.impossible."}, Note: "cleartext HTTP/2 generated without H2C support"},
		Mutant{ID: "C06-bool-swap", Prop: "C06", File: f, Old: "\t\t\t\t\t\t\t\t\t\t\tUseTLS:                 tlsCase,\n\t\t\t\t\t\t\t\t\t\t\tUseTLSClientCerts:      tlsClientCertCase,", New: "\t\t\t\t\t\t\t\t\t\t\tUseTLS:                 tlsClientCertCase,\n\t\t\t\t\t\t\t\t\t\t\tUseTLSClientCerts:      tlsCase,",
			Expect: []string{"wire."}, Note: "same-typed boolean fields swapped"},
		Mutant{ID: "C06-exclude-first", Prop: "C06", File: f, Old: "\t\t\tcases[include] = struct{}{}", New: "\t\t\tdelete(cases, include)",
			Expect: []string{"algebra."}, Note: "include entries remove cases"},
		Mutant{ID: "C06-empty-ok", Prop: "C06", File: f, Old: "\tif len(cases) == 0 {\n\t\treturn nil, fmt.Errorf(\"%s: configuration resulted in zero cases to test\", configFileName)\n\t}\n", New: "",
			Expect: []string{"algebra.empty"}, Note: "empty configuration accepted"},
		Mutant{ID: "C06-default-false", Prop: "C06", File: f, Old: "\tif features.SupportsTrailers == nil {\n\t\tresult.SupportsTrailers = true\n\t}\n", New: "",
			Expect: []string{"contradictions.default-true."}, Note: "trailers no longer default to supported"},
		Mutant{ID: "C06-grpc-no-trailers", Prop: "C06", File: f, Old: "\tif includesGPRC && !result.SupportsTrailers {\n\t\treturn result, errors.New(\"config features indicate gRPC protocol is supported but trailers are not\")\n\t}\n", New: "",
			Expect: []string{"contradictions.rejected."}, Note: "gRPC without trailers no longer rejected"},
		Mutant{ID: "C06-get-any-protocol", Prop: "C06", File: f, Old: "if protocol == conformancev1.Protocol_PROTOCOL_CONNECT && features.SupportsConnectGet {", New: "if features.SupportsConnectGet {",
			Expect: []string{"possible.connect-get"}, Note: "GET cases generated for gRPC protocols"},
	)
}

type sigmaCase struct {
	name string
	s    sigma
}

func enumVal(p *Prog, name string) int64 {
	c := p.Const(pkgGen, name)
	if c == nil {
		return -999
	}
	v, _ := constant.Int64Val(constant.ToInt(c.Val()))
	return v
}

func runC06(p *Prog, r *Report) {
	compute := p.Func(pkgCC, "", "computeCasesFromFeatures")
	resolveF := p.Func(pkgCC, "", "resolveFeatures")
	resolveC := p.Func(pkgCC, "", "resolveCase")
	parse := p.Func(pkgCC, "", "parseConfig")
	if compute == nil || resolveF == nil || resolveC == nil || parse == nil {
		r.Undecided("scope", "R-GUARD", "config functions not found")
		return
	}
	for _, f := range []*ssa.Function{compute, resolveF, resolveC, parse} {
		r.Func(funcName(f))
	}
	e := &boolEval{key: genericKey}
	v1, v2, v3 := enumVal(p, "HTTPVersion_HTTP_VERSION_1"), enumVal(p, "HTTPVersion_HTTP_VERSION_2"), enumVal(p, "HTTPVersion_HTTP_VERSION_3")
	grpc, connectP := enumVal(p, "Protocol_PROTOCOL_GRPC"), enumVal(p, "Protocol_PROTOCOL_CONNECT")
	half, full := enumVal(p, "StreamType_STREAM_TYPE_HALF_DUPLEX_BIDI_STREAM"), enumVal(p, "StreamType_STREAM_TYPE_FULL_DUPLEX_BIDI_STREAM")
	text := enumVal(p, "Codec_CODEC_TEXT")
	k := func(format string, a ...any) string { return fmt.Sprintf(format, a...) }
	merge := func(ms ...sigma) sigma {
		out := sigma{}
		for _, m := range ms {
			for kk, vv := range m {
				out[kk] = vv
			}
		}
		return out
	}
	// ---- possible ----
	verIs := func(v int64) sigma {
		s := sigma{}
		for _, x := range []int64{v1, v2, v3} {
			s[k("elem(supportedFeatures.Versions)==%d", x)] = x == v
		}
		return s
	}
	protoIs := func(v int64) sigma {
		return sigma{k("elem(supportedFeatures.Protocols)==%d", grpc): v == grpc, k("elem(supportedFeatures.Protocols)==%d", connectP): v == connectP}
	}
	stIs := func(v int64) sigma {
		return sigma{k("elem(supportedFeatures.StreamTypes)==%d", half): v == half, k("elem(supportedFeatures.StreamTypes)==%d", full): v == full}
	}
	tls := func(b bool) sigma { return sigma{"elem(tlsCases)": b} }
	cert := func(b bool) sigma { return sigma{"elem(tlsClientCertCases)": b} }
	h2c := func(b bool) sigma { return sigma{"supportedFeatures.SupportsH2C": b} }
	half1 := func(b bool) sigma { return sigma{"supportedFeatures.SupportsHalfDuplexBidiOverHTTP1": b} }
	notText := sigma{k("elem(supportedFeatures.Codecs)==%d", text): false}
	var insert ssa.Instruction
	nIns := 0
	eachInstr(compute, func(in ssa.Instruction) {
		if mu, ok := in.(*ssa.MapUpdate); ok {
			if nt, ok := mu.Key.Type().(*types.Named); ok && nt.Obj().Name() == "configCase" {
				insert = in
				nIns++
			}
		}
	})
	seen := e.keysSeen(compute)
	needKeys := []string{k("elem(supportedFeatures.Versions)==%d", v2), k("elem(supportedFeatures.Versions)==%d", v3), k("elem(supportedFeatures.Protocols)==%d", grpc), "elem(tlsCases)", "elem(tlsClientCertCases)", "supportedFeatures.SupportsH2C", "supportedFeatures.SupportsHalfDuplexBidiOverHTTP1", k("elem(supportedFeatures.StreamTypes)==%d", full), k("elem(supportedFeatures.StreamTypes)==%d", half), k("elem(supportedFeatures.Codecs)==%d", text)}
	missing := []string{}
	for _, nk := range needKeys {
		if seen[nk] == 0 {
			missing = append(missing, nk)
		}
	}
	if nIns != 1 {
		r.Undecided("possible", "R-GUARD", fmt.Sprintf("expected exactly one insertion into the case set in computeCasesFromFeatures, found %d", nIns))
	} else {
		if len(missing) > 0 {
			r.Fail("possible.atoms", "R-GUARD", p.Pos(compute.Pos()), fmt.Sprintf("computeCasesFromFeatures no longer branches on %v: the corresponding impossible combinations cannot be excluded", missing))
		}
		impossible := []sigmaCase{
			{"grpc-over-http1", merge(protoIs(grpc), verIs(v1))},
			{"grpc-over-http3", merge(protoIs(grpc), verIs(v3), tls(true))},
			{"http3-without-tls", merge(tls(false), verIs(v3))},
			{"cleartext-http2-without-h2c", merge(tls(false), verIs(v2), h2c(false))},
			{"client-certs-without-tls", merge(cert(true), tls(false))},
			{"full-duplex-over-http1", merge(stIs(full), verIs(v1))},
			{"half-duplex-over-http1-undeclared", merge(stIs(half), verIs(v1), half1(false))},
			{"text-codec", sigma{k("elem(supportedFeatures.Codecs)==%d", text): true}},
		}
		for _, ic := range impossible {
			r.Sites++
			r.Check(!e.reachableUnder(compute, insert, ic.s), "possible.impossible."+ic.name, "R-GUARD", p.InstrPos(insert), "insertion unreachable under "+sigmaString(ic.s),
				"a config case can be inserted under the impossible combination {"+sigmaString(ic.s)+"}: the expansion would contain internally impossible cases")
		}
		possible := []sigmaCase{
			{"http3-tls-full-duplex", merge(tls(true), cert(false), verIs(v3), protoIs(connectP), stIs(full), notText)},
			{"h2c-grpc", merge(tls(false), cert(false), verIs(v2), h2c(true), protoIs(grpc), stIs(full), notText)},
			{"http1-half-duplex-declared", merge(tls(false), cert(false), verIs(v1), protoIs(connectP), stIs(half), half1(true), notText)},
			{"tls-client-certs-http1-unary", merge(tls(true), cert(true), verIs(v1), protoIs(connectP), stIs(0), notText)},
			{"http2-tls-without-h2c", merge(tls(true), cert(false), verIs(v2), h2c(false), protoIs(grpc), stIs(half), notText)},
		}
		for _, pc := range possible {
			r.Sites++
			r.Check(e.reachableUnder(compute, insert, pc.s), "possible.possible."+pc.name, "R-GUARD", p.InstrPos(insert), "insertion reachable under "+sigmaString(pc.s),
				"no config case can be inserted under the possible combination {"+sigmaString(pc.s)+"}: valid cases would be missing from the expansion")
		}
		// GET cases only for Connect with GET support
		okGet := false
		eachInstr(compute, func(in ssa.Instruction) {
			phi, ok := in.(*ssa.Phi)
			if !ok || phi.Comment != "connectGetCases" {
				return
			}
			okGet = true
			for i, ed := range phi.Edges {
				if !sliceHasTrue(ed) {
					continue
				}
				as := edgeAtoms(phi.Block().Preds[i], phi.Block())
				hasP, hasG := false, false
				for _, a := range as {
					if kk, neg, ok := genericKey(a); ok && !neg {
						if kk == k("elem(supportedFeatures.Protocols)==%d", connectP) {
							hasP = true
						}
						if kk == "supportedFeatures.SupportsConnectGet" {
							hasG = true
						}
					}
				}
				if !hasP || !hasG {
					okGet = false
				}
			}
		})
		r.Sites++
		r.Check(okGet, "possible.connect-get", "R-GUARD", p.Pos(compute.Pos()), "the GET variant exists only on the (protocol == CONNECT ∧ SupportsConnectGet) edge", "Connect GET cases can be generated for a protocol other than Connect or without GET support")
	}
	// ---- wire: same-typed boolean fields ----
	for _, w := range []struct{ field, src string }{{"UseTLS", "tlsCases"}, {"UseTLSClientCerts", "tlsClientCertCases"}, {"UseConnectGET", "connectGetCases"}, {"UseMessageReceiveLimit", "msgRecvLimitCases"}} {
		f := p.Field(pkgCC, "configCase", w.field)
		sts := storesToField([]*ssa.Function{compute}, f)
		r.Sites++
		ok := len(sts) == 1
		if ok {
			kk, isElem := elemKey(sts[0].Val)
			ok = isElem && kk == "elem("+w.src+")"
		}
		r.Check(ok, "wire."+w.field, "R-WIRE", p.Pos(compute.Pos()), w.field+" ← element of "+w.src, "configCase."+w.field+" is not filled from the loop variable over "+w.src+": same-typed boolean axes are mixed up")
	}

	// ---- contradictions in resolveFeatures ----
	var success ssa.Instruction
	for _, ret := range returnsOf(resolveF) {
		vals := retVals(ret, 1)
		if len(vals) == 1 && isNilValue(vals[0]) {
			success = ret
		}
	}
	if success == nil {
		r.Undecided("contradictions", "R-GUARD", "success return of resolveFeatures not found")
	} else {
		has := func(field string, c int64, b bool) sigma {
			return sigma{k("contains(supportedFeatures.%s,%d)", field, c): b}
		}
		flag := func(name string, b bool) sigma { return sigma{"supportedFeatures." + name: b} }
		lenZero := func(field string, b bool) sigma { return sigma{k("len(supportedFeatures.%s)==0", field): b} }
		rejected := []sigmaCase{
			{"client-certs-without-tls", merge(flag("SupportsTLSClientCerts", true), flag("SupportsTLS", false))},
			{"h2c-without-http2", merge(sigma{"nil(Features.SupportsH2C)": false, "get(Features.SupportsH2C)": true}, lenZero("Versions", false), has("Versions", v2, false))},
			{"http3-without-tls", merge(has("Versions", v3, true), flag("SupportsTLS", false), flag("SupportsTLSClientCerts", false))},
			{"http2-without-tls-or-h2c", merge(has("Versions", v2, true), flag("SupportsH2C", false), flag("SupportsTLS", false), flag("SupportsTLSClientCerts", false))},
			{"grpc-without-trailers", merge(has("Protocols", grpc, true), flag("SupportsTrailers", false))},
			{"grpc-without-http2", merge(has("Protocols", grpc, true), has("Versions", v2, false), lenZero("Versions", false))},
			{"full-duplex-http1-only", merge(has("StreamTypes", full, true), has("Versions", v2, false), has("Versions", v3, false), lenZero("Versions", false))},
			{"half-duplex-http1-only-undeclared", merge(has("StreamTypes", half, true), has("Versions", v2, false), has("Versions", v3, false), lenZero("Versions", false), flag("SupportsHalfDuplexBidiOverHTTP1", false))},
		}
		for _, rc := range rejected {
			r.Sites++
			r.Check(!e.reachableUnder(resolveF, success, rc.s), "contradictions.rejected."+rc.name, "R-GUARD", p.InstrPos(success), "success return unreachable under "+sigmaString(rc.s),
				"resolveFeatures can succeed under the contradictory feature set {"+sigmaString(rc.s)+"} instead of rejecting it")
		}
		okTLS := merge(flag("SupportsTLS", true), flag("SupportsTLSClientCerts", false), flag("SupportsH2C", true), flag("SupportsTrailers", true))
		valid := []sigmaCase{
			{"http3-without-http2-full-duplex", merge(okTLS, lenZero("Versions", false), has("Versions", v2, false), has("Versions", v3, true), has("StreamTypes", full, true), has("StreamTypes", half, true), has("Protocols", grpc, false), sigma{"nil(Features.SupportsH2C)": true})},
			{"http1-half-duplex-declared", merge(okTLS, lenZero("Versions", false), has("Versions", v2, false), has("Versions", v3, false), has("StreamTypes", full, false), has("StreamTypes", half, true), flag("SupportsHalfDuplexBidiOverHTTP1", true), has("Protocols", grpc, false), sigma{"nil(Features.SupportsH2C)": true})},
			{"http2-grpc", merge(okTLS, lenZero("Versions", false), has("Versions", v2, true), has("Versions", v3, false), has("Protocols", grpc, true), has("StreamTypes", full, true), has("StreamTypes", half, true))},
		}
		for _, vc := range valid {
			r.Sites++
			r.Check(e.reachableUnder(resolveF, success, vc.s), "contradictions.valid."+vc.name, "R-GUARD", p.InstrPos(success), "success return reachable under "+sigmaString(vc.s),
				"resolveFeatures rejects the consistent feature set {"+sigmaString(vc.s)+"}: a valid configuration would be refused instead of expanded")
		}
		// defaulted lists
		stF := p.Field(pkgCC, "supportedFeatures", "StreamTypes")
		prF := p.Field(pkgCC, "supportedFeatures", "Protocols")
		type def struct {
			name  string
			field *types.Var
			s     sigma
			want  int // length of the list that must be the only reachable default
		}
		base := merge(flag("SupportsTLS", true), flag("SupportsTLSClientCerts", false), flag("SupportsH2C", true), flag("SupportsTrailers", true), sigma{"nil(Features.SupportsH2C)": true})
		defs := []def{
			{"streamtypes.http3-only", stF, merge(base, lenZero("StreamTypes", true), lenZero("Versions", false), has("Versions", v2, false), has("Versions", v3, true), has("Protocols", grpc, false), has("StreamTypes", full, false), has("StreamTypes", half, false)), 5},
			{"streamtypes.http1-only", stF, merge(base, lenZero("StreamTypes", true), lenZero("Versions", false), has("Versions", v2, false), has("Versions", v3, false), has("Protocols", grpc, false), has("StreamTypes", full, false), has("StreamTypes", half, false), flag("SupportsHalfDuplexBidiOverHTTP1", false)), 3},
			{"streamtypes.http1-half-duplex", stF, merge(base, lenZero("StreamTypes", true), lenZero("Versions", false), has("Versions", v2, false), has("Versions", v3, false), has("Protocols", grpc, false), has("StreamTypes", full, false), has("StreamTypes", half, false), flag("SupportsHalfDuplexBidiOverHTTP1", true)), 4},
			{"protocols.no-trailers", prF, merge(base, flag("SupportsTrailers", false), lenZero("Protocols", true), lenZero("Versions", false), has("Versions", v2, true), has("Versions", v3, false), has("Protocols", grpc, false)), 2},
			{"protocols.http2-trailers", prF, merge(base, lenZero("Protocols", true), lenZero("Versions", false), has("Versions", v2, true), has("Versions", v3, false), has("Protocols", grpc, false)), 3},
		}
		for _, d := range defs {
			r.Sites++
			reach := map[int]bool{}
			for _, st := range storesToField([]*ssa.Function{resolveF}, d.field) {
				n := literalLen(st.Val)
				if n <= 0 {
					continue
				}
				if e.reachableUnder(resolveF, st.Instr, d.s) {
					reach[n] = true
				}
			}
			var got []int
			for n := range reach {
				got = append(got, n)
			}
			sort.Ints(got)
			r.Check(len(got) == 1 && got[0] == d.want, "contradictions.defaults."+d.name, "R-GUARD", p.Pos(resolveF.Pos()), fmt.Sprintf("under {%s} only the %d-element default list is reachable", sigmaString(d.s), d.want),
				fmt.Sprintf("under {%s} the default list(s) of length %v are reachable, expected only the %d-element one: omitted fields would range over the wrong set", sigmaString(d.s), got, d.want))
		}
		// the five default-true flags
		for _, w := range []struct{ res, feat string }{{"SupportsH2C", "SupportsH2C"}, {"SupportsTLS", "SupportsTls"}, {"SupportsTrailers", "SupportsTrailers"}, {"SupportsConnectGet", "SupportsConnectGet"}, {"SupportsMessageReceiveLimit", "SupportsMessageReceiveLimit"}} {
			f := p.Field(pkgCC, "supportedFeatures", w.res)
			ok := false
			for _, st := range storesToField([]*ssa.Function{resolveF}, f) {
				b, isC := constBool(st.Val)
				if !isC {
					continue
				}
				r.Sites++
				if b && guardedBy(st.Instr, func(a Atom) bool { kk, neg, m := genericKey(a); return m && kk == "nil(Features."+w.feat+")" && !neg }) {
					ok = true
				} else {
					ok = false
					break
				}
			}
			r.Check(ok, "contradictions.default-true."+w.res, "R-GUARD", p.Pos(resolveF.Pos()), w.res+" forced true exactly on the unset edge", w.res+" is not defaulted to true exactly when the feature flag is unset")
		}
		for _, w := range []string{"SupportsTLSClientCerts", "SupportsHalfDuplexBidiOverHTTP1"} {
			f := p.Field(pkgCC, "supportedFeatures", w)
			bad := false
			for _, st := range storesToField([]*ssa.Function{resolveF}, f) {
				if b, isC := constBool(st.Val); isC && b {
					bad = true
				}
			}
			r.Sites++
			r.Check(!bad, "contradictions.default-false."+w, "R-GUARD", p.Pos(resolveF.Pos()), w+" is never forced true", w+" is defaulted to true although it is documented as default-false")
		}
	}

	// ---- entries: resolveCase ----
	computeObj := funcObj(compute)
	var expand ssa.Instruction
	for _, c := range findInstrs(resolveC, isCallObj(computeObj)) {
		expand = c
	}
	if expand == nil {
		r.Undecided("entries", "R-GUARD", "resolveCase no longer expands through computeCasesFromFeatures")
	} else {
		cver := func(v int64) sigma {
			return sigma{k("ConfigCase.Version==%d", 0): v == 0, k("ConfigCase.Version==%d", v2): v == v2, k("ConfigCase.Version==%d", v3): v == v3}
		}
		useTLS := func(present, val bool) sigma {
			return sigma{"nil(ConfigCase.UseTls)": !present, "get(ConfigCase.UseTls)": val}
		}
		useCC := func(present, val bool) sigma {
			return sigma{"nil(ConfigCase.UseTlsClientCerts)": !present, "get(ConfigCase.UseTlsClientCerts)": val}
		}
		rejected := []sigmaCase{
			{"http2-without-tls-or-h2c", merge(cver(v2), useTLS(true, false), sigma{"supportedFeatures.SupportsH2C": false})},
			{"http2-tls-unsupported", merge(cver(v2), useTLS(false, false), sigma{"supportedFeatures.SupportsH2C": false, "supportedFeatures.SupportsTLS": false})},
			{"http3-without-tls", merge(cver(v3), useTLS(true, false))},
			{"grpc-without-http2", sigma{"ConfigCase.Protocol==0": false, k("ConfigCase.Protocol==%d", grpc): true, k("contains(supportedFeatures.Versions,%d)", v2): false}},
			{"half-duplex-http1-undeclared", sigma{"ConfigCase.StreamType==0": false, k("ConfigCase.StreamType==%d", half): true, k("ConfigCase.StreamType==%d", full): false, "supportedFeatures.SupportsHalfDuplexBidiOverHTTP1": false, k("only(supportedFeatures.Versions,%d)", v1): true}},
			{"full-duplex-http1", sigma{"ConfigCase.StreamType==0": false, k("ConfigCase.StreamType==%d", half): false, k("ConfigCase.StreamType==%d", full): true, k("only(supportedFeatures.Versions,%d)", v1): true}},
			{"client-certs-with-tls-false", merge(useCC(true, true), useTLS(true, false))},
			{"client-certs-tls-unsupported", merge(useCC(true, true), useTLS(false, false), sigma{"contains(tlsCases,true)": false, "supportedFeatures.SupportsTLS": false})},
		}
		for _, rc := range rejected {
			r.Sites++
			r.Check(!e.reachableUnder(resolveC, expand, rc.s), "entries.rejected."+rc.name, "R-GUARD", p.InstrPos(expand), "expansion unreachable under "+sigmaString(rc.s),
				"resolveCase can expand the contradictory entry {"+sigmaString(rc.s)+"} instead of rejecting it")
		}
		valid := []sigmaCase{
			{"explicit-no-tls-no-client-certs", merge(cver(0), useCC(true, false), useTLS(true, false), sigma{"ConfigCase.Protocol==0": true, "ConfigCase.StreamType==0": true})},
			{"explicit-no-client-certs-tls-unsupported", merge(cver(0), useCC(true, false), useTLS(false, false), sigma{"supportedFeatures.SupportsTLS": false, "contains(tlsCases,true)": false, "ConfigCase.Protocol==0": true, "ConfigCase.StreamType==0": true})},
			{"http2-h2c", merge(cver(v2), useTLS(true, false), sigma{"supportedFeatures.SupportsH2C": true, "ConfigCase.Protocol==0": true, "ConfigCase.StreamType==0": true}, useCC(false, false))},
		}
		for _, vc := range valid {
			r.Sites++
			r.Check(e.reachableUnder(resolveC, expand, vc.s), "entries.valid."+vc.name, "R-GUARD", p.InstrPos(expand), "expansion reachable under "+sigmaString(vc.s),
				"resolveCase rejects the consistent entry {"+sigmaString(vc.s)+"}: include/exclude entries with explicit false values would be refused")
		}
		// presence, not value: the restricting one-element lists are built exactly when the field is present
		for _, w := range []struct{ field, local string }{{"UseTls", "tlsCases"}, {"UseTlsClientCerts", "tlsClientCertCases"}, {"UseMessageReceiveLimit", "msgReceiveLimitCases"}} {
			var phi *ssa.Phi
			eachInstr(resolveC, func(in ssa.Instruction) {
				if ph, ok := in.(*ssa.Phi); ok && ph.Comment == w.local {
					phi = ph
				}
			})
			r.Sites++
			if phi == nil {
				r.Fail("entries.presence."+w.field, "R-GUARD", p.Pos(resolveC.Pos()), "the restriction list "+w.local+" is no longer conditionally built from "+w.field)
				continue
			}
			ok := false
			for i, ed := range phi.Edges {
				if isNilConst(ed) {
					continue
				}
				sl, isSl := ed.(*ssa.Slice)
				if !isSl {
					continue
				}
				present := sigma{"nil(ConfigCase." + w.field + ")": false, "get(ConfigCase." + w.field + ")": false, "nil(ConfigCase.UseTls)": true, "supportedFeatures.SupportsTLS": true}
				if w.field == "UseTls" {
					present = sigma{"nil(ConfigCase.UseTls)": false, "get(ConfigCase.UseTls)": false, "nil(ConfigCase.UseTlsClientCerts)": true}
				}
				absent := sigma{"nil(ConfigCase." + w.field + ")": true}
				_ = i
				ok = e.reachableUnder(resolveC, sl, present) && !e.reachableUnder(resolveC, sl, absent)
				// the list holds the field's value
				holds := false
				if arr, isA := sl.X.(*ssa.Alloc); isA {
					for _, ref := range *arr.Referrers() {
						if ia, isIA := ref.(*ssa.IndexAddr); isIA {
							for _, r2 := range *ia.Referrers() {
								if st, isSt := r2.(*ssa.Store); isSt {
									if kk, okk := fieldRefKey(st.Val); okk && kk == "get(ConfigCase."+w.field+")" {
										holds = true
									}
								}
							}
						}
					}
				}
				ok = ok && holds
			}
			r.Check(ok, "entries.presence."+w.field, "R-GUARD", p.InstrPos(phi), w.local+" = [value] exactly when "+w.field+" is present (also when it is false)",
				"the entry field "+w.field+" restricts the expansion by its value rather than its presence: an explicit `false` would be treated like an omitted field and range over both values")
		}
		// passes the restriction lists in the right positions
		cc := callCommon(expand)
		okArgs := len(cc.Args) == 4
		if okArgs {
			for i, want := range []string{"tlsCases", "tlsClientCertCases", "msgReceiveLimitCases"} {
				n, ok := localName(cc.Args[i+1])
				if !ok || n != want {
					okArgs = false
				}
			}
		}
		r.Sites++
		r.Check(okArgs, "entries.wire", "R-WIRE", p.InstrPos(expand), "computeCasesFromFeatures(implied, tlsCases, tlsClientCertCases, msgReceiveLimitCases)", "the restriction lists are passed to computeCasesFromFeatures in the wrong positions (all three are []bool)")
	}

	// ---- algebra: parseConfig ----
	resolveCObj := funcObj(resolveC)
	inc, exc := p.Field(pkgGen, "Config", "IncludeCases"), p.Field(pkgGen, "Config", "ExcludeCases")
	var union, diff ssa.Instruction
	eachInstr(parse, func(in ssa.Instruction) {
		if mu, ok := in.(*ssa.MapUpdate); ok {
			if nt, ok := mu.Key.Type().(*types.Named); ok && nt.Obj().Name() == "configCase" {
				union = in
			}
		}
		if c := callCommon(in); c != nil {
			if b, ok := c.Value.(*ssa.Builtin); ok && b.Name() == "delete" {
				diff = in
			}
		}
	})
	srcOf := func(in ssa.Instruction) *types.Var {
		// the resolveCase call whose result is ranged over at `in`: find the dominating call and its entry argument
		var f *types.Var
		for _, c := range findInstrs(parse, isCallObj(resolveCObj)) {
			if dominatesBlock(c.Block(), in.Block()) {
				arg := callCommon(c).Args[1]
				if u, ok := arg.(*ssa.UnOp); ok {
					if ia, ok := u.X.(*ssa.IndexAddr); ok {
						f = loadedField(canon(ia.X))
					}
				}
			}
		}
		return f
	}
	r.Sites += 3
	if union == nil || diff == nil {
		r.Fail("algebra.union-difference", "R-WIRE", p.Pos(parse.Pos()), "parseConfig no longer unions include entries into and deletes exclude entries from the case set")
	} else {
		okU := srcOf(union) == inc && srcOf(diff) == exc
		r.Check(okU, "algebra.union-difference", "R-WIRE", p.InstrPos(union), "includes are stored into, excludes deleted from the set", "include entries are not unioned into / exclude entries not removed from the case set (sources swapped or wrong operation)")
		r.Check(reachesInstr(union, diff) && !reachesInstr(diff, union), "algebra.order", "R-ORDER", p.InstrPos(diff), "the exclude loop follows the include loop", "excludes are not applied after all includes: an include could resurrect an excluded case")
		// the base set comes from the features
		okBase := false
		if mu, ok := union.(*ssa.MapUpdate); ok {
			if c, ok := canon(mu.Map).(*ssa.Call); ok && calleeObj(&c.Call) == computeObj {
				okBase = isNilConst(c.Call.Args[1]) && isNilConst(c.Call.Args[2]) && isNilConst(c.Call.Args[3])
			}
		}
		r.Check(okBase, "algebra.base", "R-WIRE", p.InstrPos(union), "the set starts as computeCasesFromFeatures(features, nil, nil, nil)", "the base set is not the unrestricted expansion of the resolved features")
	}
	// errors propagated
	nerr := 0
	eachInstr(parse, func(in ssa.Instruction) {
		c, ok := in.(*ssa.Call)
		if !ok {
			return
		}
		obj := calleeObj(&c.Call)
		if obj == nil {
			return
		}
		sig := obj.Type().(*types.Signature)
		res := sig.Results()
		if res.Len() == 0 || !types.Identical(res.At(res.Len()-1).Type(), types.Universe.Lookup("error").Type()) {
			return
		}
		if obj.Pkg() != nil && obj.Pkg().Path() == "fmt" {
			return
		}
		nerr++
		r.Sites++
		var errV ssa.Value = c
		if res.Len() > 1 {
			errV = nil
			for _, ref := range *c.Referrers() {
				if ex, ok := ref.(*ssa.Extract); ok && ex.Index == res.Len()-1 {
					errV = ex
				}
			}
		}
		ok2 := false
		if errV != nil {
			for _, ret := range returnsOf(parse) {
				for _, v := range retVals(ret, 1) {
					if v == errV {
						ok2 = true // returned as is
					}
				}
				if guardedBy(ret, func(a Atom) bool {
					m, isNil := nilTestOn(a, func(v ssa.Value) bool { return v == errV })
					return m && !isNil
				}) {
					for _, v := range retVals(ret, 1) {
						if !isNilValue(v) {
							ok2 = true
						}
					}
				}
			}
			// and the success path is on the err == nil edge
		}
		r.Check(ok2, "algebra.errors."+obj.Name(), "R-MUSTCALL", p.InstrPos(c), "error of "+obj.Name()+" is returned", "an error returned by "+obj.Name()+" in parseConfig is not propagated: a contradictory configuration would silently produce a different set")
	})
	r.Floor("error-returning-calls", nerr, 4)
	okEmpty := false
	for _, ret := range returnsOf(parse) {
		vals := retVals(ret, 1)
		if len(vals) == 1 && isNilValue(vals[0]) {
			okEmpty = guardedBy(ret, func(a Atom) bool {
				kk, neg, m := genericKey(a)
				_ = kk
				if m {
					return false
				}
				_ = neg
				z, isZ := constInt(a.Y)
				_, isLen := lenArg(a.X)
				return isZ && z == 0 && isLen && (a.Op.String() == "!=" || a.Op.String() == ">")
			})
		}
	}
	r.Sites++
	r.Check(okEmpty, "algebra.empty", "R-GUARD", p.Pos(parse.Pos()), "success only on the len(cases) != 0 edge", "parseConfig can succeed with an empty case set")
}

func sigmaString(s sigma) string {
	ks := make([]string, 0, len(s))
	for k, v := range s {
		if v {
			ks = append(ks, k)
		} else {
			ks = append(ks, "¬"+k)
		}
	}
	sort.Strings(ks)
	return strings.Join(ks, ", ")
}

// sliceHasTrue: v is a slice literal containing the constant true.
func sliceHasTrue(v ssa.Value) bool {
	sl, ok := v.(*ssa.Slice)
	if !ok {
		return false
	}
	arr, ok := sl.X.(*ssa.Alloc)
	if !ok {
		return false
	}
	for _, ref := range *arr.Referrers() {
		if ia, ok := ref.(*ssa.IndexAddr); ok {
			for _, r2 := range *ia.Referrers() {
				if st, ok := r2.(*ssa.Store); ok {
					if b, isC := constBool(st.Val); isC && b {
						return true
					}
				}
			}
		}
	}
	return false
}

// literalLen: length of a slice literal value ([]T{...}), or -1.
func literalLen(v ssa.Value) int {
	sl, ok := v.(*ssa.Slice)
	if !ok {
		return -1
	}
	arr, ok := sl.X.(*ssa.Alloc)
	if !ok {
		return -1
	}
	if n, isArr := lenOfType(arr.Type()); isArr {
		return int(n)
	}
	return -1
}
