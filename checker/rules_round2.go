package main

// Rules added after the second round of independent seeded changes (DESIGN.md
// §6.3). Each is a structural necessary condition of the properties that call
// it, stated over resolved entities, and shared between properties where the
// same construct carries clauses of several of them.

import (
	"fmt"
	"go/token"
	"go/types"
	"sort"
	"strings"

	"golang.org/x/tools/go/ssa"
)

// round2Rules: which of the rules below run for which property, after the
// property's own Run function. The clause names (first key component) extend
// the clause families of the property they are attached to.
var round2Rules = map[string][]func(*Prog, *Report){
	"C01": {contentTypeSiblings, halfDuplexSendRule, allValuesRule},
	"C02": {mergeHeadersRule, optionalMessageDerefRule, halfDuplexSendRule},
	"C03": {mergeHeadersRule},
	"C04": {refFlagWiring},
	"C05": {tlsMarkerRule, processEscalationRule},
	"C06": {membershipHelpersRule},
	"C07": {axisSourceRule, allValuesRule, membershipHelpersRule},
	"C08": {findUnmatchedRule, func(p *Prog, r *Report) {
		freshAccumulator(p, r, "fold.argsToPatterns.fresh-accumulator", p.Func("cmd/connectconformance", "", "argsToPatterns"), 0)
		freshAccumulator(p, r, "fold.parsePatternFile.fresh-accumulator", p.Func("cmd/connectconformance", "", "parsePatternFile"), 0)
	}},
	"C09": {decoderPerStreamRule, prefixAlwaysWrittenRule},
	"C10": {pipesClosedAfterWaitRule},
	"C11": {cancelLinkRule, boundedLocalResultRule, processEscalationRule},
	"C12": {testNameNonEmptyRule},
	"C14": {headersReadOnlyRule},
	"C15": {retryWaitingConsumedRule},
	"C16": {retryWaitingConsumedRule, awaitReadAfterWaitRule},
	"C17": {rawURINoDecodedPathRule},
	"C18": {func(p *Prog, r *Report) {
		noDataFormatStringRule(p, r, "cover.message-not-format", func(fn *ssa.Function) bool {
			pk := pkgOfFunc(fn)
			return pk == internalPath || pk == modPath+"/"+pkgGU || pk == modPath+"/"+pkgRS || pk == modPath+"/internal/app/grpcserver" || pk == modPath+"/"+pkgRC || pk == modPath+"/internal/app/grpcclient"
		})
	}},
	"C19": {membershipHelpersRule},
	"C20": {ctorOptionSiblingsRule},
}

// round2Explain: the clauses the rules above add to each property's explanation.
var round2Explain = map[string]string{
	"C01": "(names) the reference server's protocol, codec and compression checks recognise the same gRPC / gRPC-Web content-type forms (shared with C12); (half-duplex) in both servers' BidiStream handlers every message Send inside the receive loop is on the fullDuplex edge; (axes) every all… list of the runner enumerates the name map of its own enum",
	"C02": "(merge) mergeHeaders yields, per lower-cased name, the first list's values followed by the second's; (optional-msg) in both servers' handlers every field access through an optional sub-message (or a definition variable that may still be nil) is dominated by a non-nil test of it, or by `k < len(getter(x))` with k >= 0; (half-duplex) as in C01",
	"C03": "(merge) mergeHeaders yields, per lower-cased name, the first list's values followed by the second's (shared with C02)",
	"C04": "(feedback.ref-flags) runTestCasesForServer's isReferenceClient / isReferenceServer receive clientInfo / serverInfo.isReferenceImpl and the goroutine is started with the outer clientInfo / serverInfo in that order",
	"C05": "(wire.tls-markers) the TLS markers the server grouping is derived from are rewritten on every path of expandCases (shared with C07); (stop.escalation) the external command has a Cancel hook and WaitDelay = gracefulShutdownPeriod, so a peer that ignores the signal is killed",
	"C06": "(helpers) contains / only / hasCodec return true exactly on their defining edges, which is what the opaque membership atoms of the guard formulas assume",
	"C07": "(axes) every axis of the probed config case ranges over the suite's own Relevant… list, or over the all… list exactly when that is empty, and every all… list enumerates the name map of its own enum; (helpers) as in C06",
	"C08": "(unmatched.visit-all) findUnmatched descends into the children of every node; (fresh-accumulator) the pattern accumulators are fresh slices, never re-slices of the input still being read",
	"C09": "(decoder-per-stream) a stream decoder whose DecodeNext is called in a loop is created before the loop; (always-written) every successful return of the frame writer has written prefix and data, also for an empty message",
	"C10": "(drain.pipes-closed) after the process ended, its stdin reader and stdout/stderr writers are closed unconditionally (after cmd.Wait / in the deferred clean-up), so a late write fails instead of blocking with sendMu held",
	"C11": "(cancel-link) the server's whenDone handler cancels the batch context on every path, whatever the process's result; (abort.local-bounded) localProcess.result waits with a grace-period arm; (stop.escalation) as in C05",
	"C12": "(all-aspects.name-nonempty) getTestCaseName reports success only with a name tested non-empty (value, not presence)",
	"C14": "(passthru.headers-readonly) the tracer never writes the live request's header map or the wrapped writer's: every written http.Header is its own copy",
	"C15": "(retry.waiting-consumed) a parked trace taken from the retry collector's waiting map is removed from it on every path",
	"C16": "(retry.waiting-consumed) as in C15 — a parked trace is completed at most once; (await.read-after-wait) what Await returns after having waited is read from the slot after the wait",
	"C17": "(noflow.uri-decoded-path) the raw request's target never passes through the decoded url.URL.Path",
	"C18": "(cover.message-not-format) in the packages that turn test-case data into errors and feedback no printf-like function takes data as its format string",
	"C19": "(helpers.hasCodec) the helper guarding the expand directive returns true only when the codec is in the list",
	"C20": "(reuse-typestate.ctor-siblings) all construction sites of one library object inside the compression package pass the same options",
}

func init() {
	for id, extra := range round2Explain {
		m := registry[id]
		if m == nil {
			continue
		}
		if i := strings.Index(m.Explain, " It does NOT decide"); i >= 0 {
			m.Explain = strings.TrimRight(m.Explain[:i], ". ;") + "; " + extra + "." + m.Explain[i:]
		} else {
			m.Explain = strings.TrimRight(m.Explain, ". ") + "; " + extra + "."
		}
	}
	if m := registry["C02"]; m != nil {
		m.Assume = append(m.Assume, "the single field of a generated oneof wrapper is non-nil in a decoded message (protobuf-go never produces a wrapper around a nil message)")
	}
}

// ---------- process lifecycle (C05 stop, C10 drain, C11 abort) ----------

// processEscalationRule: the exec.Cmd built by runCommand has a Cancel hook
// (graceful signal) AND a positive WaitDelay taken from the named grace-period
// constant: Cancel only signals, WaitDelay is what makes os/exec kill a process
// that ignores the signal and closes its pipes.
func processEscalationRule(p *Prog, r *Report) {
	rc := p.Func(pkgCC, "", "runCommand")
	if rc == nil {
		r.Undecided("stop.escalation", "R-WIRE", "runCommand not found")
		return
	}
	grace := p.Const(pkgCC, "gracefulShutdownPeriod")
	fns := withClosures(rc)
	var haveDelay, haveCancel bool
	var pos string
	for _, fn := range fns {
		eachInstr(fn, func(in ssa.Instruction) {
			st, ok := in.(*ssa.Store)
			if !ok {
				return
			}
			fa, ok := st.Addr.(*ssa.FieldAddr)
			if !ok {
				return
			}
			fv := fieldVar(fa.X.Type(), fa.Field)
			if fv == nil || fv.Pkg() == nil || fv.Pkg().Path() != "os/exec" {
				return
			}
			switch fv.Name() {
			case "WaitDelay":
				pos = p.InstrPos(in)
				if c, isC := canon(st.Val).(*ssa.Const); isC && c.Value != nil && grace != nil && c.Value.ExactString() == grace.Val().ExactString() && c.Int64() > 0 {
					haveDelay = true
				}
			case "Cancel":
				haveCancel = !isNilConst(st.Val)
			}
		})
	}
	r.Sites += 2
	r.Func(funcName(rc))
	if pos == "" {
		pos = p.Pos(rc.Pos())
	}
	r.Check(haveDelay && haveCancel, "stop.escalation", "R-WIRE", pos, "cmd.Cancel is set and cmd.WaitDelay = gracefulShutdownPeriod (> 0)",
		fmt.Sprintf("the command started by runCommand has Cancel set: %v, WaitDelay = gracefulShutdownPeriod: %v; Cancel only sends a signal — without a positive WaitDelay os/exec never kills a process that ignores it, so abort()+result() report 'done' while the server (and its --max-servers slot's process) is still alive", haveCancel, haveDelay))
}

// pipesClosedAfterWaitRule: in runCommand's wait goroutine, after cmd.Wait
// returns, each of the three pipe ends handed to the command (stdin reader,
// stdout/stderr writers) is closed on every path unless it is the runner's
// own os.Std*; likewise the deferred clean-up of runInProcess. Closing the
// stdin reader is what turns a later write of the runner into "closed pipe"
// instead of blocking forever.
func pipesClosedAfterWaitRule(p *Prog, r *Report) {
	for _, w := range []struct{ fn, key string }{{"runCommand", "drain.pipes-closed.runCommand"}, {"runInProcess", "drain.pipes-closed.runInProcess"}} {
		top := p.Func(pkgCC, "", w.fn)
		if top == nil {
			r.Undecided(w.key, "R-MUSTCALL", w.fn+" not found")
			continue
		}
		r.Func(funcName(top))
		// the starter closure with parameters (ctx, stdin, stdout, stderr)
		var starter *ssa.Function
		for _, fn := range withClosures(top) {
			if len(fn.Params) == 4 && fn.Params[1].Name() == "stdin" {
				starter = fn
			}
		}
		if starter == nil {
			r.Undecided(w.key, "R-MUSTCALL", "process starter closure of "+w.fn+" not found")
			continue
		}
		// closure(s) of the starter that run after the process ended: the one calling cmd.Wait / the deferred clean-up
		closesOf := func(fn *ssa.Function) map[string]bool {
			out := map[string]bool{}
			eachInstr(fn, func(in ssa.Instruction) {
				c := callCommon(in)
				if c == nil || !c.IsInvoke() || c.Method.Name() != "Close" {
					return
				}
				n, _ := localName(c.Value)
				if n == "" {
					if fv, ok := canon(c.Value).(*ssa.FreeVar); ok {
						n = fv.Name()
					}
					if u, ok := canon(c.Value).(*ssa.UnOp); ok {
						if fv, ok := u.X.(*ssa.FreeVar); ok {
							n = fv.Name()
						}
					}
				}
				// only the os.StdX inequality may guard the close
				okGuard := true
				for _, a := range atomsAt(in.Block()) {
					if !isStdCompare(a) {
						okGuard = false
					}
				}
				if okGuard {
					out[n] = true
				}
			})
			return out
		}
		isWait := func(in ssa.Instruction) bool {
			c := callCommon(in)
			return c != nil && c.StaticCallee() != nil && c.StaticCallee().Name() == "Wait" && c.StaticCallee().Pkg != nil && c.StaticCallee().Pkg.Pkg.Path() == "os/exec"
		}
		var after *ssa.Function
		got := map[string]bool{}
		for _, fn := range withClosures(starter) {
			if fn == starter {
				continue
			}
			if w.fn == "runCommand" && len(findInstrs(fn, isWait)) != 1 {
				continue // only what follows cmd.Wait counts
			}
			cl := closesOf(fn)
			if len(cl) > len(got) || after == nil {
				got, after = cl, fn
			}
		}
		r.Sites += 3
		var missing []string
		for _, n := range []string{"stdin", "stdout", "stderr"} {
			if !got[n] {
				missing = append(missing, n)
			}
		}
		pos := p.Pos(starter.Pos())
		if after != nil {
			pos = p.Pos(after.Pos())
		}
		okOrder := true
		if w.fn == "runCommand" {
			okOrder = after != nil
			if after != nil {
				// the closes come after cmd.Wait
				eachInstr(after, func(in ssa.Instruction) {
					if c := callCommon(in); c != nil && c.IsInvoke() && c.Method.Name() == "Close" && !precededBy(in, isWait) {
						okOrder = false
					}
				})
			}
		}
		r.Check(len(missing) == 0 && okOrder, w.key, "R-MUSTCALL", pos, "after the process ended its stdin reader and stdout/stderr writers are closed (guarded only by the os.Std* identity tests)",
			fmt.Sprintf("%s: after the process ended the pipe end(s) %v are not closed unconditionally (or not after cmd.Wait): a request written to a dead client blocks forever holding sendMu (stdin), or a reader of its output never sees EOF", w.fn, missing))
	}
}

func isStdCompare(a Atom) bool {
	if a.Op != token.NEQ && a.Op != token.EQL {
		return false
	}
	for _, v := range []ssa.Value{a.X, a.Y} {
		v = canon(v)
		if u, ok := v.(*ssa.UnOp); ok {
			if g, ok := u.X.(*ssa.Global); ok && g.Pkg != nil && g.Pkg.Pkg.Path() == "os" && strings.HasPrefix(g.Name(), "Std") {
				return true
			}
		}
	}
	return false
}

// boundedLocalResultRule: localProcess.result() is a select with a
// time.After(gracefulShutdownPeriod) arm: an in-process peer that ignores its
// cancelled context cannot block the runner forever.
func boundedLocalResultRule(p *Prog, r *Report) {
	fn := p.Func(pkgCC, "localProcess", "result")
	if fn == nil {
		r.Undecided("abort.local-bounded", "R-GUARD", "localProcess.result not found")
		return
	}
	r.Func(funcName(fn))
	grace := p.Const(pkgCC, "gracefulShutdownPeriod")
	ok := false
	eachInstr(fn, func(in ssa.Instruction) {
		sel, isSel := in.(*ssa.Select)
		if !isSel || !sel.Blocking {
			return
		}
		for _, st := range sel.States {
			if c, isC := canon(st.Chan).(*ssa.Call); isC && isCallToNamed(&c.Call, "time", "", "After") {
				if k, isK := canon(c.Call.Args[0]).(*ssa.Const); isK && grace != nil && k.Value != nil && k.Value.ExactString() == grace.Val().ExactString() {
					ok = true
				}
			}
		}
	})
	// and every receive from l.done is inside such a select (no bare <-l.done)
	bare := false
	eachInstr(fn, func(in ssa.Instruction) {
		if u, isU := in.(*ssa.UnOp); isU && u.Op == token.ARROW {
			bare = true
		}
	})
	r.Sites++
	r.Check(ok && !bare, "abort.local-bounded", "R-GUARD", p.Pos(fn.Pos()), "localProcess.result waits in a select with a time.After(gracefulShutdownPeriod) arm",
		"localProcess.result() waits for the in-process peer without a grace-period arm: a peer whose Run function does not return after its context was cancelled blocks the batch (and the run) forever")
}

// ---------- reference-flag wiring (C04 feedback, C05 select) ----------

// refFlagWiring: runTestCasesForServer's parameters isReferenceClient /
// isReferenceServer receive clientInfo.isReferenceImpl / serverInfo.isReferenceImpl,
// and the goroutine that makes the call is started with the outer clientInfo /
// serverInfo in that order.
func refFlagWiring(p *Prog, r *Report) {
	rts := p.Func(pkgCC, "", "runTestCasesForServer")
	run := p.Func(pkgCC, "", "run")
	if rts == nil || run == nil {
		r.Undecided("feedback.ref-flags", "R-WIRE", "run / runTestCasesForServer not found")
		return
	}
	isRef := p.Field(pkgCC, "processInfo", "isReferenceImpl")
	idx := map[string]int{}
	for i, q := range rts.Params {
		idx[q.Name()] = i
	}
	var call ssa.Instruction
	var caller *ssa.Function
	for _, fn := range withClosures(run) {
		for _, in := range findInstrs(fn, isCallObj(funcObj(rts))) {
			call, caller = in, fn
		}
	}
	r.Sites += 2
	if call == nil {
		r.Undecided("feedback.ref-flags", "R-WIRE", "call of runTestCasesForServer not found in run")
		return
	}
	cc := callCommon(call)
	why := ""
	for _, w := range []struct{ prm, root string }{{"isReferenceClient", "clientInfo"}, {"isReferenceServer", "serverInfo"}} {
		i, ok := idx[w.prm]
		if !ok {
			why += " parameter " + w.prm + " not found;"
			continue
		}
		a := cc.Args[i]
		if loadedField(a) != isRef || !strings.HasPrefix(path(a), w.root+".") {
			why += fmt.Sprintf(" %s receives %s (should be %s.isReferenceImpl);", w.prm, path(a), w.root)
		}
	}
	// the goroutine's own clientInfo / serverInfo parameters are bound to the outer ones
	if caller.Parent() != nil {
		eachInstr(caller.Parent(), func(in ssa.Instruction) {
			g, ok := in.(*ssa.Go)
			if !ok {
				return
			}
			mc, ok := g.Call.Value.(*ssa.MakeClosure)
			if !ok || mc.Fn != ssa.Value(caller) {
				return
			}
			for i, q := range caller.Params {
				if q.Name() != "clientInfo" && q.Name() != "serverInfo" {
					continue
				}
				if n := path(g.Call.Args[i]); n != q.Name() {
					why += fmt.Sprintf(" goroutine parameter %s is bound to %s;", q.Name(), path(g.Call.Args[i]))
				}
			}
		})
	}
	r.Check(why == "", "feedback.ref-flags", "R-WIRE", p.InstrPos(call), "isReferenceClient ← clientInfo.isReferenceImpl, isReferenceServer ← serverInfo.isReferenceImpl",
		"runTestCasesForServer gets the wrong reference flags:"+why+" feedback of the reference client (or the stderr side channel of the reference server) would be dropped or expected from the wrong peer")
}

// ---------- half-duplex send discipline (C01, C02) ----------

func atomIsFullDuplex(p *Prog) func(Atom) bool {
	streamType := p.Field(pkgGen, "ClientCompatRequest", "StreamType")
	fullConst := enumVal(p, "StreamType_STREAM_TYPE_FULL_DUPLEX_BIDI_STREAM")
	return func(a Atom) bool {
		if a.Op == token.ILLEGAL && !a.Neg {
			if n, _ := localName(a.X); n == "fullDuplex" {
				return true
			}
			if f := loadedField(canon(a.X)); f != nil && f.Name() == "FullDuplex" {
				return true
			}
		}
		if a.Op == token.EQL && loadedField(canon(a.X)) == streamType {
			if k, ok := constInt(a.Y); ok && k == fullConst {
				return true
			}
		}
		return false
	}
}

// halfDuplexSendRule: in both servers' BidiStream handlers, anything sent on
// the stream while requests are still being received (a Send inside the
// receive loop) is on the fullDuplex edge. A half-duplex handler must not
// write before the upload is complete: over HTTP/1.1 the first response write
// makes net/http close the still-streaming request body.
func halfDuplexSendRule(p *Prog, r *Report) {
	full := atomIsFullDuplex(p)
	n := 0
	for _, s := range []struct {
		key string
		fn  *ssa.Function
	}{
		{"referenceserver.BidiStream", p.Func(pkgRS, "conformanceServer", "BidiStream")},
		{"grpcserver.BidiStream", p.Func("internal/app/grpcserver", "conformanceServiceServer", "BidiStream")},
	} {
		if s.fn == nil {
			r.Undecided("half-duplex.no-send-before-upload."+s.key, "R-GUARD", s.key+" not found")
			continue
		}
		r.Func(funcName(s.fn))
		isNamed := func(names ...string) instrPred {
			return func(in ssa.Instruction) bool {
				c := callCommon(in)
				if c == nil {
					return false
				}
				nm := ""
				if c.IsInvoke() {
					nm = c.Method.Name()
				} else if c.StaticCallee() != nil {
					nm = fnBase(c.StaticCallee())
				}
				for _, w := range names {
					if nm == w {
						return true
					}
				}
				return false
			}
		}
		recvs := findInstrs(s.fn, isNamed("Receive", "Recv"))
		if len(recvs) != 1 {
			r.Undecided("half-duplex.no-send-before-upload."+s.key, "R-GUARD", fmt.Sprintf("expected one Receive/Recv in %s, found %d", s.key, len(recvs)))
			continue
		}
		rb := recvs[0].Block()
		bad := ""
		// message sends only: grpc-go's SendHeader (HTTP/2 only) may legitimately precede the end of the upload
		for _, snd := range findInstrs(s.fn, isNamed("Send")) {
			// inside the receive loop: the receive is reachable again after the send
			if !reachable(snd.Block(), rb) {
				continue
			}
			n++
			r.Sites++
			if !hasAtom(atomsAt(snd.Block()), full) {
				bad += " " + p.InstrPos(snd) + " (facts: " + atomsString(atomsAt(snd.Block())) + ");"
			}
		}
		r.Check(bad == "", "half-duplex.no-send-before-upload."+s.key, "R-GUARD", p.Pos(s.fn.Pos()), "every Send inside the receive loop is on the fullDuplex edge",
			"in "+s.key+" something is sent on the stream inside the receive loop without the fullDuplex guard:"+bad+" a half-duplex call would be answered before its upload is complete (over HTTP/1.1 the server then closes the request body and the remaining requests are lost)")
	}
	r.Floor("sends-in-receive-loop", n, 3)
}

// ---------- merged metadata (C02, C03) ----------

// mergeHeadersRule: mergeHeaders(a, b) yields, per lower-cased name, a's
// values followed by b's: entries of the first parameter are assigned, entries
// of the second are appended AFTER what is already there
// (append(merged[name], hdr.Value...)), and keys are lower-cased.
func mergeHeadersRule(p *Prog, r *Report) {
	fn := p.Func(pkgCC, "", "mergeHeaders")
	if fn == nil {
		r.Undecided("merge.order", "R-WIRE", "mergeHeaders not found")
		return
	}
	r.Func(funcName(fn))
	valF := p.Field(pkgGen, "Header", "Value")
	a, b := ssa.Value(fn.Params[0]), ssa.Value(fn.Params[1])
	fromOnly := func(v ssa.Value, want, other ssa.Value) bool {
		d := operandClosure(v)
		return d[want] && !d[other]
	}
	nA, nB := 0, 0
	why := ""
	var updA, updB []ssa.Instruction
	eachInstr(fn, func(in ssa.Instruction) {
		mu, ok := in.(*ssa.MapUpdate)
		if !ok {
			return
		}
		if _, isStr := mu.Key.Type().Underlying().(*types.Basic); !isStr {
			return
		}
		r.Sites++
		if kc, ok := canon(mu.Key).(*ssa.Call); !ok || !isCallToNamed(&kc.Call, "strings", "", "ToLower") {
			why += " key at " + p.InstrPos(in) + " is not lower-cased;"
		}
		v := canon(mu.Value)
		// the values contributed by this update and whether they go behind what is already merged
		contributed := v
		appended := false
		if c, ok := v.(*ssa.Call); ok {
			if bi, isB := c.Call.Value.(*ssa.Builtin); isB && bi.Name() == "append" && len(c.Call.Args) == 2 {
				lk, isLk := canon(c.Call.Args[0]).(*ssa.Lookup)
				if !isLk || canon(lk.X) != canon(mu.Map) {
					why += " append at " + p.InstrPos(in) + " does not start from what is already merged under the name (values of the second list would come first or replace the first's);"
				}
				contributed = c.Call.Args[1]
				appended = true
			}
		}
		if loadedField(canon(contributed)) != valF {
			why += " unrecognised merged value at " + p.InstrPos(in) + ";"
			return
		}
		switch {
		case fromOnly(contributed, a, b):
			nA++
			updA = append(updA, in)
		case fromOnly(contributed, b, a):
			nB++
			updB = append(updB, in)
			if !appended {
				why += " plain assignment at " + p.InstrPos(in) + " takes the second parameter's values (it replaces what the first list contributed);"
			}
		default:
			why += " the values merged at " + p.InstrPos(in) + " do not come from exactly one of the two lists;"
		}
	})
	if nA == 0 || nB == 0 {
		why += fmt.Sprintf(" expected an update for the first list and an append for the second (found %d / %d);", nA, nB)
	}
	// the first list is merged completely before the second
	for _, ua := range updA {
		for _, ub := range updB {
			if reachable(ub.Block(), ua.Block()) {
				why += " values of the first list can be merged after values of the second (" + p.InstrPos(ua) + " is reachable from " + p.InstrPos(ub) + ");"
			}
		}
	}
	r.Check(why == "", "merge.order", "R-WIRE", p.Pos(fn.Pos()), "per lower-cased name: a's values (assigned or appended), then append(merged[name], b's values...)",
		"mergeHeaders does not produce headers-then-trailers per name:"+why+" for a name that occurs both as response header and trailer the merged expectation differs from what every protocol delivers")
}

// ---------- optional sub-messages in the server handlers (C02) ----------

// optionalMessageDerefRule: in the handlers of both servers every explicit
// field access through a pointer to a generated message that was itself loaded
// from a message field, or that is a loop-carried variable which can still be
// nil (phi with a nil edge), is dominated by a non-nil test of that value.
// (Generated getters are nil-safe and not counted.) A well-formed request may
// leave any sub-message unset.
func optionalMessageDerefRule(p *Prog, r *Report) {
	var scope []*ssa.Function
	for _, fn := range p.RepoFuncs() {
		pk := pkgOfFunc(fn)
		if pk != modPath+"/"+pkgRS && pk != modPath+"/internal/app/grpcserver" {
			continue
		}
		if !strings.HasSuffix(p.Fset.Position(fn.Pos()).Filename, "impl.go") {
			continue
		}
		scope = append(scope, fn)
	}
	optionalDerefAudit(p, r, "optional-msg", scope, 10)
}

// optionalDerefAudit: the nil-dereference audit over a given set of functions.
// Optional = a pointer loaded from a field of a generated message or of a
// struct decoded from JSON (has `json` field tags), a generated getter's
// result, or a variable that can still be nil (phi with a nil edge).
func optionalDerefAudit(p *Prog, r *Report, keyPrefix string, scope []*ssa.Function, floor int) {
	optionalDerefAuditEx(p, r, keyPrefix, scope, floor, nil)
}

// optionalDerefAuditEx: as optionalDerefAudit, with confirmed-by-reading
// exemptions keyed "<function>#<access path root>" -> reason.
func optionalDerefAuditEx(p *Prog, r *Report, keyPrefix string, scope []*ssa.Function, floor int, exempt map[string]string) {
	genPath := modPath + "/" + pkgGen
	isGenMsgPtr := func(t types.Type) bool {
		pt, ok := t.Underlying().(*types.Pointer)
		if !ok {
			return false
		}
		nt, ok := pt.Elem().(*types.Named)
		if !ok || nt.Obj().Pkg() == nil || nt.Obj().Pkg().Path() != genPath {
			return false
		}
		_, isStruct := nt.Underlying().(*types.Struct)
		return isStruct
	}
	isJSONStructPtr := func(t types.Type) bool {
		pt, ok := t.Underlying().(*types.Pointer)
		if !ok {
			return false
		}
		st, ok := pt.Elem().Underlying().(*types.Struct)
		if !ok {
			return false
		}
		if nt, ok := pt.Elem().(*types.Named); !ok || nt.Obj().Pkg() == nil || !strings.HasPrefix(nt.Obj().Pkg().Path(), modPath) {
			return false
		}
		for i := 0; i < st.NumFields(); i++ {
			if strings.Contains(st.Tag(i), "json:") {
				return true
			}
		}
		return false
	}
	var mayBeNil func(v ssa.Value, d int) bool
	mayBeNil = func(v ssa.Value, d int) bool {
		if d > 6 {
			return false
		}
		switch x := v.(type) {
		case *ssa.Phi:
			for _, e := range x.Edges {
				if isNilConst(e) || mayBeNil(e, d+1) {
					return true
				}
			}
			return false
		case *ssa.UnOp:
			if x.Op != token.MUL {
				return false
			}
			if fa, ok := x.X.(*ssa.FieldAddr); ok {
				// a field of a struct built right here and written once before it escapes
				if w := localAllocFieldStore(x, fa); w != nil {
					return isNilConst(w) || mayBeNil(canon(w), d+1)
				}
				// the single field of a oneof wrapper is never nil in a decoded message
				if isOneofWrapper(fa.X.Type()) {
					return false
				}
				// loaded from a field of a generated message or of a JSON-decoded struct: optional
				return isGenMsgPtr(fa.X.Type()) || isJSONStructPtr(fa.X.Type())
			}
			if al, ok := x.X.(*ssa.Alloc); ok {
				for _, sv := range reachingStores(al, x) {
					if sv == nil || isNilConst(sv) || mayBeNil(sv, d+1) {
						return true
					}
				}
			}
			return false
		case *ssa.Call:
			// a generated getter of a message-typed field
			if f := x.Call.StaticCallee(); f != nil && getterField(f) != nil {
				return true
			}
		}
		return false
	}
	n := 0
	for _, fn := range scope {
		eachInstr(fn, func(in ssa.Instruction) {
			var base ssa.Value
			what := ""
			switch x := in.(type) {
			case *ssa.FieldAddr:
				if _, isPtr := x.X.Type().Underlying().(*types.Pointer); !isPtr {
					return
				}
				base, what = x.X, fieldName(x.X.Type(), x.Field)
			case *ssa.UnOp:
				// explicit *p of a pointer to a non-struct (e.g. *string of a JSON field)
				if x.Op != token.MUL {
					return
				}
				pt, isPtr := x.X.Type().Underlying().(*types.Pointer)
				if !isPtr {
					return
				}
				if _, isStruct := pt.Elem().Underlying().(*types.Struct); isStruct {
					return
				}
				switch x.X.(type) {
				case *ssa.FieldAddr, *ssa.IndexAddr, *ssa.Alloc, *ssa.Global, *ssa.FreeVar:
					return // address computations, not pointer values
				}
				base, what = x.X, "*"
			default:
				return
			}
			if !mayBeNil(base, 0) {
				return
			}
			n++
			r.Sites++
			r.Func(funcName(fn))
			bp := path(base)
			same := func(x ssa.Value) bool { return x == base || canon(x) == canon(base) || path(x) == bp }
			guarded := guardedBy(in, func(a Atom) bool {
				if m, isNil := nilTestOn(a, same); m && !isNil {
					return true
				}
				// k < len(base.GetF()) with k >= 0: a nil-safe getter of a nil message yields an empty list
				if a.Op == token.LSS && nonNegCounter(a.X, 0) {
					if x, isLen := lenArg(a.Y); isLen {
						if c, ok := canon(x).(*ssa.Call); ok && c.Call.StaticCallee() != nil && getterField(c.Call.StaticCallee()) != nil && len(c.Call.Args) == 1 && same(c.Call.Args[0]) {
							return true
						}
					}
				}
				return false
			})
			key := fmt.Sprintf("%s.%s#%s.%s", keyPrefix, shortFn(fn), bp, what)
			if !guarded && exempt != nil {
				if why, ok := exempt[shortFn(fn)+"#"+bp]; ok {
					r.OK(key, "R-NILFIELD", p.InstrPos(in), "table: "+why)
					return
				}
			}
			r.Check(guarded, key, "R-NILFIELD", p.InstrPos(in), bp+" is tested non-nil before its field is accessed",
				fmt.Sprintf("%s (an optional sub-message / a variable that is still nil when no definition was received) is dereferenced in %s without a dominating non-nil test; facts here: %s — a well-formed request that leaves it unset crashes the server", bp, funcName(fn), atomsString(atomsAt(in.Block()))))
		})
	}
	r.Floor(keyPrefix+"-derefs", n, floor)
}

// ---------- suite expansion axes (C07, C01) ----------

// axisSourceRule: in expandSuite every axis of the probed config case iterates
// over the suite's own Relevant… list or, exactly when that list is empty,
// over the list of all values of the axis — nothing else; the stream type
// always over all.
func axisSourceRule(p *Prog, r *Report) {
	fn := p.Func(pkgCC, "testCaseLibrary", "expandSuite")
	if fn == nil {
		r.Undecided("axes.source", "R-WIRE", "expandSuite not found")
		return
	}
	r.Func(funcName(fn))
	for _, w := range []struct{ field, rel, all string }{
		{"Version", "RelevantHttpVersions", "allHTTPVersions"},
		{"Protocol", "RelevantProtocols", "allProtocols"},
		{"Codec", "RelevantCodecs", "allCodecs"},
		{"Compression", "RelevantCompressions", "allCompressions"},
		{"StreamType", "", "allStreamTypes"},
	} {
		f := p.Field(pkgCC, "configCase", w.field)
		var relF *types.Var
		if w.rel != "" {
			relF = p.Field(pkgGen, "TestSuite", w.rel)
		}
		r.Sites++
		why := ""
		found := false
		for _, st := range storesToField([]*ssa.Function{fn}, f) {
			found = true
			u, ok := canon(st.Val).(*ssa.UnOp)
			if !ok {
				why += " the value is not an element of a ranged slice;"
				continue
			}
			ia, ok := u.X.(*ssa.IndexAddr)
			if !ok {
				why += " the value is not an element of a ranged slice;"
				continue
			}
			for _, l := range phiLeaves(canon(ia.X)) {
				lv := canon(l.Val)
				if relF != nil && loadedField(lv) == relF {
					continue
				}
				if uu, ok := lv.(*ssa.UnOp); ok {
					if g, ok := uu.X.(*ssa.Global); ok && g.Name() == w.all {
						if relF == nil {
							continue
						}
						// only when the suite's own list is empty
						if hasAtom(l.Facts, func(a Atom) bool {
							if a.Op != token.EQL {
								return false
							}
							x, isLen := lenArg(a.X)
							z, isZ := constInt(a.Y)
							return isLen && isZ && z == 0 && loadedField(canon(x)) == relF
						}) {
							continue
						}
						why += " " + w.all + " is used although the suite's " + w.rel + " is not known to be empty;"
						continue
					}
				}
				why += " iterates over " + path(lv) + ";"
			}
		}
		if !found {
			why = " no store of the axis found;"
		}
		r.Check(why == "", "axes.source."+w.field, "R-WIRE", p.Pos(fn.Pos()), "configCase."+w.field+" ranges over the suite's own list, or over all values exactly when that list is empty",
			"expandSuite: the "+w.field+" axis of the probed config case does not range over exactly the suite's "+w.rel+" (or "+w.all+" when empty):"+why+" a permutation would exist for a value the suite does not admit, or be missing for one it does")
	}
}

// allValuesRule: each package-level all… list is allValues[T](T_name) with the
// name map of the SAME enum T (the maps all have type map[int32]string, so a
// wrong one compiles).
func allValuesRule(p *Prog, r *Report) {
	sp := p.SSAOf(pkgCC)
	if sp == nil {
		r.Undecided("axes.all-values", "R-TABLE-AGREE", "package not loaded")
		return
	}
	init := sp.Func("init")
	n := 0
	why := ""
	if init != nil {
		eachInstr(init, func(in ssa.Instruction) {
			st, ok := in.(*ssa.Store)
			if !ok {
				return
			}
			g, ok := st.Addr.(*ssa.Global)
			if !ok || !strings.HasPrefix(g.Name(), "all") {
				return
			}
			c, ok := canon(st.Val).(*ssa.Call)
			if !ok || c.Call.StaticCallee() == nil || fnBase(c.Call.StaticCallee()) != "allValues" {
				return
			}
			n++
			r.Sites++
			targs := c.Call.StaticCallee().TypeArgs()
			tn := ""
			if len(targs) == 1 {
				if nt, ok := targs[0].(*types.Named); ok {
					tn = nt.Obj().Name()
				}
			}
			mn := ""
			if u, ok := canon(c.Call.Args[0]).(*ssa.UnOp); ok {
				if mg, ok := u.X.(*ssa.Global); ok {
					mn = mg.Name()
				}
			}
			if tn == "" || mn != tn+"_name" {
				why += fmt.Sprintf(" %s = allValues[%s](%s);", g.Name(), tn, mn)
			}
		})
	}
	r.Floor("all-values-lists", n, 5)
	r.Check(why == "", "axes.all-values", "R-TABLE-AGREE", "-", "every all… list enumerates the name map of its own enum",
		"an all… list is built from the name map of a different enum:"+why+" the open axis of a suite then misses values (or contains undefined ones)")
}

// membershipHelpersRule: hasCodec / contains return true only on an
// element-equals-target edge; only returns true only for a non-empty list and
// returns false on every element-differs edge. The guard-formula rules treat
// these helpers as opaque atoms "x ∈ list" / "list = {x}"; this rule is what
// entitles them to.
func membershipHelpersRule(p *Prog, r *Report) {
	check := func(key string, fn *ssa.Function, kind string) {
		if fn == nil {
			r.Undecided(key, "R-POLARITY", "helper not found")
			return
		}
		r.Func(funcName(fn))
		r.Sites++
		elemEq := func(neg bool) func(Atom) bool {
			return func(a Atom) bool {
				op := token.EQL
				if neg {
					op = token.NEQ
				}
				if a.Op != op {
					return false
				}
				isElem := func(v ssa.Value) bool {
					u, ok := canon(v).(*ssa.UnOp)
					if !ok {
						return false
					}
					ia, ok := u.X.(*ssa.IndexAddr)
					return ok && canon(ia.X) == ssa.Value(fn.Params[0])
				}
				isTarget := func(v ssa.Value) bool { return canon(v) == ssa.Value(fn.Params[1]) }
				return isElem(a.X) && isTarget(a.Y) || isElem(a.Y) && isTarget(a.X)
			}
		}
		why := ""
		nTrue := 0
		for _, ret := range returnsOf(fn) {
			for _, l := range phiLeaves(ret.Results[0]) {
				b, isC := constBool(l.Val)
				if !isC {
					why += " returns a non-constant;"
					continue
				}
				facts := append(append([]Atom{}, atomsAt(ret.Block())...), l.Facts...)
				if b {
					nTrue++
					switch kind {
					case "member":
						if !hasAtom(facts, elemEq(false)) {
							why += " returns true without an element having been found equal to the target (" + atomsString(facts) + ");"
						}
					case "only":
						if hasAtom(facts, elemEq(true)) {
							why += " returns true on an element-differs edge;"
						}
						if !hasAtom(facts, func(a Atom) bool {
							x, isLen := lenArg(a.X)
							z, isZ := constInt(a.Y)
							return isLen && isZ && z == 0 && a.Op == token.NEQ && canon(x) == ssa.Value(fn.Params[0])
						}) {
							why += " returns true for an empty list;"
						}
					}
				} else if kind == "member" && hasAtom(facts, elemEq(false)) {
					why += " returns false although an element equals the target;"
				}
			}
		}
		if nTrue == 0 {
			why += " never returns true;"
		}
		r.Check(why == "", key, "R-POLARITY", p.Pos(fn.Pos()), kind+" helper returns true exactly on its defining edge", funcName(fn)+" no longer means what the guards that use it assume:"+why)
	}
	check("helpers.hasCodec", p.Func(pkgCC, "", "hasCodec"), "member")
	n := 0
	for _, fn := range p.RepoFuncs() {
		if pkgOfFunc(fn) != ccPath || fn.Origin() == nil {
			continue
		}
		switch fn.Origin().Name() {
		case "contains":
			n++
			check("helpers.contains."+typeArgsKey(fn), fn, "member")
		case "only":
			n++
			check("helpers.only."+typeArgsKey(fn), fn, "only")
		}
	}
	r.Floor("membership-helper-instances", n, 4)
}

func typeArgsKey(fn *ssa.Function) string {
	var parts []string
	for _, t := range fn.TypeArgs() {
		parts = append(parts, types.TypeString(t, func(p *types.Package) string { return p.Name() }))
	}
	return strings.Join(parts, ",")
}

// ---------- pattern tries (C08) ----------

// findUnmatchedRule: findUnmatched visits the children of EVERY node — the
// range over tt.children is reached on every path through the function and the
// recursive call is made for every child.
func findUnmatchedRule(p *Prog, r *Report) {
	fn := p.Func(pkgCC, "testTrie", "findUnmatched")
	if fn == nil {
		r.Undecided("unmatched.visit-all", "R-MUSTCALL", "findUnmatched not found")
		return
	}
	r.Func(funcName(fn))
	children := p.Field(pkgCC, "testTrie", "children")
	isRange := func(in ssa.Instruction) bool {
		rg, ok := in.(*ssa.Range)
		return ok && loadedField(canon(rg.X)) == children
	}
	r.Sites += 2
	ok, exit := entryMustPass(fn, isRange)
	pos := p.Pos(fn.Pos())
	if !ok && exit != nil {
		pos = p.InstrPos(exit)
	}
	r.Check(ok, "unmatched.visit-all.descend", "R-MUSTCALL", pos, "every path through findUnmatched ranges over the node's children",
		"findUnmatched can return without descending into the node's children (e.g. at a node where a pattern ends): patterns stored below another pattern are never reported as unmatched")
	rec := findInstrs(fn, isCallObj(funcObj(fn)))
	okRec := len(rec) == 1
	if okRec {
		// the recursive call is made for every child: from the loop body start every path back to the header passes it
		for _, rg := range findInstrs(fn, isRange) {
			_ = rg
		}
		nx := findInstrs(fn, func(in ssa.Instruction) bool { _, ok := in.(*ssa.Next); return ok })
		if len(nx) == 1 {
			hdr := nx[0].Block()
			body := hdr.Succs[0]
			okRec = allPathsPassBetween(body, hdr, func(in ssa.Instruction) bool { return in == rec[0] })
		} else {
			okRec = false
		}
	}
	r.Check(okRec, "unmatched.visit-all.every-child", "R-MUSTCALL", p.Pos(fn.Pos()), "the recursive call is made for every child", "findUnmatched does not recurse into every child of a node")
}

// freshAccumulator: the accumulator of a fold starts as a fresh slice (make /
// nil / literal), never as a re-slice of the input it is still reading.
func freshAccumulator(p *Prog, r *Report, key string, fn *ssa.Function, inputParam int) {
	if fn == nil {
		r.Undecided(key, "R-FOLD", "function not found")
		return
	}
	in := ssa.Value(fn.Params[inputParam])
	r.Sites++
	why := ""
	seen := map[ssa.Value]bool{}
	var walk func(v ssa.Value, d int)
	walk = func(v ssa.Value, d int) {
		v = canon(v)
		if seen[v] || d > 12 {
			return
		}
		seen[v] = true
		switch x := v.(type) {
		case *ssa.Phi:
			for _, e := range x.Edges {
				walk(e, d+1)
			}
		case *ssa.Call:
			if bi, ok := x.Call.Value.(*ssa.Builtin); ok && bi.Name() == "append" {
				walk(x.Call.Args[0], d+1)
				return
			}
			// result of some other call: not the input itself
		case *ssa.MakeSlice, *ssa.Const, *ssa.Alloc:
		case *ssa.Slice:
			if dependenceClosure(x.X)[in] || canon(x.X) == in {
				why += " starts as a re-slice of the input (" + path(x) + ");"
			}
		case *ssa.Parameter:
			if x == in {
				why += " is the input slice itself;"
			}
		}
	}
	for _, ret := range returnsOf(fn) {
		if len(ret.Results) > 0 {
			if _, isSlice := ret.Results[0].Type().Underlying().(*types.Slice); isSlice {
				walk(ret.Results[0], 0)
			}
		}
	}
	r.Check(why == "", key, "R-FOLD", p.Pos(fn.Pos()), "the accumulator is a fresh slice", funcName(fn)+": the accumulator"+why+" appending to it overwrites input elements that have not been read yet, so later patterns are replaced by earlier ones")
}

// ---------- framing (C09) ----------

// decoderPerStreamRule: a StreamDecoder whose DecodeNext is called in a loop
// is created outside that loop: the JSON decoder reads ahead, so a decoder
// created per message loses whatever it had buffered.
func decoderPerStreamRule(p *Prog, r *Report) {
	n := 0
	for _, fn := range p.RepoFuncs() {
		eachInstr(fn, func(in ssa.Instruction) {
			c := callCommon(in)
			if c == nil || !c.IsInvoke() || c.Method.Name() != "DecodeNext" {
				return
			}
			n++
			r.Sites++
			r.Func(funcName(fn))
			inLoop := false
			for _, s := range in.Block().Succs {
				if reachable(s, in.Block()) {
					inLoop = true
				}
			}
			if !inLoop {
				r.OK("decoder-per-stream."+shortFn(fn), "R-ORDER", p.InstrPos(in), "single message read")
				return
			}
			def, ok := canon(c.Value).(ssa.Instruction)
			okOutside := ok && def.Block() != in.Block() && !reachable(in.Block(), def.Block())
			r.Check(okOutside, "decoder-per-stream."+shortFn(fn), "R-ORDER", p.InstrPos(in), "the decoder read in the loop is created once, before the loop",
				"in "+funcName(fn)+" the stream decoder whose DecodeNext is called in the loop is (re)created inside the loop: the JSON decoder reads ahead, so messages that arrived in the same read are lost or mis-parsed — the decoded sequence depends on how the stream is chunked")
		})
	}
	r.Floor("DecodeNext-sites", n, 4)
}

// prefixAlwaysWrittenRule: every successful return of the frame writer has
// written the 4-byte prefix and the data (also for an empty message).
func prefixAlwaysWrittenRule(p *Prog, r *Report) {
	wr := p.Func("internal", "", "writeDelimitedMessageRaw")
	if wr == nil {
		r.Undecided("prefix-agree.always-written", "R-MUSTCALL", "writeDelimitedMessageRaw not found")
		return
	}
	isWriteOf := func(sel func(ssa.Value) bool) instrPred {
		return func(in ssa.Instruction) bool {
			c := callCommon(in)
			return c != nil && c.IsInvoke() && c.Method.Name() == "Write" && len(c.Args) == 1 && sel(c.Args[0])
		}
	}
	isPrefix := isWriteOf(func(v ssa.Value) bool {
		sl, ok := v.(*ssa.Slice)
		if !ok {
			return false
		}
		n, isArr := lenOfType(sl.X.Type())
		return isArr && n == 4
	})
	isData := isWriteOf(func(v ssa.Value) bool { return canon(v) == ssa.Value(wr.Params[1]) })
	r.Sites++
	bad := ""
	for _, ret := range returnsOf(wr) {
		if !isNilConst(ret.Results[0]) {
			// may be a phi; only constant-nil success returns are required to have written everything
			allErr := true
			for _, l := range phiLeaves(ret.Results[0]) {
				if isNilConst(l.Val) {
					allErr = false
				}
			}
			if allErr {
				continue
			}
		}
		if !precededBy(ret, isPrefix) || !precededBy(ret, isData) {
			bad += " " + p.InstrPos(ret) + ";"
		}
	}
	r.Check(bad == "", "prefix-agree.always-written", "R-MUSTCALL", p.Pos(wr.Pos()), "every successful return has written the prefix and the data",
		"writeDelimitedMessageRaw can return success without having written the length prefix and the data (e.g. for an empty message):"+bad+" the reader then sees fewer messages than were written")
}

// ---------- reference server: test-case name (C12) ----------

// testNameNonEmptyRule: getTestCaseName reports success only with a name that
// was tested non-empty (value, not mere presence of the header).
func testNameNonEmptyRule(p *Prog, r *Report) {
	fn := p.Func(pkgRS, "", "getTestCaseName")
	if fn == nil {
		r.Undecided("all-aspects.name-nonempty", "R-GUARD", "getTestCaseName not found")
		return
	}
	r.Func(funcName(fn))
	r.Sites++
	why := ""
	nOK := 0
	for _, ret := range returnsOf(fn) {
		if len(ret.Results) != 2 {
			continue
		}
		for _, l := range phiLeaves(ret.Results[1]) {
			b, isC := constBool(l.Val)
			if !isC {
				why += " the ok result is not a constant;"
				continue
			}
			if !b {
				continue
			}
			nOK++
			name := canon(ret.Results[0])
			facts := append(append([]Atom{}, atomsAt(ret.Block())...), l.Facts...)
			if !hasAtom(facts, func(a Atom) bool {
				if a.Op != token.NEQ {
					return false
				}
				s, isS := constString(a.Y)
				return isS && s == "" && (canon(a.X) == name || path(a.X) == path(name))
			}) {
				why += " returns ok with " + path(name) + ", which was not tested to be non-empty;"
			}
		}
	}
	if nOK == 0 {
		why += " never returns ok;"
	}
	r.Check(why == "", "all-aspects.name-nonempty", "R-GUARD", p.Pos(fn.Pos()), "success is returned only with a name tested != \"\"",
		"getTestCaseName:"+why+" a request whose X-Test-Case-Name header is present but empty reaches the RPC handler instead of being rejected")
}

// ---------- tracer: request headers are read-only (C14) ----------

// headersReadOnlyRule: nothing in the tracer mutates the header map of a live
// request or the header map handed out by the wrapped ResponseWriter: every
// http.Header that is written (Set/Add/Del or a map store) is a fresh map
// (make / literal / Clone) or the tracer's own snapshot.
func headersReadOnlyRule(p *Prog, r *Report) {
	n := 0
	for _, fn := range tracerFuncs(p) {
		eachInstr(fn, func(in ssa.Instruction) {
			var recv ssa.Value
			if mu, ok := in.(*ssa.MapUpdate); ok {
				if nt, ok := mu.Map.Type().(*types.Named); ok && nt.Obj().Name() == "Header" && nt.Obj().Pkg() != nil && nt.Obj().Pkg().Path() == "net/http" {
					recv = mu.Map
				}
			}
			if c := callCommon(in); c != nil {
				if b, ok := c.Value.(*ssa.Builtin); ok && b.Name() == "delete" && len(c.Args) == 2 {
					if nt, ok := c.Args[0].Type().(*types.Named); ok && nt.Obj().Name() == "Header" && nt.Obj().Pkg() != nil && nt.Obj().Pkg().Path() == "net/http" {
						recv = c.Args[0]
					}
				}
			}
			if c := callCommon(in); c != nil && c.StaticCallee() != nil {
				f := c.StaticCallee()
				if f.Signature.Recv() != nil && f.Pkg != nil && f.Pkg.Pkg.Path() == "net/http" {
					if nt, ok := f.Signature.Recv().Type().(*types.Named); ok && nt.Obj().Name() == "Header" {
						switch f.Name() {
						case "Set", "Add", "Del":
							recv = c.Args[0]
						}
					}
				}
			}
			if recv == nil {
				return
			}
			n++
			r.Sites++
			r.Func(funcName(fn))
			bad := ""
			for _, l := range phiLeaves(canon(recv)) {
				v := canon(l.Val)
				if f := loadedField(v); f != nil && f.Name() == "Header" && f.Pkg() != nil && f.Pkg().Path() == "net/http" {
					// Header field of *http.Request is the live request; of *http.Response only the tracer's own snapshot is written
					if u, ok := v.(*ssa.UnOp); ok {
						if fa, ok := u.X.(*ssa.FieldAddr); ok {
							if pt, ok := fa.X.Type().Underlying().(*types.Pointer); ok {
								if nt, ok := pt.Elem().(*types.Named); ok && nt.Obj().Name() == "Request" {
									bad += " the live request's Header (" + path(v) + ");"
								}
							}
						}
					}
				}
				if c, ok := v.(*ssa.Call); ok && c.Call.IsInvoke() && c.Call.Method.Name() == "Header" {
					bad += " the wrapped ResponseWriter's Header();"
				}
				// the tracer's own ResponseWriter.Header() hands out the wrapped writer's map
				if c, ok := v.(*ssa.Call); ok && c.Call.StaticCallee() != nil && c.Call.StaticCallee().Name() == "Header" && c.Call.StaticCallee().Signature.Recv() != nil && p.IsRepoFunc(c.Call.StaticCallee()) {
					bad += " the wrapped ResponseWriter's Header() (through " + shortFn(c.Call.StaticCallee()) + ");"
				}
			}
			r.Check(bad == "", fmt.Sprintf("passthru.headers-readonly.%s#%d", shortFn(fn), n), "R-PASSTHRU", p.InstrPos(in), "the written header map is the tracer's own copy",
				"the tracer writes into"+bad+" the application then sees headers it would not have seen without tracing")
		})
	}
	r.Floor("header-writes-in-tracer", n, 4)
}

// ---------- HTTP/2 retry collector (C15, C16) ----------

// retryWaitingConsumedRule: whenever a parked trace is taken out of
// http2RetryCollector.waiting (its value is looked up or iterated), the entry
// is removed on every path before the function returns (delete, or the map is
// replaced): a parked trace is handed on or dropped exactly once.
func retryWaitingConsumedRule(p *Prog, r *Report) {
	waiting := p.Field(pkgTr, "http2RetryCollector", "waiting")
	if waiting == nil {
		r.Undecided("retry.waiting-consumed", "R-MUSTCALL", "http2RetryCollector.waiting not found")
		return
	}
	isRemove := func(in ssa.Instruction) bool {
		if c := callCommon(in); c != nil {
			if bi, ok := c.Value.(*ssa.Builtin); ok && bi.Name() == "delete" && loadedField(canon(c.Args[0])) == waiting {
				return true
			}
		}
		if st, ok := in.(*ssa.Store); ok {
			if fa, ok := st.Addr.(*ssa.FieldAddr); ok && fieldVar(fa.X.Type(), fa.Field) == waiting {
				return true
			}
		}
		return false
	}
	n := 0
	for _, fn := range tracerFuncs(p) {
		eachInstr(fn, func(in ssa.Instruction) {
			var from ssa.Instruction
			switch x := in.(type) {
			case *ssa.Lookup:
				if loadedField(canon(x.X)) != waiting || !x.CommaOk {
					return
				}
				// the value component is used
				used := false
				for _, ref := range *x.Referrers() {
					if ex, ok := ref.(*ssa.Extract); ok && ex.Index == 0 && ex.Referrers() != nil && len(*ex.Referrers()) > 0 {
						used = true
					}
				}
				if !used {
					return
				}
				// start from the ok edge
				for _, ref := range *x.Referrers() {
					if ex, ok := ref.(*ssa.Extract); ok && ex.Index == 1 {
						for _, r2 := range *ex.Referrers() {
							if iff, ok := r2.(*ssa.If); ok {
								from = iff.Block().Succs[0].Instrs[0]
							}
						}
					}
				}
				if from == nil {
					from = in
				}
			case *ssa.Range:
				if loadedField(canon(x.X)) != waiting {
					return
				}
				from = in
			default:
				return
			}
			n++
			r.Sites++
			r.Func(funcName(fn))
			ok := false
			var exit ssa.Instruction
			if isRemove(from) {
				ok = true
			} else {
				ok, exit = mustPass(from, isRemove)
			}
			pos := p.InstrPos(in)
			if exit != nil {
				pos = p.InstrPos(exit)
			}
			r.Check(ok, "retry.waiting-consumed."+shortFn(fn), "R-MUSTCALL", pos, "the parked entry is removed on every path after it was taken",
				"in "+funcName(fn)+" a parked trace is taken from http2RetryCollector.waiting but the entry stays: the retry's own trace is then dropped as 'already waiting', or the parked trace is completed a second time at the next teardown")
		})
	}
	r.Floor("waiting-takes", n, 3)
}

// ---------- raw requests (C17) ----------

// rawURINoDecodedPathRule: the URI of a raw request reaches the wire through
// url.URL.String() (or the string given), never through the decoded Path
// field, which loses percent-escapes.
func rawURINoDecodedPathRule(p *Prog, r *Report) {
	fn := p.Func(pkgRC, "rawRequestSender", "RoundTrip")
	if fn == nil {
		r.Undecided("noflow.uri-decoded-path", "R-NOFLOW", "rawRequestSender.RoundTrip not found")
		return
	}
	r.Func(funcName(fn))
	r.Sites++
	var newReq *ssa.Call
	eachInstr(fn, func(in ssa.Instruction) {
		if c, ok := in.(*ssa.Call); ok && isCallToNamed(&c.Call, "net/http", "", "NewRequestWithContext") {
			newReq = c
		}
	})
	if newReq == nil {
		r.Undecided("noflow.uri-decoded-path", "R-NOFLOW", "http.NewRequestWithContext call not found")
		return
	}
	bad := ""
	for v := range operandClosure(newReq.Call.Args[2]) {
		if f := loadedField(canon(v)); f != nil && f.Pkg() != nil && f.Pkg().Path() == "net/url" && (f.Name() == "Path" || f.Name() == "RawPath" || f.Name() == "Opaque" || f.Name() == "Fragment") {
			if in, ok := v.(ssa.Instruction); ok {
				bad += " " + path(v) + " at " + p.InstrPos(in) + ";"
			}
		}
	}
	r.Check(bad == "", "noflow.uri-decoded-path", "R-NOFLOW", p.InstrPos(newReq), "the request target is built from the given URI / url.URL.String(), not from decoded URL fields",
		"the raw request's target is assembled from decoded URL fields:"+bad+" percent-escapes in the prescribed path are lost on the wire")
}

// ---------- messages are not format strings (C18 and wherever test data is printed) ----------

// noDataFormatStringRule: in the given scope no printf-like function (fmt.*f,
// Printer.Printf …) is called with a non-constant format string: test-case
// data (error messages, names) used as a format loses or garbles every '%'.
func noDataFormatStringRule(p *Prog, r *Report, key string, scope func(*ssa.Function) bool) {
	n := 0
	var bad []string
	for _, fn := range p.RepoFuncs() {
		if !scope(fn) {
			continue
		}
		eachInstr(fn, func(in ssa.Instruction) {
			c := callCommon(in)
			if c == nil {
				return
			}
			idx := -1
			if c.IsInvoke() {
				switch c.Method.Name() {
				case "Printf":
					idx = 0
				case "PrefixPrintf":
					idx = 1
				}
			} else if f := c.StaticCallee(); f != nil && f.Pkg != nil {
				switch f.Pkg.Pkg.Path() + "." + f.Name() {
				case "fmt.Errorf", "fmt.Sprintf", "fmt.Printf":
					idx = 0
				case "fmt.Fprintf":
					idx = 1
				}
				if f.Signature.Recv() != nil && (f.Name() == "Printf" || f.Name() == "PrefixPrintf") && p.IsRepoFunc(f) {
					idx = 1
					if f.Name() == "PrefixPrintf" {
						idx = 2
					}
				}
			}
			if f := c.StaticCallee(); idx < 0 && f != nil && !p.IsRepoFunc(f) {
				// library functions following the (format string, args ...any) convention
				idx = printfLikeIndex(c)
			}
			if idx < 0 || idx >= len(c.Args) {
				return
			}
			n++
			if _, isS := constString(c.Args[idx]); !isS {
				// a format parameter forwarded by a printf wrapper is fine
				if q, isP := canon(c.Args[idx]).(*ssa.Parameter); isP && q.Parent() == fn && strings.Contains(strings.ToLower(q.Name()), "format") || isFormatParam(canon(c.Args[idx]), fn) {
					return
				}
				// format parameter + constant suffix/prefix (format + "\n")
				if bo, isBO := canon(c.Args[idx]).(*ssa.BinOp); isBO && bo.Op == token.ADD {
					_, lc := constString(bo.X)
					_, rc := constString(bo.Y)
					if lc && isFormatParam(canon(bo.Y), fn) || rc && isFormatParam(canon(bo.X), fn) {
						return
					}
				}
				bad = append(bad, p.InstrPos(in)+" in "+shortFn(fn)+": format is "+path(c.Args[idx]))
			}
		})
	}
	r.Sites += n
	sort.Strings(bad)
	r.Extra[key+"_printf_sites"] = n
	r.Check(len(bad) == 0, key, "R-PASSTHRU", "-", fmt.Sprintf("all %d printf-like calls have constant format strings", n),
		"a printf-like function is called with data as its format string: "+strings.Join(bad, "; ")+" — every '%' in the text (an error message from a test case, a name) is interpreted as a verb, so the message is not preserved")
}

// printfLikeIndex: the argument index of the format string of a call whose
// callee's signature ends in (format string, args ...any) — the convention
// go vet's printf check recognises (grpc's status.Errorf, log.Printf, …).
func printfLikeIndex(c *ssa.CallCommon) int {
	sig := c.Signature()
	if sig == nil || !sig.Variadic() || sig.Params().Len() < 2 {
		return -1
	}
	np := sig.Params().Len()
	last, ok := sig.Params().At(np - 1).Type().(*types.Slice)
	if !ok {
		return -1
	}
	if it, ok := last.Elem().Underlying().(*types.Interface); !ok || it.NumMethods() != 0 {
		return -1
	}
	fp := sig.Params().At(np - 2)
	if b, ok := fp.Type().Underlying().(*types.Basic); !ok || b.Kind() != types.String || !strings.Contains(strings.ToLower(fp.Name()), "format") {
		return -1
	}
	idx := np - 2
	if !c.IsInvoke() && sig.Recv() != nil {
		idx++
	}
	return idx
}

func isFormatParam(v ssa.Value, fn *ssa.Function) bool {
	q, ok := v.(*ssa.Parameter)
	if !ok || q.Parent() != fn {
		return false
	}
	// the parameter directly before a variadic ...any
	sig := fn.Signature
	if !sig.Variadic() {
		return false
	}
	ps := fn.Params
	off := 0
	if sig.Recv() != nil {
		off = 1
	}
	i := sig.Params().Len() - 2 + off
	return i >= 0 && i < len(ps) && ps[i] == q
}

// ---------- compression: sibling constructors (C20) ----------

// ctorOptionSiblingsRule: every call inside internal/compression of the same
// third-party constructor passes the same set of options: the decoder a
// wrapper re-creates lazily (after Close) must be configured like the one its
// constructor builds.
func ctorOptionSiblingsRule(p *Prog, r *Report) {
	type site struct {
		pos, fn, opts string
	}
	groups := map[string][]site{}
	for _, fn := range p.RepoFuncs() {
		if pkgOfFunc(fn) != modPath+"/"+pkgComp {
			continue
		}
		eachInstr(fn, func(in ssa.Instruction) {
			c := callCommon(in)
			if c == nil || c.StaticCallee() == nil {
				return
			}
			f := c.StaticCallee()
			if f.Pkg == nil || p.IsRepoFunc(f) || !f.Signature.Variadic() || f.Signature.Recv() != nil {
				return
			}
			if !strings.HasPrefix(f.Name(), "New") {
				return
			}
			var opts []string
			last := c.Args[len(c.Args)-1]
			if !isNilConst(last) {
				for _, e := range sliceLiteralElems(last) {
					if oc, ok := canon(e).(*ssa.Call); ok && oc.Call.StaticCallee() != nil {
						opts = append(opts, oc.Call.StaticCallee().Name())
					} else {
						opts = append(opts, path(e))
					}
				}
				if len(opts) == 0 {
					opts = append(opts, path(last))
				}
			}
			sort.Strings(opts)
			groups[f.Pkg.Pkg.Path()+"."+f.Name()] = append(groups[f.Pkg.Pkg.Path()+"."+f.Name()], site{p.InstrPos(in), shortFn(fn), "[" + strings.Join(opts, " ") + "]"})
		})
	}
	n := 0
	for _, k := range sortedStringKeys(groups) {
		g := groups[k]
		n += len(g)
		r.Sites += len(g)
		if len(g) < 2 {
			continue
		}
		why := ""
		for _, s := range g[1:] {
			if s.opts != g[0].opts {
				why += fmt.Sprintf(" %s in %s passes %s but %s passes %s;", k, g[0].fn, g[0].opts, s.fn, s.opts)
			}
		}
		r.Check(why == "", "reuse-typestate.ctor-siblings."+k, "R-SIBLING", g[0].pos, fmt.Sprintf("%d construction sites of %s pass the same options %s", len(g), k, g[0].opts),
			"the construction sites of one library object are configured differently:"+why+" a fresh instance and a closed-and-reused one then treat the same message differently")
	}
	r.Floor("library-constructor-sites", n, 3)
}

func sortedStringKeys[T any](m map[string]T) []string {
	ks := make([]string, 0, len(m))
	for k := range m {
		ks = append(ks, k)
	}
	sort.Strings(ks)
	return ks
}

// operandClosure: the values v is computed from through operands only (no
// control dependence): loads are followed to the stores reaching local cells.
func operandClosure(root ssa.Value) map[ssa.Value]bool {
	seen := map[ssa.Value]bool{}
	var visit func(v ssa.Value)
	visit = func(v ssa.Value) {
		if v == nil || seen[v] {
			return
		}
		seen[v] = true
		if u, ok := v.(*ssa.UnOp); ok && u.Op == token.MUL {
			if al, ok := u.X.(*ssa.Alloc); ok {
				for _, sv := range reachingStores(al, u) {
					visit(sv)
				}
			}
		}
		// the address of a local cell: everything stored into it
		if al, ok := v.(*ssa.Alloc); ok && al.Referrers() != nil {
			for _, ref := range *al.Referrers() {
				if st, ok := ref.(*ssa.Store); ok && st.Addr == ssa.Value(al) {
					visit(st.Val)
				}
			}
		}
		// a slice literal / variadic argument list: everything stored into its array
		if sl, ok := v.(*ssa.Slice); ok {
			if arr, ok := sl.X.(*ssa.Alloc); ok && arr.Referrers() != nil {
				for _, ref := range *arr.Referrers() {
					if ia, ok := ref.(*ssa.IndexAddr); ok && ia.Referrers() != nil {
						for _, r2 := range *ia.Referrers() {
							if st, ok := r2.(*ssa.Store); ok && st.Addr == ssa.Value(ia) {
								visit(st.Val)
							}
						}
					}
				}
			}
		}
		if in, ok := v.(ssa.Instruction); ok {
			for _, op := range in.Operands(nil) {
				if *op != nil {
					visit(*op)
				}
			}
		}
	}
	visit(root)
	return seen
}

// isOneofWrapper: pointer to a generated oneof wrapper struct (Outer_Field with one field).
func isOneofWrapper(t types.Type) bool {
	pt, ok := t.Underlying().(*types.Pointer)
	if !ok {
		return false
	}
	nt, ok := pt.Elem().(*types.Named)
	if !ok || !strings.Contains(nt.Obj().Name(), "_") {
		return false
	}
	st, ok := nt.Underlying().(*types.Struct)
	return ok && st.NumFields() == 1
}

// nonNegCounter: v is non-negative by induction: a constant >= 0, a sum of
// such values, or a phi all of whose incoming values are (a cycle back to a
// phi under examination is the induction hypothesis).
func nonNegCounter(v ssa.Value, d int) bool {
	return nonNegInd(v, map[ssa.Value]bool{}, 0)
}

func nonNegInd(v ssa.Value, hyp map[ssa.Value]bool, d int) bool {
	v = canon(v)
	if d > 12 {
		return false
	}
	if k, ok := constInt(v); ok {
		return k >= 0
	}
	if hyp[v] {
		return true
	}
	switch x := v.(type) {
	case *ssa.Phi:
		hyp[v] = true
		for _, e := range x.Edges {
			if !nonNegInd(e, hyp, d+1) {
				return false
			}
		}
		return true
	case *ssa.BinOp:
		if x.Op == token.ADD {
			return nonNegInd(x.X, hyp, d+1) && nonNegInd(x.Y, hyp, d+1)
		}
	case *ssa.Call:
		if bi, ok := x.Call.Value.(*ssa.Builtin); ok && (bi.Name() == "len" || bi.Name() == "cap") {
			return true
		}
	}
	return false
}

// ---------- trace hand-off (C16) ----------

// awaitReadAfterWaitRule: what Tracer.Await returns after having waited for
// completion is read from the slot AFTER the wait: no copy of the slot's trace
// taken before the select may reach a return that follows it.
func awaitReadAfterWaitRule(p *Prog, r *Report) {
	fn := p.Func(pkgTr, "Tracer", "Await")
	if fn == nil {
		r.Undecided("await.read-after-wait", "R-ORDER", "Tracer.Await not found")
		return
	}
	r.Func(funcName(fn))
	var sel *ssa.Select
	eachInstr(fn, func(in ssa.Instruction) {
		if s, ok := in.(*ssa.Select); ok && s.Blocking {
			sel = s
		}
	})
	r.Sites++
	if sel == nil {
		r.Undecided("await.read-after-wait", "R-ORDER", "blocking select not found in Await")
		return
	}
	bad := ""
	for _, ret := range returnsOf(fn) {
		if !reachesInstr(sel, ret) {
			continue
		}
		for _, v := range retVals(ret, 0) {
			if v == nil || isNilConst(v) {
				continue
			}
			for w := range operandClosure(v) {
				u, ok := w.(*ssa.UnOp)
				if !ok || u.Op != token.MUL {
					continue
				}
				fa, ok := u.X.(*ssa.FieldAddr)
				if !ok {
					continue
				}
				fv := fieldVar(fa.X.Type(), fa.Field)
				if fv == nil || fv.Pkg() == nil || fv.Pkg().Path() != trPath {
					continue
				}
				if _, isStruct := fv.Type().Underlying().(*types.Struct); !isStruct {
					continue // only copies of the trace value itself (pointers/channels are identities)
				}
				if reachesInstr(u, sel) {
					bad += " " + path(u) + " is copied at " + p.InstrPos(u) + " before the wait and returned at " + p.InstrPos(ret) + ";"
				}
			}
		}
	}
	r.Check(bad == "", "await.read-after-wait", "R-ORDER", p.InstrPos(sel), "the trace returned after the wait is read from the slot after the wait",
		"Tracer.Await returns, after having waited, a copy of the slot's trace taken BEFORE the wait:"+bad+" a waiter that was already blocked when the trace completes gets an empty trace")
}
