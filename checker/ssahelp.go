package main

// Shared SSA-level helpers: access paths, edge dominance (A-DOM), must-pass-
// through (A-PATH), call-site and store enumeration (A-WHO).

import (
	"fmt"
	"go/constant"
	"go/token"
	"go/types"
	"strings"

	"golang.org/x/tools/go/ssa"
)

// ---------- access paths ----------

// path renders a value as an access path over (root, field chain, calls).
// It is used to compare "the same storage location" across different loads
// (go/ssa does no CSE) and in diagnostics. Conversions are transparent.
func path(v ssa.Value) string { return pathD(v, 0) }

func pathD(v ssa.Value, d int) string {
	if v == nil {
		return "<nil>"
	}
	if d > 12 {
		return "…"
	}
	if la, ok := v.(lenAtom); ok {
		return "len(" + pathD(la.Value, d+1) + ")"
	}
	switch v := v.(type) {
	case *ssa.Parameter:
		// roots are source variable names: a parameter, the cell it is
		// captured in and the free variable of a closure all render alike
		return v.Name()
	case *ssa.FreeVar:
		return v.Name()
	case *ssa.Const:
		if v.Value == nil {
			return "nil"
		}
		return v.Value.ExactString()
	case *ssa.Global:
		return v.Pkg.Pkg.Name() + "." + v.Name()
	case *ssa.Function:
		return v.Name()
	case *ssa.Alloc:
		if v.Comment != "" && v.Comment != "complit" && v.Comment != "new" && v.Comment != "varargs" && v.Comment != "makeslice" {
			return v.Comment
		}
		return "@" + v.Name()
	case *ssa.FieldAddr:
		return pathD(v.X, d+1) + "." + fieldName(v.X.Type(), v.Field)
	case *ssa.Field:
		return pathD(v.X, d+1) + "." + fieldName(v.X.Type(), v.Field)
	case *ssa.UnOp:
		switch v.Op {
		case token.MUL:
			return pathD(v.X, d+1)
		case token.NOT:
			return "!" + pathD(v.X, d+1)
		case token.SUB:
			return "-" + pathD(v.X, d+1)
		case token.ARROW:
			return "<-" + pathD(v.X, d+1)
		}
		return v.Op.String() + pathD(v.X, d+1)
	case *ssa.IndexAddr:
		return pathD(v.X, d+1) + "[" + pathD(v.Index, d+1) + "]"
	case *ssa.Index:
		return pathD(v.X, d+1) + "[" + pathD(v.Index, d+1) + "]"
	case *ssa.Lookup:
		return pathD(v.X, d+1) + "[" + pathD(v.Index, d+1) + "]"
	case *ssa.Slice:
		lo, hi := "", ""
		if v.Low != nil {
			lo = pathD(v.Low, d+1)
		}
		if v.High != nil {
			hi = pathD(v.High, d+1)
		}
		return pathD(v.X, d+1) + "[" + lo + ":" + hi + "]"
	case *ssa.Extract:
		return pathD(v.Tuple, d+1) + "#" + fmt.Sprint(v.Index)
	case *ssa.TypeAssert:
		return pathD(v.X, d+1) + ".(" + types.TypeString(v.AssertedType, shortQual) + ")"
	case *ssa.ChangeType:
		return pathD(v.X, d+1)
	case *ssa.Convert:
		return pathD(v.X, d+1)
	case *ssa.ChangeInterface:
		return pathD(v.X, d+1)
	case *ssa.MakeInterface:
		return pathD(v.X, d+1)
	case *ssa.SliceToArrayPointer:
		return pathD(v.X, d+1)
	case *ssa.BinOp:
		return "(" + pathD(v.X, d+1) + " " + v.Op.String() + " " + pathD(v.Y, d+1) + ")"
	case *ssa.Phi:
		if v.Comment != "" {
			return "φ" + v.Comment
		}
		return "φ" + v.Name()
	case *ssa.MakeClosure:
		return "closure:" + v.Fn.Name()
	case *ssa.Call:
		return callPath(&v.Call, d)
	}
	return "%" + v.Name()
}

func shortQual(p *types.Package) string { return p.Name() }

func callPath(c *ssa.CallCommon, d int) string {
	if c.IsInvoke() {
		return pathD(c.Value, d+1) + "." + c.Method.Name() + "(" + argPaths(c.Args, d) + ")"
	}
	switch f := c.Value.(type) {
	case *ssa.Builtin:
		return f.Name() + "(" + argPaths(c.Args, d) + ")"
	case *ssa.Function:
		if f.Signature.Recv() != nil && len(c.Args) > 0 {
			return pathD(c.Args[0], d+1) + "." + f.Name() + "(" + argPaths(c.Args[1:], d) + ")"
		}
		pk := ""
		if f.Pkg != nil {
			pk = f.Pkg.Pkg.Name() + "."
		} else if o := f.Origin(); o != nil && o.Pkg != nil {
			pk = o.Pkg.Pkg.Name() + "."
		}
		name := f.Name()
		if i := strings.IndexByte(name, '['); i > 0 {
			name = name[:i]
		}
		return pk + name + "(" + argPaths(c.Args, d) + ")"
	}
	return pathD(c.Value, d+1) + "(" + argPaths(c.Args, d) + ")"
}

func argPaths(args []ssa.Value, d int) string {
	s := make([]string, len(args))
	for i, a := range args {
		s[i] = pathD(a, d+1)
	}
	return strings.Join(s, ", ")
}

func fieldName(t types.Type, i int) string {
	if p, ok := t.Underlying().(*types.Pointer); ok {
		t = p.Elem()
	}
	if st, ok := t.Underlying().(*types.Struct); ok && i < st.NumFields() {
		return st.Field(i).Name()
	}
	return fmt.Sprintf("f%d", i)
}

func fieldVar(t types.Type, i int) *types.Var {
	if p, ok := t.Underlying().(*types.Pointer); ok {
		t = p.Elem()
	}
	if st, ok := t.Underlying().(*types.Struct); ok && i < st.NumFields() {
		return st.Field(i)
	}
	return nil
}

// strip removes value-preserving wrappers.
func strip(v ssa.Value) ssa.Value {
	for {
		switch x := v.(type) {
		case *ssa.ChangeType:
			v = x.X
		case *ssa.Convert:
			if !valuePreservingConvert(x) {
				return v
			}
			v = x.X
		case *ssa.ChangeInterface:
			v = x.X
		case *ssa.MakeInterface:
			v = x.X
		default:
			return v
		}
	}
}

// loadedField returns the struct field a value is loaded from (x.f, *(&x.f),
// or a generated getter x.GetF()), or nil.
func loadedField(v ssa.Value) *types.Var {
	v = strip(v)
	switch x := v.(type) {
	case *ssa.UnOp:
		if x.Op == token.MUL {
			if fa, ok := x.X.(*ssa.FieldAddr); ok {
				return fieldVar(fa.X.Type(), fa.Field)
			}
		}
	case *ssa.Field:
		return fieldVar(x.X.Type(), x.Field)
	case *ssa.Call:
		if f := x.Call.StaticCallee(); f != nil && f.Signature.Recv() != nil && strings.HasPrefix(f.Name(), "Get") {
			return getterField(f)
		}
	}
	return nil
}

// getterField maps a protobuf-generated getter (*T).GetF to field F of T.
func getterField(f *ssa.Function) *types.Var {
	recv := f.Signature.Recv()
	if recv == nil {
		return nil
	}
	t := recv.Type()
	if p, ok := t.(*types.Pointer); ok {
		t = p.Elem()
	}
	st, ok := t.Underlying().(*types.Struct)
	if !ok {
		return nil
	}
	want := strings.TrimPrefix(f.Name(), "Get")
	for i := 0; i < st.NumFields(); i++ {
		if st.Field(i).Name() == want {
			return st.Field(i)
		}
	}
	return nil
}

func constInt(v ssa.Value) (int64, bool) {
	c, ok := strip(v).(*ssa.Const)
	if !ok || c.Value == nil || c.Value.Kind() != constant.Int {
		return 0, false
	}
	return c.Int64(), true
}

func constBool(v ssa.Value) (bool, bool) {
	c, ok := strip(v).(*ssa.Const)
	if !ok || c.Value == nil || c.Value.Kind() != constant.Bool {
		return false, false
	}
	return constant.BoolVal(c.Value), true
}

func constString(v ssa.Value) (string, bool) {
	c, ok := strip(v).(*ssa.Const)
	if !ok || c.Value == nil || c.Value.Kind() != constant.String {
		return "", false
	}
	return constant.StringVal(c.Value), true
}

func isNilConst(v ssa.Value) bool {
	c, ok := strip(v).(*ssa.Const)
	return ok && c.Value == nil
}

// ---------- functions and closures ----------

// withClosures returns fn and all functions nested in it.
func withClosures(fn *ssa.Function) []*ssa.Function {
	out := []*ssa.Function{fn}
	for _, a := range fn.AnonFuncs {
		out = append(out, withClosures(a)...)
	}
	return out
}

func eachInstr(fn *ssa.Function, f func(ssa.Instruction)) {
	for _, b := range fn.Blocks {
		for _, in := range b.Instrs {
			f(in)
		}
	}
}

// callCommon returns the CallCommon of a call/go/defer instruction.
func callCommon(in ssa.Instruction) *ssa.CallCommon {
	if c, ok := in.(ssa.CallInstruction); ok {
		return c.Common()
	}
	return nil
}

// calleeObj returns the types.Func a call statically denotes (function,
// method — also interface method for invoke-mode calls).
func calleeObj(c *ssa.CallCommon) *types.Func {
	if c == nil {
		return nil
	}
	if c.IsInvoke() {
		return c.Method
	}
	switch f := c.Value.(type) {
	case *ssa.Function:
		return funcObj(f)
	case *ssa.MakeClosure:
		if fn, ok := f.Fn.(*ssa.Function); ok {
			return funcObj(fn)
		}
	}
	return nil
}

func funcObj(f *ssa.Function) *types.Func {
	if f == nil {
		return nil
	}
	if o := f.Origin(); o != nil {
		f = o
	}
	obj, _ := f.Object().(*types.Func)
	return obj
}

// isCallToNamed reports whether c calls the function/method pkgPath.(recv.)name,
// resolved through types (pkgPath is a full import path).
func isCallToNamed(c *ssa.CallCommon, pkgPath, recv, name string) bool {
	obj := calleeObj(c)
	return objIs(obj, pkgPath, recv, name)
}

func objIs(obj *types.Func, pkgPath, recv, name string) bool {
	if obj == nil || obj.Name() != name || obj.Pkg() == nil || obj.Pkg().Path() != pkgPath {
		return false
	}
	sig := obj.Type().(*types.Signature)
	if recv == "" {
		return sig.Recv() == nil
	}
	if sig.Recv() == nil {
		return false
	}
	t := sig.Recv().Type()
	if p, ok := t.(*types.Pointer); ok {
		t = p.Elem()
	}
	if n, ok := t.(*types.Named); ok {
		return n.Obj().Name() == recv
	}
	return false
}

// callsTo lists the call instructions (call, go, defer) in fn (optionally
// including closures) whose callee is obj.
func callsTo(fn *ssa.Function, obj *types.Func, closures bool) []ssa.Instruction {
	var out []ssa.Instruction
	fns := []*ssa.Function{fn}
	if closures {
		fns = withClosures(fn)
	}
	for _, f := range fns {
		eachInstr(f, func(in ssa.Instruction) {
			if c := callCommon(in); c != nil && obj != nil && calleeObj(c) == obj {
				out = append(out, in)
			}
		})
	}
	return out
}

// ---------- A-DOM: edge dominance and branch facts ----------

// edgeDominates reports whether every path from fn's entry to target passes
// the CFG edge from -> from.Succs[succ].
func edgeDominates(from *ssa.BasicBlock, succ int, target *ssa.BasicBlock) bool {
	fn := from.Parent()
	entry := fn.Blocks[0]
	if len(from.Succs) == 2 && from.Succs[0] == from.Succs[1] {
		return false
	}
	seen := map[*ssa.BasicBlock]bool{entry: true}
	work := []*ssa.BasicBlock{entry}
	if entry == target {
		return false
	}
	for len(work) > 0 {
		b := work[len(work)-1]
		work = work[:len(work)-1]
		for i, s := range b.Succs {
			if b == from && i == succ {
				continue
			}
			if s == target {
				return false
			}
			if !seen[s] {
				seen[s] = true
				work = append(work, s)
			}
		}
	}
	// target must be reachable at all (through the edge)
	return reachable(from.Succs[succ], target)
}

func reachable(from, to *ssa.BasicBlock) bool {
	if from == to {
		return true
	}
	seen := map[*ssa.BasicBlock]bool{from: true}
	work := []*ssa.BasicBlock{from}
	for len(work) > 0 {
		b := work[len(work)-1]
		work = work[:len(work)-1]
		for _, s := range b.Succs {
			if s == to {
				return true
			}
			if !seen[s] {
				seen[s] = true
				work = append(work, s)
			}
		}
	}
	return false
}

// Fact is a branch outcome known to hold on entry to a block.
type Fact struct {
	If   *ssa.If
	Cond ssa.Value
	True bool // the edge taken
}

// factsAt returns every (branch, edge) that dominates block b.
func factsAt(b *ssa.BasicBlock) []Fact {
	var out []Fact
	for _, blk := range b.Parent().Blocks {
		if len(blk.Instrs) == 0 {
			continue
		}
		iff, ok := blk.Instrs[len(blk.Instrs)-1].(*ssa.If)
		if !ok {
			continue
		}
		for i := 0; i < 2; i++ {
			if edgeDominates(blk, i, b) {
				out = append(out, Fact{If: iff, Cond: iff.Cond, True: i == 0})
			}
		}
	}
	return out
}

// Atom is a normalised comparison / predicate with polarity folded in.
type Atom struct {
	Op   token.Token // EQL NEQ LSS LEQ GTR GEQ, or ILLEGAL for a boolean value/call
	X, Y ssa.Value   // operands (Y nil for boolean values)
	Neg  bool        // for Op==ILLEGAL: the boolean value X is false
}

func (a Atom) String() string {
	if a.Op == token.ILLEGAL {
		if a.Neg {
			return "!" + path(a.X)
		}
		return path(a.X)
	}
	return path(a.X) + " " + a.Op.String() + " " + path(a.Y)
}

var negOp = map[token.Token]token.Token{token.EQL: token.NEQ, token.NEQ: token.EQL, token.LSS: token.GEQ, token.GEQ: token.LSS, token.GTR: token.LEQ, token.LEQ: token.GTR}

// atomOf normalises "cond is <truth>" into an atom.
func atomOf(cond ssa.Value, truth bool) Atom {
	for {
		if u, ok := cond.(*ssa.UnOp); ok && u.Op == token.NOT {
			cond = u.X
			truth = !truth
			continue
		}
		break
	}
	if b, ok := cond.(*ssa.BinOp); ok {
		if _, isCmp := negOp[b.Op]; isCmp {
			op := b.Op
			if !truth {
				op = negOp[op]
			}
			return Atom{Op: op, X: b.X, Y: b.Y}
		}
	}
	return Atom{Op: token.ILLEGAL, X: cond, Neg: !truth}
}

// atomsAt returns the normalised facts holding on entry to b.
func atomsAt(b *ssa.BasicBlock) []Atom {
	var out []Atom
	for _, f := range factsAt(b) {
		out = append(out, atomOf(f.Cond, f.True))
	}
	return out
}

func atomsString(as []Atom) string {
	s := make([]string, len(as))
	for i, a := range as {
		s[i] = a.String()
	}
	return strings.Join(s, " ∧ ")
}

// hasAtom reports whether some fact satisfies pred.
func hasAtom(as []Atom, pred func(Atom) bool) bool {
	for _, a := range as {
		if pred(a) {
			return true
		}
	}
	return false
}

// ---------- A-PATH: must-pass-through ----------

type instrPred func(ssa.Instruction) bool

// mustPass: on every path from (just after) instruction `from` to a normal
// return of its function, some instruction satisfying target occurs. A
// matching `defer` counts from its registration point. Paths ending in panic
// are exempt. Returns ok and, if not ok, the offending exit.
func mustPass(from ssa.Instruction, target instrPred) (bool, ssa.Instruction) {
	b := from.Block()
	idx := -1
	for i, in := range b.Instrs {
		if in == from {
			idx = i
		}
	}
	return mustPassFrom(b, idx+1, target)
}

// mustPassFrom starts at b.Instrs[start]. Branches whose condition is an SSA
// value already decided by a branch edge dominating the start are followed
// only along the consistent edge. A fact is dropped as soon as the traversal
// re-enters the block defining its condition (the value is then recomputed,
// e.g. in the next loop iteration), which keeps the pruning sound.
func mustPassFrom(b *ssa.BasicBlock, start int, target instrPred) (bool, ssa.Instruction) {
	type fact struct {
		cond  ssa.Value
		truth bool
		def   *ssa.BasicBlock
	}
	var facts []fact
	for _, f := range factsAt(b) {
		c, t := f.Cond, f.True
		for {
			if u, ok := c.(*ssa.UnOp); ok && u.Op == token.NOT {
				c, t = u.X, !t
				continue
			}
			break
		}
		var def *ssa.BasicBlock
		if in, ok := c.(ssa.Instruction); ok {
			def = in.Block()
		}
		if len(facts) < 30 {
			facts = append(facts, fact{c, t, def})
		}
	}
	succs := func(blk *ssa.BasicBlock, mask uint32) []*ssa.BasicBlock {
		if len(blk.Instrs) > 0 {
			if iff, ok := blk.Instrs[len(blk.Instrs)-1].(*ssa.If); ok {
				c, flip := iff.Cond, false
				for {
					if u, ok := c.(*ssa.UnOp); ok && u.Op == token.NOT {
						c, flip = u.X, !flip
						continue
					}
					break
				}
				for i, f := range facts {
					if mask&(1<<uint(i)) != 0 && f.cond == c {
						if f.truth != flip {
							return blk.Succs[:1]
						}
						return blk.Succs[1:2]
					}
				}
			}
		}
		return blk.Succs
	}
	enter := func(blk *ssa.BasicBlock, mask uint32) uint32 {
		for i, f := range facts {
			if f.def == blk {
				mask &^= 1 << uint(i)
			}
		}
		return mask
	}
	// scan remainder of start block
	for _, in := range b.Instrs[start:] {
		if target(in) {
			return true, nil
		}
		if _, ok := in.(*ssa.Return); ok {
			return false, in
		}
	}
	type st struct {
		b *ssa.BasicBlock
		m uint32
	}
	seen := map[st]bool{}
	var bad ssa.Instruction
	var visit func(blk *ssa.BasicBlock, mask uint32) bool
	visit = func(blk *ssa.BasicBlock, mask uint32) bool {
		mask = enter(blk, mask)
		if seen[st{blk, mask}] {
			return true
		}
		seen[st{blk, mask}] = true
		for _, in := range blk.Instrs {
			if target(in) {
				return true
			}
			if _, ok := in.(*ssa.Return); ok {
				bad = in
				return false
			}
		}
		for _, s := range succs(blk, mask) {
			if !visit(s, mask) {
				return false
			}
		}
		return true
	}
	full := uint32(1)<<uint(len(facts)) - 1
	for _, s := range succs(b, full) {
		if !visit(s, full) {
			return false, bad
		}
	}
	return true, nil
}

// entryMustPass: every path from function entry to a normal return passes target.
func entryMustPass(fn *ssa.Function, target instrPred) (bool, ssa.Instruction) {
	if len(fn.Blocks) == 0 {
		return false, nil
	}
	return mustPassFrom(fn.Blocks[0], 0, target)
}

// precededBy: within one function, on every path from entry that reaches y an
// instruction satisfying x has been executed before (A-ORDER). If the plain
// graph argument fails, a branch fact (c, truth) holding at y is used: every
// execution reaching y has a last evaluation of c; from there to y the
// branches on c agree with the fact, so it suffices that x lies on every such
// consistent segment.
func precededBy(y ssa.Instruction, x instrPred) bool {
	b := y.Block()
	for _, in := range b.Instrs {
		if in == y {
			break
		}
		if x(in) {
			return true
		}
	}
	fn := b.Parent()
	has := func(blk *ssa.BasicBlock) bool {
		for _, in := range blk.Instrs {
			if x(in) {
				return true
			}
		}
		return false
	}
	// search: can target block b be reached from `from` (exclusive of from's own
	// instructions) without passing a block containing x, never entering
	// `avoid`, and following only consistent edges of branches on cond?
	search := func(from *ssa.BasicBlock, avoid *ssa.BasicBlock, cond ssa.Value, truth bool) bool {
		succs := func(blk *ssa.BasicBlock) []*ssa.BasicBlock {
			if cond != nil && len(blk.Instrs) > 0 {
				if iff, ok := blk.Instrs[len(blk.Instrs)-1].(*ssa.If); ok {
					c, flip := iff.Cond, false
					for {
						if u, ok := c.(*ssa.UnOp); ok && u.Op == token.NOT {
							c, flip = u.X, !flip
							continue
						}
						break
					}
					if c == cond {
						if truth != flip {
							return blk.Succs[:1]
						}
						return blk.Succs[1:2]
					}
				}
			}
			return blk.Succs
		}
		seen := map[*ssa.BasicBlock]bool{from: true}
		work := []*ssa.BasicBlock{from}
		for len(work) > 0 {
			blk := work[len(work)-1]
			work = work[:len(work)-1]
			for _, s := range succs(blk) {
				if s == b {
					return true
				}
				if seen[s] || s == avoid || has(s) {
					continue
				}
				seen[s] = true
				work = append(work, s)
			}
		}
		return false
	}
	entry := fn.Blocks[0]
	if entry == b {
		return false
	}
	if has(entry) {
		return true
	}
	if !search(entry, nil, nil, false) {
		return true
	}
	for _, f := range factsAt(b) {
		c, t := f.Cond, f.True
		for {
			if u, ok := c.(*ssa.UnOp); ok && u.Op == token.NOT {
				c, t = u.X, !t
				continue
			}
			break
		}
		in, ok := c.(ssa.Instruction)
		if !ok {
			continue
		}
		d := in.Block()
		if d == b {
			continue
		}
		if has(d) {
			return true
		}
		if !search(d, d, c, t) {
			return true
		}
	}
	return false
}

// ---------- A-WHO: stores to fields ----------

// FieldStore is a write to a struct field anywhere in the program.
type FieldStore struct {
	Fn    *ssa.Function
	Instr ssa.Instruction
	Addr  *ssa.FieldAddr
	Val   ssa.Value
}

// storesToField finds every `x.f = v` (Store through a FieldAddr of f) in the
// given functions.
func storesToField(fns []*ssa.Function, f *types.Var) []FieldStore {
	var out []FieldStore
	for _, fn := range fns {
		eachInstr(fn, func(in ssa.Instruction) {
			st, ok := in.(*ssa.Store)
			if !ok {
				return
			}
			fa, ok := st.Addr.(*ssa.FieldAddr)
			if !ok {
				return
			}
			if fieldVar(fa.X.Type(), fa.Field) == f {
				out = append(out, FieldStore{fn, in, fa, st.Val})
			}
		})
	}
	return out
}

// methodCallsOnField finds calls of method `name` whose receiver is (the
// address of) field f, e.g. x.f.Store(v) for an atomic.Bool field.
func methodCallsOnField(fns []*ssa.Function, f *types.Var, name string) []ssa.Instruction {
	var out []ssa.Instruction
	for _, fn := range fns {
		eachInstr(fn, func(in ssa.Instruction) {
			c := callCommon(in)
			if c == nil || c.IsInvoke() {
				return
			}
			callee := c.StaticCallee()
			if callee == nil || fnBase(callee) != name || len(c.Args) == 0 {
				return
			}
			if fa, ok := c.Args[0].(*ssa.FieldAddr); ok && fieldVar(fa.X.Type(), fa.Field) == f {
				out = append(out, in)
			}
		})
	}
	return out
}

// ---------- returned values (handles defer-spilled named results) ----------

// retVals returns the values that may be returned as result #idx by ret. If
// the function has named results spilled to allocs (because of a defer), the
// reaching stores to that alloc are followed backwards.
func retVals(ret *ssa.Return, idx int) []ssa.Value {
	if idx >= len(ret.Results) {
		return nil
	}
	v := ret.Results[idx]
	if u, ok := v.(*ssa.UnOp); ok && u.Op == token.MUL {
		if a, ok := u.X.(*ssa.Alloc); ok {
			return reachingStores(a, ret)
		}
	}
	if phi, ok := v.(*ssa.Phi); ok {
		var out []ssa.Value
		seen := map[*ssa.Phi]bool{}
		var walk func(p *ssa.Phi)
		walk = func(p *ssa.Phi) {
			if seen[p] {
				return
			}
			seen[p] = true
			for _, e := range p.Edges {
				if q, ok := e.(*ssa.Phi); ok {
					walk(q)
				} else {
					out = append(out, e)
				}
			}
		}
		walk(phi)
		return out
	}
	return []ssa.Value{v}
}

// reachingStores: values stored to alloc a that may reach instruction at.
// A path with no store yields the zero value, represented by nil.
func reachingStores(a *ssa.Alloc, at ssa.Instruction) []ssa.Value {
	var out []ssa.Value
	type key struct {
		b *ssa.BasicBlock
	}
	seen := map[*ssa.BasicBlock]bool{}
	var scan func(b *ssa.BasicBlock, from int)
	scan = func(b *ssa.BasicBlock, from int) {
		for i := from; i >= 0; i-- {
			if st, ok := b.Instrs[i].(*ssa.Store); ok && st.Addr == ssa.Value(a) {
				out = append(out, st.Val)
				return
			}
			if b.Instrs[i] == ssa.Instruction(a) {
				out = append(out, nil)
				return
			}
		}
		if len(b.Preds) == 0 {
			out = append(out, nil)
			return
		}
		for _, p := range b.Preds {
			if seen[p] {
				continue
			}
			seen[p] = true
			scan(p, len(p.Instrs)-1)
		}
	}
	b := at.Block()
	idx := len(b.Instrs) - 1
	for i, in := range b.Instrs {
		if in == at {
			idx = i - 1
		}
	}
	scan(b, idx)
	return out
}

// returnsOf lists the Return instructions of fn.
func returnsOf(fn *ssa.Function) []*ssa.Return {
	var out []*ssa.Return
	eachInstr(fn, func(in ssa.Instruction) {
		if r, ok := in.(*ssa.Return); ok && in.Block() != fn.Recover {
			out = append(out, r)
		}
	})
	return out
}

// canon strips conversions and resolves a load of a local variable cell to
// the unique value stored into it on all paths reaching the load (go/ssa
// keeps address-taken locals in memory).
func canon(v ssa.Value) ssa.Value {
	for i := 0; i < 8; i++ {
		v = strip(v)
		u, ok := v.(*ssa.UnOp)
		if !ok || u.Op != token.MUL {
			return v
		}
		a, ok := u.X.(*ssa.Alloc)
		if !ok {
			return v
		}
		vals := reachingStores(a, u)
		if len(vals) != 1 || vals[0] == nil {
			return v
		}
		v = vals[0]
	}
	return v
}

// isNilValue: constant nil (or the zero value of a spilled result = nil entry).
func isNilValue(v ssa.Value) bool {
	if v == nil {
		return true
	}
	return isNilConst(v)
}

// ---------- atom matchers ----------

// nilTestOn: atom compares a value satisfying sel with nil; returns (matched, isNil).
func nilTestOn(a Atom, sel func(ssa.Value) bool) (bool, bool) {
	if a.Op != token.EQL && a.Op != token.NEQ {
		return false, false
	}
	x, y := a.X, a.Y
	if isNilConst(x) {
		x, y = y, x
	}
	if !isNilConst(y) || !(sel(x) || sel(canon(x))) {
		return false, false
	}
	return true, a.Op == token.EQL
}

// boolTestOn: atom is the truth of a boolean value satisfying sel; returns (matched, value).
func boolTestOn(a Atom, sel func(ssa.Value) bool) (bool, bool) {
	if a.Op == token.ILLEGAL {
		if sel(a.X) || sel(canon(a.X)) {
			return true, !a.Neg
		}
		return false, false
	}
	if a.Op == token.EQL || a.Op == token.NEQ {
		x, y := a.X, a.Y
		if _, ok := constBool(x); ok {
			x, y = y, x
		}
		if c, ok := constBool(y); ok && (sel(x) || sel(canon(x))) {
			return true, (a.Op == token.EQL) == c
		}
	}
	return false, false
}

// commaOkOfLookupOn: v is the ok of `_, ok := m[k]` where m is loaded from field f.
func commaOkOfLookupOn(v ssa.Value, f *types.Var) bool {
	ex, ok := v.(*ssa.Extract)
	if !ok || ex.Index != 1 {
		return false
	}
	lk, ok := ex.Tuple.(*ssa.Lookup)
	if !ok || !lk.CommaOk {
		return false
	}
	return loadedField(lk.X) == f
}

// isLoadOfField: v is a load of field f (any base).
func isLoadOfField(f *types.Var) func(ssa.Value) bool {
	return func(v ssa.Value) bool { return f != nil && loadedField(v) == f }
}

// isCallResult: v is (an extract of) a call satisfying pr.
func isCallResult(pr func(*ssa.CallCommon) bool) func(ssa.Value) bool {
	return func(v ssa.Value) bool {
		v = strip(v)
		if ex, ok := v.(*ssa.Extract); ok {
			v = ex.Tuple
		}
		c, ok := v.(*ssa.Call)
		return ok && pr(&c.Call)
	}
}

// builtinCallsOn lists calls of builtin `name` whose first argument is loaded from field f.
func builtinCallsOn(fn *ssa.Function, name string, f *types.Var) []ssa.Instruction {
	var out []ssa.Instruction
	eachInstr(fn, func(in ssa.Instruction) {
		c := callCommon(in)
		if c == nil {
			return
		}
		if b, ok := c.Value.(*ssa.Builtin); ok && b.Name() == name && len(c.Args) > 0 && loadedField(c.Args[0]) == f {
			out = append(out, in)
		}
	})
	return out
}

// blockHasAtom: some fact at in's block satisfies pred.
func guardedBy(in ssa.Instruction, pred func(Atom) bool) bool {
	return hasAtom(atomsAt(in.Block()), pred)
}

// ---------- A-FLOW: dependence closure ----------

// dependenceClosure returns every SSA value the root is data- or
// control-dependent on within its function: operands transitively; for a phi
// also the branch conditions that select between its incoming edges; loads of
// local cells are followed to the stores reaching them.
func dependenceClosure(root ssa.Value) map[ssa.Value]bool {
	seen := map[ssa.Value]bool{}
	var visit func(v ssa.Value)
	visit = func(v ssa.Value) {
		if v == nil || seen[v] {
			return
		}
		seen[v] = true
		switch x := v.(type) {
		case *ssa.Phi:
			for i, e := range x.Edges {
				visit(e)
				pred := x.Block().Preds[i]
				for _, f := range factsAt(pred) {
					visit(f.Cond)
				}
				if len(pred.Instrs) > 0 {
					if iff, ok := pred.Instrs[len(pred.Instrs)-1].(*ssa.If); ok {
						visit(iff.Cond)
					}
				}
			}
			return
		case *ssa.UnOp:
			if a, ok := x.X.(*ssa.Alloc); ok && x.Op == token.MUL {
				for _, s := range reachingStores(a, x) {
					visit(s)
				}
			}
		}
		if in, ok := v.(ssa.Instruction); ok {
			for _, op := range in.Operands(nil) {
				if *op != nil {
					visit(*op)
				}
			}
		}
	}
	visit(root)
	return seen
}

// allPathsPassBetween: every path from the start of block `from` to block `to`
// (not through `to`) passes an instruction satisfying target.
func allPathsPassBetween(from, to *ssa.BasicBlock, target instrPred) bool {
	has := func(b *ssa.BasicBlock) bool {
		for _, in := range b.Instrs {
			if target(in) {
				return true
			}
		}
		return false
	}
	if from == to {
		return false
	}
	if has(from) {
		return true
	}
	seen := map[*ssa.BasicBlock]bool{from: true}
	work := []*ssa.BasicBlock{from}
	for len(work) > 0 {
		b := work[len(work)-1]
		work = work[:len(work)-1]
		for _, s := range b.Succs {
			if s == to {
				return false
			}
			if seen[s] || has(s) {
				continue
			}
			seen[s] = true
			work = append(work, s)
		}
	}
	return true
}

// counterPhis finds loop counters of fn: int phis with an incoming edge phi+1.
// Returns phi -> increment instructions.
func counterPhis(fn *ssa.Function) map[*ssa.Phi][]*ssa.BinOp {
	out := map[*ssa.Phi][]*ssa.BinOp{}
	eachInstr(fn, func(in ssa.Instruction) {
		bo, ok := in.(*ssa.BinOp)
		if !ok || bo.Op != token.ADD {
			return
		}
		if c, isC := constInt(bo.Y); !isC || c != 1 {
			return
		}
		// bo.X is the phi or a phi of phis leading back to the loop-header phi
		root := loopHeaderPhi(bo.X, 0)
		if root == nil {
			return
		}
		if flowsBackTo(bo, root, 0, map[ssa.Value]bool{}) {
			out[root] = append(out[root], bo)
		}
	})
	return out
}

func loopHeaderPhi(v ssa.Value, d int) *ssa.Phi {
	phi, ok := v.(*ssa.Phi)
	if !ok || d > 4 {
		return nil
	}
	return phi
}

func flowsBackTo(v ssa.Value, root *ssa.Phi, d int, seen map[ssa.Value]bool) bool {
	if d > 8 || seen[v] {
		return false
	}
	seen[v] = true
	refs := v.Referrers()
	if refs == nil {
		return false
	}
	for _, ref := range *refs {
		if phi, ok := ref.(*ssa.Phi); ok {
			if phi == root {
				return true
			}
			if flowsBackTo(phi, root, d+1, seen) {
				return true
			}
		}
	}
	return false
}

// ---------- phi leaves with path facts ----------

type phiLeaf struct {
	Val   ssa.Value
	Facts []Atom
}

// edgeAtoms: facts holding when control flows from pred to succ.
func edgeAtoms(pred, succ *ssa.BasicBlock) []Atom {
	as := append([]Atom{}, atomsAt(pred)...)
	if len(pred.Instrs) > 0 {
		if iff, ok := pred.Instrs[len(pred.Instrs)-1].(*ssa.If); ok && len(pred.Succs) == 2 && pred.Succs[0] != pred.Succs[1] {
			if pred.Succs[0] == succ {
				as = append(as, atomOf(iff.Cond, true))
			} else if pred.Succs[1] == succ {
				as = append(as, atomOf(iff.Cond, false))
			}
		}
	}
	return as
}

// phiLeaves flattens a tree of phis into its non-phi leaves, each with the
// facts that hold along the incoming edges that select it.
func phiLeaves(v ssa.Value) []phiLeaf {
	return phiLeavesD(v, nil, 0, map[*ssa.Phi]bool{})
}

func phiLeavesD(v ssa.Value, facts []Atom, d int, seen map[*ssa.Phi]bool) []phiLeaf {
	phi, ok := v.(*ssa.Phi)
	if !ok || d > 6 || seen[phi] {
		return []phiLeaf{{v, facts}}
	}
	seen[phi] = true
	var out []phiLeaf
	for i, e := range phi.Edges {
		f := append(append([]Atom{}, facts...), edgeAtoms(phi.Block().Preds[i], phi.Block())...)
		out = append(out, phiLeavesD(e, f, d+1, seen)...)
	}
	delete(seen, phi)
	return out
}

// fnBase: function name without the type arguments of a generic instantiation.
func fnBase(f *ssa.Function) string {
	n := f.Name()
	if i := strings.IndexByte(n, '['); i > 0 {
		n = n[:i]
	}
	return n
}

// intBits: width of int/uint/uintptr in the configuration under analysis.
var intBits = 64

// valuePreservingConvert: integer-to-integer conversions are stripped by
// strip()/canon() only when every value keeps its numeric value (widening, or
// same width and same signedness). int32(x uint32), int(x uint64), uint8(x int)
// are NOT value-preserving: they are kept as opaque values. Conversions that
// do not involve two integer types (string/[]byte, named types, floats) are
// identities for the purposes of the rules and are stripped as before.
func valuePreservingConvert(c *ssa.Convert) bool {
	from, ok1 := c.X.Type().Underlying().(*types.Basic)
	to, ok2 := c.Type().Underlying().(*types.Basic)
	if !ok1 || !ok2 || from.Info()&types.IsInteger == 0 || to.Info()&types.IsInteger == 0 {
		return true
	}
	width := func(b *types.Basic) int {
		switch b.Kind() {
		case types.Int8, types.Uint8:
			return 8
		case types.Int16, types.Uint16:
			return 16
		case types.Int32, types.Uint32:
			return 32
		case types.Int64, types.Uint64:
			return 64
		case types.UntypedInt, types.UntypedRune:
			return 64
		}
		return intBits
	}
	fu, tu := from.Info()&types.IsUnsigned != 0, to.Info()&types.IsUnsigned != 0
	fw, tw := width(from), width(to)
	switch {
	case fu == tu:
		return tw >= fw
	case fu && !tu:
		return tw > fw
	default: // signed to unsigned: negative values change
		return false
	}
}

// stripAllConv removes every conversion, including narrowing integer ones
// (for rules that identify WHICH value is used, not its numeric range).
func stripAllConv(v ssa.Value) ssa.Value {
	for {
		v = canon(v)
		c, ok := v.(*ssa.Convert)
		if !ok {
			return v
		}
		v = c.X
	}
}
