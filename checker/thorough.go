package main

import (
	"bytes"
	"encoding/json"
	"fmt"
	"os"
	"os/exec"
	"path/filepath"
	"sort"
	"strings"
	"sync"
)

// Mutant is a witness mutant: a small source edit that breaks exactly one
// obligation family. It is applied in memory (go/packages overlay) in the
// thorough tier to validate the checker itself; it never decides a property.
// The edit is located by a snippet that must occur exactly once in the file;
// if the tree under analysis no longer contains it the witness is recorded
// not_applicable and does not affect the verdict.
type Mutant struct {
	ID     string
	Prop   string
	File   string // relative to repo root
	Old    string
	New    string
	Expect []string // obligation keys (without property prefix); one of them must be reported
	Note   string
	Patch  string // alternatively: a unified diff (absolute path) applied in memory instead of Old/New
}

var mutants []Mutant

func addMutants(ms ...Mutant) { mutants = append(mutants, ms...) }

func buildMutantOverlay(repo, id string) (map[string][]byte, string) {
	for _, m := range mutants {
		if m.ID != id {
			continue
		}
		if m.Patch != "" {
			return applyPatchOverlay(repo, m.Patch)
		}
		path := filepath.Join(repo, m.File)
		src, err := os.ReadFile(path)
		if err != nil {
			return nil, "not_applicable: cannot read " + m.File
		}
		if n := bytes.Count(src, []byte(m.Old)); n != 1 {
			return nil, fmt.Sprintf("not_applicable: anchor snippet occurs %d times in %s", n, m.File)
		}
		out := bytes.Replace(src, []byte(m.Old), []byte(m.New), 1)
		return map[string][]byte{path: out}, "applied"
	}
	return nil, "not_applicable: unknown mutant"
}

type subResult struct {
	MutantStatus string       `json:"mutant_status"`
	Error        string       `json:"error"`
	Obligations  []Obligation `json:"obligations"`
	Sites        int          `json:"sites"`
}

func runSubprocess(prop, repo string, args ...string) (subResult, error) {
	exe, err := os.Executable()
	if err != nil {
		return subResult{}, err
	}
	cmd := exec.Command(exe, append([]string{"-prop", prop, "-tier", "sub", "-repo", repo, "-verif", verifDir}, args...)...)
	var stdout, stderr bytes.Buffer
	cmd.Stdout = &stdout
	cmd.Stderr = &stderr
	if err := cmd.Run(); err != nil {
		return subResult{}, fmt.Errorf("%v: %s", err, stderr.String())
	}
	var res subResult
	lines := strings.Split(strings.TrimSpace(stdout.String()), "\n")
	if err := json.Unmarshal([]byte(lines[len(lines)-1]), &res); err != nil {
		return subResult{}, fmt.Errorf("bad sub output: %v", err)
	}
	return res, nil
}

// buildMatrix: the configurations the project releases (.goreleaser.yml: linux,
// darwin, windows × amd64, arm64), sampled so that every OS-specific file and
// both architectures are covered. All are 64-bit: "int is 64 bits wide" is an
// assumption of the panic audits (a 32-bit build would turn int(uint32) and
// int(int64) conversions into possibly negative values; it is not a released
// target).
var buildMatrix = [][2]string{{"linux", "amd64"}, {"linux", "arm64"}, {"darwin", "arm64"}, {"windows", "amd64"}}

// runThorough: (a) same obligations under every build configuration of the
// matrix; (b) witness mutants through overlays; returns extra evidence keys,
// extra violations and checker-broken messages.
func runThorough(meta *propMeta, base *Report, repo, verif string) (map[string]any, []Obligation, []string) {
	type job struct {
		kind string
		cfg  [2]string
		mut  Mutant
	}
	var jobs []job
	for _, c := range buildMatrix {
		jobs = append(jobs, job{kind: "config", cfg: c})
	}
	for _, m := range mutants {
		if m.Prop == meta.ID {
			jobs = append(jobs, job{kind: "mutant", mut: m})
		}
	}
	type outT struct {
		j   job
		res subResult
		err error
	}
	outs := make([]outT, len(jobs))
	sem := make(chan struct{}, 8)
	var wg sync.WaitGroup
	for i, j := range jobs {
		wg.Add(1)
		go func(i int, j job) {
			defer wg.Done()
			sem <- struct{}{}
			defer func() { <-sem }()
			var res subResult
			var err error
			if j.kind == "config" {
				res, err = runSubprocess(meta.ID, repo, "-goos", j.cfg[0], "-goarch", j.cfg[1])
			} else {
				res, err = runSubprocess(meta.ID, repo, "-mutant", j.mut.ID)
			}
			outs[i] = outT{j, res, err}
		}(i, j)
	}
	wg.Wait()

	var extra []Obligation
	var broken []string
	configs := []string{"default(host)"}
	applied, detected, na := 0, 0, 0
	var mutSamples []map[string]string
	for _, o := range outs {
		switch o.j.kind {
		case "config":
			name := o.j.cfg[0] + "/" + o.j.cfg[1]
			if o.err != nil || o.res.Error != "" {
				msg := o.res.Error
				if o.err != nil {
					msg = o.err.Error()
				}
				extra = append(extra, Obligation{Key: "config." + name, Rule: "build-matrix", Status: "undecided", Pos: "-", Detail: "UNDECIDED: configuration " + name + " could not be analysed: " + msg})
				continue
			}
			configs = append(configs, name)
			for _, ob := range o.res.Obligations {
				if ob.Status != "discharged" {
					ob.Key = strings.TrimPrefix(ob.Key, meta.ID+".")
					ob.Detail = "[" + name + "] " + ob.Detail
					extra = append(extra, ob)
				}
			}
		case "mutant":
			m := o.j.mut
			if o.err != nil {
				broken = append(broken, fmt.Sprintf("witness %s: subprocess failed: %v", m.ID, o.err))
				continue
			}
			if !strings.HasPrefix(o.res.MutantStatus, "applied") {
				na++
				mutSamples = append(mutSamples, map[string]string{"mutant": m.ID, "status": o.res.MutantStatus})
				continue
			}
			if o.res.Error != "" {
				if strings.Contains(o.res.Error, "type-check/load errors") {
					na++
					mutSamples = append(mutSamples, map[string]string{"mutant": m.ID, "status": "not_applicable: variant does not type-check"})
					continue
				}
				broken = append(broken, fmt.Sprintf("witness %s: checker failed on the variant: %s", m.ID, firstLine(o.res.Error)))
				continue
			}
			applied++
			hit := ""
			for _, ob := range o.res.Obligations {
				if ob.Status == "discharged" {
					continue
				}
				for _, e := range m.Expect {
					if ob.Key == meta.ID+"."+e || strings.HasPrefix(ob.Key, meta.ID+"."+e) {
						hit = ob.Key
					}
				}
			}
			if hit != "" {
				detected++
				mutSamples = append(mutSamples, map[string]string{"mutant": m.ID, "status": "detected", "by": hit, "edit": m.Note})
			} else {
				var got []string
				for _, ob := range o.res.Obligations {
					if ob.Status != "discharged" {
						got = append(got, ob.Key)
					}
				}
				broken = append(broken, fmt.Sprintf("witness %s (%s) applied to %s but none of %v was reported (reported: %v)", m.ID, m.Note, m.File, m.Expect, got))
			}
		}
	}
	sort.Slice(mutSamples, func(i, j int) bool { return mutSamples[i]["mutant"] < mutSamples[j]["mutant"] })
	th := map[string]any{
		"build_configs":                  configs,
		"witness_mutants_applied":        applied,
		"witness_mutants_detected":       detected,
		"witness_mutants_not_applicable": na,
		"witness_mutants":                mutSamples,
	}
	return th, extra, broken
}

func firstLine(s string) string {
	if i := strings.IndexByte(s, '\n'); i >= 0 {
		return s[:i]
	}
	return s
}

// verifDir is the verification directory (set from the -verif flag).
var verifDir = "/verif"

// loadSeedMutants registers every kept seeded change (seeded/<id>/patch.diff)
// as a witness mutant of its property; the obligations that must report it are
// frozen in seeded/EXPECT.json (written when the seed was first reported).
func loadSeedMutants(verif string) {
	verifDir = verif
	b, err := os.ReadFile(filepath.Join(verif, "seeded", "EXPECT.json"))
	if err != nil {
		return
	}
	var exp map[string]struct {
		Prop   string   `json:"prop"`
		Expect []string `json:"expect"`
		Note   string   `json:"note"`
	}
	if json.Unmarshal(b, &exp) != nil {
		return
	}
	ids := make([]string, 0, len(exp))
	for id := range exp {
		ids = append(ids, id)
	}
	sort.Strings(ids)
	for _, id := range ids {
		e := exp[id]
		patch := filepath.Join(verif, "seeded", id, "patch.diff")
		if _, err := os.Stat(patch); err != nil {
			continue
		}
		mutants = append(mutants, Mutant{ID: "seed-" + id, Prop: e.Prop, File: "seeded/" + id + "/patch.diff", Expect: e.Expect, Note: "independent seeded change " + id + ": " + e.Note, Patch: patch})
	}
}

// applyPatchOverlay applies a unified diff (as written by `git diff`) to the
// files of the repository in memory. Every hunk's old text must occur exactly
// once in its file.
func applyPatchOverlay(repo, patch string) (map[string][]byte, string) {
	b, err := os.ReadFile(patch)
	if err != nil {
		return nil, "not_applicable: cannot read " + patch
	}
	overlay := map[string][]byte{}
	var file string
	var oldL, newL []string
	inHunk := false
	flush := func() string {
		if !inHunk || file == "" {
			return ""
		}
		inHunk = false
		path := filepath.Join(repo, file)
		src, ok := overlay[path]
		if !ok {
			var err error
			src, err = os.ReadFile(path)
			if err != nil {
				return "not_applicable: cannot read " + file
			}
		}
		o, n := strings.Join(oldL, "\n")+"\n", strings.Join(newL, "\n")+"\n"
		if len(newL) == 0 {
			n = ""
		}
		if c := bytes.Count(src, []byte(o)); c != 1 {
			return fmt.Sprintf("not_applicable: hunk context occurs %d times in %s", c, file)
		}
		overlay[path] = bytes.Replace(src, []byte(o), []byte(n), 1)
		oldL, newL = nil, nil
		return ""
	}
	for _, line := range strings.Split(strings.TrimRight(string(b), "\n"), "\n") {
		switch {
		case strings.HasPrefix(line, "diff --git "):
			if msg := flush(); msg != "" {
				return nil, msg
			}
			file = ""
		case strings.HasPrefix(line, "+++ b/"):
			file = strings.TrimPrefix(line, "+++ b/")
		case strings.HasPrefix(line, "--- ") || strings.HasPrefix(line, "index ") || strings.HasPrefix(line, "new file") || strings.HasPrefix(line, "\\ No newline"):
		case strings.HasPrefix(line, "@@"):
			if msg := flush(); msg != "" {
				return nil, msg
			}
			inHunk = true
		case inHunk && strings.HasPrefix(line, "-"):
			oldL = append(oldL, line[1:])
		case inHunk && strings.HasPrefix(line, "+"):
			newL = append(newL, line[1:])
		case inHunk && (strings.HasPrefix(line, " ") || line == ""):
			t := strings.TrimPrefix(line, " ")
			oldL = append(oldL, t)
			newL = append(newL, t)
		}
	}
	if msg := flush(); msg != "" {
		return nil, msg
	}
	if len(overlay) == 0 {
		return nil, "not_applicable: empty patch"
	}
	return overlay, "applied"
}
