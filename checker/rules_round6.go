package main

// Rules added after the sixth round of independent seeded changes.

import (
	"fmt"
	"go/token"
	"go/types"
	"sort"
	"strings"

	"golang.org/x/tools/go/ssa"
)

var round6Rules = map[string][]func(*Prog, *Report){
	"C04": {flagsBoundOnceRule, startupResponseReadOnlyRule},
	"C05": {bothCredsSameIterationRule},
	"C07": {modeSelectionRule},
	"C10": {pendingFirstRule},
	"C11": {whenDoneUnconditionalRule},
	"C12": {checksSeeWireVersionRule, timeoutAlwaysStoredRule},
	"C13": {codeNamesExactRule},
	"C16": {terminalEventLastRule},
}

var round6Explain = map[string]string{
	"C04": "(flags.bound-once) every field of the command's flags struct is the destination of exactly one flag registration; (setup.response-readonly) the runner never writes into the start-up response it received from the server under test",
	"C05": "(tls.both-creds) the loop that creates credentials can create the server's and the client's in the same iteration",
	"C07": "(mode.selection) run() selects client mode exactly under (reference server ∧ ¬reference client) and server mode under (reference client ∧ ¬reference server)",
	"C10": "(dispatch.pending-first) consumeOutput decides duplicate/unrecognised only after the pending-operations lookup failed",
	"C11": "(whendone.unconditional) both process implementations invoke the whenDone action on every path, whatever the result",
	"C12": "(version.checks-see-wire) referenceServerChecks wraps the handler that rewrites the protocol version (it sees the wire's version); (timeout.always-stored) contextWithTimeout stores every accepted timeout, zero included",
	"C13": "(code.exact-names) the Connect error code validator compares with the 16 canonical names and does not use the lenient Code.UnmarshalText",
	"C16": "(terminal-last) after the terminal ResponseBodyEnd event is added, the same invocation makes no further call into the tracer",
}

func init() {
	for id, extra := range round6Explain {
		m := registry[id]
		if m == nil {
			continue
		}
		if i := strings.Index(m.Explain, " It does NOT decide"); i >= 0 {
			m.Explain = strings.TrimRight(m.Explain[:i], ". ;") + "; " + extra + "." + m.Explain[i:]
		} else {
			m.Explain = strings.TrimRight(m.Explain, ". ") + "; " + extra + "."
		}
	}
}

// ---------- C04 ----------

// flagsBoundOnceRule: in cmd/connectconformance.bind every field of the flags
// struct is the destination (&flags.F) of exactly one pflag registration.
func flagsBoundOnceRule(p *Prog, r *Report) {
	fn := p.Func("cmd/connectconformance", "", "bind")
	ft := p.Named("cmd/connectconformance", "flags")
	if fn == nil || ft == nil {
		r.Undecided("flags.bound-once", "R-TABLE-AGREE", "cmd/connectconformance bind / flags not found")
		return
	}
	r.Func(funcName(fn))
	st, ok := ft.Underlying().(*types.Struct)
	if !ok {
		r.Undecided("flags.bound-once", "R-TABLE-AGREE", "flags is not a struct")
		return
	}
	count := map[string]int{}
	where := map[string][]string{}
	eachInstr(fn, func(in ssa.Instruction) {
		c := callCommon(in)
		if c == nil || c.StaticCallee() == nil || c.StaticCallee().Pkg == nil || !strings.HasSuffix(c.StaticCallee().Pkg.Pkg.Path(), "spf13/pflag") || !strings.Contains(c.StaticCallee().Name(), "Var") {
			return
		}
		for _, a := range c.Args {
			fa, ok := a.(*ssa.FieldAddr)
			if !ok {
				continue
			}
			bt := fa.X.Type()
			if pt, ok := bt.Underlying().(*types.Pointer); ok {
				bt = pt.Elem()
			}
			if bt != types.Type(ft) {
				continue
			}
			nm := fieldName(fa.X.Type(), fa.Field)
			count[nm]++
			flagName := "?"
			for _, b := range c.Args {
				if s, isS := constString(b); isS {
					flagName = "--" + s
					break
				}
			}
			where[nm] = append(where[nm], flagName+" at "+p.InstrPos(in))
		}
	})
	var bad []string
	for i := 0; i < st.NumFields(); i++ {
		nm := st.Field(i).Name()
		r.Sites++
		switch {
		case count[nm] == 0:
			bad = append(bad, "field "+nm+" is the destination of no flag")
		case count[nm] > 1:
			bad = append(bad, "field "+nm+" is the destination of "+strings.Join(where[nm], " and of "))
		}
	}
	r.Check(len(bad) == 0 && st.NumFields() >= 10, "flags.bound-once", "R-TABLE-AGREE", p.Pos(fn.Pos()), fmt.Sprintf("%d fields, each bound by exactly one registration", st.NumFields()),
		"bind does not wire flags and fields one to one: "+strings.Join(bad, "; ")+" — what the user passes with one flag is treated as the other (e.g. --known-failing cases are treated as flaky, so a known-failing case that passes no longer fails the run)")
}

// startupResponseReadOnlyRule: nothing in the runner stores into a field of the
// ServerCompatResponse read from the server under test: checks made on it
// (certificate present when TLS was requested) test what the server said.
func startupResponseReadOnlyRule(p *Prog, r *Report) {
	rt := p.Named(pkgGen, "ServerCompatResponse")
	if rt == nil {
		r.Undecided("setup.response-readonly", "A-WHO", "ServerCompatResponse not found")
		return
	}
	n := 0
	bad := ""
	pos := "-"
	for _, fn := range p.RepoFuncs() {
		if pkgOfFunc(fn) != ccPath {
			continue
		}
		eachInstr(fn, func(in ssa.Instruction) {
			fa, ok := in.(*ssa.FieldAddr)
			if !ok {
				return
			}
			bt := fa.X.Type()
			if pt, ok := bt.Underlying().(*types.Pointer); ok {
				bt = pt.Elem()
			}
			if bt != types.Type(rt) {
				return
			}
			n++
			if fa.Referrers() == nil {
				return
			}
			for _, ref := range *fa.Referrers() {
				if st, ok := ref.(*ssa.Store); ok && st.Addr == ssa.Value(fa) {
					bad += " " + shortFn(fn) + " assigns " + fieldName(fa.X.Type(), fa.Field) + " at " + p.InstrPos(st) + ";"
					pos = p.InstrPos(st)
				}
			}
		})
	}
	r.Sites += n
	if bad == "" {
		if fn := p.Func(pkgCC, "", "runTestCasesForServer"); fn != nil {
			pos = p.Pos(fn.Pos())
		}
	}
	r.Check(n >= 1 && bad == "", "setup.response-readonly", "A-WHO", pos, fmt.Sprintf("%d accesses of the start-up response's fields in the runner, all reads", n),
		"the runner writes into the start-up response of the server under test:"+bad+" the set-up checks that follow (a TLS configuration must be answered with a certificate) then test the runner's own value, so a server that failed to set up is not recorded as a set-up error")
}

// ---------- C05 ----------

// bothCredsSameIterationRule: in run(), the creation of client credentials is
// reachable from the creation of server credentials without going round the
// loop: a server instance that needs both gets both.
func bothCredsSameIterationRule(p *Prog, r *Report) {
	fn := p.Func(pkgCC, "", "run")
	if fn == nil {
		r.Undecided("tls.both-creds", "R-GUARD", "run not found")
		return
	}
	r.Func(funcName(fn))
	r.Sites++
	srv := findInstrs(fn, isCallNamed(internalPath, "", "NewServerCert"))
	cli := findInstrs(fn, isCallNamed(internalPath, "", "NewClientCert"))
	if len(srv) != 1 || len(cli) != 1 {
		r.Fail("tls.both-creds", "R-GUARD", p.Pos(fn.Pos()), "expected one NewServerCert and one NewClientCert call in run")
		return
	}
	// loop header: the block holding the range's Next
	var header *ssa.BasicBlock
	eachInstr(fn, func(in ssa.Instruction) {
		if nx, ok := in.(*ssa.Next); ok && reachable(srv[0].Block(), nx.Block()) && reachable(nx.Block(), srv[0].Block()) {
			header = nx.Block()
		}
	})
	ok := header != nil && reachableAvoiding(srv[0].Block(), cli[0].Block(), header)
	// and the client-credential branch is not conditional on the server-credential state
	bad := ""
	for _, a := range atomsAt(cli[0].Block()) {
		if k, _, isK := genericKey(a); isK && strings.HasSuffix(k, ".useTLS") {
			bad = " (the client-certificate branch is under " + a.String() + ")"
		}
	}
	r.Check(ok && bad == "", "tls.both-creds", "R-GUARD", p.InstrPos(cli[0]), "NewClientCert is reachable from NewServerCert within one iteration",
		"in run() the creation of client credentials cannot follow the creation of server credentials in the same loop iteration"+bad+": the iteration that sees the first TLS server instance creates only the server's; if that instance is the one with client certificates (and `break` relies on it) the client-certificate permutations run without client credentials")
}

// reachableAvoiding: is `to` reachable from `from` (by at least zero edges) without entering `avoid`?
func reachableAvoiding(from, to, avoid *ssa.BasicBlock) bool {
	seen := map[*ssa.BasicBlock]bool{from: true}
	work := []*ssa.BasicBlock{from}
	for len(work) > 0 {
		b := work[len(work)-1]
		work = work[:len(work)-1]
		if b == to {
			return true
		}
		for _, s := range b.Succs {
			if s != avoid && !seen[s] {
				seen[s] = true
				work = append(work, s)
			}
		}
	}
	return false
}

// ---------- C07 ----------

// modeSelectionRule: the mode handed to newTestCaseLibrary is CLIENT only on
// paths with (no server command ∧ a client command) and SERVER only on paths
// with (no client command ∧ a server command).
func modeSelectionRule(p *Prog, r *Report) {
	fn := p.Func(pkgCC, "", "run")
	if fn == nil {
		r.Undecided("mode.selection", "R-GUARD", "run not found")
		return
	}
	r.Func(funcName(fn))
	calls := findInstrs(fn, func(in ssa.Instruction) bool {
		c := callCommon(in)
		return c != nil && c.StaticCallee() != nil && c.StaticCallee().Name() == "newTestCaseLibrary"
	})
	if len(calls) != 1 {
		r.Fail("mode.selection", "R-GUARD", p.Pos(fn.Pos()), "expected one newTestCaseLibrary call in run")
		return
	}
	c := callCommon(calls[0])
	client, server := enumVal(p, "TestSuite_TEST_MODE_CLIENT"), enumVal(p, "TestSuite_TEST_MODE_SERVER")
	const kc, ks = "len(Flags.ClientCommand)==0", "len(Flags.ServerCommand)==0"
	seen := map[int64]bool{}
	bad := ""
	leaves := phiLeaves(canon(c.Args[len(c.Args)-1]))
	for _, l := range leaves {
		if k, isK := constInt(l.Val); isK {
			seen[k] = true
		} else {
			bad += " the mode is not a constant on some path (" + path(l.Val) + ");"
		}
	}
	e := &boolEval{key: genericKey}
	name := func(k int64) string {
		switch k {
		case client:
			return "TEST_MODE_CLIENT"
		case server:
			return "TEST_MODE_SERVER"
		}
		return "TEST_MODE_UNSPECIFIED"
	}
	for _, refClient := range []bool{false, true} {
		for _, refServer := range []bool{false, true} {
			s := sigma{kc: refClient, ks: refServer}
			want := int64(0)
			switch {
			case refServer && !refClient:
				want = client
			case refClient && !refServer:
				want = server
			}
			r.Sites++
			for _, l := range leaves {
				k, isK := constInt(l.Val)
				if !isK {
					continue
				}
				active := true
				for _, f := range l.Facts {
					if key, neg, ok := genericKey(f); ok {
						if v, has := s[key]; has && v == neg {
							active = false
						}
					} else if f.Op == token.ILLEGAL {
						if v, known := e.evalCond(f.X, s, 0); known && v == f.Neg {
							active = false
						}
					}
				}
				if active && k != want {
					bad += fmt.Sprintf(" with reference client=%v and reference server=%v the mode can be %s (expected %s);", refClient, refServer, name(k), name(want))
				}
			}
		}
	}
	r.Check(bad == "" && seen[client] && seen[server] && len(seen) == 3, "mode.selection", "R-GUARD", p.InstrPos(calls[0]), "CLIENT ⇐ refServer ∧ ¬refClient, SERVER ⇐ refClient ∧ ¬refServer, otherwise UNSPECIFIED",
		"run() does not select the suite mode from the two commands as documented:"+bad+" with both a client and a server under test the library then admits mode-specific suites, so permutations exist that the run mode does not admit")
}

// ---------- C10 ----------

// pendingFirstRule: every verdict consumeOutput constructs itself (fmt.Errorf:
// duplicate / unrecognised response) is on the not-found edge of the lookup
// in pendingOps.
func pendingFirstRule(p *Prog, r *Report) {
	fn := p.Func(pkgCC, "clientProcessRunner", "consumeOutput")
	pend := p.Field(pkgCC, "clientProcessRunner", "pendingOps")
	if fn == nil || pend == nil {
		r.Undecided("dispatch.pending-first", "R-GUARD", "consumeOutput / pendingOps not found")
		return
	}
	r.Func(funcName(fn))
	n := 0
	bad := ""
	eachInstr(fn, func(in ssa.Instruction) {
		c := callCommon(in)
		if c == nil || !isCallToNamed(c, "fmt", "", "Errorf") {
			return
		}
		n++
		r.Sites++
		if !guardedBy(in, func(a Atom) bool {
			m, val := boolTestOn(a, func(x ssa.Value) bool { return commaOkOfLookupOn(x, pend) })
			return m && !val
		}) {
			bad += " the error made at " + p.InstrPos(in) + " is under [" + atomsString(atomsAt(in.Block())) + "];"
		}
	})
	r.Check(n >= 2 && bad == "", "dispatch.pending-first", "R-GUARD", p.Pos(fn.Pos()), fmt.Sprintf("%d protocol-violation verdicts, each on the not-pending edge", n),
		"consumeOutput declares a response a protocol violation without having found it NOT pending:"+bad+" a test name that was answered earlier and legitimately sent again is pending, yet its answer is rejected as a duplicate and the healthy client is aborted")
}

// ---------- C11 ----------

// whenDoneUnconditionalRule: in every whenDone implementation of the runner's
// process controllers the action is invoked on every path of the goroutine.
func whenDoneUnconditionalRule(p *Prog, r *Report) {
	n := 0
	for _, recv := range []string{"cmdProcess", "localProcess"} {
		fn := p.Func(pkgCC, recv, "whenDone")
		key := "whendone.unconditional." + recv
		if fn == nil {
			r.Undecided(key, "R-MUSTCALL", recv+".whenDone not found")
			continue
		}
		r.Func(funcName(fn))
		r.Sites++
		ok := false
		why := "no goroutine invoking the action found"
		for _, cl := range withClosures(fn) {
			if cl == fn {
				continue
			}
			isAction := func(in ssa.Instruction) bool {
				c := callCommon(in)
				if c == nil || c.IsInvoke() {
					return false
				}
				v := canon(c.Value)
				if u, isU := v.(*ssa.UnOp); isU {
					v = u.X
				}
				fv, isFV := v.(*ssa.FreeVar)
				return isFV && fv.Name() == "action"
			}
			if len(findInstrs(cl, isAction)) == 0 {
				continue
			}
			n++
			pass, exit := entryMustPass(cl, isAction)
			ok = pass
			if !pass {
				why = "a path of the goroutine ends without invoking the action"
				if exit != nil {
					why += " (" + p.InstrPos(exit) + ")"
				}
			}
		}
		r.Check(ok, key, "R-MUSTCALL", p.Pos(fn.Pos()), "the goroutine invokes the action on every path", recv+".whenDone: "+why+" — the runner cancels the batch from this notification; a server that exits with status 0 in mid-batch would go unnoticed and the remaining cases take the client's verdict instead of a set-up error")
	}
	r.Floor("whendone-implementations", n, 2)
}

// ---------- C12 ----------

// checksSeeWireVersionRule: in createServer the handler given to
// referenceServerChecks is (built from) the closure that rewrites
// req.ProtoMajor — the checks run outside it and see the wire's version.
func checksSeeWireVersionRule(p *Prog, r *Report) {
	fn := p.Func(pkgRS, "", "createServer")
	checks := p.Func(pkgRS, "", "referenceServerChecks")
	if fn == nil || checks == nil {
		r.Undecided("version.checks-see-wire", "R-ORDER", "createServer / referenceServerChecks not found")
		return
	}
	r.Func(funcName(fn))
	r.Sites++
	writesProto := func(f *ssa.Function) bool {
		w := false
		eachInstr(f, func(in ssa.Instruction) {
			if st, ok := in.(*ssa.Store); ok {
				if fa, ok := st.Addr.(*ssa.FieldAddr); ok && fieldName(fa.X.Type(), fa.Field) == "ProtoMajor" {
					w = true
				}
			}
		})
		return w
	}
	calls := findInstrs(fn, isCallObj(funcObj(checks)))
	okAll := len(calls) >= 1
	for _, in := range calls {
		c := callCommon(in)
		found := false
		for v := range operandClosure(c.Args[0]) {
			if mc, ok := v.(*ssa.MakeClosure); ok {
				if f, ok := mc.Fn.(*ssa.Function); ok && writesProto(f) {
					found = true
				}
			}
		}
		if !found {
			okAll = false
		}
	}
	// and the rewriting closure exists at all
	exists := false
	for _, cl := range withClosures(fn) {
		if cl != fn && writesProto(cl) {
			exists = true
		}
	}
	pos := p.Pos(fn.Pos())
	if len(calls) > 0 {
		pos = p.InstrPos(calls[0])
	}
	r.Check(okAll && exists, "version.checks-see-wire", "R-ORDER", pos, "referenceServerChecks wraps the handler that rewrites ProtoMajor",
		"in createServer the handler passed to referenceServerChecks is not built from the closure that rewrites req.ProtoMajor for half-duplex bidi over HTTP/1.1: the checks then run INSIDE the rewrite and compare the expected HTTP version with the rewritten one — false feedback for a correct HTTP/1.1 bidi request, none for a wrong version")
}

// timeoutAlwaysStoredRule: contextWithTimeout stores the timeout on every path.
func timeoutAlwaysStoredRule(p *Prog, r *Report) {
	fn := p.Func(pkgRS, "", "contextWithTimeout")
	if fn == nil {
		r.Undecided("timeout.always-stored", "R-MUSTCALL", "contextWithTimeout not found")
		return
	}
	r.Func(funcName(fn))
	r.Sites++
	ok, exit := entryMustPass(fn, isCallNamed("context", "", "WithValue"))
	where := ""
	if exit != nil {
		where = " (" + p.InstrPos(exit) + ")"
	}
	r.Check(ok, "timeout.always-stored", "R-MUSTCALL", p.Pos(fn.Pos()), "every path passes context.WithValue",
		"contextWithTimeout returns without storing the timeout on some path"+where+": extractTimeout has already accepted and removed the header, so such a timeout (zero is grammatical) is neither enforced nor echoed — timeout_ms is absent from the request info")
}

// ---------- C13 ----------

// codeNamesExactRule: the validator of the "code" key compares the string with
// connect.Code.String() and nothing in the wire checks calls the lenient
// (*connect.Code).UnmarshalText (it also accepts "code_N" for any N).
func codeNamesExactRule(p *Prog, r *Report) {
	fn := p.Func(pkgRC, "", "examineConnectError")
	if fn == nil {
		r.Undecided("code.exact-names", "R-WIRE", "examineConnectError not found")
		return
	}
	r.Func(funcName(fn))
	r.Sites++
	compares := 0
	for _, cl := range withClosures(fn) {
		eachInstr(cl, func(in ssa.Instruction) {
			b, ok := in.(*ssa.BinOp)
			if !ok || b.Op != token.EQL {
				return
			}
			for _, side := range []ssa.Value{b.X, b.Y} {
				if c, ok := canon(side).(*ssa.Call); ok && isCallToNamed(&c.Call, "connectrpc.com/connect", "Code", "String") {
					compares++
				}
			}
		})
	}
	bad := ""
	for _, f := range p.RepoFuncs() {
		if pkgOfFunc(f) != modPath+"/"+pkgRC {
			continue
		}
		eachInstr(f, func(in ssa.Instruction) {
			if c := callCommon(in); c != nil && isCallToNamed(c, "connectrpc.com/connect", "Code", "UnmarshalText") {
				bad += " " + shortFn(f) + " at " + p.InstrPos(in) + ";"
			}
		})
	}
	r.Check(compares >= 1 && bad == "", "code.exact-names", "R-WIRE", p.Pos(fn.Pos()), "the code string is compared with connect.Code.String(); Code.UnmarshalText is not used",
		"the reference client's wire checks do not validate the error code against the canonical names (comparisons with Code.String(): "+fmt.Sprint(compares)+"; uses of the lenient Code.UnmarshalText:"+bad+"): UnmarshalText also accepts \"code_N\" for any N, so a bad code such as \"code_17\" draws no feedback")
}

// ---------- C16 ----------

// terminalEventLastRule: in the tracer, after builder.add(&ResponseBodyEnd{…})
// — the event that completes a trace — the same invocation makes no further
// call of a tracer function before it returns or goes round a loop.
func terminalEventLastRule(p *Prog, r *Report) {
	n := 0
	var bad []string
	pos := "-"
	for _, fn := range tracerFuncs(p) {
		eachInstr(fn, func(in ssa.Instruction) {
			c := callCommon(in)
			if c == nil || c.StaticCallee() == nil || c.StaticCallee().Name() != "add" || len(c.Args) != 2 {
				return
			}
			al, ok := canon(c.Args[1]).(*ssa.Alloc)
			if !ok {
				if mi, isMI := c.Args[1].(*ssa.MakeInterface); isMI {
					al, ok = mi.X.(*ssa.Alloc)
				}
			}
			if !ok {
				return
			}
			nt, isN := al.Type().(*types.Pointer).Elem().(*types.Named)
			if !isN || nt.Obj().Name() != "ResponseBodyEnd" {
				return
			}
			n++
			r.Sites++
			r.Func(funcName(fn))
			// forward walk from the instruction after `in`, not re-entering a loop that contains in
			blk := in.Block()
			after := false
			check := func(i2 ssa.Instruction) {
				c2 := callCommon(i2)
				if c2 == nil || c2.StaticCallee() == nil || !p.IsRepoFunc(c2.StaticCallee()) {
					return
				}
				if _, isDefer := i2.(*ssa.Defer); isDefer {
					return
				}
				bad = append(bad, shortFn(fn)+" calls "+c2.StaticCallee().Name()+" at "+p.InstrPos(i2)+" after the terminal event added at "+p.InstrPos(in))
				pos = p.InstrPos(i2)
			}
			for _, i2 := range blk.Instrs {
				if after {
					check(i2)
				}
				if i2 == in {
					after = true
				}
			}
			seen := map[*ssa.BasicBlock]bool{blk: true}
			work := []*ssa.BasicBlock{}
			for _, s := range blk.Succs {
				if !reachable(s, blk) {
					work = append(work, s)
				}
			}
			for len(work) > 0 {
				b := work[len(work)-1]
				work = work[:len(work)-1]
				if seen[b] {
					continue
				}
				seen[b] = true
				for _, i2 := range b.Instrs {
					check(i2)
				}
				work = append(work, b.Succs...)
			}
		})
	}
	sort.Strings(bad)
	r.Check(n >= 4 && len(bad) == 0, "terminal-last", "R-ORDER", pos, fmt.Sprintf("%d places add the terminal ResponseBodyEnd event; none calls into the tracer afterwards", n),
		"the tracer keeps working on a trace after adding its terminal event: "+strings.Join(bad, "; ")+" — builder.add(ResponseBodyEnd) completes the trace synchronously (collector called, waiters released), so whatever is recorded afterwards (trailers) is written into a trace its consumer already holds: missing from what was reported, and a data race")
}
