package main

// Rules added after the fourth round of independent seeded changes.

import (
	"fmt"
	"go/ast"
	"go/constant"
	"go/token"
	"go/types"
	"sort"
	"strings"

	"golang.org/x/tools/go/ssa"
)

var round4Rules = map[string][]func(*Prog, *Report){
	"C01": {tlsPoolFieldsRule},
	"C03": {graceValueRule},
	"C04": {failedLineCountsRule},
	"C05": {firstRequestDefinesRule},
	"C07": {allPermutationsFlagsRule},
	"C08": {outcomesOnlyViaSetterRule, patternFlagsSiblingRule},
	"C09": {limitConstantAgreesRule},
	"C10": {registerOnlyIfAbsentRule},
	"C12": {getHeaderPresenceRule},
	"C14": {contentTypeLoweredRule},
	"C16": {onlyCompleteClosesRule},
	"C17": {canSendLatchesRule},
	"C18": {errorsAsSiblingRule},
	"C19": {expandNotLimitGatedRule},
	"C20": {closeOnlyAfterResetEverywhereRule, encodingCompareUnconditionalRule},
}

var round4Explain = map[string]string{
	"C01": "(tls.pools) the server verifies client certificates against ClientCAs and the client verifies the server against RootCAs (the two same-typed pool fields are not exchanged)",
	"C03": "(grace.value) the grace period constant is the documented 500 ms",
	"C04": "(partition.failed-line) every arm of the classification loop that prints a FAILED line increments a counter the verdict depends on",
	"C05": "(first-request) the response definition (and whether it is a raw response) is always read from the FIRST request message",
	"C07": "(all-permutations.flags) allPermutations asks for the grpc-go client / server / both permutations exactly under the flags that say so",
	"C08": "(outcomes.via-setter) a new outcome is only ever created by setOutcomeLocked, the one place that matches the name against the known-failing / known-flaky patterns; (flags.sibling) the four pattern flags are bound with the same flag kind (StringArray: values are taken verbatim)",
	"C09": "(limit.constant-agrees) each ReadDelimitedMessage call names its peer and passes that peer's size constant",
	"C10": "(once.register-if-absent) the callback of a request is registered only on the name-not-pending edge",
	"C12": "(getheader.presence) getHeader reports presence of the header, not non-emptiness of its value",
	"C14": "(content-type.lowered) the tracer classifies the content type case-insensitively",
	"C16": "(close.only-complete) the done channel of a slot is closed by Complete only",
	"C17": "(typestate.latch) canSendResponse latches startedResponse when it lets the handler through",
	"C18": "(errors-as) error conversions find a Connect error with errors.As, never with a direct type assertion on the error value",
	"C19": "(expand.not-gated) the expand directive is honoured for every suite, not only for those that rely on the receive limit",
	"C20": "(close-after-reset) nowhere outside the compression package is a decompressor closed unless its Reset succeeded; (encoding-compare) the reference server compares the expected encoding with the actual one also when no encoding header was sent (absent = identity)",
}

func init() {
	for id, extra := range round4Explain {
		m := registry[id]
		if m == nil {
			continue
		}
		if i := strings.Index(m.Explain, " It does NOT decide"); i >= 0 {
			m.Explain = strings.TrimRight(m.Explain[:i], ". ;") + "; " + extra + "." + m.Explain[i:]
		} else {
			m.Explain = strings.TrimRight(m.Explain, ". ") + "; " + extra + "."
		}
	}
}

// ---------- C01 ----------

func tlsPoolFieldsRule(p *Prog, r *Report) {
	for _, w := range []struct{ fn, want, other string }{{"NewServerTLSConfig", "ClientCAs", "RootCAs"}, {"NewClientTLSConfig", "RootCAs", "ClientCAs"}} {
		fn := p.Func("internal", "", w.fn)
		if fn == nil {
			r.Undecided("tls.pools."+w.fn, "R-WIRE", w.fn+" not found")
			continue
		}
		r.Func(funcName(fn))
		r.Sites++
		got := map[string]bool{}
		eachInstr(fn, func(in ssa.Instruction) {
			st, ok := in.(*ssa.Store)
			if !ok {
				return
			}
			fa, ok := st.Addr.(*ssa.FieldAddr)
			if !ok {
				return
			}
			fv := fieldVar(fa.X.Type(), fa.Field)
			if fv == nil || fv.Pkg() == nil || fv.Pkg().Path() != "crypto/tls" {
				return
			}
			if (fv.Name() == "ClientCAs" || fv.Name() == "RootCAs") && !isNilConst(st.Val) {
				got[fv.Name()] = true
			}
		})
		r.Check(got[w.want] && !got[w.other], "tls.pools."+w.fn, "R-WIRE", p.Pos(fn.Pos()), "the certificate pool is stored in tls.Config."+w.want, fmt.Sprintf("%s stores its certificate pool in %v, expected only %s: the peer's certificate is then verified against the system roots and every TLS permutation that depends on it fails its handshake", w.fn, sortedKeys(got), w.want))
	}
}

// ---------- C03 ----------

func graceValueRule(p *Prog, r *Report) {
	c := p.Const(pkgCC, "timeoutCheckGracePeriodMillis")
	r.Sites++
	if c == nil {
		r.Undecided("grace.value", "R-SINGLE-SOURCE", "timeoutCheckGracePeriodMillis not found")
		return
	}
	v, _ := constant.Int64Val(c.Val())
	r.Check(v == 500, "grace.value", "R-SINGLE-SOURCE", p.Pos(c.Pos()), "timeoutCheckGracePeriodMillis = 500", fmt.Sprintf("timeoutCheckGracePeriodMillis is %d, the statement's grace window is 500 ms: an echoed timeout outside the documented window passes", v))
}

// ---------- C04 ----------

func failedLineCountsRule(p *Prog, r *Report) {
	fn := p.Func(pkgCC, "testResults", "report")
	if fn == nil {
		r.Undecided("partition.failed-line", "R-MUSTCALL", "report not found")
		return
	}
	r.Func(funcName(fn))
	// counters the verdict depends on
	verdict := map[ssa.Value]bool{}
	for _, ret := range returnsOf(fn) {
		for v := range dependenceClosure(ret.Results[0]) {
			if phi, ok := v.(*ssa.Phi); ok && isIntType(phi.Type()) {
				verdict[phi] = true
			}
		}
	}
	isVerdictInc := func(in ssa.Instruction) bool {
		bo, ok := in.(*ssa.BinOp)
		if !ok || bo.Op != token.ADD {
			return false
		}
		if k, isK := constInt(bo.Y); !isK || k != 1 {
			return false
		}
		x := canon(bo.X)
		if !verdict[x] {
			return false
		}
		// the incremented value flows back into a verdict phi
		for _, ref := range *bo.Referrers() {
			if phi, ok := ref.(*ssa.Phi); ok && verdict[phi] {
				return true
			}
		}
		return false
	}
	n := 0
	bad := ""
	eachInstr(fn, func(in ssa.Instruction) {
		if !isPrintf(in) {
			return
		}
		c := callCommon(in)
		format, ok := constString(c.Args[0])
		if !ok || !strings.HasPrefix(format, "FAILED") {
			return
		}
		n++
		r.Sites++
		// the loop header: nearest dominator with a back edge
		var hdr *ssa.BasicBlock
		for b := in.Block(); b != nil; b = b.Idom() {
			for _, pr := range b.Preds {
				if dominatesBlock(b, pr) {
					hdr = b
				}
			}
			if hdr != nil {
				break
			}
		}
		if hdr == nil {
			bad += " " + p.InstrPos(in) + " is not inside the classification loop;"
			return
		}
		okInc := false
		for _, i2 := range in.Block().Instrs {
			if isVerdictInc(i2) {
				okInc = true
			}
		}
		if !okInc {
			okInc = true
			for _, s := range in.Block().Succs {
				if !allPathsPassBetween(s, hdr, isVerdictInc) {
					okInc = false
				}
			}
		}
		if !okInc {
			bad += " the FAILED line at " + p.InstrPos(in) + " (" + format + ");"
		}
	})
	r.Check(n >= 2 && bad == "", "partition.failed-line", "R-MUSTCALL", p.Pos(fn.Pos()), fmt.Sprintf("each of the %d arms that print a FAILED line increments a counter the verdict depends on", n), "report prints a FAILED line in an arm that does not increment a counter the verdict depends on:"+bad+" the case is named as failed but the run still succeeds")
}

// ---------- C05 ----------

func firstRequestDefinesRule(p *Prog, r *Report) {
	// every place in the runner that unmarshals a request message to look at its response definition takes message #0
	n := 0
	bad := ""
	for _, name := range []string{"hasRawResponse", "populateExpectedUnaryResponse", "populateExpectedStreamResponse"} {
		fn := p.Func(pkgCC, "", name)
		if fn == nil {
			r.Undecided("first-request."+name, "R-SIBLING", name+" not found")
			continue
		}
		r.Func(funcName(fn))
		eachInstr(fn, func(in ssa.Instruction) {
			c := callCommon(in)
			if c == nil || c.StaticCallee() == nil || c.StaticCallee().Name() != "UnmarshalNew" {
				return
			}
			n++
			r.Sites++
			// receiver = element of a slice at a constant index 0
			u, ok := canon(c.Args[0]).(*ssa.UnOp)
			if !ok {
				bad += " " + name + " unmarshals " + path(c.Args[0]) + ";"
				return
			}
			ia, ok := u.X.(*ssa.IndexAddr)
			if !ok {
				bad += " " + name + " unmarshals " + path(c.Args[0]) + ";"
				return
			}
			if k, isK := constInt(ia.Index); !isK || k != 0 {
				bad += " " + name + " reads the response definition from message [" + path(ia.Index) + "] at " + p.InstrPos(in) + ";"
			}
		})
	}
	r.Check(n >= 3 && bad == "", "first-request.defines", "R-SIBLING", "-", fmt.Sprintf("all %d sites read the response definition from request message #0", n), "the runner does not read the response definition from the FIRST request message everywhere:"+bad+" a multi-message case whose first message asks for a raw response is then treated inconsistently (e.g. issued to the grpc-go server)")
}

// ---------- C07 ----------

func allPermutationsFlagsRule(p *Prog, r *Report) {
	fn := p.Func(pkgCC, "testCaseLibrary", "allPermutations")
	filter := p.Func(pkgCC, "testCaseLibrary", "filterGRPCImplTestCases")
	if fn == nil || filter == nil {
		r.Undecided("all-permutations.flags", "R-GUARD", "allPermutations / filterGRPCImplTestCases not found")
		return
	}
	r.Func(funcName(fn))
	n := 0
	bad := ""
	for _, in := range findInstrs(fn, isCallObj(funcObj(filter))) {
		c := callCommon(in)
		a, okA := constBool(c.Args[2])
		b, okB := constBool(c.Args[3])
		if !okA || !okB {
			continue
		}
		n++
		r.Sites++
		var gotC, gotS bool
		for _, at := range atomsAt(in.Block()) {
			if k, neg, ok := genericKey(at); ok && !neg {
				switch k {
				case "$clientIsGRPCImpl":
					gotC = true
				case "$serverIsGRPCImpl":
					gotS = true
				}
			}
		}
		if gotC != a || gotS != b {
			bad += fmt.Sprintf(" filterGRPCImplTestCases(…, %v, %v) at %s is requested under client=%v, server=%v;", a, b, p.InstrPos(in), gotC, gotS)
		}
	}
	r.Check(n == 3 && bad == "", "all-permutations.flags", "R-GUARD", p.Pos(fn.Pos()), "the (true,false), (false,true) and (true,true) permutations are requested exactly under the matching flags", "allPermutations requests grpc-go permutations under the wrong flags:"+bad+" the announced names differ from the ones that are executed, so patterns written against executed names are rejected as unmatched")
}

// ---------- C08 ----------

func outcomesOnlyViaSetterRule(p *Prog, r *Report) {
	outcomes := p.Field(pkgCC, "testResults", "outcomes")
	setter := p.Func(pkgCC, "testResults", "setOutcomeLocked")
	if outcomes == nil || setter == nil {
		r.Undecided("outcomes.via-setter", "A-WHO", "testResults.outcomes / setOutcomeLocked not found")
		return
	}
	n := 0
	bad := ""
	for _, fn := range p.RepoFuncs() {
		if pkgOfFunc(fn) != ccPath {
			continue
		}
		eachInstr(fn, func(in ssa.Instruction) {
			mu, ok := in.(*ssa.MapUpdate)
			if !ok || loadedField(canon(mu.Map)) != outcomes {
				return
			}
			n++
			r.Sites++
			if fn == setter {
				return
			}
			// elsewhere only an existing entry may be written back
			if !guardedBy(in, func(a Atom) bool {
				m, v := boolTestOn(a, func(x ssa.Value) bool { return commaOkOfLookupOn(x, outcomes) })
				return m && v
			}) {
				// the constructor's initial map etc. are not MapUpdates; a plain overwrite of a looked-up value
				if lk := lookupOf(mu.Value); lk != nil && loadedField(canon(lk.X)) == outcomes {
					return
				}
				bad += " " + shortFn(fn) + " at " + p.InstrPos(in) + ";"
			}
		})
	}
	r.Check(n >= 2 && bad == "", "outcomes.via-setter", "A-WHO", p.Pos(setter.Pos()), "new outcomes are only created by setOutcomeLocked; elsewhere only existing entries are written back", "an outcome is created outside setOutcomeLocked:"+bad+" its known-failing / known-flaky flags are never looked up, so a marked case is reported as an unexpected failure")
}

// lookupOf: v is (derived by field updates from) a value looked up in a map.
func lookupOf(v ssa.Value) *ssa.Lookup {
	for x := range operandClosure(v) {
		if lk, ok := x.(*ssa.Lookup); ok {
			return lk
		}
	}
	return nil
}

func patternFlagsSiblingRule(p *Prog, r *Report) {
	fn := p.Func("cmd/connectconformance", "", "bind")
	if fn == nil {
		r.Undecided("flags.sibling", "R-SIBLING", "bind not found")
		return
	}
	r.Func(funcName(fn))
	kinds := map[string][]string{}
	for _, f := range []string{"runPatterns", "skipPatterns", "knownFailingPatterns", "knownFlakyPatterns"} {
		fv := p.Field("cmd/connectconformance", "flags", f)
		eachInstr(fn, func(in ssa.Instruction) {
			c := callCommon(in)
			if c == nil || c.StaticCallee() == nil || len(c.Args) < 2 {
				return
			}
			if fa, ok := c.Args[1].(*ssa.FieldAddr); ok && fieldVar(fa.X.Type(), fa.Field) == fv && fv != nil {
				kinds[c.StaticCallee().Name()] = append(kinds[c.StaticCallee().Name()], f)
			}
		})
	}
	r.Sites += 4
	total := 0
	for _, v := range kinds {
		total += len(v)
	}
	r.Check(total == 4 && len(kinds["StringArrayVar"]) == 4, "flags.sibling", "R-SIBLING", p.Pos(fn.Pos()), "the four pattern flags are all bound with StringArrayVar", fmt.Sprintf("the four pattern flags are not all bound with StringArrayVar: %v — a StringSlice flag splits its value at commas, so a pattern containing a comma does not take part as given", kinds))
}

// ---------- C09 ----------

func limitConstantAgreesRule(p *Prog, r *Report) {
	n := 0
	bad := ""
	for _, pkg := range p.Pkgs {
		if pkg.PkgPath != ccPath {
			continue
		}
		for _, file := range pkg.Syntax {
			if strings.HasSuffix(p.Fset.Position(file.Pos()).Filename, "_test.go") {
				continue
			}
			ast.Inspect(file, func(nd ast.Node) bool {
				call, ok := nd.(*ast.CallExpr)
				if !ok || len(call.Args) != 5 {
					return true
				}
				name := ""
				switch f := call.Fun.(type) {
				case *ast.SelectorExpr:
					name = f.Sel.Name
				case *ast.Ident:
					name = f.Name
				}
				if name != "ReadDelimitedMessage" {
					return true
				}
				tv, has := pkg.TypesInfo.Types[call.Args[2]]
				if !has || tv.Value == nil || tv.Value.Kind() != constant.String {
					return true
				}
				peer := strings.ToLower(constant.StringVal(tv.Value))
				n++
				r.Sites++
				for _, idx := range []int{3, 4} {
					id := ""
					switch a := call.Args[idx].(type) {
					case *ast.Ident:
						id = a.Name
					case *ast.SelectorExpr:
						id = a.Sel.Name
					}
					toks := nameTokens(id)
					if (peer == "client" && toks["server"] && !toks["client"]) || (peer == "server" && toks["client"] && !toks["server"]) {
						bad += fmt.Sprintf(" the read from the %s passes %s at %s;", peer, id, p.Pos(call.Pos()))
					}
				}
				return true
			})
		}
	}
	r.Check(n >= 2 && bad == "", "limit.constant-agrees", "R-TABLE-AGREE", "-", fmt.Sprintf("%d reads: timeout and size constants carry the name of the peer being read", n), "a ReadDelimitedMessage call passes the other peer's constant:"+bad+" the size limit (or timeout) applied to that stream is the wrong one")
}

// ---------- C10 ----------

func registerOnlyIfAbsentRule(p *Prog, r *Report) {
	fn := p.Func(pkgCC, "clientProcessRunner", "sendRequest")
	pending := p.Field(pkgCC, "clientProcessRunner", "pendingOps")
	if fn == nil || pending == nil {
		r.Undecided("once.register-if-absent", "R-GUARD", "sendRequest / pendingOps not found")
		return
	}
	r.Func(funcName(fn))
	n := 0
	bad := ""
	eachInstr(fn, func(in ssa.Instruction) {
		mu, ok := in.(*ssa.MapUpdate)
		if !ok || loadedField(canon(mu.Map)) != pending {
			return
		}
		n++
		r.Sites++
		if !guardedBy(in, func(a Atom) bool {
			m, v := boolTestOn(a, func(x ssa.Value) bool { return commaOkOfLookupOn(x, pending) })
			return m && !v
		}) {
			bad += " " + p.InstrPos(in) + ";"
		}
	})
	r.Check(n >= 1 && bad == "", "once.register-if-absent", "R-GUARD", p.Pos(fn.Pos()), "pendingOps[name] is assigned only on the name-not-pending edge", "sendRequest registers the callback although the name is already pending:"+bad+" the refused duplicate overwrites the accepted request's callback, which then never fires")
}

// ---------- C12 ----------

func getHeaderPresenceRule(p *Prog, r *Report) {
	for _, name := range []string{"getHeader", "getQueryParam"} {
		fn := p.Func(pkgRS, "", name)
		if fn == nil {
			r.Undecided("getheader.presence."+name, "R-WIRE", name+" not found")
			continue
		}
		r.Func(funcName(fn))
		r.Sites++
		ok := false
		for _, ret := range returnsOf(fn) {
			if len(ret.Results) != 2 {
				continue
			}
			bo, isBO := canon(ret.Results[1]).(*ssa.BinOp)
			if !isBO || bo.Op != token.GTR {
				continue
			}
			_, isLen := lenArg(bo.X)
			z, isZ := constInt(bo.Y)
			if isLen && isZ && z == 0 {
				ok = true
			}
		}
		r.Check(ok, "getheader.presence."+name, "R-WIRE", p.Pos(fn.Pos()), "the second result is len(values) > 0", name+" does not report presence as len(values) > 0: a header that is present with an empty value is treated as absent, so a malformed empty timeout header is neither reported nor removed")
	}
}

// ---------- C14 ----------

func contentTypeLoweredRule(p *Prog, r *Report) {
	fn := p.Func(pkgTr, "", "propertiesFromHeaders")
	if fn == nil {
		r.Undecided("content-type.lowered", "R-WIRE", "propertiesFromHeaders not found")
		return
	}
	r.Func(funcName(fn))
	n := 0
	bad := ""
	eachInstr(fn, func(in ssa.Instruction) {
		c, ok := in.(*ssa.Call)
		if !ok || !isCallToNamed(&c.Call, "strings", "", "HasPrefix") {
			return
		}
		s, isS := constString(c.Call.Args[1])
		if !isS || !strings.HasPrefix(s, "application/") {
			return
		}
		n++
		r.Sites++
		if lc, isCall := canon(c.Call.Args[0]).(*ssa.Call); !isCall || !isCallToNamed(&lc.Call, "strings", "", "ToLower") {
			bad += " " + p.InstrPos(in) + ";"
		}
	})
	r.Check(n >= 2 && bad == "", "content-type.lowered", "R-WIRE", p.Pos(fn.Pos()), "the content type is lower-cased before its prefix is tested", "propertiesFromHeaders tests the content type's prefix without lower-casing it:"+bad+" a peer that spells the media type with upper-case letters is traced as a non-stream body (one envelope-less event, no end-stream)")
}

// ---------- C16 ----------

func onlyCompleteClosesRule(p *Prog, r *Report) {
	doneF := p.Field(pkgTr, "traceResult", "done")
	if doneF == nil {
		r.Undecided("close.only-complete", "A-WHO", "traceResult.done not found")
		return
	}
	n := 0
	bad := ""
	for _, fn := range tracerFuncs(p) {
		eachInstr(fn, func(in ssa.Instruction) {
			c := callCommon(in)
			if c == nil {
				return
			}
			b, isB := c.Value.(*ssa.Builtin)
			if !isB || b.Name() != "close" || loadedField(canon(c.Args[0])) != doneF {
				return
			}
			n++
			r.Sites++
			if fnBase(fn) != "Complete" {
				bad += " " + shortFn(fn) + " at " + p.InstrPos(in) + ";"
			}
		})
	}
	r.Check(n >= 1 && bad == "", "close.only-complete", "A-WHO", "-", "the slot's done channel is closed in Complete only", "the done channel of a trace slot is closed outside Complete:"+bad+" a waiter blocked in Await returns an empty, never-completed trace with a nil error")
}

// ---------- C17 ----------

func canSendLatchesRule(p *Prog, r *Report) {
	fn := p.Func(pkgRS, "rawResponseWriter", "canSendResponse")
	started := p.Field(pkgRS, "rawResponseWriter", "startedResponse")
	rawResp := p.Field(pkgRS, "rawResponseWriter", "rawResp")
	if fn == nil || started == nil || rawResp == nil {
		r.Undecided("typestate.latch", "R-LATCH", "canSendResponse / its fields not found")
		return
	}
	r.Func(funcName(fn))
	r.Sites++
	// every return of true is either on the startedResponse edge or preceded by the store startedResponse = true
	bad := ""
	type point struct {
		val   ssa.Value
		at    ssa.Instruction
		facts []Atom
	}
	var points []point
	for _, ret := range returnsOf(fn) {
		if u, ok := ret.Results[0].(*ssa.UnOp); ok && u.Op == token.MUL {
			if al, ok := u.X.(*ssa.Alloc); ok {
				// result spilled to a cell (the function defers): every store to it is a return point
				for _, ref := range *al.Referrers() {
					if st, ok := ref.(*ssa.Store); ok && st.Addr == ssa.Value(al) {
						points = append(points, point{st.Val, st, atomsAt(st.Block())})
					}
				}
				continue
			}
		}
		for _, l := range phiLeaves(ret.Results[0]) {
			points = append(points, point{l.Val, ret, append(append([]Atom{}, atomsAt(ret.Block())...), l.Facts...)})
		}
	}
	seenPt := map[ssa.Instruction]bool{}
	for _, pt := range points {
		if _, isRet := pt.at.(*ssa.Return); !isRet {
			if seenPt[pt.at] {
				continue
			}
			seenPt[pt.at] = true
		}
		b, isC := constBool(pt.val)
		if !isC {
			bad += " returns a computed value at " + p.InstrPos(pt.at) + " without latching;"
			continue
		}
		if !b {
			continue
		}
		already := hasAtom(pt.facts, func(a Atom) bool {
			m, v := boolTestOn(a, func(x ssa.Value) bool { return loadedField(canon(x)) == started })
			return m && v
		})
		if already {
			continue
		}
		if !precededBy(pt.at, func(in ssa.Instruction) bool {
			st, ok := in.(*ssa.Store)
			if !ok {
				return false
			}
			fa, ok := st.Addr.(*ssa.FieldAddr)
			if !ok || fieldVar(fa.X.Type(), fa.Field) != started {
				return false
			}
			b, isC := constBool(st.Val)
			return isC && b
		}) {
			bad += " returns true at " + p.InstrPos(pt.at) + " without having set startedResponse;"
		}
	}
	r.Check(bad == "", "typestate.latch", "R-LATCH", p.Pos(fn.Pos()), "whenever canSendResponse lets the handler through, startedResponse is (already) true", "canSendResponse lets the handler start a normal response without latching startedResponse:"+bad+" a later setRawResponse is then accepted and the response mixes the handler's status and headers with the raw body")
}

// ---------- C18 ----------

func errorsAsSiblingRule(p *Prog, r *Report) {
	n := 0
	bad := ""
	errT := types.Universe.Lookup("error").Type()
	for _, fn := range p.RepoFuncs() {
		pk := pkgOfFunc(fn)
		if pk != internalPath && pk != modPath+"/"+pkgGU {
			continue
		}
		eachInstr(fn, func(in ssa.Instruction) {
			if c := callCommon(in); c != nil && isCallToNamed(c, "errors", "", "As") {
				n++
			}
			ta, ok := in.(*ssa.TypeAssert)
			if !ok || !types.Identical(ta.X.Type(), errT) {
				return
			}
			if _, isIface := ta.AssertedType.Underlying().(*types.Interface); isIface {
				return
			}
			bad += " " + shortFn(fn) + " asserts an error to " + types.TypeString(ta.AssertedType, shortQual) + " at " + p.InstrPos(in) + ";"
		})
	}
	r.Sites += n
	r.Check(n >= 2 && bad == "", "errors-as", "R-SIBLING", "-", fmt.Sprintf("%d errors.As calls, no direct assertion of an error value to a concrete type", n), "an error conversion looks for a concrete error type with a type assertion instead of errors.As:"+bad+" a wrapped Connect error is not found, so its code, message and details are replaced by CODE_UNKNOWN and the wrapper's text")
}

// ---------- C19 ----------

func expandNotLimitGatedRule(p *Prog, r *Report) {
	parse := p.Func(pkgCC, "", "parseTestSuites")
	expand := p.Func(pkgCC, "", "expandRequestData")
	if parse == nil || expand == nil {
		r.Undecided("expand.not-gated", "R-REACH", "parseTestSuites / expandRequestData not found")
		return
	}
	r.Func(funcName(parse))
	r.Sites++
	calls := findInstrs(parse, isCallObj(funcObj(expand)))
	if len(calls) != 1 {
		r.Fail("expand.not-gated", "R-REACH", p.Pos(parse.Pos()), fmt.Sprintf("expected one call of expandRequestData in parseTestSuites, found %d", len(calls)))
		return
	}
	bad := ""
	for _, a := range atomsAt(calls[0].Block()) {
		if k, _, ok := genericKey(a); ok && strings.Contains(k, "ReliesOnMessageReceiveLimit") {
			bad += " " + a.String() + ";"
		}
	}
	r.Check(bad == "", "expand.not-gated", "R-REACH", p.InstrPos(calls[0]), "the call of expandRequestData does not depend on ReliesOnMessageReceiveLimit", "parseTestSuites only honours the expand directive under"+bad+" a suite that uses expandRequests without relying on the receive limit keeps its original size and no error is reported")
}

// ---------- C20 ----------

func closeOnlyAfterResetEverywhereRule(p *Prog, r *Report) {
	n := 0
	bad := ""
	for _, fn := range p.RepoFuncs() {
		pk := pkgOfFunc(fn)
		if pk == modPath+"/"+pkgComp || pk == trPath {
			continue // the wrappers themselves; the tracer has its own obligation
		}
		for _, f := range []*ssa.Function{fn} {
			eachInstr(f, func(in ssa.Instruction) {
				c := callCommon(in)
				if c == nil || !c.IsInvoke() || c.Method.Name() != "Close" {
					return
				}
				nt, ok := c.Value.Type().(*types.Named)
				if !ok || nt.Obj().Name() != "Decompressor" {
					return
				}
				n++
				r.Sites++
				if !guardedBy(in, func(a Atom) bool {
					m, isNil := nilTestOn(a, isCallResult(func(cc *ssa.CallCommon) bool { return cc.IsInvoke() && cc.Method.Name() == "Reset" }))
					return m && isNil
				}) {
					bad += " " + p.InstrPos(in) + " in " + shortFn(fn) + ";"
				}
			})
		}
	}
	r.Extra["decompressor_close_calls_outside_wrappers"] = n
	r.Check(bad == "", "close-after-reset.everywhere", "R-GUARD", "-", fmt.Sprintf("%d Close call(s) on a decompressor outside the compression package and the tracer, each on the Reset(...) == nil edge", n), "a decompressor that was not successfully Reset is closed:"+bad+" a gzip reader whose Reset failed on a malformed header has no inner reader and panics in Close (also when the Close is deferred)")
}

func encodingCompareUnconditionalRule(p *Prog, r *Report) {
	fn := p.Func(pkgRS, "", "checkCompression")
	if fn == nil {
		r.Undecided("encoding-compare", "R-GUARD", "checkCompression not found")
		return
	}
	r.Func(funcName(fn))
	r.Sites++
	found := false
	bad := ""
	var fb []string
	eachInstr(fn, func(in ssa.Instruction) {
		if !isCallNamed(rsPath(), "feedbackPrinter", "Printf")(in) {
			return
		}
		c := callCommon(in)
		format, _ := constString(c.Args[1])
		if !strings.Contains(format, "expected compression") {
			return
		}
		found = true
		for _, a := range atomsAt(in.Block()) {
			// the report may depend on the comparison and on the switch over the expected value, not on whether a header was present
			if a.Op == token.ILLEGAL {
				if ex, ok := canon(a.X).(*ssa.Extract); ok && ex.Index == 1 {
					if cc, ok := ex.Tuple.(*ssa.Call); ok && cc.Call.StaticCallee() != nil && (cc.Call.StaticCallee().Name() == "getHeader" || cc.Call.StaticCallee().Name() == "getQueryParam") {
						bad += " the mismatch report at " + p.InstrPos(in) + " is only made under " + a.String() + ";"
					}
				}
				if n, _ := localName(a.X); strings.HasPrefix(n, "has") {
					fb = append(fb, n)
					bad += " the mismatch report at " + p.InstrPos(in) + " is only made under " + a.String() + ";"
				}
			}
		}
	})
	sort.Strings(fb)
	r.Check(found && bad == "", "encoding-compare", "R-GUARD", p.Pos(fn.Pos()), "the expected encoding is compared with the actual one whether or not an encoding header was sent", "checkCompression only reports a mismatch when an encoding header/parameter is present:"+bad+" a client told to compress that sends no encoding at all (= identity everywhere else) is not flagged")
}
