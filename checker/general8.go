package main

// General audits added after the eighth round of independent seeded changes.

import (
	"fmt"
	"go/ast"
	"go/token"
	"go/types"
	"sort"
	"strings"

	"golang.org/x/tools/go/ssa"
)

func init() {
	experiments["Xloopalias"] = func(p *Prog, r *Report) { loopAliasRule(p, r, "loop-alias", p.RepoFuncs()) }
	experiments["Xtimer"] = func(p *Prog, r *Report) { timerReuseRule(p, r, "timer-reuse", p.RepoFuncs()) }
	experiments["Xsideconst"] = func(p *Prog, r *Report) { sideConstRule(p, r, "side-const", p.RepoFuncs()) }
	experiments["Xmapover"] = func(p *Prog, r *Report) { mapOverwriteInLoopRule(p, r, "map-overwrite", p.RepoFuncs()) }
	experiments["Xargnil"] = func(p *Prog, r *Report) { optionalArgDerefRule(p, r, "arg-nil", p.RepoFuncs()) }
}

func round8GeneralRules(p *Prog, r *Report, scope []*ssa.Function) {
	loopAliasRule(p, r, "anchored-loop-alias", scope)
	timerReuseRule(p, r, "anchored-timer-reuse", scope)
	sideConstRule(p, r, "anchored-side-const", scope)
	optionalArgDerefRule(p, r, "anchored-arg-nil", scope)
	mapOverwriteInLoopRule(p, r, "anchored-map-overwrite", scope)
}

func inLoop(b *ssa.BasicBlock) bool {
	for _, s := range b.Succs {
		if reachable(s, b) {
			return true
		}
	}
	return false
}

// ---------- G-LOOPALIAS: one object appended on every iteration ----------

// loopAliasRule: a pointer that is appended to a slice (or sent / stored into a
// collection) inside a loop does not point to an object allocated once OUTSIDE
// the loop whose fields the loop assigns: every element would be the same
// object, holding the last iteration's values.
func loopAliasRule(p *Prog, r *Report, key string, scope []*ssa.Function) {
	n := 0
	for _, fn := range scope {
		eachInstr(fn, func(in ssa.Instruction) {
			c, ok := in.(*ssa.Call)
			if !ok {
				return
			}
			b, isB := c.Call.Value.(*ssa.Builtin)
			if !isB || b.Name() != "append" || len(c.Call.Args) != 2 || !inLoop(in.Block()) {
				return
			}
			for _, e := range sliceLiteralElems(c.Call.Args[1]) {
				al, ok := canon(e).(*ssa.Alloc)
				if !ok || !al.Heap {
					continue
				}
				if _, isPtr := e.Type().Underlying().(*types.Pointer); !isPtr {
					continue
				}
				n++
				r.Sites++
				// allocated inside the same loop? (its block can reach itself and reaches the append)
				if inLoop(al.Block()) && reachable(al.Block(), in.Block()) && reachable(in.Block(), al.Block()) {
					continue
				}
				// is the object written inside the loop?
				written := false
				if al.Referrers() != nil {
					for _, ref := range *al.Referrers() {
						fa, isFA := ref.(*ssa.FieldAddr)
						if !isFA || fa.Referrers() == nil {
							continue
						}
						for _, r2 := range *fa.Referrers() {
							if st, isSt := r2.(*ssa.Store); isSt && st.Addr == ssa.Value(fa) && inLoop(st.Block()) && reachable(st.Block(), in.Block()) {
								written = true
							}
						}
					}
				}
				if !written {
					continue
				}
				r.Fail(fmt.Sprintf("%s.%s", key, shortFn(fn)), "R-WIRE", p.InstrPos(in),
					"in "+shortFn(fn)+" the loop appends the SAME object ("+path(e)+", allocated once before the loop at "+p.Pos(al.Pos())+") on every iteration and overwrites its fields each time: all elements of the result alias one object and show the last iteration's values (one element looks right, two or more do not)")
			}
		})
	}
	r.OK(key, "R-WIRE", "-", fmt.Sprintf("%d pointers appended inside loops, each to an object of that iteration (or one that the loop does not modify)", n))
}

// ---------- G-TIMER: a timer's channel delivers once ----------

// timerReuseRule: the channel of one time.Timer (time.NewTimer) is not waited
// on at two different places unless the timer is Reset in the function: C
// delivers a single value, the second wait never fires.
func timerReuseRule(p *Prog, r *Report, key string, scope []*ssa.Function) {
	n := 0
	for _, fn := range scope {
		eachInstr(fn, func(in ssa.Instruction) {
			c, ok := in.(*ssa.Call)
			if !ok || !isCallToNamed(&c.Call, "time", "", "NewTimer") {
				return
			}
			n++
			r.Sites++
			// loads of timer.C and what they feed
			waits := map[ssa.Instruction]bool{}
			reset := false
			var visit func(v ssa.Value, d int)
			visit = func(v ssa.Value, d int) {
				if d > 4 || v.Referrers() == nil {
					return
				}
				for _, ref := range *v.Referrers() {
					switch x := ref.(type) {
					case *ssa.FieldAddr:
						if fieldName(x.X.Type(), x.Field) == "C" {
							visit(x, d+1)
						}
					case *ssa.UnOp:
						if x.Op == token.MUL {
							visit(x, d+1) // the channel value
						}
						if x.Op == token.ARROW {
							waits[x] = true
						}
					case *ssa.Select:
						waits[x] = true
					case *ssa.Store:
						// spilled (captured by a deferred closure): follow loads of the cell
						if al, isAl := x.Addr.(*ssa.Alloc); isAl && x.Val == v && al.Referrers() != nil {
							for _, r2 := range *al.Referrers() {
								if u, isU := r2.(*ssa.UnOp); isU && u.Op == token.MUL {
									visit(u, d+1)
								}
							}
						}
					case ssa.CallInstruction:
						if o := calleeObj(x.Common()); o != nil && o.Name() == "Reset" {
							reset = true
						}
					}
				}
			}
			visit(c, 0)
			if len(waits) < 2 || reset {
				r.OK(fmt.Sprintf("%s.%s#%d", key, shortFn(fn), n), "R-ORDER", p.InstrPos(in), fmt.Sprintf("%d wait(s) on the timer's channel", len(waits)))
				return
			}
			var where []string
			for w := range waits {
				where = append(where, p.InstrPos(w))
			}
			sort.Strings(where)
			r.Fail(fmt.Sprintf("%s.%s#%d", key, shortFn(fn), n), "R-ORDER", p.InstrPos(in),
				"in "+shortFn(fn)+" the channel of ONE time.Timer is waited on at "+strings.Join(where, " and ")+" and the timer is never Reset: the channel delivers a single value, so after the first wait consumed it the later wait can only be left through its other cases — the step that follows it (give up, report the timeout) is never reached")
		})
	}
	r.OK(key, "R-ORDER", "-", fmt.Sprintf("%d timers created, none is waited on twice without a Reset", n))
}

// ---------- G-SIDECONST: a constant of the other side ----------

var sidePairs = [][2]string{{"client", "server"}, {"request", "response"}}

var sideConstAllowed = map[string]string{}

// sideConstRule: in a call, a package-level constant whose name carries one
// side of client/server (request/response) is not the only mention of that
// side among arguments that otherwise all speak of the other side
// (ReadDelimitedMessage(server.stdout, …, "server", serverTimeout, maxClientSize)).
// Decided on the syntax tree: constants have no name in SSA.
func sideConstRule(p *Prog, r *Report, key string, scope []*ssa.Function) {
	n := 0
	seenDecl := map[*ast.FuncDecl]bool{}
	for _, fn := range scope {
		fd, pkg := p.Decl(fn)
		if fd == nil || fd.Body == nil || pkg == nil || seenDecl[fd] {
			continue
		}
		seenDecl[fd] = true
		top := fn
		for top.Parent() != nil {
			top = top.Parent()
		}
		ast.Inspect(fd.Body, func(nd ast.Node) bool {
			ce, ok := nd.(*ast.CallExpr)
			if !ok || len(ce.Args) < 2 {
				return true
			}
			// tokens per argument; which arguments are bare package-level constants
			type argInfo struct {
				toks    map[string]bool
				isConst bool
				text    string
			}
			var args []argInfo
			for _, a := range ce.Args {
				ai := argInfo{toks: map[string]bool{}}
				ast.Inspect(a, func(x ast.Node) bool {
					switch t := x.(type) {
					case *ast.Ident:
						for tk := range nameTokens(t.Name) {
							ai.toks[tk] = true
						}
					case *ast.BasicLit:
						if t.Kind == token.STRING {
							ai.toks[strings.ToLower(strings.Trim(t.Value, "\"`"))] = true
						}
					}
					return true
				})
				if id, isID := a.(*ast.Ident); isID {
					if cobj, isC := pkg.TypesInfo.Uses[id].(*types.Const); isC && cobj.Parent() == cobj.Pkg().Scope() {
						ai.isConst = true
						ai.text = id.Name
					}
				}
				args = append(args, ai)
			}
			for _, pair := range sidePairs {
				for side := 0; side < 2; side++ {
					x, y := pair[side], pair[1-side]
					for i, ai := range args {
						if !ai.isConst || !ai.toks[x] || ai.toks[y] {
							continue
						}
						// every other argument that mentions a side mentions only y, and at least two do
						others, clash := 0, false
						for j, aj := range args {
							if j == i {
								continue
							}
							if aj.toks[x] {
								clash = true
							}
							if aj.toks[y] {
								others++
							}
						}
						if clash || others < 2 {
							continue
						}
						n++
						r.Sites++
						pos := p.Pos(ce.Args[i].Pos())
						k := fmt.Sprintf("%s.%s.%s", key, shortFn(top), ai.text)
						if why, ok := sideConstAllowed[shortFn(top)+"."+ai.text]; ok {
							r.OK(k, "R-SIBLING", pos, "table: "+why)
							continue
						}
						r.Fail(k, "R-SIBLING", pos, fmt.Sprintf("in %s the constant %s (a %s-side constant) is passed in a call whose %d other side-specific arguments all speak of the %s: it looks like the sibling constant of the other peer was picked (a limit or timeout meant for the %s applied to the %s)", shortFn(top), ai.text, x, others, y, x, y))
					}
				}
			}
			return true
		})
	}
	r.OK(key, "R-SIBLING", "-", fmt.Sprintf("%d suspicious side constants, all in the table", n))
}

// ---------- G-ARGNIL: an optional message handed to a callee that dereferences it ----------

var argNilExempt = map[string]string{}

// optionalArgDerefRule: a value loaded from an optional message field (a
// pointer-typed field of a generated message that the caller has not tested
// against nil) is not passed to a repository function that dereferences the
// corresponding parameter on a path without a nil test. One level of calls;
// complements anchored-nil, which only looks inside one function.
func optionalArgDerefRule(p *Prog, r *Report, key string, scope []*ssa.Function) {
	n := 0
	derefCache := map[*ssa.Function]map[int]ssa.Instruction{}
	unguardedDeref := func(callee *ssa.Function) map[int]ssa.Instruction {
		if m, ok := derefCache[callee]; ok {
			return m
		}
		m := map[int]ssa.Instruction{}
		for i, prm := range callee.Params {
			if _, isPtr := prm.Type().Underlying().(*types.Pointer); !isPtr {
				continue
			}
			// is a dereference reachable when the parameter is nil? Guard formulas, also
			// disjunctive ones; the nil tests of OTHER values are enumerated (both ways) so
			// that complementary tests of one value stay correlated along a path.
			prm := prm
			e := &boolEval{key: func(a Atom) (string, bool, bool) {
				if a.Op != token.EQL && a.Op != token.NEQ {
					return "", false, false
				}
				x, y := a.X, a.Y
				if isNilConst(x) {
					x, y = y, x
				}
				if !isNilConst(y) {
					return "", false, false
				}
				v := canon(x)
				if v == ssa.Value(prm) {
					return "nil(param)", a.Op == token.NEQ, true
				}
				return "nil(" + v.Name() + ")", a.Op == token.NEQ, true
			}}
			var others []string
			for k := range e.keysSeen(callee) {
				if k != "nil(param)" {
					others = append(others, k)
				}
			}
			sort.Strings(others)
			if len(others) > 6 {
				others = others[:6]
			}
			reach := func(d ssa.Instruction) bool {
				for mask := 0; mask < 1<<len(others); mask++ {
					s := sigma{"nil(param)": true}
					for j, k := range others {
						s[k] = mask&(1<<j) != 0
					}
					if e.reachableUnder(callee, d, s) {
						return true
					}
				}
				return false
			}
			for _, d := range derefsOf(prm) {
				if d.Parent() != callee {
					continue
				}
				if !reach(d) {
					continue
				}
				m[i] = d
				break
			}
		}
		derefCache[callee] = m
		return m
	}
	for _, fn := range scope {
		eachInstr(fn, func(in ssa.Instruction) {
			c := callCommon(in)
			if c == nil || c.IsInvoke() {
				return
			}
			callee := c.StaticCallee()
			if callee == nil || !p.IsRepoFunc(callee) || len(callee.Blocks) == 0 || isGeneratedFunc(p, callee) {
				return
			}
			bad := unguardedDeref(callee)
			if len(bad) == 0 {
				return
			}
			for i, a := range c.Args {
				d, isBad := bad[i]
				if !isBad {
					continue
				}
				f := loadedField(canon(a))
				if f == nil || !isGeneratedMessageField(p, f) {
					continue
				}
				if _, isPtr := f.Type().Underlying().(*types.Pointer); !isPtr {
					continue
				}
				// the single field of a oneof wrapper is set whenever the wrapper is (decoders never leave it nil)
				if u, isU := canon(a).(*ssa.UnOp); isU {
					if fa, isFA := u.X.(*ssa.FieldAddr); isFA && isOneofWrapper(fa.X.Type()) {
						continue
					}
				}
				n++
				r.Sites++
				k := fmt.Sprintf("%s.%s.%s#%s", key, shortFn(fn), fnBase(callee), f.Name())
				// the caller itself makes the field non-nil (if x.F == nil { x.F = &T{} })
				if fieldAssignedNonNil(fn, f) {
					r.OK(k, "R-NIL", p.InstrPos(in), "the caller assigns a fresh value to the field when it is nil")
					continue
				}
				// tested by the caller?
				if guardedBy(in, func(at Atom) bool {
					m, isNil := nilTestOn(at, func(x ssa.Value) bool { return loadedField(canon(x)) == f })
					return m && !isNil
				}) {
					r.OK(k, "R-NIL", p.InstrPos(in), "the caller tested the field against nil")
					continue
				}
				if why, ok := argNilExempt[shortFn(fn)+"."+fnBase(callee)+"#"+f.Name()]; ok {
					r.OK(k, "R-NIL", p.InstrPos(in), "table: "+why)
					continue
				}
				r.Fail(k, "R-NIL", p.InstrPos(in), fmt.Sprintf("in %s the optional message field %s is passed to %s, which dereferences that parameter without a nil test (%s): a message that simply omits the field (valid: every message field is optional) crashes the process with a nil pointer dereference", shortFn(fn), path(a), fnBase(callee), p.InstrPos(d)))
			}
		})
	}
	r.OK(key, "R-NIL", "-", fmt.Sprintf("%d optional message fields passed to dereferencing callees, all tested first", n))
}

func isGeneratedFunc(p *Prog, fn *ssa.Function) bool {
	return strings.Contains(pkgOfFunc(fn), "/internal/gen/")
}

func isGeneratedMessageField(p *Prog, f *types.Var) bool {
	return f.Pkg() != nil && strings.Contains(f.Pkg().Path(), "/internal/gen/")
}

// fieldAssignedNonNil: fn stores a freshly allocated object into field f.
func fieldAssignedNonNil(fn *ssa.Function, f *types.Var) bool {
	found := false
	eachInstr(fn, func(in ssa.Instruction) {
		st, ok := in.(*ssa.Store)
		if !ok {
			return
		}
		fa, ok := st.Addr.(*ssa.FieldAddr)
		if !ok || fieldVar(fa.X.Type(), fa.Field) != f {
			return
		}
		if _, isAl := canon(st.Val).(*ssa.Alloc); isAl {
			found = true
		}
	})
	return found
}

// ---------- G-MAPOVERWRITE: m[k] = values in a loop over a list ----------

var mapOverwriteAllowed = map[string]string{}

// mapOverwriteInLoopRule: inside a loop over a slice, a multi-valued map entry
// (the element type of the map is a slice) is not ASSIGNED with key and value
// both taken from the list element unless the new value is built from the old
// entry (m[k] = append(m[k], …)): a list may repeat a key (header lists do, also
// in different letter case), the assignment keeps the last entry only.
func mapOverwriteInLoopRule(p *Prog, r *Report, key string, scope []*ssa.Function) {
	n := 0
	for _, fn := range scope {
		cnt := 0
		eachInstr(fn, func(in ssa.Instruction) {
			mu, ok := in.(*ssa.MapUpdate)
			if !ok || !inLoop(in.Block()) {
				return
			}
			mt, ok := mu.Map.Type().Underlying().(*types.Map)
			if !ok {
				return
			}
			if es, isSl := mt.Elem().Underlying().(*types.Slice); !isSl {
				return
			} else if b, isB := es.Elem().Underlying().(*types.Basic); isB && b.Kind() == types.Uint8 {
				return // []byte is one value, not a list of values
			}
			fromElem := func(v ssa.Value) bool {
				for x := range operandClosure(v) {
					if ia, ok := x.(*ssa.IndexAddr); ok {
						if _, isSl := ia.X.Type().Underlying().(*types.Slice); isSl {
							if _, isK := constInt(ia.Index); !isK {
								return true
							}
						}
					}
				}
				return false
			}
			if !fromElem(mu.Key) || !fromElem(mu.Value) {
				return
			}
			// the map is created per iteration? then nothing can be lost
			if mk, isMk := canon(mu.Map).(*ssa.MakeMap); isMk && inLoop(mk.Block()) && reachable(in.Block(), mk.Block()) {
				return
			}
			n++
			cnt++
			r.Sites++
			k := fmt.Sprintf("%s.%s#%d", key, shortFn(fn), cnt)
			// accumulating: the stored value depends on a lookup of the same map
			acc := false
			for x := range operandClosure(mu.Value) {
				if lk, isLk := x.(*ssa.Lookup); isLk && canon(lk.X) == canon(mu.Map) {
					acc = true
				}
			}
			if acc {
				r.OK(k, "R-WIRE", p.InstrPos(in), "the new entry is built from the old one")
				return
			}
			if why, ok := mapOverwriteAllowed[shortFn(fn)]; ok {
				r.OK(k, "R-WIRE", p.InstrPos(in), "table: "+why)
				return
			}
			r.Fail(k, "R-WIRE", p.InstrPos(in), "in "+shortFn(fn)+" the loop assigns "+path(mu.Map)+"[key] = values with key and values taken from the list element: when the list names a key twice (header lists may, also in different letter case) the earlier entry's values are overwritten — only the last entry survives; append to the existing entry instead")
		})
	}
	r.OK(key, "R-WIRE", "-", fmt.Sprintf("%d multi-valued map entries written in loops over lists, all accumulate", n))
}
