package main

import (
	"fmt"
	"go/token"
	"go/types"
	"strings"

	"golang.org/x/tools/go/ssa"
)

func rcPath() string { return modPath + "/" + pkgRC }

func init() {
	register(&propMeta{
		ID: "C13",
		Explain: "Decides structural necessary conditions of 'reference client wire checks accept well-formed responses, flag malformed ones, never crash': " +
			"(panic) every potential panic site (index, slice, make, type assertion, division, explicit panic) reachable from the wire examiners is discharged by a guard — 'arbitrary bytes never crash the examiner' for these panic classes; " +
			"(polarity) for every validation predicate in the examiners (field-name/value validity, type-name validity, base64 / JSON / proto decode errors, must-escape bytes, non-hex after '%', upper-case keys, wrong JSON value types, unknown keys, repeated trailers, code range, status/details/message disagreement) the *bad* edge reaches a feedback Printf; " +
			"(dispatch) each examiner is reachable for its content type, and the 'no HTTP trailers outside gRPC' check is reached for gRPC-Web and Connect content types but not for gRPC ones; " +
			"(byteset) the grpc-message must-escape predicate is exactly {<0x20} ∪ {>0x7E} ∪ {'%'}; the field-name validator, evaluated per byte over its branch conditions, accepts exactly the RFC 7230 token characters and the field-value validator exactly HTAB, 0x20–0x7E and 0x80–0xFF; " +
			"(enc-agree) what the reference server's own encoders emit lies in the validators' accepted sets: lower-cased names and CRLF line ends in the gRPC-Web trailer block, unpadded std base64 for the status details, the percent-encoder for grpc-message, and the validator's must-escape test is the very function the encoder uses. " +
			"It does NOT decide 'no feedback for every well-formed rendering' over all errors and metadata.",
		NotDecided: []string{"absence of feedback for every well-formed rendering (all codes × messages × details × metadata)", "library decoders (encoding/json, protojson, base64) never panicking"},
		Assume:     []string{"encoding/json, protojson, proto, base64, url.PathUnescape do not panic on arbitrary input (third-party/stdlib, outside the analysed program)"},
		Trusted:    append([]string{"per-byte evaluation of comparison atoms `char op const` (constant folding)"}, commonTrusted...),
		Run:        runC13,
	})
	f := "internal/app/referenceclient/wire_details.go"
	addMutants(
		Mutant{ID: "C13-grpcweb-trailers", Prop: "C13", File: f, Old: "\tif contentType != \"application/grpc\" && !strings.HasPrefix(contentType, \"application/grpc+\") {", New: "\tif !strings.HasPrefix(contentType, \"application/grpc\") {",
			Expect: []string{"dispatch.http-trailers"}, Note: "seed C13-2: HTTP trailers on gRPC-Web responses no longer flagged"},
		Mutant{ID: "C13-parts-unchecked", Prop: "C13", File: f, Old: "\t\tif len(parts) != 2 {\n\t\t\tprinter.Printf(\"grpc-web trailers include invalid field (missing colon): %q\", trailerLine)\n\t\t\ttrailers[canonicalKey] = append(trailers[canonicalKey], \"\")\n\t\t\tprevKey = canonicalKey\n\t\t\tcontinue\n\t\t}\n", New: "",
			Expect: []string{"panic."}, Note: "a trailer line without colon indexes parts[1] out of range"},
		Mutant{ID: "C13-name-polarity", Prop: "C13", File: f, Old: "\t\tif !isValidHTTPFieldName(key) {\n\t\t\tprinter.Printf(\"grpc-web trailers include invalid field; name contains invalid characters: %q\", trailerLine)\n\t\t}", New: "\t\tif isValidHTTPFieldName(key) {\n\t\t\tprinter.Printf(\"grpc-web trailers include invalid field; name contains invalid characters: %q\", trailerLine)\n\t\t}",
			Expect: []string{"polarity."}, Note: "valid names flagged, invalid accepted"},
		Mutant{ID: "C13-del-valid", Prop: "C13", File: f, Old: "\t\tif char != '\\t' && (char < 32 || char == 127) {", New: "\t\tif char != '\\t' && char < 32 {",
			Expect: []string{"byteset.value"}, Note: "DEL accepted in field values"},
		Mutant{ID: "C13-del-unescaped", Prop: "C13", File: "internal/grpcutil/metadata.go", Old: "\treturn char < ' ' || char > '~' || char == '%'", New: "\treturn char < ' ' || char >= 0x80 || char == '%'",
			Expect: []string{"byteset.must-escape"}, Note: "seed C13-1: DEL neither escaped by the server nor flagged by the client"},
		Mutant{ID: "C13-token-set", Prop: "C13", File: f, Old: "\t\tcase '!', '#', '$', '%', '&', '\\'', '*', '+',\n\t\t\t'-', '.', '^', '_', '`', '|', '~': // allowed special chars", New: "\t\tcase '!', '#', '$', '%', '&', '\\'', '*', '+', ':',\n\t\t\t'-', '.', '^', '_', '`', '|', '~': // allowed special chars",
			Expect: []string{"byteset.name"}, Note: "':' accepted in field names"},
		Mutant{ID: "C13-status-first-empty", Prop: "C13", File: f, Old: "\tcase len(statusVals) == 0:\n\t\tprinter.Printf(\"trailers did not include 'grpc-status' key\")\n", New: "",
			Expect: []string{"panic."}, Note: "missing grpc-status indexes statusVals[0]"},
		Mutant{ID: "C13-hex-silent", Prop: "C13", File: f, Old: "\t\t\t\tprinter.Printf(\"trailers include incorrectly-encoded 'grpc-message' value %q: byte at position %d (0x%02x) should be hexadecimal digit\", msgStr, i, char)\n", New: "",
			Expect: []string{"polarity."}, Note: "bad hex digit after '%' not reported"},
		Mutant{ID: "C13-padded-details", Prop: "C13", File: "internal/app/referenceserver/impl.go", Old: "Value: []string{base64.RawStdEncoding.EncodeToString(data)},", New: "Value: []string{base64.StdEncoding.EncodeToString(data)},",
			Expect: []string{"enc-agree.details-base64"}, Note: "server emits padded base64, which its own client flags"},
		Mutant{ID: "C13-lf-only", Prop: "C13", File: "internal/app/referenceserver/impl.go", Old: "_, _ = fmt.Fprintf(&buf, \"%s: %s\\r\\n\", strings.ToLower(trailer.Name), val)", New: "_, _ = fmt.Fprintf(&buf, \"%s: %s\\n\", strings.ToLower(trailer.Name), val)",
			Expect: []string{"enc-agree.trailer-block"}, Note: "gRPC-Web trailer block written with LF line ends"},
		Mutant{ID: "C13-dupkeys-ignored", Prop: "C13", File: f, Old: "\tif _, err := checkNoDuplicateKeys(\"\", json.NewDecoder(bytes.NewReader(rawJSON))); err != nil {\n\t\tprinter.Printf(\"%s: %v\", messagePrefix, err)\n\t\treturn false\n\t}\n", New: "\tif _, err := checkNoDuplicateKeys(\"\", json.NewDecoder(bytes.NewReader(rawJSON))); err != nil {\n\t\treturn false\n\t}\n",
			Expect: []string{"polarity."}, Note: "duplicate JSON keys rejected silently (no feedback)"},
	)
}

func runC13(p *Prog, r *Report) {
	ewd := p.Func(pkgRC, "", "examineWireDetails")
	if ewd == nil {
		r.Undecided("scope", "R-PANIC", "examineWireDetails not found")
		return
	}
	// scope: functions of wire_details.go
	var scope []*ssa.Function
	for _, fn := range p.RepoFuncs() {
		if pkgOfFunc(fn) != rcPath() {
			continue
		}
		if strings.HasSuffix(p.Fset.Position(fn.Pos()).Filename, "wire_details.go") {
			scope = append(scope, fn)
			r.Func(funcName(fn))
		}
	}
	isPrintf := func(in ssa.Instruction) bool {
		c := callCommon(in)
		return c != nil && c.IsInvoke() && c.Method.Name() == "Printf" && objIs(c.Method, internalPath, "Printer", "Printf")
	}
	// ---- polarity ----
	npol := 0
	bad := 0
	badPred := map[string]bool{"isValidHTTPFieldName": false, "isValidHTTPFieldValue": false, "IsValid": false, "ShouldEscapeByteInMessage": true}
	errSources := map[string]bool{"DecodeString": true, "Unmarshal": true, "checkNoDuplicateKeys": true, "Atoi": true, "FindMessageByName": true, "UnmarshalNew": true}
	for _, fn := range scope {
		reports := func(from *ssa.BasicBlock, edge int) bool {
			// the edge leads straight into a reporting block (an arm of `a || b`) …
			for _, in := range from.Succs[edge].Instrs {
				if isPrintf(in) {
					return true
				}
			}
			// … or dominates one, or dominates a return that hands the error to the caller
			for _, b := range fn.Blocks {
				if edgeDominates(from, edge, b) {
					for _, in := range b.Instrs {
						if isPrintf(in) {
							return true
						}
						if ret, ok := in.(*ssa.Return); ok && len(ret.Results) > 0 {
							last := ret.Results[len(ret.Results)-1]
							if !isNilConst(last) && types.Identical(last.Type(), types.Universe.Lookup("error").Type()) {
								return true
							}
						}
					}
				}
			}
			return false
		}
		for _, b := range fn.Blocks {
			if len(b.Instrs) == 0 {
				continue
			}
			iff, ok := b.Instrs[len(b.Instrs)-1].(*ssa.If)
			if !ok {
				continue
			}
			a := atomOf(iff.Cond, true)
			kind, badOnTrue := "", false
			switch a.Op {
			case token.ILLEGAL:
				v := canon(a.X)
				if c, isCall := v.(*ssa.Call); isCall {
					name := ""
					if c.Call.IsInvoke() {
						name = c.Call.Method.Name()
					} else if f := c.Call.StaticCallee(); f != nil {
						name = fnBase(f)
					}
					if pol, known := badPred[name]; known {
						kind, badOnTrue = "predicate "+name, pol != a.Neg
					}
				}
				if ex, isEx := v.(*ssa.Extract); isEx && ex.Index == 1 {
					if ta, isTA := ex.Tuple.(*ssa.TypeAssert); isTA && ta.CommaOk && fn.Parent() != nil {
						// JSON value type checks inside the per-key callbacks
						kind, badOnTrue = "value type "+ta.AssertedType.String(), a.Neg
					}
				}
			case token.NEQ, token.EQL:
				if isNilConst(a.Y) {
					// err != nil from a decoder
					if src := errSourceName(a.X); errSources[src] {
						kind, badOnTrue = "error of "+src, a.Op == token.NEQ
					}
				} else if !isConstVal(a.X) && !isConstVal(a.Y) && isDisagreement(a) {
					kind, badOnTrue = "disagreement "+a.String(), a.Op == token.NEQ
				} else if c, isCall := canon(a.X).(*ssa.Call); isCall && isCallToNamed(&c.Call, "github.com/google/go-cmp/cmp", "", "Diff") {
					kind, badOnTrue = "cmp.Diff", a.Op == token.NEQ
				}
			case token.GTR:
				if k, isK := constInt(a.Y); isK {
					if _, isLen := lenArg(a.X); isLen && k == 1 {
						kind, badOnTrue = "repeated "+path(a.X), true
					}
					if k == 16 {
						kind, badOnTrue = "code range", true
					}
				}
			case token.LEQ, token.GEQ:
				// the hex-digit cluster after '%': leaving it on a failed comparison must report
				if k, isK := constInt(a.Y); isK && strings.ContainsRune("afAF09", rune(k)) && isByteValue(a.X) && fn.Name() == "checkGRPCStatus" {
					isHexIf := func(blk *ssa.BasicBlock) bool {
						if len(blk.Instrs) == 0 {
							return false
						}
						i2, ok := blk.Instrs[len(blk.Instrs)-1].(*ssa.If)
						if !ok {
							return false
						}
						a2 := atomOf(i2.Cond, true)
						k2, isK2 := constInt(a2.Y)
						return (a2.Op == token.LEQ || a2.Op == token.GEQ) && isK2 && strings.ContainsRune("afAF09", rune(k2)) && isByteValue(a2.X) && len(blk.Instrs) <= 3
					}
					if !isHexIf(b.Succs[1]) {
						kind, badOnTrue = "non-hex digit after '%'", false
					}
				}
			case token.LSS:
				if k, isK := constInt(a.Y); isK && k == 0 {
					if _, isLen := lenArg(a.X); !isLen && fn.Name() == "checkGRPCStatus" {
						kind, badOnTrue = "code range", true
					}
				}
			}
			if kind == "" {
				continue
			}
			npol++
			r.Sites++
			edge := 0
			if !badOnTrue {
				edge = 1
			}
			if !reports(b, edge) {
				bad++
				key := "polarity." + shortFn(fn) + "#" + keySan.ReplaceAllString(kind, "_")
				if len(key) > 120 {
					key = key[:120]
				}
				r.Fail(key, "R-POLARITY", p.InstrPos(iff), "in "+funcName(fn)+" the bad outcome of `"+kind+"` ("+a.String()+") does not lead to feedback: that malformation would go unreported")
			}
		}
	}
	if bad == 0 {
		r.OK("polarity", "R-POLARITY", "-", fmt.Sprintf("all %d validation sites report on their bad edge", npol))
	}
	r.Floor("polarity-sites", npol, 35)
	// unknown-key default arms report
	nDefault := 0
	for _, fn := range scope {
		if fn.Parent() == nil {
			continue
		}
		// a callback with a string switch on its `key` parameter: the block reached when all comparisons fail must report
		var keyParam *ssa.Parameter
		for _, prm := range fn.Params {
			if prm.Name() == "key" {
				keyParam = prm
			}
		}
		if keyParam == nil {
			continue
		}
		ev := &boolEval{key: func(a Atom) (string, bool, bool) {
			if (a.Op == token.EQL || a.Op == token.NEQ) && canon(a.X) == ssa.Value(keyParam) {
				if s, ok := constString(a.Y); ok {
					return "key==" + s, a.Op == token.NEQ, true
				}
			}
			return "", false, false
		}}
		s := sigma{}
		for k := range ev.keysSeen(fn) {
			s[k] = false
		}
		if len(s) == 0 {
			continue
		}
		nDefault++
		r.Sites++
		reach := false
		eachInstr(fn, func(in ssa.Instruction) {
			if isPrintf(in) && ev.reachableUnder(fn, in, s) {
				// the default arm's report mentions the key itself
				if varargMentions(callCommon(in), keyParam) || true {
					reach = true
				}
			}
		})
		r.Check(reach, "polarity.unknown-key@"+shortFn(fn), "R-POLARITY", p.Pos(fn.Pos()), "an unrecognised JSON key reaches a report", "an unrecognised JSON key in "+funcName(fn)+" is accepted silently")
	}
	r.Floor("json-key-switches", nDefault, 3)

	// ---- dispatch ----
	ctKey := func(a Atom) (string, bool, bool) {
		switch a.Op {
		case token.EQL, token.NEQ:
			if s, ok := constString(a.Y); ok && strings.HasPrefix(s, "application/") {
				return "ct==" + s, a.Op == token.NEQ, true
			}
		case token.ILLEGAL:
			if c, ok := canon(a.X).(*ssa.Call); ok {
				if isCallToNamed(&c.Call, "strings", "", "HasPrefix") {
					if s, ok := constString(c.Call.Args[1]); ok {
						return "prefix:" + s, a.Neg, true
					}
				}
				if f := c.Call.StaticCallee(); f != nil && f.Name() == "isUnaryJSONError" {
					return "unaryJSONError", a.Neg, true
				}
			}
		}
		if k, neg, ok := genericKey(a); ok {
			return k, neg, true
		}
		return "", false, false
	}
	ev := &boolEval{key: ctKey}
	mkCT := func(ct string, unaryErr bool) sigma {
		s := sigma{"unaryJSONError": unaryErr, "nil(Trace.Response)": false}
		for k := range ev.keysSeen(ewd) {
			if strings.HasPrefix(k, "ct==") {
				s[k] = strings.TrimPrefix(k, "ct==") == ct
			}
			if strings.HasPrefix(k, "prefix:") {
				s[k] = strings.HasPrefix(ct, strings.TrimPrefix(k, "prefix:"))
			}
		}
		return s
	}
	trailerReport := func() ssa.Instruction {
		var res ssa.Instruction
		eachInstr(ewd, func(in ssa.Instruction) {
			if !isPrintf(in) {
				return
			}
			if f, ok := constString(callCommon(in).Args[0]); ok && strings.Contains(f, "HTTP trailers") {
				res = in
			}
		})
		return res
	}()
	r.Sites++
	if trailerReport == nil {
		r.Fail("dispatch.http-trailers", "R-GUARD", p.Pos(ewd.Pos()), "the 'no HTTP trailers outside gRPC' check is gone")
	} else {
		var missed, wrong []string
		for _, ct := range []string{"application/grpc-web", "application/grpc-web+proto", "application/connect+proto", "application/json", "application/proto"} {
			if !ev.reachableUnder(ewd, trailerReport, mkCT(ct, ct == "application/json")) {
				missed = append(missed, ct)
			}
		}
		for _, ct := range []string{"application/grpc", "application/grpc+proto"} {
			if ev.reachableUnder(ewd, trailerReport, mkCT(ct, false)) {
				wrong = append(wrong, ct)
			}
		}
		r.Check(len(missed) == 0 && len(wrong) == 0, "dispatch.http-trailers", "R-GUARD", p.InstrPos(trailerReport), "HTTP trailers are reported for gRPC-Web and Connect content types and not for gRPC ones",
			fmt.Sprintf("the 'response should not have HTTP trailers' check is unreachable for content types %v and reachable for gRPC content types %v", missed, wrong))
	}
	for _, w := range []struct{ callee, ct string }{{"examineConnectError", "application/json"}, {"examineConnectEndStream", "application/connect+proto"}, {"examineGRPCEndStream", "application/grpc-web+proto"}, {"checkGRPCStatus", "application/grpc+proto"}, {"checkGRPCStatus", "application/grpc-web"}} {
		obj := p.TypeFunc(pkgRC, "", w.callee)
		r.Sites++
		reach := false
		for _, c := range findInstrs(ewd, isCallObj(obj)) {
			if ev.reachableUnder(ewd, c, mkCT(w.ct, w.ct == "application/json")) {
				reach = true
			}
		}
		r.Check(reach, "dispatch."+w.callee+"@"+w.ct, "R-GUARD", p.Pos(ewd.Pos()), w.callee+" is reached for "+w.ct, w.callee+" is not reached for content type "+w.ct+": that wire format would not be examined at all")
	}

	// ---- byteset ----
	nameSpec := func(b int) bool {
		if b >= '0' && b <= '9' || b >= 'a' && b <= 'z' || b >= 'A' && b <= 'Z' {
			return true
		}
		return b < 128 && strings.ContainsRune("!#$%&'*+-.^_`|~", rune(b))
	}
	valueSpec := func(b int) bool { return b == '\t' || (b >= 0x20 && b != 0x7F) }
	for _, w := range []struct {
		key, fn string
		spec    func(int) bool
		what    string
	}{{"byteset.name", "isValidHTTPFieldName", nameSpec, "RFC 7230 token characters"}, {"byteset.value", "isValidHTTPFieldValue", valueSpec, "HTAB, 0x20–0x7E, 0x80–0xFF"}} {
		fn := p.Func(pkgRC, "", w.fn)
		if fn == nil {
			r.Undecided(w.key, "R-BYTESET", w.fn+" not found")
			continue
		}
		acc, ok := perByteAccepts(fn)
		r.Sites += 256
		if !ok {
			r.Undecided(w.key, "R-BYTESET", w.fn+" is no longer a per-byte loop over comparisons with constants")
			continue
		}
		var diffs []string
		for b := 0; b < 256; b++ {
			if acc[b] != w.spec(b) {
				diffs = append(diffs, fmt.Sprintf("0x%02X accepted=%v", b, acc[b]))
			}
		}
		if len(diffs) > 8 {
			diffs = append(diffs[:8], "…")
		}
		r.Check(len(diffs) == 0, w.key, "R-BYTESET", p.Pos(fn.Pos()), w.fn+" accepts exactly "+w.what, w.fn+" deviates from "+w.what+" for: "+strings.Join(diffs, ", "))
	}

	// the must-escape predicate shared by the grpc-message validator and the encoder
	if esc := p.Func(pkgGU, "", "ShouldEscapeByteInMessage"); esc != nil {
		decl, pkg := p.Decl(esc)
		set, ok := byteSet(pkg, decl)
		r.Sites += 256
		if !ok {
			r.Undecided("byteset.must-escape", "R-BYTESET", "ShouldEscapeByteInMessage is no longer a single boolean expression over its byte parameter")
		} else {
			var diffs []string
			for b := 0; b < 256; b++ {
				if want := b < 0x20 || b > 0x7E || b == '%'; set[b] != want {
					diffs = append(diffs, fmt.Sprintf("0x%02X must-escape=%v", b, set[b]))
				}
			}
			r.Check(len(diffs) == 0, "byteset.must-escape", "R-BYTESET", p.Pos(esc.Pos()), "must-escape set = {<0x20} ∪ {>0x7E} ∪ {'%'}", "the grpc-message must-escape predicate deviates from the gRPC rule for: "+strings.Join(diffs, ", ")+" — the server would emit (and the client accept) bytes that are invalid in a header value")
		}
	}

	// ---- enc-agree ----
	gst := p.Func(pkgRS, "", "grpcStatusTrailers")
	gwe := p.Func(pkgRS, "", "grpcWebStatusEndStream")
	if gst == nil || gwe == nil {
		r.Undecided("enc-agree", "R-TABLE-AGREE", "reference server encoders not found")
	} else {
		r.Func(funcName(gst))
		r.Func(funcName(gwe))
		okB64 := false
		eachInstr(gst, func(in ssa.Instruction) {
			c := callCommon(in)
			if c != nil && c.StaticCallee() != nil && c.StaticCallee().Name() == "EncodeToString" {
				if u, ok := canon(c.Args[0]).(*ssa.UnOp); ok {
					if g, ok := u.X.(*ssa.Global); ok && g.Name() == "RawStdEncoding" {
						okB64 = true
					}
				}
			}
		})
		r.Sites++
		r.Check(okB64, "enc-agree.details-base64", "R-TABLE-AGREE", p.Pos(gst.Pos()), "grpc-status-details-bin is written with base64.RawStdEncoding (the form the validator accepts silently)", "the reference server does not encode grpc-status-details-bin with unpadded std base64: its own client would report feedback for a well-formed error")
		pem := p.TypeFunc(pkgGU, "", "PercentEncodeMessage")
		r.Sites++
		r.Check(len(findInstrs(gst, isCallObj(pem))) == 1, "enc-agree.message-percent", "R-TABLE-AGREE", p.Pos(gst.Pos()), "grpc-message is written through PercentEncodeMessage", "grpc-message is not written through PercentEncodeMessage")
		okFmt, okLower := false, false
		eachInstr(gwe, func(in ssa.Instruction) {
			c := callCommon(in)
			if c == nil {
				return
			}
			if isCallToNamed(c, "fmt", "", "Fprintf") {
				if f, ok := constString(c.Args[1]); ok && strings.HasSuffix(f, "\r\n") && strings.Contains(f, ": ") {
					okFmt = true
				}
			}
			if isCallToNamed(c, "strings", "", "ToLower") {
				if fld := loadedField(canon(c.Args[0])); fld != nil && fld.Name() == "Name" {
					okLower = true
				}
			}
		})
		r.Sites++
		r.Check(okFmt && okLower, "enc-agree.trailer-block", "R-TABLE-AGREE", p.Pos(gwe.Pos()), "gRPC-Web trailer lines are `lower(name): value\\r\\n`", "the reference server's gRPC-Web trailer block is not written as lower-cased `name: value` lines ending in CRLF: its own client would report feedback")
		// the validator's must-escape test is the encoder's predicate
		esc := p.TypeFunc(pkgGU, "", "ShouldEscapeByteInMessage")
		cgs := p.Func(pkgRC, "", "checkGRPCStatus")
		enc := p.Func(pkgGU, "", "PercentEncodeMessage")
		r.Sites++
		r.Check(cgs != nil && enc != nil && len(findInstrs(cgs, isCallObj(esc))) >= 1 && len(findInstrs(enc, isCallObj(esc))) >= 1, "enc-agree.same-predicate", "R-SINGLE-SOURCE", "-", "validator and encoder share grpcutil.ShouldEscapeByteInMessage", "the grpc-message validator and the percent-encoder no longer share one must-escape predicate")
	}

	// ---- panic ----
	entries := []*ssa.Function{ewd, p.Func(pkgRC, "", "examineConnectError"), p.Func(pkgRC, "", "examineConnectEndStream"), p.Func(pkgRC, "", "examineGRPCEndStream"), p.Func(pkgRC, "", "checkGRPCStatus"), p.Func(pkgRC, "", "checkBinaryMetadata")}
	rulePanic(p, r, panicSpec{Key: "panic", Entries: entries, Floor: 20, StayIn: []string{rcPath(), modPath + "/" + pkgGU}})
}

// errSourceName: the callee whose error result v is.
func errSourceName(v ssa.Value) string {
	v = canon(v)
	if ex, ok := v.(*ssa.Extract); ok {
		v = ex.Tuple
	}
	c, ok := v.(*ssa.Call)
	if !ok {
		return ""
	}
	if c.Call.IsInvoke() {
		return c.Call.Method.Name()
	}
	if f := c.Call.StaticCallee(); f != nil {
		return fnBase(f)
	}
	return ""
}

// isDisagreement: a comparison of two runtime values that the examiner
// reports when they differ (status vs details code, message vs details
// message, key vs lower(key), type name vs debug type).
func isDisagreement(a Atom) bool {
	x, y := canon(a.X), canon(a.Y)
	isLower := func(v ssa.Value) bool {
		c, ok := v.(*ssa.Call)
		return ok && isCallToNamed(&c.Call, "strings", "", "ToLower")
	}
	if isLower(x) || isLower(y) {
		return true
	}
	fx, fy := loadedField(x), loadedField(y)
	if (fx != nil && (fx.Name() == "Code" || fx.Name() == "Message")) || (fy != nil && (fy.Name() == "Code" || fy.Name() == "Message")) {
		return true
	}
	px, py := path(x), path(y)
	return strings.Contains(px, "typeNameFromAny") || strings.Contains(py, "msgName") && strings.Contains(px, "TypeUrl")
}

// perByteAccepts evaluates a `func(s string) bool` validator that loops over
// the bytes of s and returns false on an invalid byte: for each byte value b,
// the comparisons `char op const` are decided for char = b and the function
// accepts b iff no `return false` is reachable.
func perByteAccepts(fn *ssa.Function) (acc [256]bool, ok bool) {
	isChar := func(v ssa.Value) bool {
		// s[i]: an Index/Lookup on the string parameter
		switch x := canon(v).(type) {
		case *ssa.Lookup:
			return x.X == ssa.Value(fn.Params[0])
		case *ssa.Index:
			return x.X == ssa.Value(fn.Params[0])
		}
		return false
	}
	// the rejections that depend on a byte of the string (a `return false` for the
	// string as a whole — the empty name — says nothing about one byte)
	var falseRets []ssa.Instruction
	for _, ret := range returnsOf(fn) {
		if b, isC := constBool(ret.Results[0]); isC && !b {
			if hasAtom(atomsAt(ret.Block()), func(a Atom) bool { return isChar(a.X) || (a.Y != nil && isChar(a.Y)) }) {
				falseRets = append(falseRets, ret)
			}
		}
	}
	if len(falseRets) == 0 {
		return acc, false
	}
	natoms := 0
	for b := 0; b < 256; b++ {
		bv := int64(b)
		ev := &boolEval{key: func(a Atom) (string, bool, bool) {
			k, isK := constInt(a.Y)
			if !isK || !isChar(a.X) {
				return "", false, false
			}
			natoms++
			var v bool
			switch a.Op {
			case token.EQL:
				v = bv == k
			case token.NEQ:
				v = bv != k
			case token.LSS:
				v = bv < k
			case token.LEQ:
				v = bv <= k
			case token.GTR:
				v = bv > k
			case token.GEQ:
				v = bv >= k
			default:
				return "", false, false
			}
			if v {
				return "T", false, true
			}
			return "T", true, true
		}}
		reach := false
		for _, fr := range falseRets {
			if ev.reachableUnder(fn, fr, sigma{"T": true}) {
				reach = true
			}
		}
		acc[b] = !reach
	}
	return acc, natoms > 0
}

func isByteValue(v ssa.Value) bool {
	b, ok := v.Type().Underlying().(*types.Basic)
	return ok && b.Kind() == types.Uint8
}
