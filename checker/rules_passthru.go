package main

// R-PASSTHRU: a wrapper method returns exactly what its single inner call
// returned, hands the inner call its own parameters, and does not write to
// the []byte it was given.

import (
	"fmt"
	"go/token"
	"go/types"

	"golang.org/x/tools/go/ssa"
)

type passthruSpec struct {
	Key      string
	Fn       *ssa.Function
	InnerIs  func(*ssa.CallCommon) bool // identifies the wrapped call
	NResults int
	// ParamArgs: inner-call argument index (excluding receiver for invoke) -> parameter index of Fn (including receiver)
	ParamArgs map[int]int
	// AllowNoInner: paths that return without the inner call are allowed to return these constants only (e.g. nothing)
	Optional bool
}

func rulePassthru(p *Prog, r *Report, sp passthruSpec) {
	if sp.Fn == nil {
		r.Undecided(sp.Key, "R-PASSTHRU", "wrapper method not found")
		return
	}
	fn := sp.Fn
	r.Func(funcName(fn))
	var inner []*ssa.Call
	eachInstr(fn, func(in ssa.Instruction) {
		if c, ok := in.(*ssa.Call); ok && sp.InnerIs(&c.Call) {
			inner = append(inner, c)
		}
	})
	r.Sites++
	if len(inner) != 1 {
		r.Fail(sp.Key+".inner", "R-PASSTHRU", p.Pos(fn.Pos()), fmt.Sprintf("%s must delegate to exactly one inner call, found %d", funcName(fn), len(inner)))
		return
	}
	call := inner[0]
	// arguments are the wrapper's own parameters
	for ai, pi := range sp.ParamArgs {
		r.Sites++
		if ai >= len(call.Call.Args) || pi >= len(fn.Params) {
			r.Fail(sp.Key+".args", "R-PASSTHRU", p.InstrPos(call), "argument/parameter index out of range")
			continue
		}
		if canon(call.Call.Args[ai]) != ssa.Value(fn.Params[pi]) {
			r.Fail(sp.Key+".args", "R-PASSTHRU", p.InstrPos(call), fmt.Sprintf("inner call argument #%d is %s, not the wrapper's parameter %s: the wrapped operation would see different data", ai, path(call.Call.Args[ai]), fn.Params[pi].Name()))
		}
	}
	// results
	bad := false
	for _, ret := range returnsOf(fn) {
		for i := 0; i < sp.NResults; i++ {
			r.Sites++
			for _, v := range retVals(ret, i) {
				if !isResultOf(v, call, i, sp.NResults) {
					bad = true
					r.Fail(fmt.Sprintf("%s.result%d", sp.Key, i), "R-PASSTHRU", p.InstrPos(ret),
						fmt.Sprintf("%s returns %s as result #%d instead of result #%d of the wrapped call: the application would observe a different count/error than without tracing", funcName(fn), path(v), i, i))
				}
			}
		}
		if !sp.Optional && !precededBy(ret, func(in ssa.Instruction) bool { return in == ssa.Instruction(call) }) {
			bad = true
			r.Fail(sp.Key+".always", "R-PASSTHRU", p.InstrPos(ret), funcName(fn)+" can return without performing the wrapped operation")
		}
	}
	if !bad {
		r.OK(sp.Key, "R-PASSTHRU", p.InstrPos(call), fmt.Sprintf("single inner call %s with the wrapper's own parameters; every return yields its results unchanged", path(call)))
	}
}

func isResultOf(v ssa.Value, call *ssa.Call, i, n int) bool {
	if v == nil {
		return false
	}
	v = canon(v)
	if n == 1 {
		return v == ssa.Value(call)
	}
	ex, ok := v.(*ssa.Extract)
	return ok && ex.Tuple == ssa.Value(call) && ex.Index == i
}

// readOnlyParam: the []byte parameter #idx of fn is never written through and
// never retained: it flows only to len/cap, re-slicing, element loads, the
// source side of append/copy, the listed copying library calls, and repository
// callees that are themselves read-only in it.
func readOnlyParam(p *Prog, fn *ssa.Function, idx int, seen map[*ssa.Function]bool, allowInner func(*ssa.CallCommon) bool) (bool, string) {
	if fn == nil || idx >= len(fn.Params) {
		return false, "parameter not found"
	}
	if seen[fn] {
		return true, ""
	}
	seen[fn] = true
	visited := map[ssa.Value]bool{}
	var check func(v ssa.Value, depth int) (bool, string)
	check = func(v ssa.Value, depth int) (bool, string) {
		if visited[v] {
			return true, ""
		}
		visited[v] = true
		if depth > 200 {
			return false, "alias chain too deep"
		}
		refs := v.Referrers()
		if refs == nil {
			return true, ""
		}
		for _, ref := range *refs {
			switch x := ref.(type) {
			case *ssa.Slice:
				if x.X != v {
					continue
				}
				if ok, why := check(x, depth+1); !ok {
					return false, why
				}
			case *ssa.Phi:
				if ok, why := check(x, depth+1); !ok {
					return false, why
				}
			case *ssa.IndexAddr:
				// element address: only loads allowed
				for _, r2 := range *x.Referrers() {
					if u, ok := r2.(*ssa.UnOp); ok && u.Op == token.MUL {
						continue
					}
					return false, "element of the buffer is written or its address escapes at " + p.InstrPos(r2)
				}
			case *ssa.Index, *ssa.DebugRef:
			case *ssa.Store:
				if x.Val == v {
					// stored into a local cell (spill): follow loads of that cell
					if a, ok := x.Addr.(*ssa.Alloc); ok && !a.Heap {
						for _, r2 := range *a.Referrers() {
							if u, ok := r2.(*ssa.UnOp); ok && u.Op == token.MUL {
								if ok2, why := check(u, depth+1); !ok2 {
									return false, why
								}
							}
						}
						continue
					}
					return false, "buffer is retained (stored) at " + p.InstrPos(x)
				}
			case ssa.CallInstruction:
				c := x.Common()
				argIdx := -1
				for i, a := range c.Args {
					if a == v {
						argIdx = i
					}
				}
				if argIdx < 0 {
					continue
				}
				if allowInner != nil && allowInner(c) {
					continue
				}
				if b, ok := c.Value.(*ssa.Builtin); ok {
					switch b.Name() {
					case "len", "cap":
						continue
					case "append", "copy":
						if argIdx == 1 || (b.Name() == "append" && argIdx > 0) {
							continue
						}
						return false, "buffer is the destination of " + b.Name() + " at " + p.InstrPos(ref)
					}
					return false, "buffer passed to builtin " + b.Name()
				}
				callee := c.StaticCallee()
				if callee != nil && p.IsRepoFunc(callee) {
					if ok, why := readOnlyParam(p, callee, argIdx, seen, allowInner); !ok {
						return false, why
					}
					continue
				}
				if callee != nil && isCopyingLibCall(callee) {
					continue
				}
				return false, "buffer passed to " + callPath(c, 0) + " at " + p.InstrPos(ref) + ", which is not known to be read-only"
			case *ssa.MakeInterface, *ssa.ChangeType, *ssa.Convert:
				if ok, why := check(x.(ssa.Value), depth+1); !ok {
					return false, why
				}
			case *ssa.BinOp, *ssa.If:
			case *ssa.Return:
				return false, "buffer is returned at " + p.InstrPos(ref)
			default:
				return false, fmt.Sprintf("unrecognised use of the buffer (%T) at %s", ref, p.InstrPos(ref))
			}
		}
		return true, ""
	}
	return check(fn.Params[idx], 0)
}

// isCopyingLibCall: library calls known to only read (copy from) their []byte argument.
func isCopyingLibCall(f *ssa.Function) bool {
	obj := funcObj(f)
	if obj == nil || obj.Pkg() == nil {
		return false
	}
	name := obj.Name()
	recv := ""
	if sig := obj.Type().(*types.Signature); sig.Recv() != nil {
		t := sig.Recv().Type()
		if pt, ok := t.(*types.Pointer); ok {
			t = pt.Elem()
		}
		if n, ok := t.(*types.Named); ok {
			recv = n.Obj().Name()
		}
	}
	switch obj.Pkg().Path() {
	case "bytes":
		return (recv == "Buffer" && name == "Write") || (recv == "" && (name == "NewReader" || name == "Equal"))
	case "encoding/binary":
		return recv == "bigEndian" || recv == "littleEndian"
	}
	return false
}
