package main

import (
	"fmt"
	"go/constant"
	"go/token"
	"go/types"
	"net/textproto"
	"sort"
	"strings"

	"golang.org/x/tools/go/ssa"
)

func init() {
	register(&propMeta{
		ID: "C12",
		Explain: "Decides structural necessary conditions of 'the reference server flags exactly the requests that deviate from the test setup': " +
			"(all-aspects) the wrapped handler is invoked only for a request with a test name and only after the repeat count, the four enum expectations (each checked on its parse-ok edge with its own value), TLS and method were examined; the trailer check follows the handler after draining the body; " +
			"(polarity) in every check the mismatch edge of each expected-vs-actual comparison reaches feedback.Printf and the match edge can avoid it; enumValue reports unparsable and out-of-range values; " +
			"(names) the x-expect-* header names written by the runner and read by the server agree up to MIME canonicalisation, enum-valued ones with the same enum type on both sides, and the enum→value tables of the checks follow the enum names; the gRPC / gRPC-Web content types are classified alike by the protocol, codec and compression checks; " +
			"(feedback-channel) within the checks the error printer is only written through feedbackPrinter.Printf, which prefixes the test name; " +
			"(timeout) a present timeout header is always removed, the digit limits are the protocols' (10 and 8), each unit's multiplier agrees with its round-trip function and the accepted units are exactly the switch's, overflow saturates to MaxInt64 on the round-trip-mismatch edge, and the accepted value is what is stored in the context under the key the request-info reads. " +
			"It does NOT decide the full expected × actual matrix nor that the timeout grammar is accepted exactly (ParseInt admits a leading '+' and leading zeros; a value-level question).",
		NotDecided: []string{"the full expected × actual matrix of aspects", "exact acceptance of the timeout grammar (leading sign/zeros)", "undeclared HTTP/1.1 request trailers are invisible to the check because an earlier middleware copies the request (observed by a seeding agent; needs net/http behaviour, not decidable here)"},
		Assume:     []string{"net/http header canonicalisation"},
		Trusted:    commonTrusted,
		Run:        runC12,
	})
	f := "internal/app/referenceserver/checks.go"
	addMutants(
		Mutant{ID: "C12-overflow-sign", Prop: "C12", File: f, Old: "\t\tif roundTripped != intVal {\n\t\t\t// Overflow. Just use max possible value\n\t\t\ttimeout = time.Duration(math.MaxInt64)\n\t\t}\n\t\treturn timeout, true\n\t}\n\treturn 0, false", New: "\t\t_ = roundTripped\n\t\tif timeout < 0 {\n\t\t\t// Overflow. Just use max possible value\n\t\t\ttimeout = time.Duration(math.MaxInt64)\n\t\t}\n\t\treturn timeout, true\n\t}\n\treturn 0, false",
			Expect: []string{"timeout.saturate"}, Note: "seed C12-1: overflow detected by sign only (positive wrap-around accepted)"},
		Mutant{ID: "C12-grpcweb-bare", Prop: "C12", File: f, Old: "\t\tcase contentType == grpcContentType || contentType == grpcWebContentType ||\n\t\t\tstrings.HasPrefix(contentType, grpcContentTypePrefix) ||", New: "\t\tcase contentType == grpcContentType ||\n\t\t\tstrings.HasPrefix(contentType, grpcContentTypePrefix) ||",
			Expect: []string{"names.content-types"}, Note: "seed C12-2: bare application/grpc-web read from the wrong encoding header"},
		Mutant{ID: "C12-codec-unchecked", Prop: "C12", File: f, Old: "\t\tif codec, ok := enumValue(\"X-Expect-Codec\", req.Header, conformancev1.Codec(0), feedback); ok {\n\t\t\tcheckCodec(codec, req, feedback)\n\t\t}\n", New: "",
			Expect: []string{"all-aspects."}, Note: "codec expectation never examined"},
		Mutant{ID: "C12-tls-polarity", Prop: "C12", File: f, Old: "\t} else if !expectTLS && req.TLS != nil {\n\t\tfeedback.Printf(\"expecting plain-text request but instead was TLS\")\n\t\treturn\n\t}", New: "\t} else if !expectTLS && req.TLS != nil {\n\t\treturn\n\t}",
			Expect: []string{"polarity."}, Note: "TLS used where plain text expected goes unreported"},
		Mutant{ID: "C12-no-del", Prop: "C12", File: f, Old: "\t\theaders.Del(grpcTimeoutHeader)\n", New: "",
			Expect: []string{"timeout.removed"}, Note: "gRPC timeout left in place: the server enforces it"},
		Mutant{ID: "C12-digits", Prop: "C12", File: f, Old: "if intVal > 99999999 { // 8 digit max", New: "if intVal > 999999999 { // 8 digit max",
			Expect: []string{"timeout.digit-limits"}, Note: "nine-digit gRPC timeouts accepted"},
		Mutant{ID: "C12-unit-mismatch", Prop: "C12", File: f, Old: "\t\t\ttimeout = time.Duration(intVal) * time.Minute\n\t\t\troundTripped = int64(timeout.Minutes())", New: "\t\t\ttimeout = time.Duration(intVal) * time.Second\n\t\t\troundTripped = int64(timeout.Seconds())",
			Expect: []string{"timeout.units"}, Note: "minutes treated as seconds"},
		Mutant{ID: "C12-no-name-passthrough", Prop: "C12", File: f, Old: "\t\tif !ok {\n\t\t\t// This is the only hard failure.", New: "\t\tif false && !ok {\n\t\t\t// This is the only hard failure.",
			Expect: []string{"all-aspects.requires-name"}, Note: "requests without a test name reach the handler"},
		Mutant{ID: "C12-enum-header-cross", Prop: "C12", File: f, Old: "enumValue(\"X-Expect-Compression\", req.Header, conformancev1.Compression(0), feedback)", New: "enumValue(\"X-Expect-Codec\", req.Header, conformancev1.Compression(0), feedback)",
			Expect: []string{"names."}, Note: "compression expectation read from the codec header"},
		Mutant{ID: "C12-compression-table", Prop: "C12", File: f, Old: "\tcase conformancev1.Compression_COMPRESSION_ZSTD:\n\t\texpect = compression.Zstd\n\tcase conformancev1.Compression_COMPRESSION_DEFLATE:\n\t\texpect = compression.Deflate", New: "\tcase conformancev1.Compression_COMPRESSION_ZSTD:\n\t\texpect = compression.Deflate\n\tcase conformancev1.Compression_COMPRESSION_DEFLATE:\n\t\texpect = compression.Zstd",
			Expect: []string{"names.enum-table"}, Note: "zstd and deflate names swapped"},
		Mutant{ID: "C12-direct-print", Prop: "C12", File: f, Old: "\t\t\tfeedback.Printf(\"client sent another request (#%d) for the same test case\", count+1)", New: "\t\t\terrPrinter.Printf(\"client sent another request (#%d) for the same test case\", count+1)",
			Expect: []string{"feedback-channel"}, Note: "feedback written without the test-name prefix"},
	)
}

func rsPath() string { return modPath + "/" + pkgRS }

func runC12(p *Prog, r *Report) {
	rsc := p.Func(pkgRS, "", "referenceServerChecks")
	if rsc == nil || len(rsc.AnonFuncs) == 0 {
		r.Undecided("all-aspects", "R-ORDER", "referenceServerChecks handler not found")
		return
	}
	h := rsc.AnonFuncs[0]
	r.Func(funcName(h))
	fbPrintf := p.TypeFunc(pkgRS, "feedbackPrinter", "Printf")
	isFeedback := isCallObj(fbPrintf)
	enumValueFn := p.Func(pkgRS, "", "enumValue")
	getHeaderObj := p.TypeFunc(pkgRS, "", "getHeader")
	isEnumValue := func(c *ssa.CallCommon) bool {
		f := c.StaticCallee()
		return f != nil && f.Origin() == enumValueFn && enumValueFn != nil
	}
	// ---- all-aspects ----
	var serve ssa.Instruction
	eachInstr(h, func(in ssa.Instruction) {
		if c := callCommon(in); c != nil && c.IsInvoke() && c.Method.Name() == "ServeHTTP" {
			serve = in
		}
	})
	if serve == nil {
		r.Undecided("all-aspects", "R-ORDER", "handler.ServeHTTP call not found")
		return
	}
	gtn := p.TypeFunc(pkgRS, "", "getTestCaseName")
	r.Sites++
	r.Check(guardedBy(serve, func(a Atom) bool {
		m, v := boolTestOn(a, isCallResult(func(c *ssa.CallCommon) bool { return calleeObj(c) == gtn }))
		return m && v
	}),
		"all-aspects.requires-name", "R-GUARD", p.InstrPos(serve), "the handler runs only on the getTestCaseName ok edge", "a request without a test name can reach the wrapped handler (it must be rejected outright: no feedback can be attributed)")
	pairs := map[string]string{"X-Expect-Http-Version": "checkHTTPVersion", "X-Expect-Protocol": "checkProtocol", "X-Expect-Codec": "checkCodec", "X-Expect-Compression": "checkCompression"}
	readerEnum := map[string]string{} // canonical header -> enum type
	for hdr, chk := range pairs {
		r.Sites++
		chkObj := p.TypeFunc(pkgRS, "", chk)
		var ev *ssa.Call
		eachInstr(h, func(in ssa.Instruction) {
			if c, ok := in.(*ssa.Call); ok && isEnumValue(&c.Call) {
				if s, isS := constString(c.Call.Args[0]); isS && textproto.CanonicalMIMEHeaderKey(s) == hdr {
					ev = c
				}
			}
		})
		ok := ev != nil
		if ok {
			readerEnum[hdr] = enumTypeName(ev.Call.Args[2].Type())
			calls := findInstrs(h, isCallObj(chkObj))
			ok = len(calls) == 1
			if ok {
				cc := callCommon(calls[0])
				ex, isEx := cc.Args[0].(*ssa.Extract)
				ok = isEx && ex.Tuple == ssa.Value(ev) && ex.Index == 0 &&
					guardedBy(calls[0], func(a Atom) bool {
						m, v := boolTestOn(a, func(x ssa.Value) bool {
							e2, ok := x.(*ssa.Extract)
							return ok && e2.Tuple == ssa.Value(ev) && e2.Index == 1
						})
						return m && v
					}) && precededBy(serve, func(in ssa.Instruction) bool { return in == ssa.Instruction(ev) }) && !reachesInstr(serve, calls[0])
			}
		}
		r.Check(ok, "all-aspects."+chk, "R-ORDER", p.Pos(h.Pos()), chk+"(enumValue("+hdr+")) on its ok edge, before the handler", "the aspect "+hdr+" is not parsed and handed to "+chk+" (on the parse-ok edge, with its own value) before the handler runs")
	}
	checkTLS := p.TypeFunc(pkgRS, "", "checkTLS")
	r.Sites += 3
	r.Check(precededBy(serve, isCallObj(checkTLS)), "all-aspects.checkTLS", "R-ORDER", p.InstrPos(serve), "checkTLS precedes the handler on every path", "TLS / client-certificate use is not checked on every path before the handler runs")
	okMethod := false
	for b := range blocksOf(h) {
		if iff, ok := b.Instrs[len(b.Instrs)-1].(*ssa.If); ok {
			a := atomOf(iff.Cond, true)
			if a.Op == token.NEQ || a.Op == token.EQL {
				x, y := canon(a.X), canon(a.Y)
				isMethod := func(v ssa.Value) bool { f := loadedField(v); return f != nil && f.Name() == "Method" }
				isExp := func(v ssa.Value) bool {
					ex, ok := v.(*ssa.Extract)
					if !ok {
						return false
					}
					c, ok := ex.Tuple.(*ssa.Call)
					if !ok || calleeObj(&c.Call) != getHeaderObj {
						return false
					}
					s, isS := constString(c.Call.Args[1])
					return isS && textproto.CanonicalMIMEHeaderKey(s) == "X-Expect-Http-Method"
				}
				if (isMethod(x) && isExp(y) || isMethod(y) && isExp(x)) && precededByBlock(serve.Block(), iff) {
					okMethod = true
				}
			}
		}
	}
	r.Check(okMethod, "all-aspects.method", "R-ORDER", p.InstrPos(serve), "req.Method is compared with X-Expect-Http-Method before the handler", "the HTTP method is not compared with the expected one before the handler runs")
	// repeat count
	okRepeat := false
	eachInstr(h, func(in ssa.Instruction) {
		if !isFeedback(in) {
			return
		}
		if guardedBy(in, func(a Atom) bool {
			if a.Op != token.GTR {
				return false
			}
			z, isZ := constInt(a.Y)
			_, isLk := canon(a.X).(*ssa.Lookup)
			return isZ && z == 0 && isLk
		}) && reachesInstr(in, serve) {
			okRepeat = true
		}
	})
	okIncr := false
	eachInstr(h, func(in ssa.Instruction) {
		if mu, ok := in.(*ssa.MapUpdate); ok {
			if bo, ok := mu.Value.(*ssa.BinOp); ok && bo.Op == token.ADD {
				if lk, ok := canon(bo.X).(*ssa.Lookup); ok && sameVal(lk.Index, mu.Key) {
					okIncr = precededBy(serve, func(x ssa.Instruction) bool { return x == in })
				}
			}
		}
	})
	r.Check(okRepeat && okIncr, "all-aspects.repeat", "R-ORDER", p.Pos(h.Pos()), "per-test request count incremented on every request and a repeat reported", "a repeated request for the same test case is not counted and reported before the handler runs")
	// trailers after the handler
	okTr := false
	eachInstr(h, func(in ssa.Instruction) {
		if !isFeedback(in) || !reachesInstr(serve, in) {
			return
		}
		if guardedBy(in, func(a Atom) bool {
			if a.Op != token.GTR && a.Op != token.NEQ {
				return false
			}
			z, isZ := constInt(a.Y)
			x, isLen := lenArg(a.X)
			f := loadedField(canon(x))
			return isZ && z == 0 && isLen && f != nil && f.Name() == "Trailer"
		}) && precededBy(in, func(x ssa.Instruction) bool {
			c := callCommon(x)
			return c != nil && isCallToNamed(c, "io", "", "Copy") && reachesInstr(serve, x)
		}) {
			okTr = true
		}
	})
	r.Sites++
	r.Check(okTr, "all-aspects.trailers", "R-ORDER", p.Pos(h.Pos()), "after the handler the body is drained and request trailers are reported", "request trailers are not reported after the handler (with the body drained first)")

	// ---- polarity ----
	npol := 0
	for _, name := range []string{"checkHTTPVersion", "checkProtocol", "checkCodec", "checkCompression", "checkTLS"} {
		fn := p.Func(pkgRS, "", name)
		if fn == nil {
			r.Undecided("polarity."+name, "R-POLARITY", name+" not found")
			continue
		}
		r.Func(funcName(fn))
		reports := func(from *ssa.BasicBlock, edge int) bool {
			for _, b := range fn.Blocks {
				if edgeDominates(from, edge, b) {
					for _, in := range b.Instrs {
						if isFeedback(in) {
							return true
						}
					}
				}
			}
			return false
		}
		for _, b := range fn.Blocks {
			iff, ok := b.Instrs[len(b.Instrs)-1].(*ssa.If)
			if !ok {
				continue
			}
			a := atomOf(iff.Cond, true)
			relevant, differsOnTrue := false, false
			what := a.String()
			switch {
			case (a.Op == token.NEQ || a.Op == token.EQL) && !isConstVal(a.X) && !isConstVal(a.Y) && isExpectedVsActual(a, fn):
				relevant, differsOnTrue = true, a.Op == token.NEQ
			case name == "checkTLS" && a.Op != token.ILLEGAL && (isNilConst(a.Y) || isNilConst(a.X)):
				// the TLS xor arms: (expectTLS ∧ TLS == nil), (¬expectTLS ∧ TLS != nil): arms nested under expectTLS tests
				as := atomsAt(b)
				exp, known := false, false
				for _, f := range as {
					if f.Op == token.ILLEGAL {
						if c, ok := canon(f.X).(*ssa.Extract); ok {
							if cl, ok := c.Tuple.(*ssa.Call); ok && isCallToNamed(&cl.Call, "strconv", "", "ParseBool") {
								exp, known = !f.Neg, true
							}
						}
					}
				}
				if known {
					relevant = true
					tlsNilOnTrue := a.Op == token.EQL
					// mismatch: exp ∧ TLS==nil, or ¬exp ∧ TLS != nil
					differsOnTrue = exp == tlsNilOnTrue
					what = fmt.Sprintf("expectTLS=%v ∧ %s", exp, a.String())
				}
			}
			if !relevant {
				continue
			}
			npol++
			r.Sites++
			diff, same := 0, 1
			if !differsOnTrue {
				diff, same = 1, 0
			}
			key := "polarity." + name + "#" + keySan.ReplaceAllString(what, "_")
			if len(key) > 110 {
				key = key[:110]
			}
			okP := reports(b, diff) && canAvoidReport(b.Succs[same], b, isFeedback)
			r.Check(okP, key, "R-POLARITY", p.InstrPos(iff), "mismatch edge reports, match edge can stay silent", "in "+name+" the comparison `"+what+"` does not report feedback exactly on its mismatch edge")
		}
	}
	r.Floor("polarity-sites", npol, 7)
	// enumValue reports parse and range errors
	if enumValueFn != nil {
		for _, inst := range p.RepoFuncs() {
			if inst.Origin() != enumValueFn {
				continue
			}
			nret := 0
			okE := true
			for _, ret := range returnsOf(inst) {
				if b, isC := constBool(ret.Results[1]); isC && !b {
					nret++
					if !precededByWithin(ret, isFeedback) {
						okE = false
					}
				}
			}
			r.Sites++
			r.Check(okE && nret >= 2, "polarity.enumValue", "R-POLARITY", p.Pos(enumValueFn.Pos()), "both failure returns (unparsable, out of range) report feedback", "enumValue can reject an expectation header without reporting feedback")
			break
		}
	}

	// ---- names: runner table vs reader table ----
	rts := p.Func(pkgCC, "", "runTestCasesForServer")
	writer := map[string]string{} // canonical header -> source description
	if rts != nil {
		hdrName := p.Field(pkgGen, "Header", "Name")
		hdrVal := p.Field(pkgGen, "Header", "Value")
		for _, st := range storesToField([]*ssa.Function{rts}, hdrName) {
			s, isS := constString(st.Val)
			if !isS || !strings.HasPrefix(strings.ToLower(s), "x-expect-") {
				continue
			}
			src := "?"
			for _, sv := range storesToField([]*ssa.Function{rts}, hdrVal) {
				if sv.Addr.X != st.Addr.X {
					continue
				}
				if sl, ok := sv.Val.(*ssa.Slice); ok {
					if arr, ok := sl.X.(*ssa.Alloc); ok {
						for _, ref := range *arr.Referrers() {
							if ia, ok := ref.(*ssa.IndexAddr); ok {
								for _, r2 := range *ia.Referrers() {
									if s2, ok := r2.(*ssa.Store); ok {
										src = headerSource(s2.Val)
									}
								}
							}
						}
					}
				}
			}
			writer[textproto.CanonicalMIMEHeaderKey(s)] = src
		}
	}
	reader := map[string]string{}
	for k, v := range readerEnum {
		reader[k] = "enum:" + v
	}
	for _, fnName := range []string{"checkTLS"} {
		fn := p.Func(pkgRS, "", fnName)
		if fn == nil {
			continue
		}
		eachInstr(fn, func(in ssa.Instruction) {
			if c := callCommon(in); c != nil && calleeObj(c) == getHeaderObj {
				if s, isS := constString(c.Args[1]); isS {
					kind := "string"
					if strings.EqualFold(s, "X-Expect-Tls") {
						kind = "bool"
					}
					reader[textproto.CanonicalMIMEHeaderKey(s)] = kind
				}
			}
		})
	}
	reader["X-Expect-Http-Method"] = "string"
	r.Sites += len(reader)
	var diffs []string
	wantKinds := map[string]string{"X-Expect-Http-Version": "enum:HTTPVersion", "X-Expect-Protocol": "enum:Protocol", "X-Expect-Codec": "enum:Codec", "X-Expect-Compression": "enum:Compression", "X-Expect-Tls": "bool", "X-Expect-Client-Cert": "string", "X-Expect-Http-Method": "string"}
	for k, want := range wantKinds {
		if reader[k] != want {
			diffs = append(diffs, fmt.Sprintf("reader %s is %q, expected %q", k, reader[k], want))
		}
		if writer[k] != want {
			diffs = append(diffs, fmt.Sprintf("writer %s is %q, expected %q", k, writer[k], want))
		}
	}
	for k := range writer {
		if _, ok := wantKinds[k]; !ok {
			diffs = append(diffs, "runner writes unknown expectation header "+k)
		}
	}
	sort.Strings(diffs)
	r.Check(len(diffs) == 0, "names.headers", "R-TABLE-AGREE", "-", fmt.Sprintf("7 expectation headers agree in name and value kind: %v", wantKinds), "the expectation headers written by the runner and read by the reference server disagree: "+strings.Join(diffs, "; "))
	// enum -> value tables follow the enum names
	for _, w := range []struct{ fn, prefix string }{{"checkHTTPVersion", "HTTPVersion_HTTP_VERSION_"}, {"checkCodec", "Codec_CODEC_"}, {"checkCompression", "Compression_COMPRESSION_"}} {
		fn := p.Func(pkgRS, "", w.fn)
		if fn == nil {
			continue
		}
		var table *ssa.Phi
		eachInstr(fn, func(in ssa.Instruction) {
			if phi, ok := in.(*ssa.Phi); ok && (phi.Comment == "expect" || phi.Comment == "expectVersion") && table == nil {
				table = phi
			}
		})
		r.Sites++
		if table == nil {
			r.Fail("names.enum-table."+w.fn, "R-TABLE-AGREE", p.Pos(fn.Pos()), w.fn+" no longer maps the expected enum through a switch table")
			continue
		}
		bad := ""
		rows := 0
		for _, l := range phiLeaves(table) {
			c, isC := strip(l.Val).(*ssa.Const)
			if !isC || c.Value == nil {
				continue
			}
			// which enum constant selects this leaf?
			var ev int64 = -1
			for _, f := range l.Facts {
				if f.Op == token.EQL {
					if k, ok := constInt(f.Y); ok {
						if prm, isP := canon(f.X).(*ssa.Parameter); isP && prm.Name() == "expected" {
							ev = k
						}
					}
				}
			}
			if ev < 0 {
				continue
			}
			rows++
			name := enumConstName(p, w.prefix, ev)
			suffix := strings.ToLower(strings.TrimPrefix(name, w.prefix))
			got := ""
			if c.Value.Kind() == constant.String {
				got = constant.StringVal(c.Value)
			} else {
				got = c.Value.ExactString()
			}
			if got != suffix {
				bad += fmt.Sprintf(" %s→%q (expected %q);", name, got, suffix)
			}
		}
		r.Check(bad == "" && rows >= 2, "names.enum-table."+w.fn, "R-TABLE-AGREE", p.Pos(fn.Pos()), fmt.Sprintf("%d rows map each enum constant to the value its name spells", rows), w.fn+" maps enum constants to other values than their names spell:"+bad)
	}
	// content types classified alike
	contentTypeSiblings(p, r)

	// ---- feedback-channel ----
	nprint, badPrint := 0, 0
	for _, fn := range p.RepoFuncs() {
		if pkgOfFunc(fn) != rsPath() {
			continue
		}
		pos := p.Fset.Position(fn.Pos())
		if !strings.HasSuffix(pos.Filename, "checks.go") {
			continue
		}
		eachInstr(fn, func(in ssa.Instruction) {
			c := callCommon(in)
			if c == nil || !c.IsInvoke() || (c.Method.Name() != "Printf" && c.Method.Name() != "PrefixPrintf") {
				return
			}
			if !objIs(c.Method, internalPath, "Printer", c.Method.Name()) {
				return
			}
			nprint++
			r.Sites++
			top := fn
			for top.Parent() != nil {
				top = top.Parent()
			}
			okP := funcObj(top) == fbPrintf && c.Method.Name() == "PrefixPrintf"
			if okP {
				f := loadedField(canon(c.Args[0]))
				okP = f != nil && f.Name() == "testCaseName"
			}
			if !okP {
				badPrint++
				r.Fail("feedback-channel@"+funcName(fn), "A-WHO", p.InstrPos(in), "the error printer is written directly in "+funcName(fn)+" instead of through feedbackPrinter.Printf: the line would not carry the test name and the runner could not attribute it")
			}
		})
	}
	if badPrint == 0 {
		r.OK("feedback-channel", "A-WHO", "-", fmt.Sprintf("%d printer write(s) in checks.go, all inside feedbackPrinter.Printf with the test-name prefix", nprint))
	}
	r.Floor("printer-writes", nprint, 1)

	// ---- timeout ----
	et := p.Func(pkgRS, "", "extractTimeout")
	if et == nil {
		r.Undecided("timeout", "R-MUSTCALL", "extractTimeout not found")
		return
	}
	r.Func(funcName(et))
	ngh := 0
	for _, gh := range findInstrs(et, isCallObj(getHeaderObj)) {
		ngh++
		r.Sites++
		hdrConst, _ := constString(callCommon(gh).Args[1])
		present := func(a Atom) bool {
			m, v := boolTestOn(a, func(x ssa.Value) bool {
				ex, ok := x.(*ssa.Extract)
				return ok && ex.Tuple == gh.(ssa.Value) && ex.Index == 1
			})
			return m && v
		}
		isDel := func(in ssa.Instruction) bool {
			c := callCommon(in)
			if c == nil || c.StaticCallee() == nil || c.StaticCallee().Name() != "Del" {
				return false
			}
			s, ok := constString(c.Args[1])
			return ok && s == hdrConst
		}
		ok := true
		seen := 0
		for _, b := range et.Blocks {
			if !hasAtom(atomsAt(b), present) {
				continue
			}
			for _, in := range b.Instrs {
				switch in.(type) {
				case *ssa.Return, *ssa.Jump:
					if _, isRet := in.(*ssa.Return); isRet || leavesSwitch(b) {
						seen++
						if !precededByWithin(in, isDel) {
							ok = false
						}
					}
				}
			}
		}
		r.Check(ok && seen > 0, "timeout.removed."+keySan.ReplaceAllString(hdrConst, "_"), "R-MUSTCALL", p.InstrPos(gh), "a present "+hdrConst+" header is deleted on every path", "a present "+hdrConst+" header is not removed on every path: the RPC library would enforce the timeout on the server side, hiding a client that does not")
	}
	r.Floor("timeout-headers", ngh, 2)
	// digit limits
	limits := map[int64]bool{}
	eachInstr(et, func(in ssa.Instruction) {
		if bo, ok := in.(*ssa.BinOp); ok && bo.Op == token.GTR {
			if k, isK := constInt(bo.Y); isK && k > 1000 {
				limits[k] = true
			}
		}
	})
	r.Sites++
	r.Check(len(limits) == 2 && limits[9999999999] && limits[99999999], "timeout.digit-limits", "const-relation", p.Pos(et.Pos()), "limits 9999999999 (10 digits, Connect) and 99999999 (8 digits, gRPC)", fmt.Sprintf("the digit limits are %v, expected {9999999999, 99999999}", keysOfInt(limits)))
	// unit table
	unitMul := map[rune][2]string{'H': {"3600000000000", "Hours"}, 'M': {"60000000000", "Minutes"}, 'S': {"1000000000", "Seconds"}, 'm': {"1000000", "Milliseconds"}, 'u': {"1000", "Microseconds"}, 'n': {"1", "Nanoseconds"}}
	badUnits := ""
	seenUnits := map[rune]bool{}
	for _, b := range et.Blocks {
		var unit rune = -1
		for _, a := range atomsAt(b) {
			if a.Op == token.EQL {
				if k, ok := constInt(a.Y); ok && k < 128 && k > 32 {
					if _, isUnit := unitMul[rune(k)]; isUnit {
						unit = rune(k)
					}
				}
			}
		}
		if unit < 0 {
			continue
		}
		mul, rt := "", ""
		for _, in := range b.Instrs {
			if bo, ok := in.(*ssa.BinOp); ok && bo.Op == token.MUL {
				if c, isC := strip(bo.Y).(*ssa.Const); isC {
					mul = c.Value.ExactString()
				}
			}
			if c := callCommon(in); c != nil && c.StaticCallee() != nil && c.StaticCallee().Pkg != nil && c.StaticCallee().Pkg.Pkg.Path() == "time" {
				rt = c.StaticCallee().Name()
			}
		}
		if mul == "" && rt == "" {
			continue
		}
		if unit == 'n' && mul == "" {
			mul = "1"
		}
		seenUnits[unit] = true
		if w := unitMul[unit]; w[0] != mul || w[1] != rt {
			badUnits += fmt.Sprintf(" unit %q: ×%s / %s() (expected ×%s / %s());", string(unit), mul, rt, w[0], w[1])
		}
	}
	unitSet := ""
	eachInstr(et, func(in ssa.Instruction) {
		if c := callCommon(in); c != nil && isCallToNamed(c, "strings", "", "ContainsRune") {
			unitSet, _ = constString(c.Args[0])
		}
	})
	var su []string
	for u := range seenUnits {
		su = append(su, string(u))
	}
	sort.Strings(su)
	us := strings.Split(unitSet, "")
	sort.Strings(us)
	r.Sites++
	r.Check(badUnits == "" && len(seenUnits) == 6 && strings.Join(su, "") == strings.Join(us, ""), "timeout.units", "R-TABLE-AGREE", p.Pos(et.Pos()), "six units, each with matching multiplier and round-trip function; accepted unit set = switch cases", "the gRPC timeout unit table is inconsistent:"+badUnits+fmt.Sprintf(" accepted units %q vs switch cases %v", unitSet, su))
	// saturation on round-trip mismatch
	nsat, okSat := 0, true
	eachInstr(et, func(in ssa.Instruction) {
		phi, ok := in.(*ssa.Phi)
		if !ok {
			return
		}
		for i, e := range phi.Edges {
			k, isK := constInt(e)
			if !isK || k != 9223372036854775807 {
				continue
			}
			nsat++
			as := edgeAtoms(phi.Block().Preds[i], phi.Block())
			if !hasAtom(as, func(a Atom) bool {
				if a.Op != token.NEQ {
					return false
				}
				isParsed := func(v ssa.Value) bool {
					ex, ok := canon(v).(*ssa.Extract)
					if !ok {
						return false
					}
					c, ok := ex.Tuple.(*ssa.Call)
					return ok && isCallToNamed(&c.Call, "strconv", "", "ParseInt")
				}
				return isParsed(a.X) != isParsed(a.Y)
			}) {
				okSat = false
			}
		}
	})
	r.Sites++
	r.Check(okSat && nsat == 2, "timeout.saturate", "R-GUARD", p.Pos(et.Pos()), "MaxInt64 substituted exactly on the edge where the duration does not convert back to the parsed number (both protocols)", "overflow of the timeout conversion is not detected by the round-trip comparison with the parsed number in both protocols: a wrapped-around positive duration would be accepted instead of saturating")
	// accepted value -> context -> request info (same key type)
	cwt := p.Func(pkgRS, "", "contextWithTimeout")
	tfc := p.Func(pkgRS, "", "timeoutFromContext")
	okCtx := false
	for _, c := range findInstrs(h, isCallObj(funcObj(cwt))) {
		if ex, ok := callCommon(c).Args[1].(*ssa.Extract); ok && ex.Index == 0 {
			if cl, ok := ex.Tuple.(*ssa.Call); ok && calleeObj(&cl.Call) == funcObj(et) {
				okCtx = true
			}
		}
	}
	keyType := func(fn *ssa.Function, method string) string {
		t := ""
		if fn == nil {
			return t
		}
		eachInstr(fn, func(in ssa.Instruction) {
			c := callCommon(in)
			if c == nil {
				return
			}
			name := ""
			if c.IsInvoke() {
				name = c.Method.Name()
			} else if c.StaticCallee() != nil {
				name = c.StaticCallee().Name()
			}
			if name != method {
				return
			}
			for _, a := range c.Args {
				if mi, ok := a.(*ssa.MakeInterface); ok {
					if nt, ok := mi.X.Type().(*types.Named); ok && strings.HasSuffix(nt.Obj().Name(), "Key") {
						t = nt.Obj().Name()
					}
				}
			}
		})
		return t
	}
	k1, k2 := keyType(cwt, "WithValue"), keyType(tfc, "Value")
	r.Sites++
	r.Check(okCtx && k1 != "" && k1 == k2, "timeout.context", "R-WIRE", p.Pos(h.Pos()), "extractTimeout's value is stored under "+k1+" and read back under the same key type", "the accepted timeout does not travel to the request info: stored under key type "+k1+", read under "+k2+fmt.Sprintf(" (handler stores extractTimeout's result: %v)", okCtx))
}

func blocksOf(fn *ssa.Function) map[*ssa.BasicBlock]bool {
	m := map[*ssa.BasicBlock]bool{}
	for _, b := range fn.Blocks {
		if len(b.Instrs) > 0 {
			m[b] = true
		}
	}
	return m
}

func enumTypeName(t types.Type) string {
	if nt, ok := t.(*types.Named); ok {
		return nt.Obj().Name()
	}
	return t.String()
}

// headerSource classifies the value put into an x-expect header by the runner.
func headerSource(v ssa.Value) string {
	v = canon(v)
	if c, ok := v.(*ssa.Call); ok {
		switch {
		case isCallToNamed(&c.Call, "strconv", "", "Itoa"):
			if f := loadedField(canon(c.Call.Args[0])); f != nil {
				return "enum:" + enumTypeName(f.Type())
			}
		case isCallToNamed(&c.Call, "strconv", "", "FormatBool"):
			return "bool"
		}
	}
	return "string"
}

func enumConstName(p *Prog, prefix string, v int64) string {
	pkg := p.Pkg(pkgGen)
	if pkg == nil {
		return "?"
	}
	for _, n := range pkg.Types.Scope().Names() {
		if !strings.HasPrefix(n, prefix) {
			continue
		}
		if c, ok := pkg.Types.Scope().Lookup(n).(*types.Const); ok {
			if k, ok2 := constant.Int64Val(constant.ToInt(c.Val())); ok2 && k == v {
				return n
			}
		}
	}
	return "?"
}

// isExpectedVsActual: one operand derives from the function's `expected`
// parameter (or a header named X-Expect-*), the other from the request.
func isExpectedVsActual(a Atom, fn *ssa.Function) bool {
	side := func(v ssa.Value) string {
		d := dataClosure(v)
		exp, act := false, false
		for x := range d {
			switch y := x.(type) {
			case *ssa.Parameter:
				if y.Name() == "expected" {
					exp = true
				}
				if y.Name() == "req" {
					act = true
				}
			case *ssa.Const:
				if s, ok := constString(y); ok && strings.HasPrefix(strings.ToLower(s), "x-expect-") {
					exp = true
				}
			}
		}
		switch {
		case exp && !act:
			return "expected"
		case act && !exp:
			return "actual"
		case exp && act:
			// a header lookup on req with an X-Expect name is the expected side
			return "expected"
		}
		return ""
	}
	sx, sy := side(a.X), side(a.Y)
	return sx != "" && sy != "" && sx != sy
}

// precededByWithin: like precededBy.
func precededByWithin(y ssa.Instruction, x instrPred) bool { return precededBy(y, x) }

// leavesSwitch: the block jumps to a block that is the common exit of the
// enclosing switch (has several predecessors and ends in a return).
func leavesSwitch(b *ssa.BasicBlock) bool {
	if len(b.Succs) != 1 {
		return false
	}
	s := b.Succs[0]
	if len(s.Preds) < 2 || len(s.Instrs) == 0 {
		return false
	}
	_, isRet := s.Instrs[len(s.Instrs)-1].(*ssa.Return)
	return isRet
}

func keysOfInt(m map[int64]bool) []int64 {
	var out []int64
	for k := range m {
		out = append(out, k)
	}
	sort.Slice(out, func(i, j int) bool { return out[i] < out[j] })
	return out
}

// dataClosure: values v is data-dependent on (operands transitively); for a
// phi also the branch conditions that select among its edges (facts of the
// incoming edges that do not already hold at the phi's immediate dominator).
func dataClosure(root ssa.Value) map[ssa.Value]bool {
	seen := map[ssa.Value]bool{}
	var visit func(v ssa.Value)
	visit = func(v ssa.Value) {
		if v == nil || seen[v] {
			return
		}
		seen[v] = true
		if phi, ok := v.(*ssa.Phi); ok {
			outer := map[*ssa.If]bool{}
			if id := phi.Block().Idom(); id != nil {
				for _, f := range factsAt(id) {
					outer[f.If] = true
				}
			}
			for i, e := range phi.Edges {
				visit(e)
				pred := phi.Block().Preds[i]
				for _, f := range factsAt(pred) {
					if !outer[f.If] {
						visit(f.Cond)
					}
				}
				if len(pred.Instrs) > 0 {
					if iff, ok := pred.Instrs[len(pred.Instrs)-1].(*ssa.If); ok {
						visit(iff.Cond)
					}
				}
			}
			return
		}
		if in, ok := v.(ssa.Instruction); ok {
			for _, op := range in.Operands(nil) {
				if *op != nil {
					visit(*op)
				}
			}
		}
	}
	visit(root)
	return seen
}

// contentTypeSiblings: the reference server's protocol, codec and compression
// checks classify the gRPC / gRPC-Web content types alike: every form
// (`== "application/grpc…"`, `HasPrefix(…, "application/grpc…+")`) one of the
// three recognises is recognised by all three. Shared by C12 and C01 (a
// content type one check knows and another does not makes the reference pair
// fail every permutation that uses it).
func contentTypeSiblings(p *Prog, r *Report) {
	sets := map[string]map[string]bool{}
	all := map[string]bool{}
	names := []string{"checkProtocol", "checkCodec", "checkCompression"}
	for _, name := range names {
		fn := p.Func(pkgRS, "", name)
		sets[name] = map[string]bool{}
		if fn == nil {
			r.Undecided("names.content-types."+name, "R-SIBLING", name+" not found")
			continue
		}
		r.Func(funcName(fn))
		eachInstr(fn, func(in ssa.Instruction) {
			switch x := in.(type) {
			case *ssa.BinOp:
				if x.Op == token.EQL || x.Op == token.NEQ {
					for _, v := range []ssa.Value{x.X, x.Y} {
						if s, ok := constString(v); ok && strings.HasPrefix(s, "application/grpc") {
							sets[name]["=="+s] = true
							all["=="+s] = true
						}
					}
				}
			case *ssa.Call:
				if isCallToNamed(&x.Call, "strings", "", "HasPrefix") {
					if s, ok := constString(x.Call.Args[1]); ok && strings.HasPrefix(s, "application/grpc") {
						sets[name]["prefix:"+s] = true
						all["prefix:"+s] = true
					}
				}
			}
		})
	}
	r.Sites += 3
	r.Floor("grpc-content-type-forms", len(all), 4)
	missingCT := ""
	for _, name := range names {
		for _, w := range sortedKeys(all) {
			if !sets[name][w] {
				missingCT += " " + name + " lacks " + w + ";"
			}
		}
	}
	r.Check(missingCT == "", "names.content-types", "R-SIBLING", "-", fmt.Sprintf("protocol, codec and compression checks all recognise the same %d gRPC / gRPC-Web content-type forms: %s", len(all), strings.Join(sortedKeys(all), " ")), "the protocol, codec and compression checks classify gRPC content types differently:"+missingCT+" a request with that content type gets its compression/codec read from the wrong place")
}
