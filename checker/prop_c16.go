package main

import (
	"fmt"
	"go/token"
	"go/types"

	"golang.org/x/tools/go/ssa"
)

const pkgTr = "internal/tracer"
const trPath = modPath + "/" + pkgTr

func init() {
	register(&propMeta{
		ID: "C16",
		Explain: "Decides structural necessary conditions of 'trace hand-off delivers each call's trace exactly once': " +
			"(locked) Tracer.traces and the slot fields done/trace only under Tracer.mu (Await's read of the completed trace after the unlock is the one table row: it happens after done was observed closed/nil), builder.trace/reqCount/respCount under builder.mu or, for connection-owned builders in http2.go, under tracingHTTP2Conn.mu; " +
			"(close-once) in Complete the store of the trace and close(done) are on the `slot exists ∧ done != nil` edge and done is nil-ed in the same critical section; " +
			"(await) the wait is a select with a ctx.Done() arm, entered only for an existing, not yet completed slot; " +
			"(nolockcall) Collector.Complete is never called with a builder's mutex possibly held; " +
			"(finish-once) in builder.add every event kind that ends the operation sets finish under exactly its documented condition and every path that sets it takes and clears the trace; nothing is recorded or forwarded for an empty test name; " +
			"(consumer) fetchTrace always clears after awaiting; wireTracer.Complete forwards to the tracer when present. " +
			"It does NOT decide linearisability over all interleavings or data-race freedom beyond this lock discipline.",
		NotDecided: []string{"linearisability of Init/Complete/Await/Clear over all interleavings", "data-race freedom beyond the lock discipline", "that exactly one finishing event is produced by each transport"},
		Assume:     []string{"a channel close happens-before a receive that observes it", "lock identity is the access path"},
		Trusted:    commonTrusted,
		Run:        runC16,
	})
	ft, fb := "internal/tracer/tracer.go", "internal/tracer/builder.go"
	addMutants(
		Mutant{ID: "C16-last-wins", Prop: "C16", File: ft,
			Old:    "\tif result == nil || result.done == nil {\n\t\treturn\n\t}\n\tdone := result.done\n\tresult.trace = trace\n\tresult.done = nil\n\tclose(done)",
			New:    "\tif result == nil {\n\t\treturn\n\t}\n\tdone := result.done\n\tresult.trace = trace\n\tresult.done = nil\n\tif done != nil {\n\t\tclose(done)\n\t}",
			Expect: []string{"close-once.store-trace"}, Note: "a second Complete overwrites the stored trace"},
		Mutant{ID: "C16-double-close", Prop: "C16", File: ft,
			Old:    "\tresult.trace = trace\n\tresult.done = nil\n\tclose(done)",
			New:    "\tresult.trace = trace\n\tclose(done)",
			Expect: []string{"close-once.nil-after-close"}, Note: "done is not nil-ed: second Complete closes a closed channel"},
		Mutant{ID: "C16-await-unlocked", Prop: "C16", File: ft,
			Old:    "\tt.mu.Lock()\n\tresult := t.traces[testName]\n\tvar done chan struct{}\n\tif result != nil {\n\t\tdone = result.done\n\t}\n\tt.mu.Unlock()",
			New:    "\tt.mu.Lock()\n\tresult := t.traces[testName]\n\tt.mu.Unlock()\n\tvar done chan struct{}\n\tif result != nil {\n\t\tdone = result.done\n\t}",
			Expect: []string{"locked.slot.done"}, Note: "Await reads the slot's done outside the lock"},
		Mutant{ID: "C16-complete-under-lock", Prop: "C16", File: fb,
			Old:    "\tb.mu.Lock()\n\ttrace := b.getAndClearLocked()\n\tb.mu.Unlock()\n\n\tb.finish(trace)",
			New:    "\tb.mu.Lock()\n\tdefer b.mu.Unlock()\n\ttrace := b.getAndClearLocked()\n\n\tb.finish(trace)",
			Expect: []string{"nolockcall"}, Note: "collector called with builder.mu held"},
		Mutant{ID: "C16-client-reqend-no-finish", Prop: "C16", File: fb,
			Old:    "\t\tif event.Err != nil {\n\t\t\t// An error writing the request body means",
			New:    "\t\tif event.Err != nil && !b.client {\n\t\t\t// An error writing the request body means",
			Expect: []string{"finish-once.cond.RequestBodyEnd"}, Note: "seed C16-2: request-body error finishes only server-side builders"},
		Mutant{ID: "C16-no-clear", Prop: "C16", File: "internal/app/connectconformance/results.go",
			Old:    "\t\ttrace, err := r.tracer.Await(ctx, testCase)\n\t\tr.tracer.Clear(testCase)\n\t\tif err != nil {\n\t\t\treturn\n\t\t}",
			New:    "\t\ttrace, err := r.tracer.Await(ctx, testCase)\n\t\tif err != nil {\n\t\t\treturn\n\t\t}\n\t\tr.tracer.Clear(testCase)",
			Expect: []string{"consumer.clear-after-await"}, Note: "slot leaked when Await fails"},
		Mutant{ID: "C16-record-after-finish", Prop: "C16", File: fb,
			Old:    "\tif b.trace.TestName == \"\" {\n\t\treturn\n\t}\n\tswitch event := event.(type) {",
			New:    "\tswitch event := event.(type) {",
			Expect: []string{"finish-once.ignore-after-finish"}, Note: "events recorded after the trace was taken"},
	)
}

func runC16(p *Prog, r *Report) {
	must := NewLockInfo(p, true)
	may := NewLockInfo(p, false)
	traces := p.Field(pkgTr, "Tracer", "traces")
	slotDone := p.Field(pkgTr, "traceResult", "done")
	slotTrace := p.Field(pkgTr, "traceResult", "trace")
	bTrace := p.Field(pkgTr, "builder", "trace")
	bReq := p.Field(pkgTr, "builder", "reqCount")
	bResp := p.Field(pkgTr, "builder", "respCount")
	tracerMu := func(a FieldAccess) string {
		// the slot is guarded by the mutex of the Tracer that owns it: the
		// receiver of the enclosing method
		top := a.Fn
		for top.Parent() != nil {
			top = top.Parent()
		}
		if len(top.Params) > 0 {
			return lockKeyFor(top.Params[0], "mu")
		}
		return "?"
	}
	n := ruleLocked(p, r, must, lockRule{Key: "locked.traces", Field: traces, Mu: "mu"})
	n += ruleLocked(p, r, must, lockRule{Key: "locked.slot.done", Field: slotDone, Need: tracerMu})
	n += ruleLocked(p, r, must, lockRule{Key: "locked.slot.trace", Field: slotTrace, Need: tracerMu,
		Exempt: map[string]string{"(*internal/tracer.Tracer).Await": "reads the completed trace after done was observed nil/closed under the lock or through the channel (happens-before by close)"}})
	connAlt := map[string][2]string{
		"(*internal/tracer.tracingHTTP2Conn).handleFrame":     {"c.mu#tracingHTTP2Conn.mu", "connection-owned builder: all adds are serialised by the connection mutex"},
		"(*internal/tracer.tracingHTTP2Conn).newStreamLocked": {"c.mu#tracingHTTP2Conn.mu", "connection-owned builder, called with the connection mutex held"},
	}
	n += ruleLocked(p, r, must, lockRule{Key: "locked.builder.trace", Field: bTrace, Mu: "mu", Alt: connAlt})
	n += ruleLocked(p, r, must, lockRule{Key: "locked.builder.reqCount", Field: bReq, Mu: "mu"})
	n += ruleLocked(p, r, must, lockRule{Key: "locked.builder.respCount", Field: bResp, Mu: "mu"})
	r.Floor("locked-accesses", n, 30)

	// ---- close-once ----
	complete := p.Func(pkgTr, "Tracer", "Complete")
	await := p.Func(pkgTr, "Tracer", "Await")
	if complete == nil || await == nil || slotDone == nil {
		r.Undecided("close-once", "R-GUARD", "Tracer.Complete/Await or traceResult.done not found")
	} else {
		r.Func(funcName(complete))
		r.Func(funcName(await))
		doneNonNil := func(a Atom) bool { m, isNil := nilTestOn(a, isLoadOfField(slotDone)); return m && !isNil }
		slotNonNil := func(a Atom) bool {
			m, isNil := nilTestOn(a, func(v ssa.Value) bool {
				lk, ok := canon(v).(*ssa.Lookup)
				return ok && loadedField(lk.X) == traces
			})
			return m && !isNil
		}
		var closes []ssa.Instruction
		eachInstr(complete, func(in ssa.Instruction) {
			c := callCommon(in)
			if c == nil {
				return
			}
			if b, ok := c.Value.(*ssa.Builtin); ok && b.Name() == "close" {
				closes = append(closes, in)
			}
		})
		if len(closes) == 0 {
			r.Fail("close-once.close", "R-GUARD", p.Pos(complete.Pos()), "Complete never closes the slot's done channel: waiters are never released")
		}
		isNilStoreDone := func(in ssa.Instruction) bool {
			st, ok := in.(*ssa.Store)
			if !ok {
				return false
			}
			fa, ok := st.Addr.(*ssa.FieldAddr)
			return ok && fieldVar(fa.X.Type(), fa.Field) == slotDone && isNilConst(st.Val)
		}
		for _, cl := range closes {
			r.Sites++
			as := atomsAt(cl.Block())
			r.Check(hasAtom(as, doneNonNil) && hasAtom(as, slotNonNil), "close-once.close", "R-GUARD", p.InstrPos(cl),
				"close(done) is on the slot-exists ∧ done != nil edge: "+atomsString(as),
				"close(done) in Complete is not guarded by (slot exists ∧ done != nil): completing an unknown/cleared/already-completed test would panic or close twice")
			okN, _ := mustPass(cl, isNilStoreDone)
			r.Check(okN || precededBy(cl, isNilStoreDone), "close-once.nil-after-close", "R-ORDER", p.InstrPos(cl),
				"done is set to nil in the same critical section as the close", "done is not nil-ed when it is closed: a second Complete would close a closed channel and Await could not tell a completed slot")
		}
		sts := storesToField([]*ssa.Function{complete}, slotTrace)
		if len(sts) == 0 {
			r.Fail("close-once.store-trace", "R-GUARD", p.Pos(complete.Pos()), "Complete never stores the trace into the slot")
		}
		for _, st := range sts {
			r.Sites++
			as := atomsAt(st.Instr.Block())
			r.Check(hasAtom(as, doneNonNil) && hasAtom(as, slotNonNil), "close-once.store-trace", "R-GUARD", p.InstrPos(st.Instr),
				"the trace is stored only for an existing, not yet completed slot",
				"Complete stores the trace although the slot may already be completed (done == nil): a later completion overwrites the first one, which a waiter may already hold")
		}
		// ---- await ----
		var sel *ssa.Select
		eachInstr(await, func(in ssa.Instruction) {
			if s, ok := in.(*ssa.Select); ok {
				sel = s
			}
		})
		if sel == nil {
			r.Fail("await.select", "R-GUARD", p.Pos(await.Pos()), "Await has no select: the wait cannot be bounded by its context")
		} else {
			r.Sites++
			hasCtx, hasDone := false, false
			for _, stt := range sel.States {
				if c, ok := canon(stt.Chan).(*ssa.Call); ok && c.Call.IsInvoke() && c.Call.Method.Name() == "Done" {
					hasCtx = true
				}
				if loadedField(canon(stt.Chan)) == slotDone || isPhiOf(stt.Chan, slotDone) {
					hasDone = true
				}
			}
			as := atomsAt(sel.Block())
			okG := hasAtom(as, func(a Atom) bool {
				m, isNil := nilTestOn(a, func(v ssa.Value) bool { return loadedField(canon(v)) == slotDone || isPhiOf(v, slotDone) })
				return m && !isNil
			}) && hasAtom(as, slotNonNil)
			r.Check(hasCtx && hasDone && sel.Blocking, "await.select", "R-GUARD", p.InstrPos(sel),
				"blocking select over the slot's done channel and ctx.Done()", "Await's wait has no ctx.Done() arm (or does not wait on the slot's done channel): a wait could outlive its context")
			r.Check(okG, "await.guards", "R-GUARD", p.InstrPos(sel), "wait entered only for an existing, uncompleted slot: "+atomsString(as),
				"Await waits although the slot is missing or already completed (a nil channel blocks forever until the context ends)")
		}
	}

	// ---- nolockcall ----
	collectorComplete := func(in ssa.Instruction) bool {
		c := callCommon(in)
		return c != nil && c.IsInvoke() && c.Method.Name() == "Complete" && objIs(c.Method, trPath, "Collector", "Complete")
	}
	nc := ruleNotHeldAtCalls(p, r, may, "nolockcall.collector-under-builder-mu", "R-NOLOCKCALL", collectorComplete,
		func(k string) bool { return lockKind(k) == "builder.mu" }, "calling Collector.Complete")
	r.Floor("collector-complete-sites", nc, 3)

	// ---- finish-once ----
	add := p.Func(pkgTr, "builder", "add")
	finish := p.Func(pkgTr, "builder", "finish")
	getAndClear := p.TypeFunc(pkgTr, "builder", "getAndClearLocked")
	testName := p.Field(pkgTr, "Trace", "TestName")
	events := p.Field(pkgTr, "Trace", "Events")
	if add == nil || finish == nil || getAndClear == nil || testName == nil {
		r.Undecided("finish-once", "R-MUSTCALL", "builder.add/finish/getAndClearLocked not found")
		return
	}
	r.Func(funcName(add))
	r.Func(funcName(finish))
	nameNonEmpty := func(a Atom) bool {
		if a.Op != token.EQL && a.Op != token.NEQ {
			return false
		}
		x, y := a.X, a.Y
		if s, ok := constString(x); ok && s == "" {
			x, y = y, x
		}
		s, ok := constString(y)
		return ok && s == "" && loadedField(canon(x)) == testName && a.Op == token.NEQ
	}
	// the `finish` flag is a captured local of add
	var finishVar *ssa.Alloc
	eachInstr(add, func(in ssa.Instruction) {
		if a, ok := in.(*ssa.Alloc); ok && a.Comment == "finish" {
			finishVar = a
		}
	})
	if finishVar == nil {
		r.Undecided("finish-once", "R-MUSTCALL", "flag variable of builder.add not found")
		return
	}
	errField := func(typ string) *types.Var { return p.Field(pkgTr, typ, "Err") }
	wantCond := map[string]*types.Var{ // event type -> field whose non-nil-ness is the only extra condition (nil = unconditional)
		"RequestBodyEnd": errField("RequestBodyEnd"), "ResponseError": nil, "ResponseBodyEnd": nil, "RequestCanceled": nil,
	}
	seenKinds := map[string]bool{}
	isFinishLoad := func(v ssa.Value) bool {
		u, ok := v.(*ssa.UnOp)
		return ok && u.Op == token.MUL && u.X == ssa.Value(finishVar)
	}
	isIfOnFinish := func(in ssa.Instruction) bool {
		iff, ok := in.(*ssa.If)
		if !ok {
			return false
		}
		c := iff.Cond
		for {
			if u, ok := c.(*ssa.UnOp); ok && u.Op == token.NOT {
				c = u.X
				continue
			}
			break
		}
		return isFinishLoad(c)
	}
	// (a) finish is only ever set to true; (b) the trace is taken exactly on the finish edge
	eachInstr(add, func(in ssa.Instruction) {
		if st, ok := in.(*ssa.Store); ok && st.Addr == ssa.Value(finishVar) {
			if b, isC := constBool(st.Val); !isC || !b {
				r.Fail("finish-once.flag-only-set", "R-LATCH", p.InstrPos(in), "the finish flag of builder.add is written with something other than true")
			}
		}
	})
	takes := findInstrs(add, isCallObj(getAndClear))
	if len(takes) == 0 {
		r.Fail("finish-once.take-on-finish", "R-GUARD", p.Pos(add.Pos()), "builder.add never takes and clears the trace")
	}
	for _, tk := range takes {
		r.Sites++
		r.Check(guardedBy(tk, func(a Atom) bool { m, v := boolTestOn(a, isFinishLoad); return m && v }), "finish-once.take-on-finish", "R-GUARD", p.InstrPos(tk),
			"getAndClearLocked is on the finish edge", "builder.add takes and clears the trace without the finish flag being set (the trace would be cut short)")
	}
	eachInstr(add, func(in ssa.Instruction) {
		st, ok := in.(*ssa.Store)
		if !ok || st.Addr != ssa.Value(finishVar) {
			return
		}
		if b, isC := constBool(st.Val); !isC || !b {
			return
		}
		r.Sites++
		storeInstr := in
		// which event kind is this arm? the dominating type-assert comma-ok
		kind, extra := "", []string{}
		for _, a := range atomsAt(in.Block()) {
			if m, v := boolTestOn(a, func(x ssa.Value) bool { _, ok := typeAssertOK(x); return ok }); m && v {
				t, _ := typeAssertOK(canon(a.X))
				kind = t
				continue
			}
			if m, v := boolTestOn(a, func(x ssa.Value) bool { _, ok := typeAssertOK(x); return ok }); m && !v {
				continue // earlier arms of the type switch
			}
			if nameNonEmpty(a) {
				continue
			}
			extra = append(extra, a.String())
			if f := wantCond[kind]; f != nil {
				if m, isNil := nilTestOn(a, isLoadOfField(f)); m && !isNil {
					extra = extra[:len(extra)-1]
				}
			}
		}
		if _, known := wantCond[kind]; !known {
			r.Fail("finish-once.kind@"+kind, "R-GUARD", p.InstrPos(in), "event kind "+kind+" ends the operation but is not in the documented set {RequestBodyEnd(with error), ResponseError, ResponseBodyEnd, RequestCanceled}")
			return
		}
		seenKinds[kind] = true
		okP, exit := mustPass(storeInstr, isIfOnFinish)
		r.Check(okP, "finish-once.take."+kind, "R-MUSTCALL", p.InstrPos(storeInstr), "setting finish always reaches the `if finish` test that takes and clears the trace",
			"builder.add sets finish for "+kind+" on a path that reaches "+p.InstrPos(exit)+" without passing the test that takes and clears the trace: the operation would be completed with an empty trace or never")
		if len(extra) > 0 {
			r.Fail("finish-once.cond."+kind, "R-GUARD", p.InstrPos(in), fmt.Sprintf("%s ends the operation only under the extra condition(s) %v; transports (HTTP/2 connection tracing, middleware) rely on it finishing the trace whenever it occurs%s", kind, extra, map[bool]string{true: " with an error", false: ""}[wantCond[kind] != nil]))
		} else {
			r.OK("finish-once.cond."+kind, "R-GUARD", p.InstrPos(in), kind+" finishes under exactly its documented condition")
		}
	})
	for k := range wantCond {
		if !seenKinds[k] {
			r.Fail("finish-once.cond."+k, "R-GUARD", p.Pos(add.Pos()), "builder.add no longer finishes the operation on "+k)
		}
	}
	// nothing recorded for an empty test name / after the trace was taken
	recs := storesToField([]*ssa.Function{add}, events)
	if len(recs) == 0 {
		r.Fail("finish-once.ignore-after-finish", "R-GUARD", p.Pos(add.Pos()), "builder.add records no events")
	}
	for _, st := range recs {
		r.Sites++
		r.Check(guardedBy(st.Instr, nameNonEmpty), "finish-once.ignore-after-finish", "R-GUARD", p.InstrPos(st.Instr),
			"events are appended only while the trace has a test name (i.e. before it was taken)", "builder.add records events although the trace may already have been taken (TestName == \"\"): events after completion would be recorded")
	}
	for _, c := range findInstrs(finish, collectorComplete) {
		r.Sites++
		r.Check(guardedBy(c, nameNonEmpty), "finish-once.forward-nonempty", "R-GUARD", p.InstrPos(c), "only traces with a test name are forwarded", "builder.finish forwards empty traces to the collector")
	}

	// ---- consumer ----
	fetch := p.Func(pkgCC, "testResults", "fetchTrace")
	awaitObj, clearObj := p.TypeFunc(pkgTr, "Tracer", "Await"), p.TypeFunc(pkgTr, "Tracer", "Clear")
	if fetch == nil || awaitObj == nil || clearObj == nil {
		r.Undecided("consumer.clear-after-await", "R-MUSTCALL", "fetchTrace / Tracer.Await / Tracer.Clear not found")
	} else {
		cnt := 0
		for _, fn := range withClosures(fetch) {
			for _, aw := range findInstrs(fn, isCallObj(awaitObj)) {
				cnt++
				r.Sites++
				ok, exit := mustPass(aw, isCallObj(clearObj))
				r.Check(ok, "consumer.clear-after-await", "R-MUSTCALL", p.InstrPos(aw), "Clear follows Await on every path", "fetchTrace can return at "+p.InstrPos(exit)+" without clearing the slot it awaited")
			}
		}
		r.Floor("await-sites", cnt, 1)
	}
	wt := p.Func("internal/app/referenceclient", "wireTracer", "Complete")
	completeObj := p.TypeFunc(pkgTr, "Tracer", "Complete")
	wtField := p.Field("internal/app/referenceclient", "wireTracer", "tracer")
	if wt == nil || completeObj == nil {
		r.Undecided("consumer.wire-forward", "R-GUARD", "wireTracer.Complete not found")
	} else {
		calls := findInstrs(wt, isCallObj(completeObj))
		r.Sites++
		ok := len(calls) == 1
		if ok {
			// forwarded exactly when the tracer is present: only guard is tracer != nil
			as := atomsAt(calls[0].Block())
			ok = len(as) == 1 && hasAtom(as, func(a Atom) bool { m, isNil := nilTestOn(a, isLoadOfField(wtField)); return m && !isNil })
		}
		r.Check(ok, "consumer.wire-forward", "R-GUARD", p.Pos(wt.Pos()), "wireTracer.Complete forwards to the tracer exactly when it is non-nil", "wireTracer.Complete does not forward every trace to the tracer when one is configured")
	}
}

// typeAssertOK: v is the ok of a comma-ok type assertion; returns the asserted
// type's name.
func typeAssertOK(v ssa.Value) (string, bool) {
	ex, ok := v.(*ssa.Extract)
	if !ok || ex.Index != 1 {
		return "", false
	}
	ta, ok := ex.Tuple.(*ssa.TypeAssert)
	if !ok || !ta.CommaOk {
		return "", false
	}
	t := ta.AssertedType
	if p, ok := t.(*types.Pointer); ok {
		t = p.Elem()
	}
	if n, ok := t.(*types.Named); ok {
		return n.Obj().Name(), true
	}
	return types.TypeString(t, shortQual), true
}

// isPhiOf: v is a phi all of whose non-nil edges load field f.
func isPhiOf(v ssa.Value, f *types.Var) bool {
	phi, ok := v.(*ssa.Phi)
	if !ok {
		return false
	}
	found := false
	for _, e := range phi.Edges {
		if isNilConst(e) {
			continue
		}
		if loadedField(canon(e)) != f {
			return false
		}
		found = true
	}
	return found
}
