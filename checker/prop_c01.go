package main

import (
	"fmt"
	"go/ast"
	"go/constant"
	"go/token"
	"go/types"
	"os"
	"path/filepath"
	"sort"
	"strings"

	"golang.org/x/tools/go/packages"
	"golang.org/x/tools/go/ssa"
)

func init() {
	register(&propMeta{
		ID: "C01",
		Explain: "The statement is a runtime statement over ~30,000 live RPC permutations; static analysis cannot decide it. Decided are necessary conditions that lie in the source and in the shipped tables: " +
			"(exhaustive) every switch of the peers, the compression registry and the runner over one of the five generated enum axes (HTTPVersion, Protocol, Codec, Compression, StreamType) names every supported value (all declared constants minus *_UNSPECIFIED and the deprecated CODEC_TEXT) or is a table row 'partial by design' with exactly the expected missing set and its reason; the tracer's encoding-name switch names the six IANA names of the compression package; " +
			"(methods) the method-name switches of both reference clients name exactly the methods of the generated ConformanceServiceClient interface, the default method the runner assigns per stream type is one of them, and both servers declare (not promote from the Unimplemented stub) every handler but `Unimplemented`; " +
			"(lists) the shipped reference known-failing lists are empty and every pattern of the gRPC lists can match a case of the embedded corpus (suite name … test name), since an unmatched pattern fails the run; " +
			"(cancel-siblings) all six receive loops of the two reference clients compare the count INCLUDING the response just received with after_num_responses; " +
			"(ctx-classify) the HTTP/3 context work-around classifies time-out vs cancel with the same sentinel its Is method reports. " +
			"It does NOT decide that the permutations pass, that gRPC-listed cases fail, or that unlisted ones do not.",
		NotDecided: []string{"that every permutation passes (live RPC behaviour)", "that the cases on the gRPC known-failing lists fail and no other case does"},
		Assume:     []string{"the generated enum constants are the complete value space of each axis (protoc-gen-go output is not edited by hand)"},
		Trusted:    commonTrusted,
		Run:        runC01,
	})
	addMutants(
		Mutant{ID: "C01-drop-zstd-compressor", Prop: "C01", File: "internal/compression/compression.go", Old: "\tcase conformancev1.Compression_COMPRESSION_ZSTD:\n\t\treturn NewZstdCompressor(), nil\n", New: "",
			Expect: []string{"exhaustive."}, Note: "GetCompressor no longer handles zstd: every zstd permutation errors"},
		Mutant{ID: "C01-client-drop-http3", Prop: "C01", File: "internal/app/referenceserver/checks.go", Old: "\tcase conformancev1.HTTPVersion_HTTP_VERSION_3:\n\t\texpectVersion = 3\n", New: "",
			Expect: []string{"exhaustive."}, Note: "reference server's HTTP version check does not know HTTP/3"},
		Mutant{ID: "C01-method-dropped", Prop: "C01", File: "internal/app/grpcclient/impl.go", Old: "\tcase \"Unimplemented\":\n\t\tresp, err := i.unimplemented(ctx, req)\n\t\tif err != nil {\n\t\t\treturn nil, err\n\t\t}\n\t\treturn resp, nil\n", New: "",
			Expect: []string{"methods."}, Note: "gRPC reference client cannot invoke Unimplemented"},
		Mutant{ID: "C01-default-method-typo", Prop: "C01", File: "internal/app/connectconformance/test_case_library.go", Old: "\t\t\t\t\tmethodName = \"ClientStream\"", New: "\t\t\t\t\tmethodName = \"ClientStreaming\"",
			Expect: []string{"methods."}, Note: "runner assigns a default method name no client knows"},
		Mutant{ID: "C01-seed1-cancel-off-by-one", Prop: "C01", File: "internal/app/referenceclient/impl.go", Old: "\t\tresult.Payloads = append(result.Payloads, msg.Payload)\n\t\ttotalRcvd++\n\t\tif totalRcvd == timing.AfterNumResponses {\n\t\t\tcancel()\n\t\t}\n", New: "\t\tresult.Payloads = append(result.Payloads, msg.Payload)\n\t\tif totalRcvd == timing.AfterNumResponses {\n\t\t\tcancel()\n\t\t}\n\t\ttotalRcvd++\n",
			Expect: []string{"cancel-siblings."}, Note: "seed C01-1: bidi drain loop cancels one response late"},
		Mutant{ID: "C01-seed2-ctx-sentinel", Prop: "C01", File: "internal/app/referenceclient/client.go", Old: "timeout: errors.Is(ctxErr, context.DeadlineExceeded)", New: "timeout: errors.Is(ctxErr, context.Canceled)",
			Expect: []string{"ctx-classify."}, Note: "seed C01-2: HTTP/3 cancellations classified as deadline exceeded and vice versa"},
		Mutant{ID: "C01-tracer-encoding-name", Prop: "C01", File: "internal/tracer/tracer.go", Old: "\tcase \"zstd\":\n\t\tcomp = conformancev1.Compression_COMPRESSION_ZSTD", New: "\tcase \"zst\":\n\t\tcomp = conformancev1.Compression_COMPRESSION_ZSTD",
			Expect: []string{"exhaustive.names"}, Note: "tracer does not recognise the zstd encoding name"},
		Mutant{ID: "C01-handler-promoted", Prop: "C01", File: "internal/app/grpcserver/impl.go", Old: "func (c *conformanceServiceServer) ClientStream(", New: "func (c *conformanceServiceServer) clientStreamDisabled(",
			Expect: []string{"methods."}, Note: "gRPC server's ClientStream falls back to the Unimplemented stub"},
	)
}

// c01Partial: switches that are partial by design. Key = function + "×" + enum;
// value = the exact set of supported members NOT named, and why that is right.
var c01Partial = map[string]struct {
	Missing []string
	Reason  string
}{}

func runC01(p *Prog, r *Report) {
	gen := p.ByPath[modPath+"/"+pkgGen]
	if gen == nil {
		r.Undecided("scope", "R-EXHAUSTIVE", "generated package not loaded")
		return
	}
	// ---- enum members ----
	axes := []string{"HTTPVersion", "Protocol", "Codec", "Compression", "StreamType"}
	members := map[string]map[int64]string{}
	for _, ax := range axes {
		members[ax] = map[int64]string{}
	}
	for _, name := range gen.Types.Scope().Names() {
		c, ok := gen.Types.Scope().Lookup(name).(*types.Const)
		if !ok {
			continue
		}
		nt, ok := c.Type().(*types.Named)
		if !ok {
			continue
		}
		m, isAxis := members[nt.Obj().Name()]
		if !isAxis {
			continue
		}
		v, _ := constant.Int64Val(c.Val())
		if v == 0 || name == "Codec_CODEC_TEXT" {
			continue // *_UNSPECIFIED, deprecated CODEC_TEXT
		}
		m[v] = name
	}
	for _, ax := range axes {
		r.Floor("members-"+ax, len(members[ax]), 2)
	}

	// ---- exhaustive ----
	scopePkgs := []string{pkgRC, pkgRS, "internal/app/grpcclient", "internal/app/grpcserver", pkgComp, pkgCC, "internal", pkgTr, pkgGU}
	partial := map[string]struct {
		Missing string
		Reason  string
	}{
		"connectconformance.(*testCaseLibrary).filterGRPCImplTestCases×HTTPVersion": {"HTTP_VERSION_3", "filter, not dispatch: the grpc-go peers speak gRPC-Web over HTTP/1.1 and HTTP/2 only; HTTP/3 cases take the default arm and are not run against them"},
		"connectconformance.populateExpectedStreamResponse×StreamType":              {"STREAM_TYPE_CLIENT_STREAM STREAM_TYPE_UNARY", "populateExpectedResponse dispatches unary and client-stream cases to populateExpectedUnaryResponse; only the three server-streaming shapes reach this switch"},
		"connectconformance.computeCasesFromFeatures×StreamType":                    {"STREAM_TYPE_CLIENT_STREAM STREAM_TYPE_SERVER_STREAM STREAM_TYPE_UNARY", "filter, not dispatch: only the two bidi shapes are restricted on HTTP/1.1; the other stream types pass through unchanged"},
		"connectconformance.resolveCase×StreamType":                                 {"STREAM_TYPE_CLIENT_STREAM STREAM_TYPE_SERVER_STREAM STREAM_TYPE_UNARY", "validation, not dispatch: only the two bidi shapes can contradict an HTTP/1.1-only feature set"},
		"connectconformance.resolveCase×HTTPVersion":                                {"HTTP_VERSION_1", "validation, not dispatch: only HTTP/2 (h2c) and HTTP/3 have TLS preconditions"},
	}
	used := map[string]bool{}
	nsw := 0
	for _, rel := range scopePkgs {
		pkg := p.Pkg(rel)
		if pkg == nil {
			r.Undecided("exhaustive.scope."+rel, "R-EXHAUSTIVE", "package "+rel+" not loaded")
			continue
		}
		for _, file := range pkg.Syntax {
			for _, d := range file.Decls {
				fd, ok := d.(*ast.FuncDecl)
				if !ok || fd.Body == nil {
					continue
				}
				fname := astFuncName(pkg, fd)
				perAxis := map[string]int{}
				ast.Inspect(fd.Body, func(n ast.Node) bool {
					sw, ok := n.(*ast.SwitchStmt)
					if !ok || sw.Tag == nil {
						return true
					}
					tv, has := pkg.TypesInfo.Types[sw.Tag]
					if !has {
						return true
					}
					nt, ok := tv.Type.(*types.Named)
					if !ok || nt.Obj().Pkg() == nil || nt.Obj().Pkg().Path() != gen.PkgPath {
						return true
					}
					ax := nt.Obj().Name()
					mem, isAxis := members[ax]
					if !isAxis {
						return true
					}
					nsw++
					r.Sites++
					r.Func(fname)
					perAxis[ax]++
					key := fname + "×" + ax
					if perAxis[ax] > 1 {
						key += fmt.Sprintf("#%d", perAxis[ax])
					}
					covered := map[int64]bool{}
					hasDefault := false
					for _, st := range sw.Body.List {
						cc := st.(*ast.CaseClause)
						if cc.List == nil {
							hasDefault = true
						}
						for _, e := range cc.List {
							if ctv, has := pkg.TypesInfo.Types[e]; has && ctv.Value != nil {
								if v, exact := constant.Int64Val(ctv.Value); exact {
									covered[v] = true
								}
							}
						}
					}
					var missing []string
					for v, name := range mem {
						if !covered[v] {
							missing = append(missing, strings.TrimPrefix(name, ax+"_"))
						}
					}
					sort.Strings(missing)
					miss := strings.Join(missing, " ")
					pos := p.Pos(sw.Pos())
					if row, ok := partial[key]; ok {
						used[key] = true
						r.Check(row.Missing == miss, "exhaustive."+key, "R-EXHAUSTIVE", pos, "partial by design: "+row.Reason+"; not named: "+miss,
							fmt.Sprintf("switch over %s in %s is a table row 'partial by design' expecting exactly {%s} to be unnamed, but {%s} are: the dispatch changed", ax, fname, row.Missing, miss))
						return true
					}
					how := "names every supported " + ax
					if hasDefault {
						how += " (default arm only sees unsupported values)"
					}
					r.Check(miss == "", "exhaustive."+key, "R-EXHAUSTIVE", pos, how,
						fmt.Sprintf("switch over %s in %s does not name supported value(s) {%s}: permutations on that value take the default arm / fall through, unlike every other value of the axis", ax, fname, miss))
					return true
				})
			}
		}
	}
	for k := range partial {
		if !used[k] {
			r.Fail("exhaustive.stale-row."+k, "R-EXHAUSTIVE", "-", "table row 'partial by design' for "+k+" matches no switch any more (stale table row)")
		}
	}
	r.Floor("enum-switches", nsw, 12)

	// tracer.GetDecompressor: string cases ⊇ the compression package's IANA names
	if pkg, fd := p.Pkg(pkgTr), declOf(p, pkgTr, "", "GetDecompressor"); pkg != nil && fd != nil {
		names := map[string]bool{}
		if cp := p.Pkg(pkgComp); cp != nil {
			for _, n := range []string{"Identity", "Gzip", "Brotli", "Deflate", "Snappy", "Zstd"} {
				if c, ok := cp.Types.Scope().Lookup(n).(*types.Const); ok && c.Val().Kind() == constant.String {
					names[constant.StringVal(c.Val())] = true
				}
			}
		}
		r.Floor("compression-names", len(names), 6)
		cases := stringSwitchCases(pkg, fd)
		var missing []string
		for n := range names {
			if !cases[n] {
				missing = append(missing, n)
			}
		}
		sort.Strings(missing)
		r.Sites++
		r.Check(len(missing) == 0, "exhaustive.names.tracer.GetDecompressor", "R-EXHAUSTIVE", p.Pos(fd.Pos()), "names all six IANA encoding names", fmt.Sprintf("tracer.GetDecompressor does not recognise encoding name(s) %v: traces of such permutations cannot be decoded and wire checks on them fail", missing))
	} else {
		r.Undecided("exhaustive.names.tracer.GetDecompressor", "R-EXHAUSTIVE", "tracer.GetDecompressor not found")
	}

	// ---- methods ----
	methodSet := func(pkgPath, iface string) map[string]bool {
		out := map[string]bool{}
		pk := p.ByPath[pkgPath]
		if pk == nil {
			return out
		}
		tn, ok := pk.Types.Scope().Lookup(iface).(*types.TypeName)
		if !ok {
			return out
		}
		it, ok := tn.Type().Underlying().(*types.Interface)
		if !ok {
			return out
		}
		for i := 0; i < it.NumMethods(); i++ {
			if it.Method(i).Exported() {
				out[it.Method(i).Name()] = true
			}
		}
		return out
	}
	connectMethods := methodSet(modPath+"/"+pkgGen+"/conformancev1connect", "ConformanceServiceClient")
	grpcMethods := methodSet(modPath+"/"+pkgGen, "ConformanceServiceClient")
	r.Floor("service-methods", len(connectMethods), 6)
	r.Floor("grpc-service-methods", len(grpcMethods), 5)
	for _, inv := range []struct {
		rel  string
		want map[string]bool
	}{{pkgRC, connectMethods}, {"internal/app/grpcclient", connectMethods}} {
		fd := declOf(p, inv.rel, "invoker", "Invoke")
		pkg := p.Pkg(inv.rel)
		if fd == nil || pkg == nil {
			r.Undecided("methods.invoker."+inv.rel, "R-EXHAUSTIVE", "(*invoker).Invoke not found in "+inv.rel)
			continue
		}
		cases := stringSwitchCases(pkg, fd)
		r.Sites++
		r.Check(sameSet(cases, inv.want), "methods.invoker."+filepath.Base(inv.rel), "R-EXHAUSTIVE", p.Pos(fd.Pos()), "method-name cases = methods of the generated service client: "+strings.Join(sortedKeys(cases), " "),
			fmt.Sprintf("%s (*invoker).Invoke names methods {%s} but the service has {%s}: a request for a missing method is answered 'method name does not exist'", filepath.Base(inv.rel), strings.Join(sortedKeys(cases), " "), strings.Join(sortedKeys(inv.want), " ")))
	}
	// the gRPC invoker's IdempotentUnary arm must be an explicit error (grpc has no GET)
	// default method names assigned by the runner
	if fn := p.Func(pkgCC, "testCaseLibrary", "expandCases"); fn != nil {
		methodF := p.Field(pkgGen, "ClientCompatRequest", "Method")
		n := 0
		for _, st := range storesToField(withClosures(fn), methodF) {
			al, ok := canon(st.Val).(*ssa.Alloc)
			if !ok {
				continue
			}
			for _, ref := range *al.Referrers() {
				s2, ok := ref.(*ssa.Store)
				if !ok || s2.Addr != ssa.Value(al) {
					continue
				}
				for _, l := range phiLeaves(s2.Val) {
					name, isS := constString(l.Val)
					if !isS {
						continue
					}
					if name == "" {
						continue // initial value, overwritten on every supported stream type (exhaustive.expandCases×StreamType)
					}
					n++
					r.Sites++
					r.Check(connectMethods[name], "methods.default."+name, "R-EXHAUSTIVE", p.InstrPos(st.Instr), "default method "+name+" exists on the service", "the runner's default method name "+name+" for a stream type is not a method of the ConformanceService: every case of that stream type without an explicit method fails with 'method name does not exist'")
				}
			}
		}
		r.Floor("default-methods", n, 4)
	} else {
		r.Undecided("methods.default", "R-EXHAUSTIVE", "expandCases not found")
	}
	// handlers declared, not promoted
	for _, srv := range []struct {
		rel, typ string
		want     map[string]bool
	}{{pkgRS, "conformanceServer", connectMethods}, {"internal/app/grpcserver", "conformanceServiceServer", without(grpcMethods, "IdempotentUnary" /* Connect GET only: gRPC has no idempotent-GET form, the stub's 'unimplemented' is the documented answer */)}} {
		nt := p.Named(srv.rel, srv.typ)
		if nt == nil {
			r.Undecided("methods.handlers."+srv.typ, "R-EXHAUSTIVE", srv.typ+" not found")
			continue
		}
		declared := map[string]bool{}
		for i := 0; i < nt.NumMethods(); i++ {
			declared[nt.Method(i).Name()] = true
		}
		var missing []string
		for m := range srv.want {
			if m != "Unimplemented" && !declared[m] {
				missing = append(missing, m)
			}
		}
		sort.Strings(missing)
		r.Sites++
		r.Check(len(missing) == 0 && !declared["Unimplemented"], "methods.handlers."+srv.typ, "R-EXHAUSTIVE", p.Pos(nt.Obj().Pos()), "declares every handler itself; Unimplemented is left to the generated stub",
			fmt.Sprintf("%s does not itself declare handler(s) %v (or overrides Unimplemented: %v): calls are answered by the generated Unimplemented stub", srv.typ, missing, declared["Unimplemented"]))
	}

	// ---- lists ----
	c01Lists(p, r)

	// ---- cancel-siblings ----
	c01CancelSiblings(p, r)

	// ---- ctx-classify ----
	c01CtxClassify(p, r)
}

func shortAxis(ax string) string {
	switch ax {
	case "HTTPVersion":
		return "HTTPVERSION"
	case "StreamType":
		return "STREAMTYPE"
	}
	return strings.ToUpper(ax)
}

func astFuncName(pkg *packages.Package, fd *ast.FuncDecl) string {
	name := pkg.Types.Name() + "."
	if fd.Recv != nil && len(fd.Recv.List) == 1 {
		t := fd.Recv.List[0].Type
		star := ""
		if s, ok := t.(*ast.StarExpr); ok {
			t = s.X
			star = "*"
		}
		if ix, ok := t.(*ast.IndexExpr); ok {
			t = ix.X
		}
		if id, ok := t.(*ast.Ident); ok {
			return name + "(" + star + id.Name + ")." + fd.Name.Name
		}
	}
	return name + fd.Name.Name
}

func declOf(p *Prog, rel, recv, name string) *ast.FuncDecl {
	fn := p.Func(rel, recv, name)
	if fn == nil {
		return nil
	}
	fd, _ := p.Decl(fn)
	return fd
}

// stringSwitchCases: the constant string cases of every expression switch in fd.
func stringSwitchCases(pkg *packages.Package, fd *ast.FuncDecl) map[string]bool {
	out := map[string]bool{}
	ast.Inspect(fd.Body, func(n ast.Node) bool {
		sw, ok := n.(*ast.SwitchStmt)
		if !ok || sw.Tag == nil {
			return true
		}
		if tv, has := pkg.TypesInfo.Types[sw.Tag]; !has || !isStringType(tv.Type) {
			return true
		}
		for _, st := range sw.Body.List {
			for _, e := range st.(*ast.CaseClause).List {
				if tv, has := pkg.TypesInfo.Types[e]; has && tv.Value != nil && tv.Value.Kind() == constant.String {
					if s := constant.StringVal(tv.Value); s != "" {
						out[s] = true
					}
				}
			}
		}
		return true
	})
	return out
}

func isStringType(t types.Type) bool {
	b, ok := t.Underlying().(*types.Basic)
	return ok && b.Info()&types.IsString != 0
}

func sameSet(a, b map[string]bool) bool {
	if len(a) != len(b) {
		return false
	}
	for k := range a {
		if !b[k] {
			return false
		}
	}
	return true
}

// ---- known-failing lists vs embedded corpus ----

func c01Lists(p *Prog, r *Report) {
	// corpus: suite name + test names
	dataDir := filepath.Join(p.Root, "internal/app/connectconformance/testsuites/data")
	files, _ := filepath.Glob(filepath.Join(dataDir, "*.yaml"))
	type suite struct {
		name  string
		tests []string
	}
	var corpus []suite
	for _, f := range files {
		b, err := os.ReadFile(f)
		if err != nil {
			r.Undecided("lists.corpus."+filepath.Base(f), "R-TABLE-AGREE", err.Error())
			continue
		}
		s := suite{}
		for _, line := range strings.Split(string(b), "\n") {
			t := strings.TrimSpace(line)
			if strings.HasPrefix(line, "name:") {
				s.name = yamlScalar(strings.TrimPrefix(line, "name:"))
			} else if strings.HasPrefix(t, "testName:") {
				s.tests = append(s.tests, yamlScalar(strings.TrimPrefix(t, "testName:")))
			}
		}
		if s.name == "" || len(s.tests) == 0 {
			r.Undecided("lists.corpus."+filepath.Base(f), "R-TABLE-AGREE", "no suite name / test names recognised in "+filepath.Base(f))
			continue
		}
		corpus = append(corpus, s)
	}
	ntests := 0
	for _, s := range corpus {
		ntests += len(s.tests)
	}
	r.Floor("corpus-suites", len(corpus), 30)
	r.Floor("corpus-tests", ntests, 250)
	markers := map[string]bool{}
	for _, n := range []string{"grpcImplMarker", "grpcClientImplMarker", "grpcServerImplMarker"} {
		if c := p.Const(pkgCC, n); c != nil && c.Val().Kind() == constant.String {
			markers[constant.StringVal(c.Val())] = true
		}
	}
	lists, _ := filepath.Glob(filepath.Join(p.Root, "testing", "*known-failing.txt"))
	sort.Strings(lists)
	r.Floor("known-failing-lists", len(lists), 6)
	npat := 0
	for _, lf := range lists {
		base := filepath.Base(lf)
		b, err := os.ReadFile(lf)
		if err != nil {
			r.Undecided("lists."+base, "R-TABLE-AGREE", err.Error())
			continue
		}
		var pats []string
		for _, line := range strings.Split(string(b), "\n") {
			line = strings.TrimSpace(line)
			if line == "" || strings.HasPrefix(line, "#") {
				continue
			}
			pats = append(pats, line)
		}
		r.Sites++
		if strings.HasPrefix(base, "reference") {
			r.Check(len(pats) == 0, "lists.empty."+base, "R-TABLE-AGREE", "testing/"+base, "no pattern listed", fmt.Sprintf("the shipped %s lists %d pattern(s) %v; the property requires the reference implementations' lists to be empty", base, len(pats), pats))
			continue
		}
		for _, pat := range pats {
			npat++
			r.Sites++
			segs := strings.Split(pat, "/")
			match := ""
			for _, s := range corpus {
				for _, t := range s.tests {
					if globMatchTemplate(segs, s.name, strings.Split(t, "/"), markers) {
						match = s.name + "/…/" + t
						break
					}
				}
				if match != "" {
					break
				}
			}
			r.Check(match != "", "lists.matches."+base+":"+pat, "R-TABLE-AGREE", "testing/"+base, "can match "+match,
				fmt.Sprintf("pattern %q of %s matches no case the embedded corpus can produce (suite name/permutation…/test name): the runner reports unmatched known-failing patterns as an error, so the shipped run fails", pat, base))
		}
	}
	r.Floor("known-failing-patterns", npat, 20)
}

func yamlScalar(s string) string {
	s = strings.TrimSpace(s)
	if i := strings.Index(s, " #"); i >= 0 {
		s = strings.TrimSpace(s[:i])
	}
	if len(s) >= 2 && (s[0] == '"' && s[len(s)-1] == '"' || s[0] == '\'' && s[len(s)-1] == '\'') {
		s = s[1 : len(s)-1]
	}
	return s
}

// globMatchTemplate: can the pattern (segments; "**" = any number of segments,
// "*" inside a segment = any run of characters) match a name of the form
// suite / <permutation segments: Key:Value or an impl marker>* / test segments?
func globMatchTemplate(pat []string, suite string, test []string, markers map[string]bool) bool {
	// template positions: 0 = suite, 1 = MID (repeatable), 2.. = test segments
	n := 2 + len(test)
	type st struct{ i, j int }
	seen := map[st]bool{}
	var rec func(i, j int) bool
	segMatch := func(pat, s string) bool { ok, _ := filepath.Match(pat, s); return ok }
	midOK := func(ps string) bool {
		if ps == "*" || markers[ps] {
			return true
		}
		if k := strings.Index(ps, ":"); k > 0 {
			switch ps[:k] {
			case "HTTPVersion", "Protocol", "Codec", "Compression", "TLS", "TLSClientCerts":
				return true
			}
		}
		return strings.Contains(ps, "*") && !strings.Contains(ps, "/")
	}
	rec = func(i, j int) bool {
		if seen[st{i, j}] {
			return false
		}
		seen[st{i, j}] = true
		if i == len(pat) {
			return j == n || (j == 1 && n == 1)
		}
		if j == n {
			for _, ps := range pat[i:] {
				if ps != "**" {
					return false
				}
			}
			return true
		}
		ps := pat[i]
		if ps == "**" {
			// consume zero or more template positions
			if rec(i+1, j) {
				return true
			}
			if j == 1 {
				return rec(i, 2) || rec(i+1, 1)
			}
			return rec(i, j+1)
		}
		switch {
		case j == 0:
			return segMatch(ps, suite) && rec(i+1, 1)
		case j == 1:
			if rec(i, 2) { // no (more) permutation segments
				return true
			}
			return midOK(ps) && rec(i+1, 1)
		default:
			return segMatch(ps, test[j-2]) && rec(i+1, j+1)
		}
	}
	return rec(0, 0)
}

// ---- cancel-after-N-responses siblings ----

func c01CancelSiblings(p *Prog, r *Report) {
	var fns []*ssa.Function
	for _, fn := range p.RepoFuncs() {
		pk := pkgOfFunc(fn)
		if pk == modPath+"/"+pkgRC || pk == modPath+"/internal/app/grpcclient" {
			fns = append(fns, fn)
		}
	}
	n := 0
	for _, fn := range fns {
		k := 0
		eachInstr(fn, func(in ssa.Instruction) {
			b, ok := in.(*ssa.BinOp)
			if !ok || b.Op != token.EQL {
				return
			}
			var cnt ssa.Value
			switch {
			case isAfterNumResponses(b.Y):
				cnt = b.X
			case isAfterNumResponses(b.X):
				cnt = b.Y
			default:
				return
			}
			if _, isC := constInt(cnt); isC {
				return // `AfterNumResponses == 0`: cancel before receiving anything
			}
			n++
			k++
			r.Sites++
			r.Func(funcName(fn))
			// the compared count is counter+1 computed after the receive, i.e. it includes this response
			inc, isInc := canon(cnt).(*ssa.BinOp)
			okInc := false
			if isInc && inc.Op == token.ADD {
				if c, isC := constInt(inc.Y); isC && c == 1 {
					if _, isPhi := canon(inc.X).(*ssa.Phi); isPhi {
						okInc = true
					}
				}
			}
			r.Check(okInc, fmt.Sprintf("cancel-siblings.%s#%d", shortFn(fn), k), "R-SIBLING", p.InstrPos(in), "compares the count including the response just received",
				fmt.Sprintf("%s compares %s with after_num_responses; the five sibling receive loops compare the count INCLUDING the response just received (counter+1): this loop cancels one response late, so 'cancel after N responses' cases observe N+1 payloads", shortFn(fn), path(cnt)))
		})
	}
	r.Floor("cancel-after-responses-sites", n, 6)
}

func isAfterNumResponses(v ssa.Value) bool {
	f := loadedField(canon(v))
	return f != nil && f.Name() == "AfterNumResponses"
}

// ---- HTTP/3 context work-around ----

func c01CtxClassify(p *Prog, r *Report) {
	is := p.Func(pkgRC, "contextFixError", "Is")
	wrap := p.Func(pkgRC, "", "maybeWrapContextError")
	tf := p.Field(pkgRC, "contextFixError", "timeout")
	if is == nil || wrap == nil || tf == nil {
		r.Undecided("ctx-classify", "R-TABLE-AGREE", "contextFixError.Is / maybeWrapContextError / timeout field not found")
		return
	}
	r.Func(funcName(is))
	r.Func(funcName(wrap))
	// which sentinel does Is pair with timeout == true?
	sentinelOf := func(v ssa.Value) string {
		if u, ok := canon(v).(*ssa.UnOp); ok && u.Op == token.MUL {
			if g, ok := u.X.(*ssa.Global); ok && g.Pkg != nil && g.Pkg.Pkg.Path() == "context" {
				return g.Name()
			}
		}
		return ""
	}
	pairs := map[string]bool{} // "true:DeadlineExceeded"
	eachInstr(is, func(in ssa.Instruction) {
		b, ok := in.(*ssa.BinOp)
		if !ok || b.Op != token.EQL {
			return
		}
		s := sentinelOf(b.X)
		if s == "" {
			s = sentinelOf(b.Y)
		}
		if s == "" {
			return
		}
		for _, a := range atomsAt(in.Block()) {
			if m, val := boolTestOn(a, func(x ssa.Value) bool { return loadedField(canon(x)) == tf }); m {
				pairs[fmt.Sprintf("%v:%s", val, s)] = true
			}
		}
	})
	r.Sites++
	okIs := pairs["true:DeadlineExceeded"] && pairs["false:Canceled"] && len(pairs) == 2
	r.Check(okIs, "ctx-classify.is-table", "R-TABLE-AGREE", p.Pos(is.Pos()), "Is: timeout ↔ context.DeadlineExceeded, !timeout ↔ context.Canceled", fmt.Sprintf("contextFixError.Is pairs %v; expected timeout ↔ DeadlineExceeded and !timeout ↔ Canceled", sortedKeys(pairs)))
	n := 0
	for _, st := range storesToField([]*ssa.Function{wrap}, tf) {
		n++
		r.Sites++
		if b, isC := constBool(st.Val); isC {
			r.Check(b, fmt.Sprintf("ctx-classify.ctor#%d", n), "R-TABLE-AGREE", p.InstrPos(st.Instr), "net time-out ⇒ timeout = true", "a constant false is stored as the time-out flag")
			continue
		}
		c, isCall := canon(st.Val).(*ssa.Call)
		okC := isCall && isCallToNamed(&c.Call, "errors", "", "Is") && len(c.Call.Args) == 2 && sentinelOf(c.Call.Args[1]) == "DeadlineExceeded"
		r.Check(okC, fmt.Sprintf("ctx-classify.ctor#%d", n), "R-TABLE-AGREE", p.InstrPos(st.Instr), "timeout = errors.Is(ctxErr, context.DeadlineExceeded)",
			"maybeWrapContextError sets the time-out flag from something other than errors.Is(ctx.Err(), context.DeadlineExceeded), while contextFixError.Is reports timeout as DeadlineExceeded: cancelled HTTP/3 calls would be reported as deadline_exceeded (or the reverse) and the cancellation/timeout suites fail on HTTP/3")
	}
	r.Floor("ctx-classify-ctors", n, 2)
}

func without(m map[string]bool, k string) map[string]bool {
	out := map[string]bool{}
	for x := range m {
		if x != k {
			out[x] = true
		}
	}
	return out
}
