package main

import (
	"fmt"
	"go/token"
	"go/types"
	"strings"

	"golang.org/x/tools/go/ssa"
)

func init() {
	register(&propMeta{
		ID: "C04",
		Explain: "Decides structural necessary conditions of 'the run succeeds iff every selected case ran and met its expectation': " +
			"(verdict) the boolean returned by report depends on every counter that classifies a bad outcome (failed and couldNotRun; the counters are discovered as the loop counters of report and matched against a confirmed table), Run's result depends on report() and on run's error, main exits non-zero on !ok and on error; " +
			"(partition) every iteration of the classification loop increments exactly one counter and every arm counting a failure prints the case name; " +
			"(flaky) expectError is true exactly for knownFailing, or knownFlaky together with an actual failure, and only when the outcome is not a setup error (checked on the phi leaves of the expression with their path facts); " +
			"(setup) every infrastructure path records its outcome with setupError=true and every RPC-result path with false; peer feedback never overwrites an existing outcome's flags and always leaves a failure; " +
			"(outcome-always) the completion callback records exactly one outcome on every path and records reference-client feedback for every message; " +
			"(feedback) report merges peer feedback before classifying, and a reference server's stderr line is attributed exactly when it splits at the first \": \" into a test name of the batch and a message; (total) the expected total is the count of permutations accepted by the filter; " +
			"(locked) outcomes, serverSideband and traces only under the results mutex. " +
			"It does NOT decide the executed truth table or process fates.",
		NotDecided: []string{"the full outcome × marking × feedback truth table as executed", "process fates (which peer dies when)", "that printed totals are arithmetically correct"},
		Assume:     []string{"errors.As/Is behave as documented", "lock identity is the access path"},
		Trusted:    commonTrusted,
		Run:        runC04,
	})
	fr := "internal/app/connectconformance/results.go"
	fs := "internal/app/connectconformance/server_runner.go"
	addMutants(
		Mutant{ID: "C04-D7-verdict", Prop: "C04", File: fr, Old: "\treturn failed == 0 && couldNotRun == 0\n", New: "\treturn failed == 0\n",
			Expect: []string{"verdict.depends.couldNotRun"}, Note: "original defect D7: could-not-run cases do not affect the verdict"},
		Mutant{ID: "C04-flaky-unconditional", Prop: "C04", File: fr, Old: "\t\t\t\t(outcome.knownFlaky && outcome.actualFailure != nil)", New: "\t\t\t\toutcome.knownFlaky",
			Expect: []string{"flaky.formula"}, Note: "a flaky case that passes is reported as 'expected to fail but did not'"},
		Mutant{ID: "C04-setup-expected", Prop: "C04", File: fr, Old: "\t\tif !outcome.setupError {\n\t\t\texpectError = outcome.knownFailing ||", New: "\t\t{\n\t\t\texpectError = outcome.knownFailing ||",
			Expect: []string{"flaky.formula"}, Note: "a setup error on a known-failing case counts as the expected failure"},
		Mutant{ID: "C04-sideband-overwrites", Prop: "C04", File: fr,
			Old:    "\t\t\tr.outcomes[name] = outcome\n\t\t} else {\n\t\t\tr.setOutcomeLocked(name, false, errors.New(msg))\n\t\t}",
			New:    "\t\t\tr.setOutcomeLocked(name, false, outcome.actualFailure)\n\t\t} else {\n\t\t\tr.setOutcomeLocked(name, false, errors.New(msg))\n\t\t}",
			Expect: []string{"setup.feedback-keeps-flags"}, Note: "seed C04-1: feedback resets setupError of an existing outcome"},
		Mutant{ID: "C04-split-all", Prop: "C04", File: fs, Old: "parts := strings.SplitN(str, \": \", 2)", New: "parts := strings.Split(str, \": \")",
			Expect: []string{"sideband.split"}, Note: "seed C04-2: feedback containing \": \" not recognised, case passes"},
		Mutant{ID: "C04-callback-err-not-setup", Prop: "C04", File: fs, Old: "\t\t\tcase err != nil:\n\t\t\t\tresults.setOutcome(name, true, err)", New: "\t\t\tcase err != nil:\n\t\t\t\tresults.setOutcome(name, false, err)",
			Expect: []string{"setup.flag"}, Note: "a missing client answer is recorded as an RPC failure (so known-failing would accept it)"},
		Mutant{ID: "C04-no-outcome-default", Prop: "C04", File: fs, Old: "\t\t\tdefault:\n\t\t\t\tresults.setOutcome(name, false, errors.New(\"client returned a response with neither an error nor result\"))\n", New: "\t\t\tdefault:\n",
			Expect: []string{"outcome-always"}, Note: "an empty client response records no outcome"},
		Mutant{ID: "C04-run-error-ignored", Prop: "C04", File: "internal/app/connectconformance/connectconformance.go", Old: "\treturn results.report(logPrinter) && err == nil, nil\n", New: "\treturn results.report(logPrinter), nil\n",
			Expect: []string{"verdict.run"}, Note: "a run error (client died) after partial results still exits 0"},
		Mutant{ID: "C04-total-unfiltered", Prop: "C04", File: "internal/app/connectconformance/connectconformance.go", Old: "\tresults := newResults(filteredTestCount, knownFailing, knownFlaky, trace)", New: "\tresults := newResults(len(filteredServerConfigs), knownFailing, knownFlaky, trace)",
			Expect: []string{"total"}, Note: "expected total is not the number of selected permutations"},
		Mutant{ID: "C04-outcomes-unlocked", Prop: "C04", File: fr, Old: "func (r *testResults) failRemaining(testCases []*conformancev1.TestCase, err error) {\n\tr.mu.Lock()\n\tdefer r.mu.Unlock()\n", New: "func (r *testResults) failRemaining(testCases []*conformancev1.TestCase, err error) {\n",
			Expect: []string{"locked."}, Note: "outcomes map read/written without the mutex"},
		Mutant{ID: "C04-feedback-first-only", Prop: "C04", File: fs, Old: "\t\t\t\tfor _, msg := range resp.GetResponse().Feedback {\n\t\t\t\t\tresults.recordSideband(resp.TestName, msg)\n\t\t\t\t}", New: "\t\t\t\tif fb := resp.GetResponse().Feedback; len(fb) > 1 {\n\t\t\t\t\tresults.recordSideband(resp.TestName, fb[0])\n\t\t\t\t}",
			Expect: []string{"outcome-always.feedback"}, Note: "single feedback message from the reference client dropped"},
	)
}

func isPrintf(in ssa.Instruction) bool {
	c := callCommon(in)
	return c != nil && c.IsInvoke() && (c.Method.Name() == "Printf" || c.Method.Name() == "PrefixPrintf")
}

// varargMentions: the variadic []any of call c contains value v.
func varargMentions(c *ssa.CallCommon, v ssa.Value) bool {
	if len(c.Args) == 0 {
		return false
	}
	sl, ok := c.Args[len(c.Args)-1].(*ssa.Slice)
	if !ok {
		return false
	}
	arr, ok := sl.X.(*ssa.Alloc)
	if !ok {
		return false
	}
	found := false
	for _, ref := range *arr.Referrers() {
		ia, ok := ref.(*ssa.IndexAddr)
		if !ok {
			continue
		}
		for _, r2 := range *ia.Referrers() {
			if st, ok := r2.(*ssa.Store); ok {
				if mi, ok := st.Val.(*ssa.MakeInterface); ok && sameVal(mi.X, v) {
					found = true
				}
			}
		}
	}
	return found
}

func runC04(p *Prog, r *Report) {
	must := NewLockInfo(p, true)
	// ---- locked ----
	n := 0
	for _, f := range []string{"outcomes", "serverSideband", "traces"} {
		n += ruleLocked(p, r, must, lockRule{Key: "locked." + f, Field: p.Field(pkgCC, "testResults", f), Mu: "mu"})
	}
	r.Floor("locked-accesses", n, 15)

	report := p.Func(pkgCC, "testResults", "report")
	if report == nil {
		r.Undecided("verdict", "R-DEPENDS", "report not found")
		return
	}
	r.Func(funcName(report))
	// ---- verdict ----
	classification := map[string]string{"succeeded": "good", "expectedFailures": "good", "failed": "bad", "couldNotRun": "bad"}
	counters := counterPhis(report)
	byName := map[string]*ssa.Phi{}
	for phi := range counters {
		if phi.Comment == "rangeindex" || phi.Comment == "" {
			continue
		}
		byName[phi.Comment] = phi
		if _, known := classification[phi.Comment]; !known {
			r.Undecided("verdict.counter."+phi.Comment, "R-DEPENDS", "report has a counter `"+phi.Comment+"` that is not in the confirmed classification table {succeeded, expectedFailures: good; failed, couldNotRun: bad}; re-triage needed")
		}
	}
	var retDeps map[ssa.Value]bool
	for _, ret := range returnsOf(report) {
		for _, v := range retVals(ret, 0) {
			d := dependenceClosure(v)
			if retDeps == nil {
				retDeps = d
			} else {
				for k := range retDeps {
					if !d[k] {
						delete(retDeps, k)
					}
				}
			}
		}
	}
	for name, cls := range classification {
		phi := byName[name]
		r.Sites++
		if phi == nil {
			r.Fail("verdict.counter."+name, "R-DEPENDS", p.Pos(report.Pos()), "report no longer has a loop counter `"+name+"`: the classification table is stale")
			continue
		}
		if cls == "bad" {
			r.Check(retDeps[phi], "verdict.depends."+name, "R-DEPENDS", p.Pos(phi.Pos()), "the verdict depends on "+name,
				"the boolean returned by report does not depend on the counter `"+name+"`, which counts cases that did not meet their expectation: such cases would not fail the run")
		}
	}
	// ---- partition ----
	var header, body *ssa.BasicBlock
	for phi := range counters {
		if phi.Comment == "failed" {
			header = phi.Block()
		}
	}
	if header != nil {
		if iff, ok := header.Instrs[len(header.Instrs)-1].(*ssa.If); ok {
			_ = iff
			body = header.Succs[0]
		}
	}
	isInc := func(in ssa.Instruction) bool {
		bo, ok := in.(*ssa.BinOp)
		if !ok {
			return false
		}
		for phi, incs := range counters {
			if phi.Comment == "rangeindex" {
				continue
			}
			for _, i := range incs {
				if i == bo {
					return true
				}
			}
		}
		return false
	}
	if header == nil || body == nil {
		r.Undecided("partition", "A-PATH", "classification loop of report not found")
	} else {
		r.Sites++
		r.Check(allPathsPassBetween(body, header, isInc), "partition.at-least-one", "A-PATH", p.Pos(report.Pos()), "every path through one iteration increments a counter", "some path through the classification loop increments no counter: that case is missing from the totals")
		dbl := false
		for phi, incs := range counters {
			if phi.Comment == "rangeindex" {
				continue
			}
			for _, inc := range incs {
				r.Sites++
				// from after inc, no other increment before the header
				seen := map[*ssa.BasicBlock]bool{}
				work := append([]*ssa.BasicBlock{}, inc.Block().Succs...)
				for len(work) > 0 {
					b := work[len(work)-1]
					work = work[:len(work)-1]
					if b == header || seen[b] {
						continue
					}
					seen[b] = true
					for _, in := range b.Instrs {
						if isInc(in) {
							dbl = true
						}
					}
					work = append(work, b.Succs...)
				}
			}
		}
		r.Check(!dbl, "partition.at-most-one", "A-PATH", p.Pos(report.Pos()), "no path increments two counters in one iteration", "some path through the classification loop increments two counters: a case is counted twice")
		// failed arms print the case name
		if fphi := byName["failed"]; fphi != nil {
			for i, inc := range counters[fphi] {
				r.Sites++
				ok := false
				// the name is the element of the sorted names at the loop index
				for _, blk := range report.Blocks {
					if !dominatesBlock(body, blk) {
						continue
					}
					for _, in := range blk.Instrs {
						if isPrintf(in) && precededBy(inc, func(x ssa.Instruction) bool { return x == in }) {
							c := callCommon(in)
							for _, b2 := range report.Blocks {
								for _, i2 := range b2.Instrs {
									if u, isU := i2.(*ssa.UnOp); isU && u.Op == token.MUL {
										if _, isIA := u.X.(*ssa.IndexAddr); isIA && dominatesBlock(body, u.Block()) && varargMentions(c, u) {
											ok = true
										}
									}
								}
							}
						}
					}
				}
				r.Check(ok, fmt.Sprintf("partition.failed-named#%d", i), "R-MUSTCALL", p.InstrPos(inc), "the arm counting a failure prints the case name first", "an arm of report counts a failed case without printing its name")
			}
		}
	}
	// ---- flaky / setup formula ----
	tf := func(name string) *types.Var { return p.Field(pkgCC, "testOutcome", name) }
	setupErr, kFailing, kFlaky, actual := tf("setupError"), tf("knownFailing"), tf("knownFlaky"), tf("actualFailure")
	var expectPhi *ssa.Phi
	eachInstr(report, func(in ssa.Instruction) {
		if phi, ok := in.(*ssa.Phi); ok && phi.Comment == "expectError" {
			expectPhi = phi
		}
	})
	if expectPhi == nil {
		r.Undecided("flaky.formula", "R-GUARD", "expectError of report not found")
	} else {
		hasFact := func(l phiLeaf, f *types.Var, want bool) bool {
			return hasAtom(l.Facts, func(a Atom) bool { m, v := boolTestOn(a, isLoadOfField(f)); return m && v == want })
		}
		bad := ""
		sawFailing, sawFlaky := false, false
		for _, l := range phiLeaves(expectPhi) {
			r.Sites++
			if b, isC := constBool(l.Val); isC {
				if !b {
					continue
				}
				if hasFact(l, kFailing, true) && hasFact(l, setupErr, false) {
					sawFailing = true
					continue
				}
				bad = "expectError becomes true on a path without (knownFailing ∧ ¬setupError): " + atomsString(l.Facts)
				continue
			}
			if loadedField(l.Val) == kFailing && hasFact(l, setupErr, false) {
				sawFailing = true
				continue
			}
			if bo, ok := l.Val.(*ssa.BinOp); ok && bo.Op == token.NEQ && isNilConst(bo.Y) && loadedField(bo.X) == actual {
				if hasFact(l, kFlaky, true) && hasFact(l, setupErr, false) {
					sawFlaky = true
					continue
				}
				bad = "`actualFailure != nil` contributes to expectError outside (knownFlaky ∧ ¬setupError): " + atomsString(l.Facts)
				continue
			}
			bad = "unexpected contribution " + path(l.Val) + " to expectError under " + atomsString(l.Facts)
		}
		r.Check(bad == "" && sawFailing && sawFlaky, "flaky.formula", "R-GUARD", p.Pos(expectPhi.Pos()),
			"expectError = ¬setupError ∧ (knownFailing ∨ (knownFlaky ∧ actualFailure != nil)) on every phi leaf",
			"expectError is not ¬setupError ∧ (knownFailing ∨ (knownFlaky ∧ actualFailure≠nil)): "+bad+fmt.Sprintf(" [knownFailing arm seen=%v, knownFlaky arm seen=%v]", sawFailing, sawFlaky))
	}
	// ---- setup flag table ----
	setOutcome := p.TypeFunc(pkgCC, "testResults", "setOutcome")
	setOutcomeL := p.TypeFunc(pkgCC, "testResults", "setOutcomeLocked")
	isSet := orPred(isCallObj(setOutcome), isCallObj(setOutcomeL))
	rts := p.Func(pkgCC, "", "runTestCasesForServer")
	expectFlags := map[string][]bool{ // enclosing function -> flags (sorted false<true)
		"(*internal/app/connectconformance.testResults).failedToStart":             {true},
		"(*internal/app/connectconformance.testResults).failRemaining":             {true},
		"(*internal/app/connectconformance.testResults).failed":                    {false},
		"(*internal/app/connectconformance.testResults).assert":                    {false},
		"(*internal/app/connectconformance.testResults).processSidebandInfoLocked": {false},
		"internal/app/connectconformance.runTestCasesForServer":                    {true, true},
		"internal/app/connectconformance.runTestCasesForServer$3":                  {false, true},
	}
	gotFlags := map[string][]bool{}
	for _, fn := range p.RepoFuncs() {
		if pkgOfFunc(fn) != ccPath {
			continue
		}
		for _, c := range findInstrs(fn, isSet) {
			cc := callCommon(c)
			if funcName(fn) == "(*internal/app/connectconformance.testResults).setOutcome" {
				// the wrapper forwards its own parameter
				r.Sites++
				r.Check(cc.Args[2] == ssa.Value(fn.Params[2]), "setup.flag.wrapper", "R-WIRE", p.InstrPos(c), "setOutcome forwards its setupError parameter", "setOutcome does not forward its setupError parameter")
				continue
			}
			b, isC := constBool(cc.Args[2])
			r.Sites++
			if !isC {
				r.Fail("setup.flag@"+funcName(fn), "R-WIRE", p.InstrPos(c), "setupError argument is not a constant in "+funcName(fn))
				continue
			}
			gotFlags[funcName(fn)] = append(gotFlags[funcName(fn)], b)
		}
	}
	closureKey := ""
	if rts != nil {
		for _, a := range rts.AnonFuncs {
			if len(findInstrs(a, isSet)) > 0 {
				closureKey = funcName(a)
			}
		}
	}
	for fn, want := range expectFlags {
		key := fn
		if strings.HasSuffix(fn, "$3") {
			key = closureKey
		}
		got := append([]bool{}, gotFlags[key]...)
		sortBools(got)
		r.Check(fmt.Sprint(got) == fmt.Sprint(want), "setup.flag@"+fn, "R-WIRE", "-", fmt.Sprintf("setupError flags %v", got),
			fmt.Sprintf("outcomes recorded in %s carry setupError flags %v, expected %v (infrastructure failures must be setup errors, RPC results must not): a could-not-run case marked known-failing would count as the expected failure, or an RPC failure could never be expected", fn, got, want))
		delete(gotFlags, key)
	}
	for fn, got := range gotFlags {
		r.Fail("setup.flag@"+fn, "R-WIRE", "-", fmt.Sprintf("unclassified outcome-recording site(s) in %s with setupError %v: add to the confirmed table after triage", fn, got))
	}
	// in the callback: the setup-error outcome is exactly the err != nil arm
	if rts != nil && closureKey != "" {
		for _, a := range rts.AnonFuncs {
			if funcName(a) != closureKey {
				continue
			}
			r.Func(funcName(a))
			for _, c := range findInstrs(a, isSet) {
				b, _ := constBool(callCommon(c).Args[2])
				errParam := a.Params[len(a.Params)-1]
				onErr := guardedBy(c, func(at Atom) bool {
					m, isNil := nilTestOn(at, func(v ssa.Value) bool { return v == ssa.Value(errParam) })
					return m && !isNil
				})
				r.Sites++
				r.Check(b == onErr, "setup.flag.callback-arm", "R-GUARD", p.InstrPos(c), "setupError=true exactly on the err != nil arm of the completion callback", "in the completion callback the setup-error flag does not coincide with the `err != nil` (no answer from the client) arm")
			}
			// outcome-always
			outcomeCalls := orPred(isSet, isCallObj(p.TypeFunc(pkgCC, "testResults", "failed")), isCallObj(p.TypeFunc(pkgCC, "testResults", "assert")))
			ok, exit := entryMustPass(a, outcomeCalls)
			r.Sites++
			r.Check(ok, "outcome-always.callback", "R-MUSTCALL", p.Pos(a.Pos()), "every path through the completion callback records an outcome", "the completion callback can return at "+p.InstrPos(exit)+" without recording an outcome for the case")
			calls := findInstrs(a, outcomeCalls)
			twice := false
			for _, x := range calls {
				for _, y := range calls {
					if reachesInstr(x, y) {
						twice = true
					}
				}
			}
			r.Check(!twice && len(calls) >= 4, "outcome-always.once", "R-MUSTCALL", p.Pos(a.Pos()), fmt.Sprintf("%d mutually exclusive outcome-recording arms", len(calls)), "the completion callback can record two outcomes for one answer (or lost an arm)")
			// reference-client feedback: recordSideband for each message
			recSB := p.TypeFunc(pkgCC, "testResults", "recordSideband")
			feedback := p.Field(pkgGen, "ClientResponseResult", "Feedback")
			okFB := false
			for _, c := range findInstrs(a, isCallObj(recSB)) {
				cc := callCommon(c)
				// arg 2 (msg) is the range element of Feedback
				if u, ok := cc.Args[2].(*ssa.UnOp); ok {
					if ia, ok := u.X.(*ssa.IndexAddr); ok && loadedField(canon(ia.X)) == feedback {
						if allRangeOver(ia) {
							okFB = true
						}
					}
				}
			}
			r.Sites++
			r.Check(okFB, "outcome-always.feedback", "R-FOLD", p.Pos(a.Pos()), "recordSideband is called for every element of the response's Feedback", "feedback messages of the reference client are not all recorded (recordSideband is not called with each element of Feedback)")
		}
	}
	// feedback never overwrites an existing outcome's flags; always leaves a failure
	if ps := p.Func(pkgCC, "testResults", "processSidebandInfoLocked"); ps == nil {
		r.Undecided("setup.feedback-keeps-flags", "R-GUARD", "processSidebandInfoLocked not found")
	} else {
		r.Func(funcName(ps))
		outcomes := p.Field(pkgCC, "testResults", "outcomes")
		found := func(a Atom) bool {
			m, v := boolTestOn(a, func(x ssa.Value) bool { return commaOkOfLookupOn(x, outcomes) })
			return m && v
		}
		missing := func(a Atom) bool {
			m, v := boolTestOn(a, func(x ssa.Value) bool { return commaOkOfLookupOn(x, outcomes) })
			return m && !v
		}
		okG := true
		for _, c := range findInstrs(ps, isSet) {
			r.Sites++
			if !guardedBy(c, missing) {
				okG = false
			}
		}
		// on the found edge only actualFailure is written
		eachInstr(ps, func(in ssa.Instruction) {
			st, ok := in.(*ssa.Store)
			if !ok {
				return
			}
			fa, ok := st.Addr.(*ssa.FieldAddr)
			if !ok {
				return
			}
			f := fieldVar(fa.X.Type(), fa.Field)
			if f == setupErr || f == kFailing || f == kFlaky {
				okG = false
			}
			if f == actual {
				r.Sites++
				if isNilConst(st.Val) || !guardedBy(in, found) {
					okG = false
				}
			}
		})
		nUpd := 0
		eachInstr(ps, func(in ssa.Instruction) {
			if mu, ok := in.(*ssa.MapUpdate); ok && loadedField(mu.Map) == outcomes {
				nUpd++
				if !guardedBy(in, found) {
					okG = false
				}
			}
		})
		r.Check(okG && nUpd == 1, "setup.feedback-keeps-flags", "R-GUARD", p.Pos(ps.Pos()), "feedback on an existing outcome only replaces actualFailure (non-nil) and writes it back; a new outcome is created only when none exists",
			"merging peer feedback rewrites an existing outcome through setOutcomeLocked or touches its setupError/known flags (a could-not-run case marked known-failing would then count as the expected failure), or can leave it without a failure")
	}
	// reference-server feedback is attributed to the named case (shared with C11)
	if rts != nil {
		sidebandRules(p, r, rts)
	}
	// ---- feedback merged before classification ----
	psObj := p.TypeFunc(pkgCC, "testResults", "processSidebandInfoLocked")
	calls := findInstrs(report, isCallObj(psObj))
	r.Sites++
	okF := len(calls) == 1 && header != nil
	if okF {
		okF = precededByBlock(header, calls[0]) || reachesInstr(calls[0], header.Instrs[0])
		sb := p.Field(pkgCC, "testResults", "serverSideband")
		as := atomsAt(calls[0].Block())
		okF = okF && len(as) == 1 && hasAtom(as, func(a Atom) bool {
			if a.Op != token.GTR && a.Op != token.NEQ {
				return false
			}
			z, isZ := constInt(a.Y)
			x, isLen := lenArg(a.X)
			return isZ && z == 0 && isLen && loadedField(canon(x)) == sb
		})
		okF = okF && !reachesInstr(header.Instrs[0], calls[0])
	}
	r.Check(okF, "feedback.before-classify", "R-ORDER", p.Pos(report.Pos()), "processSidebandInfoLocked runs (whenever there is feedback) before the classification loop", "report does not merge peer feedback (whenever any was recorded) before classifying the outcomes")

	// ---- Run / main ----
	runFn := p.Func(pkgCC, "", "Run")
	inner := p.TypeFunc(pkgCC, "", "run")
	reportObj := p.TypeFunc(pkgCC, "testResults", "report")
	if runFn == nil || inner == nil {
		r.Undecided("verdict.run", "R-DEPENDS", "Run/run not found")
	} else {
		r.Func(funcName(runFn))
		var runCall *ssa.Call
		eachInstr(runFn, func(in ssa.Instruction) {
			if c, ok := in.(*ssa.Call); ok && calleeObj(&c.Call) == inner {
				runCall = c
			}
		})
		ok := false
		for _, ret := range returnsOf(runFn) {
			if !precededBy(ret, isCallObj(reportObj)) {
				continue
			}
			{
				d := dependenceClosure(ret.Results[0])
				dr, de := false, false
				for k := range d {
					if c, isC := k.(*ssa.Call); isC && calleeObj(&c.Call) == reportObj {
						dr = true
					}
					if ex, isE := k.(*ssa.Extract); isE && runCall != nil && ex.Tuple == ssa.Value(runCall) && ex.Index == 1 {
						de = true
					}
				}
				ok = dr && de
			}
		}
		r.Sites++
		r.Check(ok, "verdict.run", "R-DEPENDS", p.Pos(runFn.Pos()), "Run's verdict depends on report() and on run's error", "Run's boolean result does not depend on both report() and the error returned by run: a run that broke off (client died, could not continue) would still exit successfully")
	}
	mainRun := p.Func("cmd/connectconformance", "", "run")
	if mainRun == nil {
		r.Undecided("verdict.exit", "R-GUARD", "cmd/connectconformance.run not found")
	} else {
		r.Func(funcName(mainRun))
		var runCall *ssa.Call
		eachInstr(mainRun, func(in ssa.Instruction) {
			if c, ok := in.(*ssa.Call); ok && isCallToNamed(&c.Call, ccPath, "", "Run") {
				runCall = c
			}
		})
		okExit, okFatal := false, false
		eachInstr(mainRun, func(in ssa.Instruction) {
			c := callCommon(in)
			if c == nil || runCall == nil {
				return
			}
			if isCallToNamed(c, "os", "", "Exit") {
				if k, isK := constInt(c.Args[0]); isK && k != 0 && guardedBy(in, func(a Atom) bool {
					m, v := boolTestOn(a, func(x ssa.Value) bool {
						ex, ok := x.(*ssa.Extract)
						return ok && ex.Tuple == ssa.Value(runCall) && ex.Index == 0
					})
					return m && !v
				}) {
					okExit = true
				}
			}
			if guardedBy(in, func(a Atom) bool {
				m, isNil := nilTestOn(a, func(x ssa.Value) bool {
					ex, ok := x.(*ssa.Extract)
					return ok && ex.Tuple == ssa.Value(runCall) && ex.Index == 1
				})
				return m && !isNil
			}) && reachesInstr(runCall, in) {
				if _, isB := c.Value.(*ssa.Builtin); !isB {
					okFatal = true
				}
			}
		})
		r.Sites += 2
		r.Check(okExit && okFatal && runCall != nil, "verdict.exit", "R-GUARD", p.Pos(mainRun.Pos()), "os.Exit(non-zero) on !ok, fatal on err != nil", "the CLI does not exit non-zero when Run reports failure (!ok) or returns an error")
	}
	// ---- total ----
	innerFn := p.Func(pkgCC, "", "run")
	newRes := p.TypeFunc(pkgCC, "", "newResults")
	accept := p.TypeFunc(pkgCC, "testCaseFilter", "accept")
	if innerFn == nil || newRes == nil || accept == nil {
		r.Undecided("total", "R-WIRE", "run/newResults/accept not found")
	} else {
		r.Func(funcName(innerFn))
		ok := false
		for _, c := range findInstrs(innerFn, isCallObj(newRes)) {
			arg := callCommon(c).Args[0]
			phi, isPhi := arg.(*ssa.Phi)
			if !isPhi {
				continue
			}
			ctrs := counterPhis(innerFn)
			incs := ctrs[phi]
			if len(incs) != 1 {
				continue
			}
			// facts established inside the loop only
			var as []Atom
			for _, f := range factsAt(incs[0].Block()) {
				if dominatesBlock(phi.Block(), f.If.Block()) {
					as = append(as, atomOf(f.Cond, f.True))
				}
			}
			nAcc := 0
			for _, a := range as {
				if m, v := boolTestOn(a, isCallResult(func(cc *ssa.CallCommon) bool { return calleeObj(cc) == accept })); m && v {
					nAcc++
				}
			}
			// the increment sits directly in the loop over all permutations, guarded only by accept
			ok = nAcc == 1 && countNonLoopAtoms(as) == 1
		}
		r.Sites++
		r.Check(ok, "total", "R-WIRE", p.Pos(innerFn.Pos()), "newResults receives the counter incremented exactly on filter.accept(testCase)", "the expected total handed to the results is not the number of permutations accepted by the run/skip filter: missing outcomes could go unnoticed (or be reported spuriously)")
	}
}

func sortBools(b []bool) {
	for i := range b {
		for j := i + 1; j < len(b); j++ {
			if b[i] && !b[j] {
				b[i], b[j] = b[j], b[i]
			}
		}
	}
}

// allRangeOver: the IndexAddr's index is a range-loop index over its slice.
func allRangeOver(ia *ssa.IndexAddr) bool {
	bo, ok := ia.Index.(*ssa.BinOp)
	return ok && isRangeIndex(bo)
}

// precededByBlock: instruction x dominates block b.
func precededByBlock(b *ssa.BasicBlock, x ssa.Instruction) bool {
	return dominatesBlock(x.Block(), b)
}

// countNonLoopAtoms counts facts other than range-loop bounds (i < len).
func countNonLoopAtoms(as []Atom) int {
	n := 0
	for _, a := range as {
		if a.Op == token.LSS {
			if bo, ok := a.X.(*ssa.BinOp); ok && isRangeIndex(bo) {
				continue
			}
		}
		if a.Op == token.ILLEGAL {
			if ex, ok := a.X.(*ssa.Extract); ok {
				if _, isNext := ex.Tuple.(*ssa.Next); isNext {
					continue
				}
			}
		}
		n++
	}
	return n
}
