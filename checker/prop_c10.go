package main

import (
	"golang.org/x/tools/go/ssa"
)

const pkgCC = "internal/app/connectconformance"

func init() {
	register(&propMeta{
		ID: "C10",
		Explain: "Decides structural necessary conditions of 'client multiplexer answers every request exactly once': " +
			"(latch) every write to clientProcessRunner.terminated / closedSend stores true and the process-done handler registered in runClient stores it on every path; " +
			"(locked) pendingOps only under pendingMu, closedSend only under sendMu; (lockorder) sendMu is never acquired while pendingMu is held; " +
			"(once) every removal from pendingOps is paired with exactly one invocation of the removed callback or an error return of sendRequest; " +
			"(drain) the deferred cleanup of consumeOutput publishes the error, closes the send side, drains every pending callback and closes done last; " +
			"(unknown) an unknown/duplicate response ends the reader with a non-nil reason. " +
			"It does NOT decide exactly-once under all interleavings or absence of deadlock with a real pipe.",
		NotDecided: []string{"exactly-once delivery under all interleavings (lock and path rules are necessary, not sufficient)", "absence of deadlock with a real pipe", "bounded time"},
		Assume:     []string{"sync.Mutex / atomic.Bool behave as documented", "lock identity is the access path (receiver, field)"},
		Trusted:    commonTrusted,
		Run:        runC10,
	})
	addMutants(
		Mutant{ID: "C10-latch-D1", Prop: "C10", File: "internal/app/connectconformance/client_runner.go",
			Old: "result.terminated.Store(true)", New: "result.terminated.Store(false)",
			Expect: []string{"latch.terminated"}, Note: "original defect D1: process-done handler stores false"},
	)
}

func runC10(p *Prog, r *Report) {
	terminated := p.Field(pkgCC, "clientProcessRunner", "terminated")
	closedSend := p.Field(pkgCC, "clientProcessRunner", "closedSend")
	n := ruleLatch(p, r, "latch.terminated", terminated)
	n += ruleLatch(p, r, "latch.closedSend", closedSend)
	r.Floor("latch-writes", n, 4)

	// the process-done handler registered in runClient sets the flag on every path
	runClient := p.Func(pkgCC, "", "runClient")
	if runClient == nil {
		r.Undecided("latch.whenDone", "R-MUSTCALL", "runClient not found")
	} else {
		r.Func(funcName(runClient))
		h, at := closureArgOfCall(runClient, func(c *ssa.CallCommon) bool {
			return isCallToNamed(c, modPath+"/"+pkgCC, "processController", "whenDone")
		}, 0)
		if h == nil {
			r.Undecided("latch.whenDone", "R-MUSTCALL", "no handler literal passed to process.whenDone in runClient")
		} else {
			ok, exit := entryMustPass(h, isStoreTrueTo(terminated))
			r.Sites++
			r.Check(ok, "latch.whenDone", "R-MUSTCALL", p.InstrPos(at),
				"process-done handler stores terminated=true on every path",
				"process-done handler registered in runClient has a path to "+p.InstrPos(exit)+" that does not store terminated=true, so isRunning() stays true after the client exits")
		}
	}
}
