package main

import (
	"fmt"
	"go/token"
	"go/types"

	"golang.org/x/tools/go/ssa"
)

const pkgCC = "internal/app/connectconformance"
const ccPath = modPath + "/" + pkgCC
const internalPath = modPath + "/internal"

func init() {
	register(&propMeta{
		ID: "C10",
		Explain: "Decides structural necessary conditions of 'client multiplexer answers every request exactly once': " +
			"(latch) every write to clientProcessRunner.terminated / closedSend stores true and the process-done handler registered in runClient stores it on every path; " +
			"(locked) pendingOps only under pendingMu, closedSend only under sendMu; (lockorder) sendMu is never acquired while pendingMu may be held; " +
			"(once) registration precedes the write, the write-failure path removes the entry only if still present and then (and only then) returns the error, every removal in the reader is paired with an invocation of the removed callback; " +
			"(drain) the deferred cleanup of consumeOutput aborts before closing the send side, closes the send side before taking pendingMu, drains every pending callback, and done is closed last; waitForResponses blocks on done; sendRequest refuses after an error or after closeSend; " +
			"(unknown) every exit of the reader loop records a non-nil reason; " +
			"(eof) the framing layer the reader relies on reports an end of input inside a length prefix or message as io.ErrUnexpectedEOF (accumulated offset, payload phase, binary decoder; rules shared with C09), so that only a clean end is treated as a clean end. " +
			"It does NOT decide exactly-once under all interleavings or absence of deadlock with a real pipe.",
		NotDecided: []string{"exactly-once delivery under all interleavings (lock and path rules are necessary, not sufficient)", "absence of deadlock with a real pipe", "bounded time"},
		Assume:     []string{"sync.Mutex / atomic.Bool behave as documented", "lock identity is the access path (root variable, field chain); a parameter, its capture cell and the closure's free variable denote the same object"},
		Trusted:    commonTrusted,
		Run:        runC10,
	})
	f := "internal/app/connectconformance/client_runner.go"
	addMutants(
		Mutant{ID: "C10-seed3-eof-lastread", Prop: "C10", File: "internal/delimited.go", Old: "\t\t\tif errors.Is(err, io.EOF) && offs > 0 {", New: "\t\t\tif errors.Is(err, io.EOF) && numRead > 0 {",
			Expect: []string{"eof.chunk"}, Note: "seed C10-3: output cut inside a length prefix is reported as a clean end; the client is not marked terminated"},
		Mutant{ID: "C10-latch-D1", Prop: "C10", File: f,
			Old: "result.terminated.Store(true)", New: "result.terminated.Store(false)",
			Expect: []string{"latch.terminated"}, Note: "original defect D1: process-done handler stores false"},
		Mutant{ID: "C10-unlocked-delete", Prop: "C10", File: f,
			Old:    "\t\tc.pendingMu.Lock()\n\t\taction, ok := c.pendingOps[resp.TestName]\n\t\tif ok {\n\t\t\tdelete(c.pendingOps, resp.TestName)\n\t\t}\n\t\tc.pendingMu.Unlock()",
			New:    "\t\tc.pendingMu.Lock()\n\t\taction, ok := c.pendingOps[resp.TestName]\n\t\tc.pendingMu.Unlock()\n\t\tif ok {\n\t\t\tdelete(c.pendingOps, resp.TestName)\n\t\t}",
			Expect: []string{"locked.pendingOps"}, Note: "delete moved outside the pendingMu critical section"},
		Mutant{ID: "C10-lockorder", Prop: "C10", File: f,
			Old:    "\t\tc.closeSend() // stop the send side now that we're done with receive side\n\n\t\tc.pendingMu.Lock()\n\t\tdefer c.pendingMu.Unlock()",
			New:    "\t\tc.pendingMu.Lock()\n\t\tdefer c.pendingMu.Unlock()\n\t\tc.closeSend() // stop the send side now that we're done with receive side\n",
			Expect: []string{"lockorder", "drain.closeSend-before-drain"}, Note: "closeSend (takes sendMu) called with pendingMu held"},
		Mutant{ID: "C10-sendfail-unconditional", Prop: "C10", File: f,
			Old:    "\t\t_, exists := c.pendingOps[req.TestName]\n\t\tif exists {\n\t\t\tdelete(c.pendingOps, req.TestName)\n\t\t}\n\t\tc.pendingMu.Unlock()\n\n\t\tif !exists {",
			New:    "\t\texists := true\n\t\tdelete(c.pendingOps, req.TestName)\n\t\tc.pendingMu.Unlock()\n\n\t\tif !exists {",
			Expect: []string{"once.sendfail"}, Note: "write-failure path no longer checks whether the reader already answered"},
		Mutant{ID: "C10-abort-after-closeSend", Prop: "C10", File: f,
			Old:    "\t\t\tc.proc.abort()\n\t\t}\n\t\tc.closeSend() // stop the send side now that we're done with receive side\n",
			New:    "\t\t}\n\t\tc.closeSend() // stop the send side now that we're done with receive side\n\t\tif reasonForReturn != nil {\n\t\t\tc.proc.abort()\n\t\t}\n",
			Expect: []string{"drain.abort-before-closeSend"}, Note: "abort moved after closeSend (reader can block on sendMu held by a stuck writer)"},
		Mutant{ID: "C10-no-reason", Prop: "C10", File: f,
			Old:    "\t\t\t\treasonForReturn = fmt.Errorf(\"received response for unrecognized test case name %q\", resp.TestName)",
			New:    "\t\t\t\t_ = fmt.Errorf(\"received response for unrecognized test case name %q\", resp.TestName)",
			Expect: []string{"unknown.reason"}, Note: "unknown response ends the reader without a reason (treated like clean EOF)"},
		Mutant{ID: "C10-drain-no-call", Prop: "C10", File: f,
			Old:    "\t\t\taction(key, nil, &failedToGetResultError{err})\n\t\t\tdelete(c.pendingOps, key)",
			New:    "\t\t\t_ = action\n\t\t\t_ = err\n\t\t\tdelete(c.pendingOps, key)",
			Expect: []string{"once.delete-call"}, Note: "drain removes pending entries without invoking their callbacks"},
	)
}

func runC10(p *Prog, r *Report) {
	terminated := p.Field(pkgCC, "clientProcessRunner", "terminated")
	closedSend := p.Field(pkgCC, "clientProcessRunner", "closedSend")
	pendingOps := p.Field(pkgCC, "clientProcessRunner", "pendingOps")
	doneF := p.Field(pkgCC, "clientProcessRunner", "done")
	n := ruleLatch(p, r, "latch.terminated", terminated)
	n += ruleLatch(p, r, "latch.closedSend", closedSend)
	r.Floor("latch-writes", n, 4)

	// the process-done handler registered in runClient sets the flag on every path
	runClient := p.Func(pkgCC, "", "runClient")
	if runClient == nil {
		r.Undecided("latch.whenDone", "R-MUSTCALL", "runClient not found")
	} else {
		r.Func(funcName(runClient))
		h, at := closureArgOfCall(runClient, func(c *ssa.CallCommon) bool {
			return isCallToNamed(c, ccPath, "processController", "whenDone")
		}, 0)
		if h == nil {
			r.Undecided("latch.whenDone", "R-MUSTCALL", "no handler literal passed to process.whenDone in runClient")
		} else {
			ok, exit := entryMustPass(h, isStoreTrueTo(terminated))
			r.Sites++
			r.Check(ok, "latch.whenDone", "R-MUSTCALL", p.InstrPos(at),
				"process-done handler stores terminated=true on every path",
				"process-done handler registered in runClient has a path to "+p.InstrPos(exit)+" that does not store terminated=true, so isRunning() stays true after the client exits")
		}
	}

	// ---- lock discipline ----
	must := NewLockInfo(p, true)
	may := NewLockInfo(p, false)
	na := ruleLocked(p, r, must, lockRule{Key: "locked.pendingOps", Field: pendingOps, Mu: "pendingMu"})
	nb := ruleLocked(p, r, must, lockRule{Key: "locked.closedSend", Field: closedSend, Mu: "sendMu"})
	r.Floor("locked-accesses", na+nb, 9)
	ruleNotHeldAtCalls(p, r, may, "lockorder.sendMu-under-pendingMu", "R-LOCKORDER", func(in ssa.Instruction) bool {
		op, key := lockOp(callCommon(in))
		return op == "lock" && lockKind(key) == "clientProcessRunner.sendMu"
	}, func(k string) bool { return lockKind(k) == "clientProcessRunner.pendingMu" }, "acquiring sendMu")

	sendRequest := p.Func(pkgCC, "clientProcessRunner", "sendRequest")
	consume := p.Func(pkgCC, "clientProcessRunner", "consumeOutput")
	waitFor := p.Func(pkgCC, "clientProcessRunner", "waitForResponses")
	if sendRequest == nil || consume == nil || waitFor == nil || pendingOps == nil {
		r.Undecided("once", "R-GUARD", "sendRequest/consumeOutput/waitForResponses/pendingOps not found")
		return
	}
	r.Func(funcName(sendRequest))
	r.Func(funcName(consume))
	r.Func(funcName(waitFor))
	isWrite := isCallNamed(internalPath, "", "WriteDelimitedMessage")

	// ---- once: registration precedes the write ----
	writes := findInstrs(sendRequest, isWrite)
	isRegister := func(in ssa.Instruction) bool {
		mu, ok := in.(*ssa.MapUpdate)
		return ok && loadedField(mu.Map) == pendingOps
	}
	if len(writes) != 1 {
		r.Undecided("once.register-before-write", "R-ORDER", fmt.Sprintf("expected one WriteDelimitedMessage call in sendRequest, found %d", len(writes)))
	} else {
		r.Sites++
		r.Check(precededBy(writes[0], isRegister), "once.register-before-write", "R-ORDER", p.InstrPos(writes[0]),
			"pendingOps[name] = whenDone precedes the write on every path",
			"the request is written to the client before (or without) its callback being registered in pendingOps: a fast answer would be treated as unknown")
		// registration only when not closed: dominated by closedSend == false
		for _, reg := range findInstrs(sendRequest, isRegister) {
			r.Sites++
			ok := guardedBy(reg, func(a Atom) bool { m, v := boolTestOn(a, isLoadOfField(closedSend)); return m && !v })
			r.Check(ok, "drain.refuse-after-close", "R-GUARD", p.InstrPos(reg),
				"registration is on the closedSend==false edge", "a request can be registered/sent after closeSend (no closedSend check dominates the registration)")
		}
	}

	// ---- once.sendfail: after a failed write ----
	if len(writes) == 1 {
		var werr ssa.Value = writes[0].(ssa.Value)
		isWriteErr := func(a Atom) bool {
			m, isNil := nilTestOn(a, func(v ssa.Value) bool { return v == werr })
			return m && !isNil
		}
		existsAfter := func(v ssa.Value) bool { return commaOkOfLookupOn(v, pendingOps) }
		cnt := 0
		for _, ret := range returnsOf(sendRequest) {
			as := atomsAt(ret.Block())
			if !hasAtom(as, isWriteErr) {
				continue
			}
			cnt++
			r.Sites++
			vals := retVals(ret, 0)
			nonNil := false
			for _, v := range vals {
				if !isNilValue(v) {
					nonNil = true
				}
			}
			existsTrue := hasAtom(as, func(a Atom) bool { m, v := boolTestOn(a, existsAfter); return m && v })
			existsFalse := hasAtom(as, func(a Atom) bool { m, v := boolTestOn(a, existsAfter); return m && !v })
			switch {
			case nonNil && !existsTrue:
				r.Fail("once.sendfail.error-return", "R-GUARD", p.InstrPos(ret), "after a failed write sendRequest returns an error although the entry may already have been removed (and answered) by the reader: the request would be completed twice. The error return must be on the edge where the entry was still present in pendingOps")
			case !nonNil && !existsFalse:
				r.Fail("once.sendfail.nil-return", "R-GUARD", p.InstrPos(ret), "after a failed write sendRequest returns nil although the entry may still have been pending and was removed: the request would never be completed")
			default:
				r.OK(fmt.Sprintf("once.sendfail.return#%d", cnt), "R-GUARD", p.InstrPos(ret), "return value agrees with presence of the entry: "+atomsString(as))
			}
		}
		if cnt < 2 {
			r.Fail("once.sendfail.shape", "R-GUARD", p.InstrPos(writes[0]), fmt.Sprintf("expected an error return and a nil return on the write-failure path, found %d return(s)", cnt))
		}
		for _, d := range builtinCallsOn(sendRequest, "delete", pendingOps) {
			r.Sites++
			ok := guardedBy(d, func(a Atom) bool { m, v := boolTestOn(a, existsAfter); return m && v }) && guardedBy(d, isWriteErr)
			r.Check(ok, "once.sendfail.delete", "R-GUARD", p.InstrPos(d), "removal on write failure is on the still-present edge",
				"removal of the pending entry in sendRequest is not guarded by (write failed ∧ entry still present)")
		}
	}

	// ---- once.delete-call: every removal in the reader is paired with a call of the removed callback ----
	isPendingCall := func(in ssa.Instruction) bool {
		c, ok := in.(*ssa.Call)
		if !ok || c.Call.IsInvoke() {
			return false
		}
		return fromPendingOps(c.Call.Value, pendingOps)
	}
	nd := 0
	for _, fn := range withClosures(consume) {
		for _, d := range builtinCallsOn(fn, "delete", pendingOps) {
			nd++
			r.Sites++
			ok1, _ := mustPass(d, isPendingCall)
			ok := ok1 || precededBy(d, isPendingCall)
			r.Check(ok, fmt.Sprintf("once.delete-call@%s", funcName(fn)), "R-MUSTCALL", p.InstrPos(d),
				"removal is paired with an invocation of a callback taken from pendingOps",
				"an entry is removed from pendingOps in "+funcName(fn)+" on a path that never invokes the removed callback: that request is never completed")
		}
		// and each call of a pending callback is on the found edge / inside the drain range
		for _, c := range findInstrs(fn, isPendingCall) {
			r.Sites++
			call := c.(*ssa.Call)
			if ex, ok := call.Call.Value.(*ssa.Extract); ok {
				if _, isLookup := ex.Tuple.(*ssa.Lookup); isLookup {
					okEdge := guardedBy(c, func(a Atom) bool {
						m, v := boolTestOn(a, func(x ssa.Value) bool { return commaOkOfLookupOn(x, pendingOps) })
						return m && v
					})
					r.Check(okEdge && precededBy(c, func(in ssa.Instruction) bool {
						cc := callCommon(in)
						if cc == nil {
							return false
						}
						b, ok := cc.Value.(*ssa.Builtin)
						return ok && b.Name() == "delete" && loadedField(cc.Args[0]) == pendingOps
					}), "once.dispatch", "R-ORDER", p.InstrPos(c), "callback invoked on the found edge after its removal",
						"the reader invokes a pending callback without having found it / without removing it first (it could fire again from the drain)")
				}
			}
		}
	}
	r.Floor("pending-removals", nd, 2)

	// ---- drain ----
	var drain *ssa.Function
	var drainDefer ssa.Instruction
	var closeDoneDefer ssa.Instruction
	eachInstr(consume, func(in ssa.Instruction) {
		d, ok := in.(*ssa.Defer)
		if !ok {
			return
		}
		if mc, ok := d.Call.Value.(*ssa.MakeClosure); ok {
			if fn, ok := mc.Fn.(*ssa.Function); ok && len(builtinCallsOn(fn, "delete", pendingOps)) > 0 {
				drain, drainDefer = fn, in
			}
		}
		if b, ok := d.Call.Value.(*ssa.Builtin); ok && b.Name() == "close" && len(d.Call.Args) == 1 && loadedField(d.Call.Args[0]) == doneF {
			closeDoneDefer = in
		}
	})
	if drain == nil || closeDoneDefer == nil {
		r.Undecided("drain", "R-ORDER", "deferred drain closure / deferred close(done) not found in consumeOutput")
	} else {
		r.Sites += 4
		r.Check(precededBy(drainDefer, func(in ssa.Instruction) bool { return in == closeDoneDefer }), "drain.done-last", "R-ORDER", p.InstrPos(closeDoneDefer),
			"defer close(done) is registered before the drain closure, so it runs after it", "close(c.done) is not registered before the drain: waiters may be released before pending callbacks fired")
		isAbort := isCallNamed(ccPath, "processController", "abort")
		isCloseSend := isCallNamed(ccPath, "clientProcessRunner", "closeSend")
		aborts := findInstrs(drain, isAbort)
		if len(aborts) == 0 {
			r.Fail("drain.abort-before-closeSend", "R-ORDER", p.Pos(drain.Pos()), "the reader's cleanup never aborts the client process after a fatal read error")
		}
		for _, a := range aborts {
			ok, _ := mustPass(a, isCloseSend)
			nonEOF := guardedBy(a, func(at Atom) bool {
				m, v := boolTestOn(at, isCallResult(func(c *ssa.CallCommon) bool { return isCallToNamed(c, "errors", "", "Is") }))
				return m && !v
			})
			r.Check(ok && nonEOF, "drain.abort-before-closeSend", "R-ORDER", p.InstrPos(a),
				"abort (on the non-EOF edge) is followed by closeSend on every path",
				"the client process is not aborted before closeSend (closeSend needs sendMu, which a writer blocked on the client's stdin holds until the abort) or the abort is not restricted to non-EOF reasons")
		}
		for _, st := range findInstrs(drain, isStoreTrueTo(terminated)) {
			_ = st
		}
		okT, _ := func() (bool, ssa.Instruction) {
			for _, a := range aborts {
				if precededBy(a, isStoreTrueTo(terminated)) {
					return true, nil
				}
			}
			return false, nil
		}()
		r.Check(okT, "drain.terminated-on-error", "R-ORDER", p.Pos(drain.Pos()), "terminated is set before aborting", "a fatal read error does not mark the client as terminated before aborting it")
		var lockI ssa.Instruction
		eachInstr(drain, func(in ssa.Instruction) {
			if op, key := lockOp(callCommon(in)); op == "lock" && lockKind(key) == "clientProcessRunner.pendingMu" {
				if _, isDefer := in.(*ssa.Defer); !isDefer && lockI == nil {
					lockI = in
				}
			}
		})
		if lockI == nil {
			r.Undecided("drain.closeSend-before-drain", "R-ORDER", "pendingMu.Lock not found in drain closure")
		} else {
			r.Check(precededBy(lockI, isCloseSend), "drain.closeSend-before-drain", "R-ORDER", p.InstrPos(lockI),
				"closeSend precedes taking pendingMu in the cleanup", "the cleanup does not close the send side before draining (new requests could be registered after the drain and never complete)")
		}
	}
	// waitForResponses blocks on done before asking for the process result
	var recv ssa.Instruction
	eachInstr(waitFor, func(in ssa.Instruction) {
		if u, ok := in.(*ssa.UnOp); ok && u.Op == token.ARROW && loadedField(u.X) == doneF && recv == nil {
			recv = in
		}
	})
	r.Sites++
	if recv == nil {
		r.Fail("drain.wait-on-done", "R-ORDER", p.Pos(waitFor.Pos()), "waitForResponses does not block on done")
	} else {
		first := true
		eachInstr(waitFor, func(in ssa.Instruction) {
			if _, isGo := in.(*ssa.Go); isGo && !precededBy(in, func(x ssa.Instruction) bool { return x == recv }) {
				first = false
			}
		})
		r.Check(first, "drain.wait-on-done", "R-ORDER", p.InstrPos(recv), "<-done precedes everything else", "waitForResponses queries the process before done is closed")
	}
	// sendRequest refuses when an error was published: a return with a non-nil value before the lock
	{
		found := false
		for _, ret := range returnsOf(sendRequest) {
			if !precededBy(ret, func(in ssa.Instruction) bool { op, _ := lockOp(callCommon(in)); return op == "lock" }) {
				for _, v := range retVals(ret, 0) {
					if !isNilValue(v) {
						found = true
					}
				}
			}
		}
		r.Sites++
		r.Check(found, "drain.refuse-after-error", "R-GUARD", p.Pos(sendRequest.Pos()), "early non-nil return when an error is published", "sendRequest no longer refuses requests after a fatal client error")
	}

	// ---- eof: clean end vs truncated output (shared with C09) ----
	framingEOFRules(p, r)

	// ---- unknown: every exit of the reader records a reason ----
	var reason *ssa.Alloc
	eachInstr(consume, func(in ssa.Instruction) {
		if a, ok := in.(*ssa.Alloc); ok && types.Identical(a.Type().(*types.Pointer).Elem(), types.Universe.Lookup("error").Type()) && a.Heap {
			if reason == nil {
				reason = a
			}
		}
	})
	if reason == nil {
		r.Undecided("unknown.reason", "R-MUSTCALL", "reason variable of consumeOutput not found")
	} else {
		bad := 0
		rets := returnsOf(consume)
		for _, ret := range rets {
			r.Sites++
			for _, v := range reachingStores(reason, ret) {
				if isNilValue(v) {
					bad++
					r.Fail("unknown.reason", "R-MUSTCALL", p.InstrPos(ret), "the reader loop can end at this return without recording a reason (nil reason = clean end): an unknown/duplicate response or read error would be treated as a clean EOF and the client would not be aborted")
				}
			}
		}
		if bad == 0 {
			r.OK("unknown.reason", "R-MUSTCALL", p.Pos(consume.Pos()), fmt.Sprintf("all %d exit(s) of the reader store a non-nil reason first", len(rets)))
		}
	}
}

func hasSuffix(s, suf string) bool {
	return len(s) >= len(suf) && s[len(s)-len(suf):] == suf
}

// fromPendingOps: v is a function value obtained from the pendingOps map
// (comma-ok lookup or range value).
func fromPendingOps(v ssa.Value, pendingOps *types.Var) bool {
	switch x := v.(type) {
	case *ssa.Extract:
		switch t := x.Tuple.(type) {
		case *ssa.Lookup:
			return loadedField(t.X) == pendingOps
		case *ssa.Next:
			if rg, ok := t.Iter.(*ssa.Range); ok {
				return loadedField(rg.X) == pendingOps
			}
		}
	case *ssa.Lookup:
		return loadedField(x.X) == pendingOps
	}
	return false
}
