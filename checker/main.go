package main

import (
	"encoding/json"
	"flag"
	"fmt"
	"os"
	"runtime/debug"
	"sort"
	"strconv"
	"strings"
	"time"
)

type propMeta struct {
	ID         string
	Explain    string   // what the decided clauses are and are not
	NotDecided []string // clauses explicitly not claimed
	Assume     []string
	Trusted    []string
	Run        func(p *Prog, r *Report)
}

var registry = map[string]*propMeta{}

func register(m *propMeta) { registry[m.ID] = m }

var commonTrusted = []string{
	"go/packages + go/types (type-checked program of /repo's working tree, build tag verif)",
	"golang.org/x/tools v0.29.0 go/ssa (InstantiateGenerics) and callgraph/vta over cha",
	"the rule implementations in /verif/checker (self-validated by witness mutants in the thorough tier)",
}

func main() {
	prop := flag.String("prop", "", "property id (C01..C20)")
	tier := flag.String("tier", "quick", "quick | thorough | sub (internal: print obligations as JSON)")
	repo := flag.String("repo", "/repo", "repository root")
	verif := flag.String("verif", "/verif", "verification directory")
	goos := flag.String("goos", "", "GOOS for this load")
	goarch := flag.String("goarch", "", "GOARCH for this load")
	mutant := flag.String("mutant", "", "internal: apply witness mutant with this id through an overlay")
	replay := flag.String("replay", "", "re-decide only the obligation stored in this replay file")
	list := flag.Bool("list", false, "list registered properties")
	describe := flag.Bool("describe", false, "print the registered properties (decided clauses, assumptions, witness mutants) as JSON")
	flag.Parse()
	loadSeedMutants(*verif)

	if *describe {
		type mut struct {
			ID, File, Note string
			Expect         []string
		}
		type desc struct {
			ID, Explain                 string
			NotDecided, Assume, Trusted []string
			Mutants                     []mut
		}
		var out []desc
		for _, m := range registry {
			d := desc{ID: m.ID, Explain: m.Explain, NotDecided: m.NotDecided, Assume: m.Assume, Trusted: m.Trusted}
			for _, mu := range mutants {
				if mu.Prop == m.ID {
					d.Mutants = append(d.Mutants, mut{mu.ID, mu.File, mu.Note, mu.Expect})
				}
			}
			out = append(out, d)
		}
		sort.Slice(out, func(i, j int) bool { return out[i].ID < out[j].ID })
		enc := json.NewEncoder(os.Stdout)
		enc.SetIndent("", " ")
		_ = enc.Encode(out)
		return
	}

	if *list {
		ids := make([]string, 0, len(registry))
		for id := range registry {
			ids = append(ids, id)
		}
		sort.Strings(ids)
		fmt.Println(strings.Join(ids, " "))
		return
	}
	meta := registry[*prop]
	if meta == nil && experiments[*prop] != nil {
		// calibration run of a rule that is not (yet) attached to any property: prints its obligations, writes no evidence
		meta = &propMeta{ID: *prop, Run: experiments[*prop]}
		rep, _, err := analyse(meta, LoadConfig{Root: *repo})
		if err != nil {
			fmt.Fprintln(os.Stderr, err)
			os.Exit(2)
		}
		n := 0
		for _, o := range rep.Obls {
			if o.Status != "discharged" {
				n++
				fmt.Printf("%s %s %s\n    %s\n", o.Status, o.Key, o.Pos, o.Detail)
			} else if os.Getenv("VERIF_VERBOSE") != "" {
				fmt.Printf("ok %s %s\n    %s\n", o.Key, o.Pos, o.Detail)
			}
		}
		fmt.Printf("%s: %d obligations, %d not discharged\n", *prop, len(rep.Obls), n)
		return
	}
	if meta == nil {
		fmt.Fprintf(os.Stderr, "unknown property %q\n", *prop)
		os.Exit(2)
	}
	seed := int64(0)
	if s := os.Getenv("VERIF_SEED"); s != "" {
		if v, err := strconv.ParseInt(s, 10, 64); err == nil {
			seed = v
		}
	}
	if t := os.Getenv("VERIF_TIER"); t != "" && *tier != "sub" && (t == "quick" || t == "thorough") {
		*tier = t
	}
	start := time.Now()

	if *tier == "sub" {
		os.Exit(runSub(meta, *repo, *goos, *goarch, *mutant))
	}

	var onlyKey string
	if *replay != "" {
		b, err := os.ReadFile(*replay)
		if err == nil {
			var rp struct {
				Obligation Obligation `json:"obligation"`
			}
			if json.Unmarshal(b, &rp) == nil {
				onlyKey = rp.Obligation.Key
			}
		}
		if onlyKey == "" {
			fmt.Fprintf(os.Stderr, "cannot read replay file %s\n", *replay)
			os.Exit(2)
		}
	}

	rep, p, err := analyse(meta, LoadConfig{Root: *repo, GOOS: *goos, GOARCH: *goarch})
	ri := runInfo{Tier: *tier, Seed: seed, Cmd: strings.Join(os.Args, " ")}
	if err != nil {
		// load / type-check failure or checker panic: the check cannot claim
		// anything; this fails the check.
		rep = NewReport(meta.ID)
		rep.Fail("load", "load", "-", "UNDECIDED: "+err.Error())
	}
	if p != nil {
		ri.Packages = len(p.Pkgs)
		ri.Functions = p.nFuncs
		ri.RepoFuncs = len(p.RepoFuncs())
		if p.cg != nil {
			n := 0
			for _, nd := range p.cg.Nodes {
				n += len(nd.Out)
			}
			ri.CGEdges = n
		}
		cfg := p.GOOS + "/" + p.GOARCH
		if cfg == "/" {
			cfg = "default(host)"
		}
		ri.Configs = []string{cfg}
	}

	exit := 0
	if *tier == "thorough" && err == nil && onlyKey == "" {
		th, extraViol, brokenMsgs := runThorough(meta, rep, *repo, *verif)
		ri.Thorough = th
		for _, o := range extraViol {
			rep.add(o)
		}
		if cfgs, ok := th["build_configs"].([]string); ok {
			ri.Configs = cfgs
			delete(th, "build_configs")
		}
		for _, m := range brokenMsgs {
			fmt.Println("CHECKER-BROKEN: " + m)
			exit = 2
		}
	}

	known := loadKnownFindings(*verif)
	nviol := 0
	sort.Slice(rep.Obls, func(i, j int) bool { return rep.Obls[i].Key < rep.Obls[j].Key })
	for _, o := range rep.Obls {
		if o.Status == "discharged" {
			continue
		}
		if onlyKey != "" && o.Key != onlyKey {
			continue
		}
		isKnown := false
		for _, k := range known {
			if k.Prop == meta.ID && k.Key == o.Key {
				fmt.Printf("KNOWN-FINDING: property=%s %s\n", meta.ID, k.Text)
				isKnown = true
			}
		}
		if isKnown {
			continue
		}
		nviol++
		path := writeReplay(*verif, o, meta.ID)
		fmt.Printf("VIOLATION property=%s replay=%s\n", meta.ID, path)
		fmt.Printf("  obligation: %s\n  rule:       %s\n  at:         %s\n  diagnosis:  %s\n", o.Key, o.Rule, o.Pos, o.Detail)
	}
	if onlyKey != "" {
		found := false
		for _, o := range rep.Obls {
			if o.Key == onlyKey {
				found = true
				if o.Status == "discharged" {
					fmt.Printf("replay: obligation %s is discharged on the current tree (%s)\n", o.Key, o.Detail)
				}
			}
		}
		if !found {
			fmt.Printf("replay: obligation %s does not exist on the current tree\n", onlyKey)
		}
	}
	ri.WallS = time.Since(start).Seconds()
	if onlyKey == "" {
		if werr := rep.WriteEvidence(*verif, *meta, ri, nviol); werr != nil {
			fmt.Fprintf(os.Stderr, "cannot write evidence: %v\n", werr)
			os.Exit(2)
		}
	}
	total, discharged, _, _, _ := rep.counts()
	fmt.Printf("%s %s: %d obligations, %d discharged, %d violation(s), %d sites, %.1fs\n", meta.ID, *tier, total, discharged, nviol, rep.Sites, ri.WallS)
	if nviol > 0 {
		os.Exit(1)
	}
	os.Exit(exit)
}

// analyse loads one configuration and decides all obligations of a property.
// A panic inside a rule is turned into an error (fails the check).
func analyse(meta *propMeta, cfg LoadConfig) (rep *Report, p *Prog, err error) {
	defer func() {
		if x := recover(); x != nil {
			err = fmt.Errorf("checker panic: %v\n%s", x, debug.Stack())
		}
	}()
	p, err = Load(cfg)
	if err != nil {
		return nil, nil, err
	}
	rep = NewReport(meta.ID)
	meta.Run(p, rep)
	for _, extra := range round2Rules[meta.ID] {
		extra(p, rep)
	}
	for _, extra := range round3Rules[meta.ID] {
		extra(p, rep)
	}
	for _, extra := range round4Rules[meta.ID] {
		extra(p, rep)
	}
	for _, extra := range round5Rules[meta.ID] {
		extra(p, rep)
	}
	for _, extra := range round6Rules[meta.ID] {
		extra(p, rep)
	}
	for _, extra := range round7Rules[meta.ID] {
		extra(p, rep)
	}
	for _, extra := range round8Rules[meta.ID] {
		extra(p, rep)
	}
	for _, extra := range round9Rules[meta.ID] {
		extra(p, rep)
	}
	for _, extra := range round10Rules[meta.ID] {
		extra(p, rep)
	}
	if registry[meta.ID] != nil {
		anchoredGeneralRules(p, rep, meta.ID)
		crossPropertyRules(p, rep, meta.ID)
	}
	return rep, p, nil
}

// runSub is the worker mode used by the thorough tier: one configuration or
// one mutant per process, obligations printed as JSON.
func runSub(meta *propMeta, repo, goos, goarch, mutant string) int {
	cfg := LoadConfig{Root: repo, GOOS: goos, GOARCH: goarch}
	out := map[string]any{}
	if mutant != "" {
		ov, status := buildMutantOverlay(repo, mutant)
		out["mutant_status"] = status
		if ov == nil {
			b, _ := json.Marshal(out)
			fmt.Println(string(b))
			return 0
		}
		cfg.Overlay = ov
	}
	rep, _, err := analyse(meta, cfg)
	if err != nil {
		out["error"] = err.Error()
	} else {
		out["obligations"] = rep.Obls
		out["sites"] = rep.Sites
	}
	b, _ := json.Marshal(out)
	fmt.Println(string(b))
	return 0
}
