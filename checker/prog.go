package main

// Program loading: go/packages (LoadAllSyntax) + go/ssa + lazily a VTA call
// graph. Everything the rules look at is resolved through this file: a rule
// never matches source text or line numbers.

import (
	"fmt"
	"go/ast"
	"go/token"
	"go/types"
	"os"
	"path/filepath"
	"sort"
	"strings"

	"golang.org/x/tools/go/callgraph"
	"golang.org/x/tools/go/callgraph/cha"
	"golang.org/x/tools/go/callgraph/vta"
	"golang.org/x/tools/go/packages"
	"golang.org/x/tools/go/ssa"
	"golang.org/x/tools/go/ssa/ssautil"
)

const modPath = "connectrpc.com/conformance"

type Prog struct {
	Root    string
	Fset    *token.FileSet
	Pkgs    []*packages.Package          // repository packages (module modPath)
	ByPath  map[string]*packages.Package // all packages incl. deps
	SSA     *ssa.Program
	SSAPkg  map[string]*ssa.Package
	cg      *callgraph.Graph
	GOOS    string
	GOARCH  string
	nFuncs  int
	decls   map[*types.Func]*ast.FuncDecl
	declPkg map[*types.Func]*packages.Package
}

// LoadConfig describes one build configuration / overlay variant.
type LoadConfig struct {
	Root    string
	GOOS    string
	GOARCH  string
	Overlay map[string][]byte
}

func Load(cfg LoadConfig) (*Prog, error) {
	env := os.Environ()
	env = append(env, "GOFLAGS=-mod=mod", "GOPROXY=off", "GOSUMDB=off", "GOTOOLCHAIN=local", "GOWORK=off", "CGO_ENABLED=0")
	if cfg.GOOS != "" {
		env = append(env, "GOOS="+cfg.GOOS)
	}
	if cfg.GOARCH != "" {
		env = append(env, "GOARCH="+cfg.GOARCH)
	}
	pcfg := &packages.Config{
		Mode:       packages.LoadAllSyntax,
		Dir:        cfg.Root,
		Env:        env,
		Tests:      false,
		BuildFlags: []string{"-tags=verif"},
		Overlay:    cfg.Overlay,
	}
	initial, err := packages.Load(pcfg, "./...")
	if err != nil {
		return nil, fmt.Errorf("packages.Load: %w", err)
	}
	if len(initial) == 0 {
		return nil, fmt.Errorf("no packages loaded from %s", cfg.Root)
	}
	intBits = 64
	if cfg.GOARCH == "386" || cfg.GOARCH == "arm" {
		intBits = 32
	}
	p := &Prog{Root: cfg.Root, ByPath: map[string]*packages.Package{}, SSAPkg: map[string]*ssa.Package{},
		GOOS: cfg.GOOS, GOARCH: cfg.GOARCH,
		decls: map[*types.Func]*ast.FuncDecl{}, declPkg: map[*types.Func]*packages.Package{}}
	var errs []string
	packages.Visit(initial, nil, func(pkg *packages.Package) {
		p.ByPath[pkg.PkgPath] = pkg
		if strings.HasPrefix(pkg.PkgPath, modPath) {
			for _, e := range pkg.Errors {
				errs = append(errs, e.Error())
			}
		}
	})
	if len(errs) > 0 {
		sort.Strings(errs)
		if len(errs) > 8 {
			errs = errs[:8]
		}
		return nil, fmt.Errorf("type-check/load errors in repository packages:\n  %s", strings.Join(errs, "\n  "))
	}
	for _, pkg := range initial {
		if strings.HasPrefix(pkg.PkgPath, modPath) {
			p.Pkgs = append(p.Pkgs, pkg)
		}
	}
	sort.Slice(p.Pkgs, func(i, j int) bool { return p.Pkgs[i].PkgPath < p.Pkgs[j].PkgPath })
	if len(p.Pkgs) == 0 {
		return nil, fmt.Errorf("no repository packages (module %s) found under %s", modPath, cfg.Root)
	}
	p.Fset = initial[0].Fset
	prog, _ := ssautil.AllPackages(initial, ssa.InstantiateGenerics)
	prog.Build()
	p.SSA = prog
	for _, pkg := range p.Pkgs {
		if sp := prog.Package(pkg.Types); sp != nil {
			p.SSAPkg[pkg.PkgPath] = sp
		}
		for _, f := range pkg.Syntax {
			for _, d := range f.Decls {
				if fd, ok := d.(*ast.FuncDecl); ok {
					if obj, ok := pkg.TypesInfo.Defs[fd.Name].(*types.Func); ok {
						p.decls[obj] = fd
						p.declPkg[obj] = pkg
					}
				}
			}
		}
	}
	return p, nil
}

// Pkg returns the repository package with the given path relative to the
// module root ("" = root package is not used here).
func (p *Prog) Pkg(rel string) *packages.Package {
	return p.ByPath[modPath+"/"+rel]
}

func (p *Prog) SSAOf(rel string) *ssa.Package { return p.SSAPkg[modPath+"/"+rel] }

// Func resolves a package-level function or a method (recv != "") by its
// typed identity.
func (p *Prog) Func(rel, recv, name string) *ssa.Function {
	sp := p.SSAOf(rel)
	if sp == nil {
		return nil
	}
	if recv == "" {
		return sp.Func(name)
	}
	tn, ok := sp.Pkg.Scope().Lookup(recv).(*types.TypeName)
	if !ok {
		return nil
	}
	for _, t := range []types.Type{tn.Type(), types.NewPointer(tn.Type())} {
		ms := p.SSA.MethodSets.MethodSet(t)
		for i := 0; i < ms.Len(); i++ {
			sel := ms.At(i)
			if sel.Obj().Name() == name && sel.Obj().Pkg() == sp.Pkg {
				if fn := p.SSA.MethodValue(sel); fn != nil {
					// skip promoted wrappers: we want the declared method
					if fn.Synthetic == "" {
						return fn
					}
				}
			}
		}
	}
	return nil
}

// TypeFunc returns the types.Func for a function/method.
func (p *Prog) TypeFunc(rel, recv, name string) *types.Func {
	if fn := p.Func(rel, recv, name); fn != nil {
		if obj, ok := fn.Object().(*types.Func); ok {
			return obj
		}
	}
	return nil
}

// Decl returns the AST declaration and package of a source function.
func (p *Prog) Decl(fn *ssa.Function) (*ast.FuncDecl, *packages.Package) {
	if fn == nil {
		return nil, nil
	}
	o := fn
	for o.Parent() != nil {
		o = o.Parent()
	}
	if org := o.Origin(); org != nil {
		o = org
	}
	obj, ok := o.Object().(*types.Func)
	if !ok {
		return nil, nil
	}
	return p.decls[obj], p.declPkg[obj]
}

// Named looks up a named type of a repo package.
func (p *Prog) Named(rel, name string) *types.Named {
	pkg := p.Pkg(rel)
	if pkg == nil {
		return nil
	}
	tn, ok := pkg.Types.Scope().Lookup(name).(*types.TypeName)
	if !ok {
		return nil
	}
	n, _ := tn.Type().(*types.Named)
	return n
}

// Field resolves a struct field by typed identity.
func (p *Prog) Field(rel, typ, field string) *types.Var {
	n := p.Named(rel, typ)
	if n == nil {
		return nil
	}
	st, ok := n.Underlying().(*types.Struct)
	if !ok {
		return nil
	}
	for i := 0; i < st.NumFields(); i++ {
		if st.Field(i).Name() == field {
			return st.Field(i)
		}
	}
	return nil
}

// Const resolves a package-level constant.
func (p *Prog) Const(rel, name string) *types.Const {
	pkg := p.Pkg(rel)
	if pkg == nil {
		return nil
	}
	c, _ := pkg.Types.Scope().Lookup(name).(*types.Const)
	return c
}

// RepoFuncs returns all source-level functions (incl. methods and closures,
// one entry per generic instantiation) of the repository's non-generated
// packages.
func (p *Prog) RepoFuncs() []*ssa.Function {
	var out []*ssa.Function
	for fn := range ssautil.AllFunctions(p.SSA) {
		if p.IsRepoFunc(fn) {
			out = append(out, fn)
		}
	}
	sort.Slice(out, func(i, j int) bool {
		return p.posLess(out[i].Pos(), out[j].Pos()) || (out[i].Pos() == out[j].Pos() && out[i].String() < out[j].String())
	})
	return out
}

func (p *Prog) IsRepoFunc(fn *ssa.Function) bool {
	if fn == nil || fn.Blocks == nil {
		return false
	}
	pk := fn.Pkg
	if pk == nil {
		if o := fn.Origin(); o != nil {
			pk = o.Pkg
		}
	}
	for q := fn; pk == nil && q.Parent() != nil; {
		q = q.Parent()
		pk = q.Pkg
		if pk == nil && q.Origin() != nil {
			pk = q.Origin().Pkg
		}
	}
	if pk == nil {
		return false
	}
	path := pk.Pkg.Path()
	if !strings.HasPrefix(path, modPath) || strings.Contains(path, "/internal/gen/") {
		return false
	}
	if fn.Synthetic != "" && !strings.HasPrefix(fn.Synthetic, "instance of") {
		return false
	}
	return true
}

func (p *Prog) CallGraph() *callgraph.Graph {
	if p.cg == nil {
		all := ssautil.AllFunctions(p.SSA)
		p.nFuncs = len(all)
		p.cg = vta.CallGraph(all, cha.CallGraph(p.SSA))
	}
	return p.cg
}

// Pos renders a position relative to the repository root.
func (p *Prog) Pos(pos token.Pos) string {
	if !pos.IsValid() {
		return "?"
	}
	ps := p.Fset.Position(pos)
	rel, err := filepath.Rel(p.Root, ps.Filename)
	if err != nil {
		rel = ps.Filename
	}
	return fmt.Sprintf("%s:%d:%d", rel, ps.Line, ps.Column)
}

func (p *Prog) posLess(a, b token.Pos) bool {
	pa, pb := p.Fset.Position(a), p.Fset.Position(b)
	if pa.Filename != pb.Filename {
		return pa.Filename < pb.Filename
	}
	if pa.Line != pb.Line {
		return pa.Line < pb.Line
	}
	return pa.Column < pb.Column
}

// InstrPos finds the best position for an instruction (falls back to
// operands, then to the function).
func (p *Prog) InstrPos(in ssa.Instruction) string {
	if in == nil {
		return "?"
	}
	if in.Pos().IsValid() {
		return p.Pos(in.Pos())
	}
	for _, op := range in.Operands(nil) {
		if *op != nil && (*op).Pos().IsValid() {
			return p.Pos((*op).Pos())
		}
	}
	if in.Parent() != nil {
		return p.Pos(in.Parent().Pos()) + " (in " + in.Parent().Name() + ")"
	}
	return "?"
}

func funcName(fn *ssa.Function) string {
	if fn == nil {
		return "<nil>"
	}
	s := fn.RelString(nil)
	s = strings.ReplaceAll(s, modPath+"/", "")
	return s
}
