package main

// A-PANIC: enumeration of potential panic sites in all repository functions
// reachable from given entries (VTA call graph, closures of reachable
// functions included), and discharge of each by a guard rule. No values are
// computed: bounds are proved from dominating branch facts (A-DOM atoms),
// constants and a handful of structural rules, all over SSA values.

import (
	"fmt"
	"go/token"
	"go/types"
	"hash/fnv"
	"sort"
	"strings"

	"golang.org/x/tools/go/ssa"
)

type panicSpec struct {
	Key     string
	Entries []*ssa.Function
	Floor   int
	StayIn  []string          // only sites in these packages are audited (all reachable functions are traversed)
	Table   map[string]string // site key -> reason (confirmed by reading): one site, one reason
	// Invariants: field-length invariants len(F) <= K, each proved by
	// induction over all stores to F and then usable as a fact.
	Invariants []lenInv
	// Only: when set, only these functions are audited (no call-graph traversal).
	Only []*ssa.Function
	// TableFn: additional table rows matched by function origin (all instantiations of a generic function) and site description.
	TableFn func(fn *ssa.Function, desc string) (string, bool)
}

// reachableRepo returns the repository functions reachable from the entries.
func (p *Prog) reachableRepo(entries []*ssa.Function) []*ssa.Function {
	cg := p.CallGraph()
	seen := map[*ssa.Function]bool{}
	var work []*ssa.Function
	push := func(f *ssa.Function) {
		if f != nil && !seen[f] {
			seen[f] = true
			work = append(work, f)
		}
	}
	for _, e := range entries {
		push(e)
	}
	for len(work) > 0 {
		f := work[len(work)-1]
		work = work[:len(work)-1]
		for _, a := range f.AnonFuncs {
			push(a)
		}
		if n := cg.Nodes[f]; n != nil {
			for _, e := range n.Out {
				push(e.Callee.Func)
			}
		}
	}
	var out []*ssa.Function
	for f := range seen {
		if p.IsRepoFunc(f) {
			out = append(out, f)
		}
	}
	sort.Slice(out, func(i, j int) bool { return funcName(out[i]) < funcName(out[j]) })
	return out
}

func pkgOfFunc(fn *ssa.Function) string {
	top := fn
	for top.Parent() != nil {
		top = top.Parent()
	}
	if top.Pkg != nil {
		return top.Pkg.Pkg.Path()
	}
	if o := top.Origin(); o != nil && o.Pkg != nil {
		return o.Pkg.Pkg.Path()
	}
	return ""
}

func rulePanic(p *Prog, r *Report, sp panicSpec) {
	for _, e := range sp.Entries {
		if e == nil {
			r.Undecided(sp.Key+".entries", "R-PANIC", "an entry function of the panic audit was not found")
			return
		}
	}
	var fns []*ssa.Function
	if sp.Only != nil {
		fns = sp.Only
	} else {
		fns = p.reachableRepo(sp.Entries)
	}
	lp := newLinProver(p, sp.Invariants)
	for _, inv := range sp.Invariants {
		ok, at, n := lp.proveInvariant(inv)
		r.Sites += n
		if inv.Field == nil {
			r.Undecided(sp.Key+".inv."+inv.Name, "R-INV", "field of invariant not found")
			continue
		}
		r.Check(ok && n > 0, sp.Key+".inv."+inv.Name, "R-INV", p.InstrPos(at), fmt.Sprintf("every one of the %d store(s) to %s keeps len <= %d (induction over all writers)", n, inv.Field.Name(), inv.K),
			fmt.Sprintf("a store to %s can make it longer than %d: the arithmetic `%d - len(%s)` used for slicing would go negative", inv.Field.Name(), inv.K, inv.K, inv.Field.Name()))
	}
	sites, bad := 0, 0
	usedRows := map[string]bool{}
	byGuard := map[string]int{}
	nfn := 0
	for _, fn := range fns {
		if len(sp.StayIn) > 0 {
			in := false
			for _, s := range sp.StayIn {
				if pkgOfFunc(fn) == s {
					in = true
				}
			}
			if !in {
				continue
			}
		}
		if sp.Only != nil && r.PanicAudited[fn] {
			continue // already audited by the property's own panic rule
		}
		r.PanicAudited[fn] = true
		nfn++
		r.Func(funcName(fn))
		pv := &prover{p: p, fn: fn, lp: lp, factCache: map[*ssa.BasicBlock][]Atom{}}
		eachInstr(fn, func(in ssa.Instruction) {
			kind, desc, ok, how := pv.site(in)
			if kind == "" {
				return
			}
			sites++
			r.Sites++
			if len(desc) > 96 {
				h := fnv.New32a()
				_, _ = h.Write([]byte(desc))
				desc = fmt.Sprintf("%s…~%08x", desc[:80], h.Sum32())
			}
			key := fmt.Sprintf("%s.%s#%s", sp.Key, shortFn(fn), desc)
			if ok {
				byGuard[how]++
				if how == "G1" {
					r.Trivial(key, "R-PANIC", p.InstrPos(in), how)
				} else {
					r.OK(key, "R-PANIC", p.InstrPos(in), how)
				}
				return
			}
			row := shortFn(fn) + "#" + desc
			if why, listed := sp.Table[row]; listed {
				usedRows[row] = true
				r.OK(key, "R-PANIC", p.InstrPos(in), "table: "+why)
				return
			}
			if sp.TableFn != nil {
				if why, listed := sp.TableFn(fn, desc); listed {
					r.OK(key, "R-PANIC", p.InstrPos(in), "table: "+why)
					return
				}
			}
			bad++
			r.Fail(key, "R-PANIC", p.InstrPos(in), fmt.Sprintf("unproven potential panic (%s) in %s, reachable from %s; facts here: %s", kind, funcName(fn), entryNames(sp.Entries), atomsString(pv.facts(in.Block()))))
		})
	}
	for row := range sp.Table {
		if !usedRows[row] {
			r.Fail(sp.Key+".stale-row."+row, "R-PANIC", "-", "site-table row no longer matches any undischarged site (stale row)")
		}
	}
	r.Extra[sp.Key+"_functions"] = nfn
	r.Extra[sp.Key+"_sites"] = sites
	r.Extra[sp.Key+"_discharged_by_guard"] = byGuard
	r.Floor(sp.Key+"-sites", sites, sp.Floor)
}

func entryNames(es []*ssa.Function) string {
	s := make([]string, 0, len(es))
	for _, e := range es {
		s = append(s, shortFn(e))
	}
	if len(s) > 4 {
		s = append(s[:4], "…")
	}
	return strings.Join(s, ", ")
}

func shortFn(fn *ssa.Function) string {
	s := funcName(fn)
	s = strings.ReplaceAll(s, "internal/app/", "")
	s = strings.ReplaceAll(s, "internal/", "")
	return s
}

type prover struct {
	p         *Prog
	fn        *ssa.Function
	lp        *linProver
	factCache map[*ssa.BasicBlock][]Atom
}

func (pv *prover) facts(b *ssa.BasicBlock) []Atom {
	if f, ok := pv.factCache[b]; ok {
		return f
	}
	f := atomsAt(b)
	pv.factCache[b] = f
	return f
}

// site classifies an instruction as a potential panic site and tries to
// discharge it. Returns kind=="" if it is not a site.
func (pv *prover) site(in ssa.Instruction) (kind, desc string, ok bool, how string) {
	b := in.Block()
	switch x := in.(type) {
	case *ssa.IndexAddr:
		desc = "index:" + path(x.X) + "[" + path(x.Index) + "]"
		ok, how = pv.indexOK(x.X, x.Index, b)
		return "index out of range", desc, ok, how
	case *ssa.Index:
		if _, isMap := x.X.Type().Underlying().(*types.Map); isMap {
			return "", "", false, ""
		}
		desc = "index:" + path(x.X) + "[" + path(x.Index) + "]"
		ok, how = pv.indexOK(x.X, x.Index, b)
		return "index out of range", desc, ok, how
	case *ssa.Slice:
		lo, hi := "", ""
		if x.Low != nil {
			lo = path(x.Low)
		}
		if x.High != nil {
			hi = path(x.High)
		}
		desc = "slice:" + path(x.X) + "[" + lo + ":" + hi + "]"
		ok, how = pv.sliceOK(x, b)
		return "slice bounds out of range", desc, ok, how
	case *ssa.MakeSlice:
		if _, isC := constInt(x.Len); isC {
			if _, isC2 := constInt(x.Cap); isC2 {
				return "", "", false, ""
			}
		}
		desc = "make:" + path(x.Len)
		if pv.lp.ge0(x.Len, b) && (x.Cap == x.Len || (pv.lp.ge0(x.Cap, b) && pv.lp.le(x.Len, x.Cap, b))) {
			return "make with negative length", desc, true, "G6"
		}
		return "make with negative length", desc, false, ""
	case *ssa.TypeAssert:
		if x.CommaOk {
			return "", "", false, ""
		}
		desc = "assert:" + path(x.X) + ".(" + types.TypeString(x.AssertedType, shortQual) + ")"
		// asserting to an interface the static type already implements cannot fail except on nil
		if types.IsInterface(x.AssertedType) && types.Implements(x.X.Type(), x.AssertedType.Underlying().(*types.Interface)) {
			return "type assertion", desc, true, "G7"
		}
		if pv.typeSwitchGuard(x) {
			return "type assertion", desc, true, "G7"
		}
		// library contract: proto.Clone(m) returns a message of m's concrete type
		if c, isCall := canon(x.X).(*ssa.Call); isCall && c.Call.StaticCallee() != nil && c.Call.StaticCallee().Name() == "Clone" &&
			c.Call.StaticCallee().Pkg != nil && c.Call.StaticCallee().Pkg.Pkg.Path() == "google.golang.org/protobuf/proto" && len(c.Call.Args) == 1 {
			if arg := canon(c.Call.Args[0]); !types.IsInterface(arg.Type()) && types.Identical(arg.Type(), x.AssertedType) {
				return "type assertion", desc, true, "G9 proto.Clone returns its argument's concrete type"
			}
		}
		return "type assertion", desc, false, ""
	case *ssa.BinOp:
		if x.Op != token.QUO && x.Op != token.REM {
			return "", "", false, ""
		}
		if bt, isB := x.X.Type().Underlying().(*types.Basic); !isB || bt.Info()&types.IsInteger == 0 {
			return "", "", false, ""
		}
		if c, isC := constInt(x.Y); isC && c != 0 {
			return "", "", false, ""
		}
		desc = "div:" + path(x.Y)
		if pv.lp.prove(linConst(1).add(pv.lp.linOf(x.Y, 0), -1), b) {
			return "integer division by zero", desc, true, "G3"
		}
		return "integer division by zero", desc, false, ""
	case *ssa.Panic:
		desc = "panic:" + path(x.X)
		if x.Pos() == token.NoPos || !x.Pos().IsValid() {
			if s, isS := constString(x.X); isS && s == "blocking select matched no case" {
				return "", "", false, "" // compiler-generated arm of a blocking select, unreachable
			}
		}
		// a re-panic of a recovered value is propagation, not a new crash
		if c, isCall := canon(x.X).(*ssa.Call); isCall {
			if bi, isB := c.Call.Value.(*ssa.Builtin); isB && bi.Name() == "recover" {
				return "explicit panic", desc, true, "propagates a recovered panic"
			}
		}
		return "explicit panic", desc, false, ""
	}
	return "", "", false, ""
}

// typeSwitchGuard: `switch v := x.(type) { case T: ... }` compiles to a
// comma-ok assert; a bare assert after a successful comma-ok assert of the
// same value to the same type is safe.
func (pv *prover) typeSwitchGuard(x *ssa.TypeAssert) bool {
	for _, a := range pv.facts(x.Block()) {
		if a.Op != token.ILLEGAL || a.Neg {
			continue
		}
		ex, ok := a.X.(*ssa.Extract)
		if !ok || ex.Index != 1 {
			continue
		}
		ta, ok := ex.Tuple.(*ssa.TypeAssert)
		if ok && ta.CommaOk && sameVal(ta.X, x.X) && types.Identical(ta.AssertedType, x.AssertedType) {
			return true
		}
	}
	return false
}

func lenOfType(t types.Type) (int64, bool) {
	switch u := t.Underlying().(type) {
	case *types.Array:
		return u.Len(), true
	case *types.Pointer:
		if a, ok := u.Elem().Underlying().(*types.Array); ok {
			return a.Len(), true
		}
	}
	return 0, false
}

// indexOK: 0 <= idx < len(x)
func (pv *prover) indexOK(x, idx ssa.Value, b *ssa.BasicBlock) (bool, string) {
	if n, isArr := lenOfType(x.Type()); isArr {
		if c, isC := constInt(idx); isC {
			if c >= 0 && c < n {
				return true, "G1"
			}
			return false, ""
		}
		if pv.lp.ge0(idx, b) && pv.lp.leConst(idx, n-1, b) {
			return true, "G3"
		}
		return false, ""
	}
	if sortLessIndex(pv.fn, x, idx) {
		return true, "G8 sort.Slice less-function indices are in range of the sorted slice"
	}
	if !pv.lp.ge0(idx, b) {
		return false, ""
	}
	if pv.lp.ltLen(idx, x, b) {
		return true, "G3"
	}
	return false, ""
}

// sortLessIndex: fn is the less-function literal of sort.Slice/SliceStable(s, less),
// idx is one of its two parameters and x is the very slice being sorted.
func sortLessIndex(fn *ssa.Function, x, idx ssa.Value) bool {
	parent := fn.Parent()
	prm, isP := idx.(*ssa.Parameter)
	if parent == nil || !isP || prm.Parent() != fn || len(fn.Params) != 2 {
		return false
	}
	ok := false
	eachInstr(parent, func(in ssa.Instruction) {
		c := callCommon(in)
		if c == nil || len(c.Args) != 2 {
			return
		}
		if !isCallToNamed(c, "sort", "", "Slice") && !isCallToNamed(c, "sort", "", "SliceStable") {
			return
		}
		mc, isMC := c.Args[1].(*ssa.MakeClosure)
		if !isMC || mc.Fn != ssa.Value(fn) {
			return
		}
		// same variable: the sorted slice and the indexed one render to the same access path
		sorted := c.Args[0]
		if mi, isMI := sorted.(*ssa.MakeInterface); isMI {
			sorted = mi.X
		}
		if path(sorted) == path(x) {
			ok = true
		}
	})
	return ok
}

// sliceOK: 0 <= lo <= hi <= len(x)   (len, not cap: stronger than needed)
func (pv *prover) sliceOK(s *ssa.Slice, b *ssa.BasicBlock) (bool, string) {
	x := s.X
	if n, isArr := lenOfType(x.Type()); isArr {
		lo, hi := int64(0), n
		if s.Low != nil {
			c, ok := constInt(s.Low)
			if !ok {
				return false, ""
			}
			lo = c
		}
		if s.High != nil {
			c, ok := constInt(s.High)
			if !ok {
				return false, ""
			}
			hi = c
		}
		return 0 <= lo && lo <= hi && hi <= n, "G1"
	}
	if s.Low != nil && !pv.lp.ge0(s.Low, b) {
		return false, ""
	}
	switch {
	case s.High == nil && s.Low == nil:
		return true, "G4"
	case s.High == nil:
		if pv.lp.leLen(s.Low, x, b) {
			return true, "G4"
		}
		return false, ""
	default:
		if c, ok := constInt(s.High); ok && c == 0 {
			return true, "G4"
		}
		if !pv.lp.ge0(s.High, b) || !pv.lp.leLen(s.High, x, b) {
			return false, ""
		}
		if s.Low != nil && !pv.lp.le(s.Low, s.High, b) {
			return false, ""
		}
		return true, "G4"
	}
}

// ---- symbolic comparisons over SSA values ----

// sameVal: structural equality of access expressions; leaves by identity.
func sameVal(a, b ssa.Value) bool { return sameValD(a, b, 0) }

func sameValD(a, b ssa.Value, d int) bool {
	if la, ok := a.(lenAtom); ok {
		lb, ok2 := b.(lenAtom)
		return ok2 && sameValD(la.Value, lb.Value, d+1)
	}
	if _, ok := b.(lenAtom); ok {
		return false
	}
	a, b = canon(a), canon(b)
	if a == b {
		return true
	}
	if d > 8 || a == nil || b == nil {
		return false
	}
	// x.GetF() and x.F denote the same value wherever x.F is evaluated at all
	// (the generated getter only differs for a nil receiver, for which the field
	// access would already have failed)
	if getterVsField(a, b, d) || getterVsField(b, a, d) {
		return true
	}
	switch x := a.(type) {
	case *ssa.Const:
		y, ok := b.(*ssa.Const)
		if !ok {
			return false
		}
		if x.Value == nil || y.Value == nil {
			return x.Value == nil && y.Value == nil && types.Identical(x.Type(), y.Type())
		}
		return x.Value.ExactString() == y.Value.ExactString() && x.Value.Kind() == y.Value.Kind()
	case *ssa.UnOp:
		y, ok := b.(*ssa.UnOp)
		return ok && x.Op == y.Op && x.Op != token.ARROW && sameValD(x.X, y.X, d+1)
	case *ssa.FieldAddr:
		y, ok := b.(*ssa.FieldAddr)
		return ok && x.Field == y.Field && sameValD(x.X, y.X, d+1)
	case *ssa.Field:
		y, ok := b.(*ssa.Field)
		return ok && x.Field == y.Field && sameValD(x.X, y.X, d+1)
	case *ssa.IndexAddr:
		y, ok := b.(*ssa.IndexAddr)
		return ok && sameValD(x.X, y.X, d+1) && sameValD(x.Index, y.Index, d+1)
	case *ssa.Index:
		y, ok := b.(*ssa.Index)
		return ok && sameValD(x.X, y.X, d+1) && sameValD(x.Index, y.Index, d+1)
	case *ssa.BinOp:
		y, ok := b.(*ssa.BinOp)
		return ok && x.Op == y.Op && sameValD(x.X, y.X, d+1) && sameValD(x.Y, y.Y, d+1)
	case *ssa.Call:
		y, ok := b.(*ssa.Call)
		if !ok {
			return false
		}
		bx, okx := x.Call.Value.(*ssa.Builtin)
		by, oky := y.Call.Value.(*ssa.Builtin)
		if okx && oky && bx.Name() == by.Name() && (bx.Name() == "len" || bx.Name() == "cap") {
			return sameValD(x.Call.Args[0], y.Call.Args[0], d+1)
		}
		// generated getters are pure
		fx, fy := x.Call.StaticCallee(), y.Call.StaticCallee()
		if fx != nil && fx == fy && strings.HasPrefix(fx.Name(), "Get") && getterField(fx) != nil && len(x.Call.Args) == 1 {
			return sameValD(x.Call.Args[0], y.Call.Args[0], d+1)
		}
		return false
	}
	return false
}

func isLenOf(v ssa.Value, x ssa.Value) bool {
	c, ok := canon(v).(*ssa.Call)
	if !ok {
		return false
	}
	b, ok := c.Call.Value.(*ssa.Builtin)
	return ok && b.Name() == "len" && sameVal(c.Call.Args[0], x)
}

func lenArg(v ssa.Value) (ssa.Value, bool) {
	c, ok := canon(v).(*ssa.Call)
	if !ok {
		return nil, false
	}
	b, ok := c.Call.Value.(*ssa.Builtin)
	if ok && b.Name() == "len" {
		return c.Call.Args[0], true
	}
	return nil, false
}

func isIndexCall(v ssa.Value) bool {
	c, ok := canon(v).(*ssa.Call)
	if !ok {
		return false
	}
	f := c.Call.StaticCallee()
	if f == nil || f.Pkg == nil {
		return false
	}
	pk := f.Pkg.Pkg.Path()
	return (pk == "strings" || pk == "bytes") && strings.Contains(f.Name(), "Index")
}

// isIOCount: the int result #0 of an io Read/Write-shaped call (G8).
func isIOCount(x *ssa.Extract) bool {
	c, ok := x.Tuple.(*ssa.Call)
	if !ok || x.Index != 0 {
		return false
	}
	name := ""
	if c.Call.IsInvoke() {
		name = c.Call.Method.Name()
	} else if f := c.Call.StaticCallee(); f != nil {
		name = f.Name()
	}
	return name == "Read" || name == "Write" || name == "ReadFull" || name == "ReadAtLeast"
}

func getterVsField(g, f ssa.Value, d int) bool {
	c, ok := g.(*ssa.Call)
	if !ok || len(c.Call.Args) != 1 || c.Call.StaticCallee() == nil {
		return false
	}
	gf := getterField(c.Call.StaticCallee())
	if gf == nil {
		return false
	}
	u, ok := f.(*ssa.UnOp)
	if !ok || u.Op != token.MUL {
		return false
	}
	fa, ok := u.X.(*ssa.FieldAddr)
	if !ok || fieldVar(fa.X.Type(), fa.Field) != gf {
		return false
	}
	return sameValD(c.Call.Args[0], fa.X, d+1)
}
