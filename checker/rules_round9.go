package main

// Rules added after the ninth round of independent seeded changes.

import (
	"fmt"
	"go/token"
	"go/types"
	"strings"

	"golang.org/x/tools/go/ssa"
)

var round9Rules = map[string][]func(*Prog, *Report){
	"C02": {rawIffHeadersRule},
	"C03": {perValueCanonRule},
	"C07": {indexedBeforeSkipRule},
	"C08": {presentGuardsRule},
	"C09": {writeAlwaysRule, peersUseCodecRule},
	"C10": {sendErrorMeansNoCallbackRule},
	"C13": {wireTraceOnceRule},
	"C14": {clientBodyAlwaysWrappedRule, noRequestBodyCloseRule},
	"C15": {prefixBoundaryStrictRule},
	"C17": {dateOnlyWhenAbsentRule},
	"C20": {brotliFreshReaderRule},
}

var round9Explain = map[string]string{
	"C02": "(unary-contract.raw-iff-headers) in both gRPC arms of the reference server's unary error path the raw response is built exactly when response HEADERS are prescribed",
	"C03": "(leniency.per-value) canonicalizeHeaderVals canonicalises each reported value on its own (no join of the values first)",
	"C07": "(suite-names.indexed-before-skip) a suite's name is recorded for the duplicate check whether or not its mode is skipped",
	"C08": "(match.present-guards) every increment of a pattern's match counter, and every `unmatched` report, is under that node's `present` flag",
	"C09": "(write.always) WriteDelimitedMessage writes prefix and message for every message that marshals, the empty one included; (peers-use-codec) only the runner uses the raw delimited reader/writer — the peers answer through the codec the -json flag selected",
	"C10": "(send.error-means-no-callback) sendRequest returns nil, not the write error, when the pending entry was already consumed (the callback has run)",
	"C13": "(wire-trace.once) setWireTrace tolerates a second completion for the same context (defect D21)",
	"C14": "(client.body-always-wrapped) every response TracingRoundTripper hands back has its body wrapped by the tracing reader; (server.no-body-close) the tracing handler never closes the request body itself",
	"C15": "(prefix.boundary-strict) the envelope prefix counts as incomplete only while FEWER bytes than needed are available",
	"C17": "(finish.date-only-when-absent) the automatic Date header is suppressed only when the raw response does not prescribe one (defect D23)",
	"C20": "(reuse-typestate.brotli.fresh-reader) brotli.Reader.Reset is not used: it keeps unread input of the previous stream (defect D20)",
}

func init() {
	for id, extra := range round9Explain {
		m := registry[id]
		if m == nil {
			continue
		}
		if i := strings.Index(m.Explain, " It does NOT decide"); i >= 0 {
			m.Explain = strings.TrimRight(m.Explain[:i], ". ;") + "; " + extra + "." + m.Explain[i:]
		} else {
			m.Explain = strings.TrimRight(m.Explain, ". ") + "; " + extra + "."
		}
	}
	addMutants(
		Mutant{ID: "C20-D20-brotli-reset", Prop: "C20", File: "internal/compression/brotli.go",
			Old:    "\tc.reader = brotli.NewReader(rdr)\n\treturn nil\n",
			New:    "\treturn c.reader.Reset(rdr)\n",
			Expect: []string{"reuse-typestate.brotli.fresh-reader"}, Note: "original defect D20: brotli.Reader.Reset keeps the previous stream's unread input"},
		Mutant{ID: "C13-D21-close-twice", Prop: "C13", File: "internal/app/referenceclient/wire_details.go",
			Old:    "\twrapper.setOnce.Do(func() {\n\t\twrapper.trace = trace\n\t\tclose(wrapper.traceAvailable)\n\t})\n",
			New:    "\twrapper.trace = trace\n\tclose(wrapper.traceAvailable)\n",
			Expect: []string{"wire-trace.once"}, Note: "original defect D21: a second completion for the same context closes a closed channel"},
		Mutant{ID: "C17-D23-date-erased", Prop: "C17", File: "internal/app/referenceserver/raw_response.go",
			Old:    "\tif _, ok := r.respWriter.Header()[\"Date\"]; !ok {\n\t\tr.respWriter.Header()[\"Date\"] = nil // suppress automatic date header\n\t}\n",
			New:    "\tr.respWriter.Header()[\"Date\"] = nil // suppress automatic date header\n",
			Expect: []string{"finish.date-only-when-absent"}, Note: "original defect D23: a prescribed Date header is erased"},
	)
}

func getterOf(v ssa.Value, name string) bool {
	c, ok := canon(v).(*ssa.Call)
	return ok && c.Call.StaticCallee() != nil && c.Call.StaticCallee().Name() == name
}

// ---------- C02 ----------

func rawIffHeadersRule(p *Prog, r *Report) {
	fn := p.Func(pkgRS, "", "parseUnaryResponseDefinition")
	if fn == nil {
		r.Undecided("unary-contract.raw-iff-headers", "R-GUARD", "parseUnaryResponseDefinition not found")
		return
	}
	r.Func(funcName(fn))
	n := 0
	bad := ""
	pos := p.Pos(fn.Pos())
	eachInstr(fn, func(in ssa.Instruction) {
		c := callCommon(in)
		if c == nil || c.StaticCallee() == nil || !strings.HasPrefix(c.StaticCallee().Name(), "makeRawGRPC") {
			return
		}
		n++
		r.Sites++
		ok := guardedBy(in, func(a Atom) bool {
			x, isLen := lenArg(a.X)
			k, isK := constInt(a.Y)
			if !isLen || !isK || k != 0 || !getterOf(x, "GetResponseHeaders") {
				return false
			}
			return a.Op == token.NEQ || a.Op == token.GTR
		})
		if !ok {
			bad += " " + c.StaticCallee().Name() + " at " + p.InstrPos(in) + " is under [" + atomsString(atomsAt(in.Block())) + "];"
			pos = p.InstrPos(in)
		}
	})
	r.Check(n >= 2 && bad == "", "unary-contract.raw-iff-headers", "R-GUARD", pos, "both raw gRPC responses are built on the len(ResponseHeaders) != 0 edge",
		"the reference server does not build its raw gRPC / gRPC-Web error response exactly when response headers are prescribed:"+bad+" with headers but no trailers the cheap path is taken and the prescribed headers are never sent (the two protocol arms must test the same thing)")
}

// ---------- C03 ----------

func perValueCanonRule(p *Prog, r *Report) {
	fn := p.Func(pkgCC, "", "canonicalizeHeaderVals")
	if fn == nil {
		r.Undecided("leniency.per-value", "R-WIRE", "canonicalizeHeaderVals not found")
		return
	}
	r.Func(funcName(fn))
	r.Sites++
	bad := ""
	splits := 0
	eachInstr(fn, func(in ssa.Instruction) {
		c := callCommon(in)
		if c == nil {
			return
		}
		if isCallToNamed(c, "strings", "", "Join") {
			bad += " strings.Join at " + p.InstrPos(in) + ";"
		}
		if isCallToNamed(c, "strings", "", "Split") {
			splits++
			// the split value is one element of the parameter
			isElem := false
			for v := range operandClosure(c.Args[0]) {
				if ia, ok := v.(*ssa.IndexAddr); ok && canon(ia.X) == ssa.Value(fn.Params[0]) {
					isElem = true
				}
			}
			if !isElem {
				bad += " the value split at " + p.InstrPos(in) + " is not one element of the reported values;"
			}
		}
	})
	r.Check(splits == 1 && bad == "", "leniency.per-value", "R-WIRE", p.Pos(fn.Pos()), "each reported value is split and trimmed on its own",
		"canonicalizeHeaderVals does not treat each reported value separately:"+bad+" the single space that may be trimmed next to a comma is then also trimmed at the edge between two separately reported values, so a value altered by one leading or trailing space is accepted")
}

// ---------- C07 ----------

func indexedBeforeSkipRule(p *Prog, r *Report) {
	fn := p.Func(pkgCC, "", "newTestCaseLibrary")
	if fn == nil {
		r.Undecided("suite-names.indexed-before-skip", "R-REACH", "newTestCaseLibrary not found")
		return
	}
	r.Func(funcName(fn))
	e := &boolEval{key: genericKey}
	var modeKeys []string
	for k := range e.keysSeen(fn) {
		if strings.HasPrefix(k, "TestSuite.Mode==") {
			modeKeys = append(modeKeys, k)
		}
	}
	n := 0
	bad := ""
	pos := p.Pos(fn.Pos())
	eachInstr(fn, func(in ssa.Instruction) {
		mu, ok := in.(*ssa.MapUpdate)
		if !ok {
			return
		}
		// the index of suite names: keyed by the suite's Name, valued by the file
		f := loadedField(canon(mu.Key))
		if f == nil || f.Name() != "Name" {
			return
		}
		n++
		r.Sites++
		// reachable when the suite's mode is neither unspecified nor the run mode
		s := sigma{}
		for _, k := range modeKeys {
			s[k] = false
		}
		if len(modeKeys) < 2 || !e.reachableUnder(fn, in, s) {
			bad += fmt.Sprintf(" the name is recorded at %s only for suites that are not skipped (mode tests recognised: %d);", p.InstrPos(in), len(modeKeys))
			pos = p.InstrPos(in)
		}
	})
	r.Check(n == 1 && bad == "", "suite-names.indexed-before-skip", "R-REACH", pos, "the suite name is recorded also for a suite whose mode is skipped",
		"newTestCaseLibrary records a suite's name for the duplicate-name check only when the suite is expanded:"+bad+" with two files defining the same name, one of them skipped by the run mode, the verdict depends on the iteration order of the suite map (sometimes an error, sometimes one suite's permutations)")
}

// ---------- C08 ----------

func presentGuardsRule(p *Prog, r *Report) {
	n := 0
	bad := ""
	pos := "-"
	presentOf := func(a Atom, base ssa.Value) bool {
		if a.Op != token.ILLEGAL || a.Neg {
			return false
		}
		u, ok := canon(a.X).(*ssa.UnOp)
		if !ok {
			return false
		}
		fa, ok := u.X.(*ssa.FieldAddr)
		return ok && fieldName(fa.X.Type(), fa.Field) == "present" && canon(fa.X) == canon(base)
	}
	if fn := p.Func(pkgCC, "testTrie", "match"); fn != nil {
		r.Func(funcName(fn))
		eachInstr(fn, func(in ssa.Instruction) {
			c := callCommon(in)
			if c == nil || c.StaticCallee() == nil || c.StaticCallee().Name() != "Add" || len(c.Args) == 0 {
				return
			}
			fa, ok := c.Args[0].(*ssa.FieldAddr)
			if !ok || fieldName(fa.X.Type(), fa.Field) != "matched" {
				return
			}
			n++
			r.Sites++
			if !guardedBy(in, func(a Atom) bool { return presentOf(a, fa.X) }) {
				bad += " the match counter of " + path(fa.X) + " is incremented at " + p.InstrPos(in) + " without that node being a pattern end (present);"
				pos = p.InstrPos(in)
			}
		})
	} else {
		r.Undecided("match.present-guards", "R-GUARD", "testTrie.match not found")
		return
	}
	if fn := p.Func(pkgCC, "testTrie", "findUnmatched"); fn != nil {
		r.Func(funcName(fn))
		eachInstr(fn, func(in ssa.Instruction) {
			_, ok := in.(*ssa.MapUpdate)
			if !ok {
				return
			}
			n++
			r.Sites++
			if !guardedBy(in, func(a Atom) bool { return presentOf(a, fn.Params[0]) }) {
				bad += " a node is reported as an unmatched pattern at " + p.InstrPos(in) + " without being a pattern end (present);"
				pos = p.InstrPos(in)
			}
		})
	}
	r.Check(n >= 3 && bad == "", "match.present-guards", "R-GUARD", pos, fmt.Sprintf("%d counter increments / unmatched reports, all under the node's present flag", n),
		"the pattern trie treats a node as a pattern without looking at its `present` flag:"+bad+" an interior node (a `**` followed by more components, a prefix of a longer pattern) then matches names its pattern does not match, or an unmatched pattern that is a prefix of another one is never reported")
}

// ---------- C09 ----------

func writeAlwaysRule(p *Prog, r *Report) {
	n := 0
	bad := ""
	pos := "-"
	for _, fn := range p.RepoFuncs() {
		if pkgOfFunc(fn) != internalPath || fnBase(fn) != "WriteDelimitedMessage" {
			continue
		}
		n++
		r.Sites++
		r.Func(funcName(fn))
		isRaw := func(in ssa.Instruction) bool {
			c := callCommon(in)
			return c != nil && c.StaticCallee() != nil && c.StaticCallee().Name() == "writeDelimitedMessageRaw"
		}
		for _, ret := range returnsOf(fn) {
			for _, v := range retVals(ret, 0) {
				if isNilValue(v) && !precededBy(ret, isRaw) {
					bad += " " + shortFn(fn) + " returns success at " + p.InstrPos(ret) + " without having written anything;"
					pos = p.InstrPos(ret)
				}
			}
		}
	}
	r.Check(n >= 1 && bad == "", "write.always", "R-MUSTCALL", pos, "every successful return has written the prefix and the message",
		"WriteDelimitedMessage can report success without writing:"+bad+" a message that marshals to zero bytes (all fields at their defaults) is skipped, prefix included, so the reader sees a shorter sequence — writer and reader disagree about the empty message")
}

func peersUseCodecRule(p *Prog, r *Report) {
	n := 0
	bad := ""
	pos := "-"
	for _, fn := range p.RepoFuncs() {
		pk := pkgOfFunc(fn)
		eachInstr(fn, func(in ssa.Instruction) {
			c := callCommon(in)
			if c == nil || c.StaticCallee() == nil {
				return
			}
			name := fnBase(c.StaticCallee())
			if pkgOfFunc(c.StaticCallee()) != internalPath || (name != "WriteDelimitedMessage" && name != "ReadDelimitedMessage") {
				return
			}
			n++
			r.Sites++
			if pk != ccPath && pk != internalPath {
				bad += " " + shortFn(fn) + " calls " + name + " at " + p.InstrPos(in) + ";"
				pos = p.InstrPos(in)
			}
		})
	}
	r.Check(n >= 3 && bad == "", "peers-use-codec", "A-WHO", pos, fmt.Sprintf("%d uses of the raw delimited reader/writer, all in the runner", n),
		"a peer uses the binary delimited reader/writer directly:"+bad+" the peers speak the wire variant their -json flag selects (codec.NewDecoder / NewEncoder); with -json the request is read as JSON but this message is written in the binary framing")
}

// ---------- C10 ----------

func sendErrorMeansNoCallbackRule(p *Prog, r *Report) {
	fn := p.Func(pkgCC, "clientProcessRunner", "sendRequest")
	pend := p.Field(pkgCC, "clientProcessRunner", "pendingOps")
	if fn == nil || pend == nil {
		r.Undecided("send.error-means-no-callback", "R-GUARD", "sendRequest / pendingOps not found")
		return
	}
	r.Func(funcName(fn))
	r.Sites++
	// after the write failed: a `return nil` on the not-(any-longer)-pending edge
	isWrite := func(in ssa.Instruction) bool {
		c := callCommon(in)
		return c != nil && c.StaticCallee() != nil && fnBase(c.StaticCallee()) == "WriteDelimitedMessage"
	}
	found := false
	for _, ret := range returnsOf(fn) {
		allNil := true
		for _, v := range retVals(ret, 0) {
			if !isNilValue(v) {
				allNil = false
			}
		}
		if !allNil || !precededBy(ret, isWrite) {
			continue
		}
		as := atomsAt(ret.Block())
		failed := hasAtom(as, func(a Atom) bool {
			m, isNil := nilTestOn(a, func(x ssa.Value) bool { c, ok := canon(x).(*ssa.Call); return ok && isWrite(c) })
			return m && !isNil
		})
		gone := hasAtom(as, func(a Atom) bool {
			m, val := boolTestOn(a, func(x ssa.Value) bool { return commaOkOfLookupOn(x, pend) })
			return m && !val
		})
		if failed && gone {
			found = true
		}
	}
	r.Check(found, "send.error-means-no-callback", "R-GUARD", p.Pos(fn.Pos()), "after a failed write sendRequest returns nil when the pending entry is already gone",
		"sendRequest returns the write error even when the pending entry was already consumed: the send loop treats an error return as `the callback will never run` and releases the case itself, but consumeOutput has already run the callback — the case is counted twice (sync: negative WaitGroup counter) and the remaining cases get no outcome")
}

// ---------- C13 (D21) ----------

func wireTraceOnceRule(p *Prog, r *Report) {
	fn := p.Func(pkgRC, "", "setWireTrace")
	if fn == nil {
		r.Undecided("wire-trace.once", "R-ONCE", "setWireTrace not found")
		return
	}
	r.Func(funcName(fn))
	n := 0
	bad := ""
	for _, f := range withClosures(fn) {
		eachInstr(f, func(in ssa.Instruction) {
			c := callCommon(in)
			if c == nil {
				return
			}
			b, ok := c.Value.(*ssa.Builtin)
			if !ok || b.Name() != "close" {
				return
			}
			n++
			r.Sites++
			// inside a sync.Once.Do closure, or after a test that the channel is still open
			if f != fn {
				once := false
				eachInstr(fn, func(i2 ssa.Instruction) {
					if c2 := callCommon(i2); c2 != nil && c2.StaticCallee() != nil && c2.StaticCallee().Name() == "Do" && c2.StaticCallee().Pkg != nil && c2.StaticCallee().Pkg.Pkg.Path() == "sync" {
						for v := range operandClosure(c2.Args[1]) {
							if mc, isMC := v.(*ssa.MakeClosure); isMC && mc.Fn == ssa.Value(f) {
								once = true
							}
						}
					}
				})
				if once {
					return
				}
			}
			bad += " the channel is closed at " + p.InstrPos(in) + " on every call;"
		})
	}
	// the trace itself is recorded in the same once-guarded step (first trace wins, no write after the close)
	for _, f := range withClosures(fn) {
		eachInstr(f, func(in ssa.Instruction) {
			st, ok := in.(*ssa.Store)
			if !ok {
				return
			}
			fa, ok := st.Addr.(*ssa.FieldAddr)
			if !ok || fieldName(fa.X.Type(), fa.Field) != "trace" {
				return
			}
			closes := false
			eachInstr(f, func(i2 ssa.Instruction) {
				if c2 := callCommon(i2); c2 != nil {
					if b, isB := c2.Value.(*ssa.Builtin); isB && b.Name() == "close" {
						closes = true
					}
				}
			})
			if !closes {
				bad += " the trace is assigned at " + p.InstrPos(in) + " outside the once-guarded step that closes the channel (a later completion overwrites the first trace after waiters were released);"
			}
		})
	}
	r.Check(n >= 1 && bad == "", "wire-trace.once", "R-ONCE", p.Pos(fn.Pos()), "the availability channel is closed under a sync.Once",
		"setWireTrace closes its channel unconditionally:"+bad+" the HTTP client completes two round trips with one context when it follows a redirect (307 from the server under test), the second completion panics with `close of closed channel` and the reference client dies instead of reporting")
}

// ---------- C14 ----------

func clientBodyAlwaysWrappedRule(p *Prog, r *Report) {
	outer := p.Func(pkgTr, "", "TracingRoundTripper")
	if outer == nil {
		r.Undecided("client.body-always-wrapped", "R-MUSTCALL", "TracingRoundTripper not found")
		return
	}
	r.Func(funcName(outer))
	n := 0
	bad := ""
	isWrap := func(in ssa.Instruction) bool {
		c := callCommon(in)
		return c != nil && c.StaticCallee() != nil && c.StaticCallee().Name() == "newReader"
	}
	for _, cl := range withClosures(outer) {
		if cl == outer || cl.Signature.Results().Len() != 2 {
			continue
		}
		for _, ret := range returnsOf(cl) {
			for _, v := range retVals(ret, 0) {
				if isNilValue(v) {
					continue
				}
				n++
				r.Sites++
				if !precededBy(ret, isWrap) {
					bad += " a response is returned at " + p.InstrPos(ret) + " without its body having been wrapped;"
				}
			}
		}
	}
	r.Check(n >= 1 && bad == "", "client.body-always-wrapped", "R-MUSTCALL", p.Pos(outer.Pos()), "every returned response passed newReader",
		"TracingRoundTripper returns a response whose body is not wrapped by the tracing reader:"+bad+" no ResponseBodyEnd is ever added for it, the trace is finished by the cancellation watcher instead and ends in RequestCanceled / context canceled for a successful call (an HTTP/1.1 reply with Content-Length: 0 arrives as http.NoBody)")
}

func noRequestBodyCloseRule(p *Prog, r *Report) {
	outer := p.Func(pkgTr, "", "TracingHandler")
	if outer == nil {
		r.Undecided("server.no-body-close", "A-WHO", "TracingHandler not found")
		return
	}
	r.Func(funcName(outer))
	r.Sites++
	bad := ""
	for _, cl := range withClosures(outer) {
		eachInstr(cl, func(in ssa.Instruction) {
			c := callCommon(in)
			if c == nil || !c.IsInvoke() || c.Method.Name() != "Close" {
				return
			}
			for v := range operandClosure(c.Value) {
				if u, ok := v.(*ssa.UnOp); ok {
					if fa, ok := u.X.(*ssa.FieldAddr); ok && fieldName(fa.X.Type(), fa.Field) == "Body" {
						bad += " " + p.InstrPos(in) + ";"
					}
				}
			}
		})
	}
	r.Check(bad == "", "server.no-body-close", "A-WHO", p.Pos(outer.Pos()), "the tracing handler leaves closing the request body to net/http",
		"the tracing handler closes the request body itself:"+bad+" when the handler did not read the body to its end, Close records RequestBodyEnd with an error, which completes (and clears) the trace — the partial response event and ResponseBodyEnd that follow are dropped and the trace carries an error the exchange did not have")
}

// ---------- C15 ----------

func prefixBoundaryStrictRule(p *Prog, r *Report) {
	fn := p.Func(pkgTr, "dataTracer", "tracePrefixLocked")
	if fn == nil {
		r.Undecided("prefix.boundary-strict", "R-GUARD", "tracePrefixLocked not found")
		return
	}
	r.Func(funcName(fn))
	n := 0
	bad := ""
	eachInstr(fn, func(in ssa.Instruction) {
		b, ok := in.(*ssa.BinOp)
		if !ok {
			return
		}
		x, y, op := b.X, b.Y, b.Op
		if _, isLen := lenArg(y); isLen {
			x, y, op = y, x, flipOp(op)
		}
		la, isLen := lenArg(x)
		if !isLen || canon(la) != ssa.Value(fn.Params[1]) {
			return
		}
		// compared with `need` = prefixLen - len(d.prefix)
		sub, isSub := canon(y).(*ssa.BinOp)
		if !isSub || sub.Op != token.SUB {
			return
		}
		n++
		r.Sites++
		// the branch that only buffers must be taken for len(data) < need, not for ==
		if op != token.LSS && op != token.GEQ {
			bad += fmt.Sprintf(" len(data) %s need at %s;", op, p.InstrPos(in))
		}
	})
	r.Check(n == 1 && bad == "", "prefix.boundary-strict", "R-GUARD", p.Pos(fn.Pos()), "the prefix is incomplete exactly when len(data) < need",
		"tracePrefixLocked treats a chunk that exactly completes the 5-byte envelope as still incomplete:"+bad+" the envelope is only parsed when more data arrives — an empty message that is the last data of its direction and ends at a DATA-frame boundary (how grpc-go frames it) is reported as a dangling 5-byte prefix instead of a message")
}

// ---------- C17 (D23) ----------

func dateOnlyWhenAbsentRule(p *Prog, r *Report) {
	fn := p.Func(pkgRS, "rawResponseWriter", "finish")
	if fn == nil {
		r.Undecided("finish.date-only-when-absent", "R-GUARD", "rawResponseWriter.finish not found")
		return
	}
	r.Func(funcName(fn))
	n := 0
	bad := ""
	eachInstr(fn, func(in ssa.Instruction) {
		mu, ok := in.(*ssa.MapUpdate)
		if !ok {
			return
		}
		if s, isS := constString(mu.Key); !isS || s != "Date" {
			return
		}
		n++
		r.Sites++
		// on the edge where a lookup of "Date" in the same header map found nothing
		if !guardedBy(in, func(a Atom) bool {
			m, val := boolTestOn(a, func(x ssa.Value) bool {
				ex, ok := canon(x).(*ssa.Extract)
				if !ok || ex.Index != 1 {
					return false
				}
				lk, ok := ex.Tuple.(*ssa.Lookup)
				if !ok {
					return false
				}
				s, isS := constString(lk.Index)
				return isS && s == "Date"
			})
			return m && !val
		}) {
			bad += " Date is overwritten at " + p.InstrPos(in) + " whether or not the raw response prescribes it;"
		}
	})
	r.Check(n >= 1 && bad == "", "finish.date-only-when-absent", "R-GUARD", p.Pos(fn.Pos()), "the automatic Date header is suppressed only when no Date was prescribed",
		"rawResponseWriter.finish erases a Date header the raw response prescribes:"+bad+" the suppression of net/http's automatic Date runs after the raw headers were added, so `Date: …` among them never reaches the wire (every given header must)")
}

// ---------- C20 (D20) ----------

func brotliFreshReaderRule(p *Prog, r *Report) {
	n := 0
	bad := ""
	pos := "-"
	resets := 0
	for _, fn := range p.RepoFuncs() {
		eachInstr(fn, func(in ssa.Instruction) {
			c := callCommon(in)
			if c == nil || c.StaticCallee() == nil || c.StaticCallee().Pkg == nil || !strings.HasSuffix(c.StaticCallee().Pkg.Pkg.Path(), "andybalholm/brotli") {
				return
			}
			n++
			if c.StaticCallee().Name() == "Reset" {
				if nt, ok := c.StaticCallee().Signature.Recv().Type().(*types.Pointer); ok && strings.HasSuffix(nt.Elem().String(), "brotli.Reader") {
					resets++
					bad += " " + shortFn(fn) + " at " + p.InstrPos(in) + ";"
					pos = p.InstrPos(in)
				}
			}
		})
	}
	r.Sites += n
	r.Check(n >= 2 && resets == 0, "reuse-typestate.brotli.fresh-reader", "R-WIRE", pos, "brotli.Reader.Reset is not used (a new reader is created per stream)",
		"a brotli reader is re-used through (*brotli.Reader).Reset:"+bad+" Reset clears the decoder state but keeps the input the previous stream left unread (bytes after the end of a message); they are decoded ahead of the new stream, so after one message with trailing bytes the next, valid message on the same pooled instance fails or decodes differently")
}
