package main

import (
	"fmt"
	"go/token"
	"go/types"
	"net/textproto"
	"strings"

	"golang.org/x/tools/go/ssa"
)

func init() {
	register(&propMeta{
		ID: "C05",
		Explain: "Decides structural necessary conditions of 'each selected permutation is executed exactly once against a matching server': " +
			"(bound) every server goroutine is started after a successful semaphore Acquire(1), on the client-still-running edge, after wg.Add(1), and defers Release(1) and wg.Done(); wg.Wait is deferred; the semaphore is NewWeighted(MaxServers) unmodified; empty batches never acquire; " +
			"(stop) once the server was started every exit of runTestCasesForServer passes the deferred abort, and the normal tail waits for the server's exit unconditionally before returning (and thereby releasing its permit); every started client gets a deferred stop; " +
			"(complete) the request sent to the client gets host (or the default host when empty), port, certificate and client credentials from the server's response / the batch, and the x-test-case-name header with the case's own name (also on a raw request); the server request carries the instance's protocol, HTTP version, TLS flag, with credentials nil-ed when unused; the header name agrees with both readers up to MIME canonicalisation; " +
			"(select) the batch handed to a server is filter.apply(filterGRPCImplTestCases(casesByServer[instance], client.isGrpcImpl, server.isGrpcImpl)) in that order with those arguments, and the goroutine runs it with the same instance and the matching reference flags/credentials/starter; gRPC-peer permutations are clones renamed with the marker; a duplicate name is refused before anything is written; " +
			"(cancel-link) the server's termination cancels the batch context, which is tested before each send. " +
			"It does NOT decide that grouping and filters select the right set (C07/C08), schedules or actual process lifetimes.",
		NotDecided: []string{"that the right set of permutations is selected (C07, C08)", "goroutine schedules", "actual process lifetimes; that the server is alive while its batch runs"},
		Assume:     []string{"semaphore.Weighted, sync.WaitGroup and context behave as documented", "access-path roots are the source variable names (clientInfo, serverInfo, …)"},
		Trusted:    commonTrusted,
		Run:        runC05,
	})
	fc := "internal/app/connectconformance/connectconformance.go"
	fs := "internal/app/connectconformance/server_runner.go"
	addMutants(
		Mutant{ID: "C05-filter-order", Prop: "C05", File: fc,
			Old:    "\t\t\t\t\ttestCases = testCaseLib.filterGRPCImplTestCases(testCases, clientInfo.isGrpcImpl, serverInfo.isGrpcImpl)\n\t\t\t\t\ttestCases = filter.apply(testCases)",
			New:    "\t\t\t\t\ttestCases = filter.apply(testCases)\n\t\t\t\t\ttestCases = testCaseLib.filterGRPCImplTestCases(testCases, clientInfo.isGrpcImpl, serverInfo.isGrpcImpl)",
			Expect: []string{"select.chain"}, Note: "seed C05-1: run/skip filter applied before the gRPC marker is added"},
		Mutant{ID: "C05-grpc-flags-swapped", Prop: "C05", File: fc,
			Old: "filterGRPCImplTestCases(testCases, clientInfo.isGrpcImpl, serverInfo.isGrpcImpl)", New: "filterGRPCImplTestCases(testCases, serverInfo.isGrpcImpl, clientInfo.isGrpcImpl)",
			Expect: []string{"select.chain"}, Note: "client/server gRPC flags swapped"},
		Mutant{ID: "C05-no-release", Prop: "C05", File: fc, Old: "\t\t\t\t\t\tdefer sema.Release(1)\n", New: "",
			Expect: []string{"bound.release"}, Note: "server permit never released: the run stops after max-servers batches"},
		Mutant{ID: "C05-acquire-after-go", Prop: "C05", File: fc, Old: "\t\t\t\t\tif err := sema.Acquire(ctx, 1); err != nil {\n\t\t\t\t\t\treturn err\n\t\t\t\t\t}\n", New: "\t\t\t\t\t_ = sema.Acquire(ctx, 1)\n",
			Expect: []string{"bound.acquire"}, Note: "goroutine started although the permit was not obtained"},
		Mutant{ID: "C05-result-conditional", Prop: "C05", File: fs,
			Old: "\t_ = serverProcess.result() // wait for server process to end\n\tif isReferenceServer {\n\t\t<-refServerFinished\n\t}", New: "\tif isReferenceServer {\n\t\t_ = serverProcess.result() // wait for server process to end\n\t\t<-refServerFinished\n\t}",
			Expect: []string{"tail.order"}, Note: "seed C05-2: permit released while a non-reference server is still alive"},
		Mutant{ID: "C05-port-dropped", Prop: "C05", File: fs, Old: "\t\treq.Port = resp.Port\n", New: "",
			Expect: []string{"complete.Port"}, Note: "client request keeps the placeholder port"},
		Mutant{ID: "C05-cert-from-creds", Prop: "C05", File: fs, Old: "\t\treq.ServerTlsCert = resp.PemCert\n", New: "\t\treq.ServerTlsCert = serverCreds.GetCert()\n",
			Expect: []string{"complete.ServerTlsCert"}, Note: "client told to trust the generated cert, not the one the server reports"},
		Mutant{ID: "C05-header-raw-missing", Prop: "C05", File: fs, Old: "\t\tif req.RawRequest != nil {\n\t\t\treq.RawRequest.Headers = append(req.RawRequest.Headers, testCaseHeader)\n\t\t}\n", New: "",
			Expect: []string{"complete.test-name-header"}, Note: "raw requests lose the test-name header"},
		Mutant{ID: "C05-abort-not-deferred", Prop: "C05", File: fs, Old: "\tdefer serverProcess.abort()\n", New: "",
			Expect: []string{"stop.server"}, Note: "server left running on early exits"},
		Mutant{ID: "C05-send-after-cancel", Prop: "C05", File: fs, Old: "\t\tif procCtx.Err() != nil {", New: "\t\tif ctx.Err() != nil {",
			Expect: []string{"cancel-link.tested"}, Note: "the batch no longer notices that its server died"},
		Mutant{ID: "C05-creds-always", Prop: "C05", File: fs, Old: "\tif !meta.useTLSClientCerts {\n\t\tclientCreds = nil\n\t}\n", New: "",
			Expect: []string{"complete.creds-nil"}, Note: "client certificates sent to servers that do not use them"},
		Mutant{ID: "C05-refflags-swapped", Prop: "C05", File: fc, Old: "\t\t\t\t\t\t\tclientInfo.isReferenceImpl,\n\t\t\t\t\t\t\tserverInfo.isReferenceImpl,", New: "\t\t\t\t\t\t\tserverInfo.isReferenceImpl,\n\t\t\t\t\t\t\tclientInfo.isReferenceImpl,",
			Expect: []string{"select.goroutine-args"}, Note: "reference-impl flags swapped between client and server"},
	)
}

func runC05(p *Prog, r *Report) {
	run := p.Func(pkgCC, "", "run")
	rts := p.Func(pkgCC, "", "runTestCasesForServer")
	if run == nil || rts == nil {
		r.Undecided("bound", "R-GUARD", "run / runTestCasesForServer not found")
		return
	}
	rtsObj := funcObj(rts)
	// locate the scheduling closure (contains the `go`) and the goroutine body
	var sched, body *ssa.Function
	var goInstr *ssa.Go
	for _, fn := range withClosures(run) {
		eachInstr(fn, func(in ssa.Instruction) {
			g, ok := in.(*ssa.Go)
			if !ok {
				return
			}
			if mc, ok := g.Call.Value.(*ssa.MakeClosure); ok {
				if f, ok := mc.Fn.(*ssa.Function); ok && len(findInstrs(f, isCallObj(rtsObj))) > 0 {
					sched, body, goInstr = fn, f, g
				}
			}
		})
	}
	if sched == nil {
		r.Undecided("bound", "R-GUARD", "server goroutine not found in run")
		return
	}
	r.Func(funcName(sched))
	r.Func(funcName(body))
	r.Func(funcName(rts))
	syncCall := func(pkg, name string) instrPred {
		return func(in ssa.Instruction) bool {
			c := callCommon(in)
			if c == nil {
				return false
			}
			f := c.StaticCallee()
			return f != nil && f.Name() == name && f.Pkg != nil && f.Pkg.Pkg.Path() == pkg
		}
	}
	semaPkg := "golang.org/x/sync/semaphore"
	isAcquire, isRelease := syncCall(semaPkg, "Acquire"), syncCall(semaPkg, "Release")
	isAdd, isDone, isWait := syncCall("sync", "Add"), syncCall("sync", "Done"), syncCall("sync", "Wait")
	one := func(in ssa.Instruction) bool {
		c := callCommon(in)
		k, ok := constInt(c.Args[len(c.Args)-1])
		return ok && k == 1
	}
	// ---- bound ----
	acqs := findInstrs(sched, isAcquire)
	r.Sites += 6
	okAcq := len(acqs) == 1 && one(acqs[0]) && guardedBy(goInstr, func(a Atom) bool {
		m, isNil := nilTestOn(a, func(v ssa.Value) bool { return len(acqs) == 1 && v == acqs[0].(ssa.Value) })
		return m && isNil
	})
	r.Check(okAcq, "bound.acquire", "R-GUARD", p.InstrPos(goInstr), "go is on the Acquire(ctx, 1) == nil edge", "a server goroutine can be started without having obtained a --max-servers permit (go is not dominated by a successful sema.Acquire(ctx, 1))")
	r.Check(guardedBy(goInstr, func(a Atom) bool {
		m, v := boolTestOn(a, isCallResult(func(c *ssa.CallCommon) bool { return c.IsInvoke() && c.Method.Name() == "isRunning" }))
		return m && v
	}), "bound.client-running", "R-GUARD", p.InstrPos(goInstr), "go is on the clientProcess.isRunning() edge", "a server is started although the client process is no longer running")
	r.Check(precededBy(goInstr, func(in ssa.Instruction) bool { return isAdd(in) && one(in) }), "bound.add-before-go", "R-ORDER", p.InstrPos(goInstr), "wg.Add(1) precedes go", "wg.Add(1) does not precede the go statement: wg.Wait could return before the batch finished")
	defers := func(fn *ssa.Function, pr instrPred) []ssa.Instruction {
		return findInstrs(fn, func(in ssa.Instruction) bool { _, ok := in.(*ssa.Defer); return ok && pr(in) })
	}
	rtsCalls := findInstrs(body, isCallObj(rtsObj))
	okRel, okDone := false, false
	for _, d := range defers(body, isRelease) {
		if one(d) && precededBy(rtsCalls[0], func(in ssa.Instruction) bool { return in == d }) {
			okRel = true
		}
	}
	for _, d := range defers(body, isDone) {
		if precededBy(rtsCalls[0], func(in ssa.Instruction) bool { return in == d }) {
			okDone = true
		}
	}
	r.Check(okRel, "bound.release", "R-MUSTCALL", p.Pos(body.Pos()), "defer sema.Release(1) precedes the batch", "the server goroutine does not defer sema.Release(1): permits leak and the run stalls after --max-servers batches (or more than --max-servers run at once)")
	r.Check(okDone, "bound.done", "R-MUSTCALL", p.Pos(body.Pos()), "defer wg.Done() precedes the batch", "the server goroutine does not defer wg.Done(): the run never terminates (or returns before batches finish)")
	okWait := false
	for _, d := range defers(sched, isWait) {
		if precededBy(goInstr, func(in ssa.Instruction) bool { return in == d }) {
			okWait = true
		}
	}
	r.Check(okWait, "bound.wait-deferred", "R-MUSTCALL", p.Pos(sched.Pos()), "wg.Wait is deferred before any goroutine starts", "the scheduling function does not defer wg.Wait(): it could return while batches are running")
	maxServers := p.Field(pkgCC, "Flags", "MaxServers")
	okNW := false
	eachInstr(sched, func(in ssa.Instruction) {
		if c := callCommon(in); c != nil && isCallToNamed(c, semaPkg, "", "NewWeighted") {
			okNW = loadedField(stripAllConv(c.Args[0])) == maxServers
		}
	})
	r.Sites++
	r.Check(okNW, "bound.capacity", "R-WIRE", p.Pos(sched.Pos()), "semaphore.NewWeighted(int64(flags.MaxServers))", "the semaphore's capacity is not exactly flags.MaxServers")
	applyObj := p.TypeFunc(pkgCC, "testCaseFilter", "apply")
	filterG := p.TypeFunc(pkgCC, "testCaseLibrary", "filterGRPCImplTestCases")
	r.Sites++
	okEmpty := len(acqs) == 1 && guardedBy(acqs[0], func(a Atom) bool {
		if a.Op != token.NEQ && a.Op != token.GTR {
			return false
		}
		z, isZ := constInt(a.Y)
		x, isLen := lenArg(a.X)
		if !isZ || z != 0 || !isLen {
			return false
		}
		c, ok := canon(x).(*ssa.Call)
		return ok && calleeObj(&c.Call) == applyObj
	})
	r.Check(okEmpty, "bound.skip-empty", "R-GUARD", p.Pos(sched.Pos()), "Acquire only for a non-empty filtered batch", "a permit is acquired (and a server started) for an empty batch, or the emptiness test is not on the filtered batch")

	// ---- select ----
	casesBy := p.Field(pkgCC, "testCaseLibrary", "casesByServer")
	isGrpc := p.Field(pkgCC, "processInfo", "isGrpcImpl")
	isRef := p.Field(pkgCC, "processInfo", "isReferenceImpl")
	startF := p.Field(pkgCC, "processInfo", "start")
	chainOK := false
	var applyCall *ssa.Call
	for _, in := range findInstrs(sched, isCallObj(applyObj)) {
		c := in.(*ssa.Call)
		applyCall = c
		fg, ok := canon(c.Call.Args[1]).(*ssa.Call)
		if !ok || calleeObj(&fg.Call) != filterG {
			continue
		}
		lk, ok := canon(fg.Call.Args[1]).(*ssa.Lookup)
		if !ok || loadedField(lk.X) != casesBy {
			continue
		}
		a2, a3 := fg.Call.Args[2], fg.Call.Args[3]
		if loadedField(a2) == isGrpc && loadedField(a3) == isGrpc && strings.HasPrefix(path(a2), "clientInfo.") && strings.HasPrefix(path(a3), "serverInfo.") {
			chainOK = true
		}
	}
	r.Sites++
	r.Check(chainOK, "select.chain", "R-WIRE", p.Pos(sched.Pos()), "filter.apply(filterGRPCImplTestCases(casesByServer[instance], clientInfo.isGrpcImpl, serverInfo.isGrpcImpl))",
		"the batch is not computed as filter.apply(filterGRPCImplTestCases(casesByServer[instance], clientInfo.isGrpcImpl, serverInfo.isGrpcImpl)): run/skip patterns would be matched against unmarked names (or the gRPC flags are swapped), so marked permutations are selected/skipped wrongly")
	// goroutine arguments
	if len(rtsCalls) == 1 && applyCall != nil {
		cc := callCommon(rtsCalls[0])
		ok := true
		why := ""
		chk := func(i int, want string, cond bool) {
			r.Sites++
			if !cond {
				ok = false
				why += fmt.Sprintf(" arg#%d should be %s (is %s);", i, want, path(cc.Args[i]))
			}
		}
		chk(1, "clientInfo.isReferenceImpl", loadedField(cc.Args[1]) == isRef && strings.HasPrefix(path(cc.Args[1]), "clientInfo."))
		chk(2, "serverInfo.isReferenceImpl", loadedField(cc.Args[2]) == isRef && strings.HasPrefix(path(cc.Args[2]), "serverInfo."))
		chk(3, "svrInstance (goroutine parameter)", isParamNamed(cc.Args[3], body, "svrInstance") || isOwnParam(cc.Args[3], body))
		chk(4, "the filtered batch", path(cc.Args[4]) == "testCases")
		chk(5, "serverCreds", path(cc.Args[5]) == "serverCreds")
		chk(6, "clientCreds", path(cc.Args[6]) == "clientCreds")
		chk(7, "serverInfo.start", loadedField(cc.Args[7]) == startF && strings.HasPrefix(path(cc.Args[7]), "serverInfo."))
		// the instance passed to `go` is the one the batch was looked up with
		lkOK := false
		if fg, ok2 := canon(applyCall.Call.Args[1]).(*ssa.Call); ok2 {
			if lk, ok3 := canon(fg.Call.Args[1]).(*ssa.Lookup); ok3 {
				lkOK = sameVal(lk.Index, goInstr.Call.Args[len(goInstr.Call.Args)-1])
			}
		}
		chk(3, "the instance whose cases were looked up", lkOK)
		r.Check(ok, "select.goroutine-args", "R-WIRE", p.InstrPos(rtsCalls[0]), "runTestCasesForServer receives the matching reference flags, instance, batch, credentials and starter", "runTestCasesForServer is called with mismatched arguments:"+why)
	} else {
		r.Undecided("select.goroutine-args", "R-WIRE", "call of runTestCasesForServer not found in goroutine")
	}
	// gRPC permutations are renamed clones
	if fg := p.Func(pkgCC, "testCaseLibrary", "filterGRPCImplTestCases"); fg != nil {
		r.Func(funcName(fg))
		marker := p.TypeFunc(pkgCC, "", "addGRPCMarkerToName")
		tn := p.Field(pkgGen, "ClientCompatRequest", "TestName")
		okClone := false
		eachInstr(fg, func(in ssa.Instruction) {
			c, ok := in.(*ssa.Call)
			if !ok {
				return
			}
			b, isB := c.Call.Value.(*ssa.Builtin)
			if !isB || b.Name() != "append" {
				return
			}
			// appended element
			sl, ok := c.Call.Args[1].(*ssa.Slice)
			if !ok {
				return
			}
			arr, ok := sl.X.(*ssa.Alloc)
			if !ok {
				return
			}
			for _, ref := range *arr.Referrers() {
				ia, ok := ref.(*ssa.IndexAddr)
				if !ok {
					continue
				}
				for _, r2 := range *ia.Referrers() {
					st, ok := r2.(*ssa.Store)
					if !ok {
						continue
					}
					ta, ok := canon(st.Val).(*ssa.TypeAssert)
					if !ok {
						continue
					}
					cl, ok := canon(ta.X).(*ssa.Call)
					if !ok || !isCallToNamed(&cl.Call, "google.golang.org/protobuf/proto", "", "Clone") {
						continue
					}
					// renamed before being appended
					if precededBy(in, func(x ssa.Instruction) bool {
						s2, ok := x.(*ssa.Store)
						if !ok {
							return false
						}
						fa, ok := s2.Addr.(*ssa.FieldAddr)
						if !ok || fieldVar(fa.X.Type(), fa.Field) != tn {
							return false
						}
						mc, ok := canon(s2.Val).(*ssa.Call)
						return ok && calleeObj(&mc.Call) == marker
					}) {
						okClone = true
					}
				}
			}
		})
		r.Sites++
		r.Check(okClone, "select.grpc-renamed-clone", "A-PATH", p.Pos(fg.Pos()), "every case kept for a gRPC peer is a proto.Clone whose TestName was rewritten by addGRPCMarkerToName before being appended", "permutations for the gRPC peers are not renamed clones: they would share (and mutate) the reference pair's test case or run under an unmarked name")
	} else {
		r.Undecided("select.grpc-renamed-clone", "A-PATH", "filterGRPCImplTestCases not found")
	}
	// duplicate refused before anything is written
	if sr := p.Func(pkgCC, "clientProcessRunner", "sendRequest"); sr != nil {
		pending := p.Field(pkgCC, "clientProcessRunner", "pendingOps")
		ws := findInstrs(sr, isCallNamed(internalPath, "", "WriteDelimitedMessage"))
		r.Sites++
		ok := len(ws) == 1 && guardedBy(ws[0], func(a Atom) bool {
			m, v := boolTestOn(a, func(x ssa.Value) bool { return commaOkOfLookupOn(x, pending) })
			return m && !v
		})
		r.Check(ok, "select.duplicate-before-write", "R-GUARD", p.Pos(sr.Pos()), "the request is written only on the name-not-pending edge", "a request whose test name is already pending can still be written to the client (duplicate not refused before the write)")
	}

	// ---- stop ----
	var startCall *ssa.Call
	eachInstr(rts, func(in ssa.Instruction) {
		if c, ok := in.(*ssa.Call); ok && !c.Call.IsInvoke() {
			if prm, ok := c.Call.Value.(*ssa.Parameter); ok && prm.Name() == "startServer" {
				startCall = c
			}
		}
	})
	isAbortI := func(in ssa.Instruction) bool {
		return isCallToNamed(callCommon(in), ccPath, "processController", "abort")
	}
	abortDefers := defers(rts, isAbortI)
	r.Sites++
	if startCall == nil || len(abortDefers) != 1 {
		r.Fail("stop.server", "R-MUSTCALL", p.Pos(rts.Pos()), fmt.Sprintf("server start call / deferred abort not found (deferred aborts: %d): a started server would not be stopped on every exit", len(abortDefers)))
	} else {
		startFailed := func(a Atom) bool {
			m, isNil := nilTestOn(a, func(v ssa.Value) bool {
				ex, ok := v.(*ssa.Extract)
				return ok && ex.Tuple == ssa.Value(startCall) && ex.Index == 1
			})
			return m && !isNil
		}
		ok := true
		for _, ret := range returnsOf(rts) {
			if guardedBy(ret, startFailed) {
				continue
			}
			if !precededBy(ret, func(in ssa.Instruction) bool { return in == abortDefers[0] }) {
				ok = false
			}
		}
		r.Check(ok, "stop.server", "R-MUSTCALL", p.InstrPos(abortDefers[0]), "after a successful start every exit passes the deferred abort", "runTestCasesForServer has an exit after the server was started that does not pass `defer serverProcess.abort()`: the server would be left running")
	}
	// the permit is released (function returns) only after the server's exit was awaited (shared with C11)
	frObj := p.TypeFunc(pkgCC, "testResults", "failRemaining")
	tailRules(p, r, rts, func(in ssa.Instruction) bool {
		c := callCommon(in)
		return c != nil && calleeObj(c) == frObj
	})
	runClientObj := p.TypeFunc(pkgCC, "", "runClient")
	okStop := false
	for _, fn := range withClosures(run) {
		for _, d := range defers(fn, func(in ssa.Instruction) bool {
			c := callCommon(in)
			return c.IsInvoke() && c.Method.Name() == "stop"
		}) {
			if precededBy(d, isCallObj(runClientObj)) {
				okStop = true
			}
		}
	}
	r.Sites++
	r.Check(okStop, "stop.client", "R-MUSTCALL", p.Pos(run.Pos()), "defer clientProcess.stop() follows runClient", "a started client process does not get a deferred stop()")

	// ---- complete ----
	req := func(f string) *types.Var { return p.Field(pkgGen, "ClientCompatRequest", f) }
	resp := func(f string) *types.Var { return p.Field(pkgGen, "ServerCompatResponse", f) }
	sendReq := func(in ssa.Instruction) bool {
		c := callCommon(in)
		return c != nil && c.IsInvoke() && c.Method.Name() == "sendRequest"
	}
	sends := findInstrs(rts, sendReq)
	if len(sends) != 1 {
		r.Undecided("complete", "R-WIRE", "sendRequest call not found in runTestCasesForServer")
	} else {
		send := sends[0]
		storeBefore := func(f *types.Var, valOK func(ssa.Value, ssa.Instruction) bool) bool {
			for _, st := range storesToField([]*ssa.Function{rts}, f) {
				if valOK(st.Val, st.Instr) && precededBy(send, func(in ssa.Instruction) bool { return in == st.Instr }) {
					return true
				}
			}
			return false
		}
		fromResp := func(rf *types.Var) func(ssa.Value, ssa.Instruction) bool {
			return func(v ssa.Value, _ ssa.Instruction) bool { return loadedField(canon(v)) == rf }
		}
		for _, w := range []struct {
			dst, src string
		}{{"Host", "Host"}, {"Port", "Port"}, {"ServerTlsCert", "PemCert"}} {
			r.Sites++
			r.Check(storeBefore(req(w.dst), fromResp(resp(w.src))), "complete."+w.dst, "R-WIRE", p.InstrPos(send), "req."+w.dst+" ← resp."+w.src+" on every path to the send",
				"the request handed to the client does not get "+w.dst+" from the server response's "+w.src+" on every path: the client would talk to a placeholder address / trust the wrong certificate")
		}
		// default host exactly when empty
		okDef := false
		for _, st := range storesToField([]*ssa.Function{rts}, req("Host")) {
			if c, ok := strip(st.Val).(*ssa.Const); ok && c.Value != nil {
				dh := p.Const("internal", "DefaultHost")
				s, _ := constString(c)
				if dh != nil && fmt.Sprintf("%q", s) == dh.Val().ExactString() && guardedBy(st.Instr, func(a Atom) bool {
					if a.Op != token.EQL {
						return false
					}
					e, isS := constString(a.Y)
					return isS && e == "" && loadedField(canon(a.X)) == req("Host")
				}) {
					okDef = true
				}
			}
		}
		r.Sites++
		r.Check(okDef, "complete.default-host", "R-GUARD", p.InstrPos(send), "DefaultHost substituted exactly when the reported host is empty", "the default host is not substituted exactly when the server reported no host")
		// client creds: the (possibly nil-ed) parameter
		useCC := p.Field(pkgCC, "serverInstance", "useTLSClientCerts")
		useTLS := p.Field(pkgCC, "serverInstance", "useTLS")
		nilEdOn := func(v ssa.Value, prmName string, flag *types.Var) bool {
			phi, ok := v.(*ssa.Phi)
			if !ok || len(phi.Edges) != 2 {
				return false
			}
			hasP, hasNil := false, false
			for i, e := range phi.Edges {
				if prm, ok := e.(*ssa.Parameter); ok && prm.Name() == prmName {
					hasP = true
				}
				if isNilConst(e) {
					if hasAtom(edgeAtoms(phi.Block().Preds[i], phi.Block()), func(a Atom) bool { m, v := boolTestOn(a, isLoadOfField(flag)); return m && !v }) {
						hasNil = true
					}
				}
			}
			return hasP && hasNil
		}
		r.Sites++
		okCC := storeBefore(req("ClientTlsCreds"), func(v ssa.Value, _ ssa.Instruction) bool { return nilEdOn(canon(v), "clientCreds", useCC) })
		scr := p.Field(pkgGen, "ServerCompatRequest", "ServerCreds")
		okSC := false
		for _, st := range storesToField([]*ssa.Function{rts}, scr) {
			if nilEdOn(canon(st.Val), "serverCreds", useTLS) {
				okSC = true
			}
		}
		r.Check(okCC && okSC, "complete.creds-nil", "R-GUARD", p.InstrPos(send), "credentials are the batch's, nil-ed exactly when the instance does not use TLS / client certs", "TLS credentials handed to the peers are not `the generated ones, nil-ed exactly when the server instance does not use them`")
		// server request wiring
		okSrv := true
		for _, w := range []struct{ dst, src string }{{"Protocol", "protocol"}, {"HttpVersion", "httpVersion"}, {"UseTls", "useTLS"}} {
			r.Sites++
			f := p.Field(pkgGen, "ServerCompatRequest", w.dst)
			src := p.Field(pkgCC, "serverInstance", w.src)
			sts := storesToField([]*ssa.Function{rts}, f)
			if len(sts) != 1 || loadedField(canon(sts[0].Val)) != src {
				okSrv = false
			}
		}
		r.Check(okSrv, "complete.server-request", "R-WIRE", p.Pos(rts.Pos()), "ServerCompatRequest{Protocol, HttpVersion, UseTls} ← the instance's", "the server is not started with exactly its instance's protocol / HTTP version / TLS flag")
		// x-test-case-name header with the case's own name, appended to both header lists
		hdrName := p.Field(pkgGen, "Header", "Name")
		hdrVal := p.Field(pkgGen, "Header", "Value")
		reqHdrs := req("RequestHeaders")
		rawHdrs := p.Field(pkgGen, "RawHTTPRequest", "Headers")
		rawReq := req("RawRequest")
		tnField := req("TestName")
		var hdr ssa.Value
		nameConst := ""
		for _, st := range storesToField([]*ssa.Function{rts}, hdrName) {
			if s, ok := constString(st.Val); ok && strings.EqualFold(s, "x-test-case-name") {
				hdr = st.Addr.X
				nameConst = s
			}
		}
		okHdr := hdr != nil
		if okHdr {
			// value: []string{testCase.Request.TestName}
			okV := false
			for _, st := range storesToField([]*ssa.Function{rts}, hdrVal) {
				if st.Addr.X != hdr {
					continue
				}
				if sl, ok := st.Val.(*ssa.Slice); ok {
					if arr, ok := sl.X.(*ssa.Alloc); ok {
						for _, ref := range *arr.Referrers() {
							if ia, ok := ref.(*ssa.IndexAddr); ok {
								for _, r2 := range *ia.Referrers() {
									if s2, ok := r2.(*ssa.Store); ok && loadedField(canon(s2.Val)) == tnField {
										okV = true
									}
								}
							}
						}
					}
				}
			}
			appendedTo := func(f *types.Var, guard func(ssa.Instruction) bool) bool {
				for _, st := range storesToField([]*ssa.Function{rts}, f) {
					c, ok := canon(st.Val).(*ssa.Call)
					if !ok {
						continue
					}
					if b, isB := c.Call.Value.(*ssa.Builtin); !isB || b.Name() != "append" || loadedField(canon(c.Call.Args[0])) != f {
						continue
					}
					if sliceContains(c.Call.Args[1], hdr) && guard(st.Instr) {
						return true
					}
				}
				return false
			}
			okReq := appendedTo(reqHdrs, func(in ssa.Instruction) bool {
				return precededBy(send, func(x ssa.Instruction) bool { return x == in })
			})
			okRaw := appendedTo(rawHdrs, func(in ssa.Instruction) bool {
				as := atomsAt(in.Block())
				onlyRaw := 0
				for _, a := range as {
					if m, isNil := nilTestOn(a, isLoadOfField(rawReq)); m && !isNil {
						onlyRaw++
					}
				}
				return onlyRaw == 1 && reachesInstr(in, send)
			})
			okHdr = okV && okReq && okRaw
		}
		r.Sites++
		r.Check(okHdr, "complete.test-name-header", "R-WIRE", p.InstrPos(send), "x-test-case-name: <the case's own name> appended to RequestHeaders always and to RawRequest.Headers when a raw request exists",
			"the x-test-case-name header with the case's own name is not appended to the request headers on every path (and to the raw request's headers whenever there is a raw request): the reference server / tracer could not attribute the call")
		// agreement with readers
		r.Sites++
		want := textproto.CanonicalMIMEHeaderKey(nameConst)
		readers := []string{}
		if c := p.Const(pkgTr, "testCaseNameHeader"); c != nil {
			readers = append(readers, strings.Trim(c.Val().ExactString(), `"`))
		}
		if g := p.Func(pkgRS, "", "getTestCaseName"); g != nil {
			eachInstr(g, func(in ssa.Instruction) {
				if c := callCommon(in); c != nil && c.StaticCallee() != nil && c.StaticCallee().Name() == "Get" && len(c.Args) == 2 {
					if s, ok := constString(c.Args[1]); ok {
						readers = append(readers, s)
					}
				}
			})
		}
		okAgree := len(readers) == 2 && nameConst != ""
		for _, rd := range readers {
			if textproto.CanonicalMIMEHeaderKey(rd) != want {
				okAgree = false
			}
		}
		r.Check(okAgree, "complete.header-name-agree", "R-TABLE-AGREE", p.Pos(rts.Pos()), fmt.Sprintf("writer %q, readers %v agree up to MIME canonicalisation", nameConst, readers), fmt.Sprintf("the test-name header written by the runner (%q) and the names read by the reference server and the tracer (%v) differ", nameConst, readers))

		// ---- cancel-link ----
		var procCtx ssa.Value
		eachInstr(rts, func(in ssa.Instruction) {
			if c, ok := in.(*ssa.Call); ok && isCallToNamed(&c.Call, "context", "", "WithCancel") {
				procCtx = c
			}
		})
		okTested := guardedBy(send, func(a Atom) bool {
			m, isNil := nilTestOn(a, isCallResult(func(c *ssa.CallCommon) bool {
				if !c.IsInvoke() || c.Method.Name() != "Err" {
					return false
				}
				ex, ok := canon(c.Value).(*ssa.Extract)
				return ok && ex.Tuple == procCtx && ex.Index == 0
			}))
			return m && isNil
		})
		r.Sites++
		r.Check(okTested && procCtx != nil, "cancel-link.tested", "R-GUARD", p.InstrPos(send), "each send is on the procCtx.Err() == nil edge", "requests are sent without testing the batch's own context (the one cancelled when the server terminates): cases would be sent to a dead server instead of being marked")
		cancelLinkRule(p, r)
	}
}

func isParamNamed(v ssa.Value, fn *ssa.Function, name string) bool {
	prm, ok := v.(*ssa.Parameter)
	return ok && prm.Parent() == fn && prm.Name() == name
}

func isOwnParam(v ssa.Value, fn *ssa.Function) bool {
	prm, ok := v.(*ssa.Parameter)
	return ok && prm.Parent() == fn
}

// sliceContains: the variadic/literal slice v contains element x (by identity).
func sliceContains(v ssa.Value, x ssa.Value) bool {
	sl, ok := v.(*ssa.Slice)
	if !ok {
		return false
	}
	arr, ok := sl.X.(*ssa.Alloc)
	if !ok {
		return false
	}
	for _, ref := range *arr.Referrers() {
		if ia, ok := ref.(*ssa.IndexAddr); ok {
			for _, r2 := range *ia.Referrers() {
				if st, ok := r2.(*ssa.Store); ok && canon(st.Val) == canon(x) {
					return true
				}
			}
		}
	}
	return false
}

// cancelLinkRule: the handler registered with the server process's whenDone
// cancels the batch context (the one the send loop tests) on EVERY path —
// whatever the process's result was: a server that exits cleanly in the
// middle of a batch is just as dead as one that crashed. Shared by C05 and C11.
func cancelLinkRule(p *Prog, r *Report) {
	rts := p.Func(pkgCC, "", "runTestCasesForServer")
	if rts == nil {
		r.Undecided("cancel-link.whenDone", "R-MUSTCALL", "runTestCasesForServer not found")
		return
	}
	var procCtx ssa.Value
	eachInstr(rts, func(in ssa.Instruction) {
		if c, ok := in.(*ssa.Call); ok && isCallToNamed(&c.Call, "context", "", "WithCancel") {
			procCtx = c
		}
	})
	r.Sites++
	h, _ := closureArgOfCall(rts, func(c *ssa.CallCommon) bool { return isCallToNamed(c, ccPath, "processController", "whenDone") }, 0)
	if h == nil || procCtx == nil {
		r.Fail("cancel-link.whenDone", "R-MUSTCALL", p.Pos(rts.Pos()), "the server's termination no longer cancels the batch context (no whenDone handler / no batch context found): the send loop cannot notice a dead server")
		return
	}
	isCancel := func(in ssa.Instruction) bool {
		c := callCommon(in)
		if c == nil || c.IsInvoke() {
			return false
		}
		u, ok := c.Value.(*ssa.UnOp)
		if !ok {
			return false
		}
		fv, ok := u.X.(*ssa.FreeVar)
		if !ok {
			return false
		}
		hit := false
		for i, f := range h.FreeVars {
			if f != fv {
				continue
			}
			eachInstr(rts, func(in2 ssa.Instruction) {
				if mc, ok := in2.(*ssa.MakeClosure); ok && mc.Fn == ssa.Value(h) {
					if a, ok := mc.Bindings[i].(*ssa.Alloc); ok {
						for _, sv := range reachingStores(a, mc) {
							if ex, ok := sv.(*ssa.Extract); ok && ex.Tuple == procCtx && ex.Index == 1 {
								hit = true
							}
						}
					}
				}
			})
		}
		return hit
	}
	if len(findInstrs(h, isCancel)) == 0 {
		r.Fail("cancel-link.whenDone", "R-MUSTCALL", p.Pos(h.Pos()), "the server's termination no longer cancels the batch context: the send loop cannot notice a dead server")
		return
	}
	ok, exit := entryMustPass(h, isCancel)
	pos := p.Pos(h.Pos())
	if !ok && exit != nil {
		pos = p.InstrPos(exit)
	}
	r.Check(ok, "cancel-link.whenDone", "R-MUSTCALL", pos, "the server's whenDone handler cancels the batch context on every path",
		"the server's whenDone handler can return without cancelling the batch context (e.g. only for a non-nil process error): a server that exits cleanly in the middle of a batch is not noticed and the remaining cases are sent to nobody / counted as if they had run")
}
