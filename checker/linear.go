package main

// Linear-form prover used by A-PANIC. Integer SSA values are rendered as
// linear forms c + Σ k·atom over opaque atoms (SSA values compared
// structurally); branch facts become constraints L <= 0; a goal G <= 0 is
// proved when G minus at most two facts leaves a form that is obviously
// non-positive (constant <= 0, every remaining atom known non-negative with a
// non-positive coefficient). No values are computed and no solver is used.

import (
	"go/token"
	"go/types"
	"sort"
	"strings"

	"golang.org/x/tools/go/ssa"
)

type lterm struct {
	v ssa.Value
	k int64
}

type lin struct {
	c  int64
	ts []lterm
	ok bool
}

func linConst(c int64) lin { return lin{c: c, ok: true} }

func (l lin) add(o lin, sign int64) lin {
	if !l.ok || !o.ok {
		return lin{}
	}
	r := lin{c: l.c + sign*o.c, ok: true}
	r.ts = append(r.ts, l.ts...)
	for _, t := range o.ts {
		found := false
		for i := range r.ts {
			if sameVal(r.ts[i].v, t.v) {
				r.ts[i].k += sign * t.k
				found = true
				break
			}
		}
		if !found {
			r.ts = append(r.ts, lterm{t.v, sign * t.k})
		}
	}
	var out []lterm
	for _, t := range r.ts {
		if t.k != 0 {
			out = append(out, t)
		}
	}
	r.ts = out
	return r
}

func (l lin) scale(k int64) lin {
	if !l.ok {
		return l
	}
	r := lin{c: l.c * k, ok: true}
	for _, t := range l.ts {
		if t.k*k != 0 {
			r.ts = append(r.ts, lterm{t.v, t.k * k})
		}
	}
	return r
}

func (l lin) String() string {
	if !l.ok {
		return "?"
	}
	var parts []string
	for _, t := range l.ts {
		parts = append(parts, itoa(t.k)+"·"+path(t.v))
	}
	sort.Strings(parts)
	return itoa(l.c) + " + " + strings.Join(parts, " + ")
}

func itoa(i int64) string {
	neg := i < 0
	if neg {
		i = -i
	}
	if i == 0 {
		return "0"
	}
	var b []byte
	for i > 0 {
		b = append([]byte{byte('0' + i%10)}, b...)
		i /= 10
	}
	if neg {
		return "-" + string(b)
	}
	return string(b)
}

// lenInv is a field-length invariant len(obj.F) <= K.
type lenInv struct {
	Field *types.Var
	K     int64
	Name  string
}

type linProver struct {
	inPhiBound bool // recursion guard of phiBoundFacts
	p          *Prog
	hyp        []lin                  // induction hypotheses in force
	paramNN    map[*ssa.Parameter]int // 0 unknown, 1 non-negative at all call sites, 2 not
	invs       []lenInv
	facts      map[*ssa.BasicBlock][]lin // constraints L <= 0
	summary    map[*ssa.Function]int     // 0 unknown, 1 holds, 2 fails  (result#0 in [0, len(last []byte param)] when result#1 may be true)
}

func newLinProver(p *Prog, invs []lenInv) *linProver {
	return &linProver{p: p, paramNN: map[*ssa.Parameter]int{}, invs: invs, facts: map[*ssa.BasicBlock][]lin{}, summary: map[*ssa.Function]int{}}
}

func isIntType(t types.Type) bool {
	b, ok := t.Underlying().(*types.Basic)
	return ok && b.Info()&types.IsInteger != 0
}

// resolveFieldLoad: a load of x.f that follows, in the same block, a store to
// the same field address with no intervening store to that field and no
// intervening call into the repository resolves to the stored value.
func (lp *linProver) resolveFieldLoad(v ssa.Value) ssa.Value {
	u, ok := v.(*ssa.UnOp)
	if !ok || u.Op != token.MUL {
		return v
	}
	fa, ok := u.X.(*ssa.FieldAddr)
	if !ok {
		return v
	}
	if w := localAllocFieldStore(u, fa); w != nil {
		return w
	}
	b := u.Block()
	idx := -1
	for i, in := range b.Instrs {
		if in == ssa.Instruction(u) {
			idx = i
		}
	}
	for i := idx - 1; i >= 0; i-- {
		switch x := b.Instrs[i].(type) {
		case *ssa.Store:
			if fa2, ok := x.Addr.(*ssa.FieldAddr); ok && fa2.Field == fa.Field && fieldVar(fa2.X.Type(), fa2.Field) == fieldVar(fa.X.Type(), fa.Field) {
				if sameVal(fa2.X, fa.X) {
					return x.Val
				}
				return v
			}
		case ssa.CallInstruction:
			c := x.Common()
			if callee := c.StaticCallee(); callee != nil && !lp.p.IsRepoFunc(callee) {
				continue
			}
			if _, isB := c.Value.(*ssa.Builtin); isB {
				continue
			}
			return v
		}
	}
	return v
}

// lenLin: linear form of len(x).
func (lp *linProver) lenLin(x ssa.Value, d int) lin {
	x = canon(x)
	x = canon(lp.resolveFieldLoad(x))
	if d > 10 {
		return lin{}
	}
	switch y := x.(type) {
	case *ssa.Const:
		if y.Value == nil {
			return linConst(0)
		}
		if s, ok := constString(y); ok {
			return linConst(int64(len(s)))
		}
	case *ssa.MakeSlice:
		return lp.linOf(y.Len, d+1)
	case *ssa.Slice:
		var lo lin = linConst(0)
		if y.Low != nil {
			lo = lp.linOf(y.Low, d+1)
		}
		var hi lin
		if y.High != nil {
			hi = lp.linOf(y.High, d+1)
		} else {
			if n, isArr := lenOfType(y.X.Type()); isArr {
				hi = linConst(n)
			} else {
				hi = lp.lenLin(y.X, d+1)
			}
		}
		return hi.add(lo, -1)
	case *ssa.Call:
		if b, ok := y.Call.Value.(*ssa.Builtin); ok && b.Name() == "append" && len(y.Call.Args) == 2 {
			return lp.lenLin(y.Call.Args[0], d+1).add(lp.lenLin(y.Call.Args[1], d+1), 1)
		}
	}
	if n, isArr := lenOfType(x.Type()); isArr {
		return linConst(n)
	}
	return lin{ok: true, ts: []lterm{{lenAtom{x}, 1}}}
}

// lenAtom is a pseudo-value standing for len(x) of an opaque x.
type lenAtom struct{ ssa.Value }

func (lp *linProver) linOf(v ssa.Value, d int) lin {
	if v == nil {
		return lin{}
	}
	v = canon(v)
	if d > 10 {
		return lin{ok: true, ts: []lterm{{v, 1}}}
	}
	if c, ok := constInt(v); ok {
		return linConst(c)
	}
	if bt, ok := v.Type().Underlying().(*types.Basic); ok && bt.Info()&types.IsUnsigned != 0 {
		// unsigned arithmetic wraps around: never decomposed, the value is an
		// opaque non-negative atom
		if _, isCall := v.(*ssa.Call); !isCall {
			return lin{ok: true, ts: []lterm{{v, 1}}}
		}
	}
	switch x := v.(type) {
	case *ssa.Call:
		if b, ok := x.Call.Value.(*ssa.Builtin); ok && b.Name() == "len" {
			return lp.lenLin(x.Call.Args[0], d+1)
		}
	case *ssa.UnOp:
		if x.Op == token.SUB {
			return lp.linOf(x.X, d+1).scale(-1)
		}
	case *ssa.BinOp:
		switch x.Op {
		case token.ADD:
			if !isRangeIndex(x) {
				return lp.linOf(x.X, d+1).add(lp.linOf(x.Y, d+1), 1)
			}
		case token.SUB:
			return lp.linOf(x.X, d+1).add(lp.linOf(x.Y, d+1), -1)
		case token.MUL:
			if c, ok := constInt(x.Y); ok {
				return lp.linOf(x.X, d+1).scale(c)
			}
			if c, ok := constInt(x.X); ok {
				return lp.linOf(x.Y, d+1).scale(c)
			}
		}
	}
	return lin{ok: true, ts: []lterm{{v, 1}}}
}

// isRangeIndex: the `phi + 1` of a rotated `for i := range x` loop whose phi
// starts at -1: the value used as index; it is >= 0.
func isRangeIndex(bo *ssa.BinOp) bool {
	phi, ok := bo.X.(*ssa.Phi)
	if !ok || bo.Op != token.ADD {
		return false
	}
	if c, ok := constInt(bo.Y); !ok || c != 1 {
		return false
	}
	hasInit, hasStep := false, false
	for _, e := range phi.Edges {
		if c, ok := constInt(e); ok && c == -1 {
			hasInit = true
		} else if e == ssa.Value(bo) {
			hasStep = true
		} else {
			return false
		}
	}
	return hasInit && hasStep
}

// nonNeg: the atom is known to be >= 0.
func (lp *linProver) nonNeg(v ssa.Value, d int) bool {
	if _, ok := v.(lenAtom); ok {
		return true
	}
	v = canon(v)
	if d > 4 {
		return false
	}
	if bt, ok := v.Type().Underlying().(*types.Basic); ok && bt.Info()&types.IsUnsigned != 0 {
		return true
	}
	switch x := v.(type) {
	case *ssa.Call:
		if b, ok := x.Call.Value.(*ssa.Builtin); ok && (b.Name() == "len" || b.Name() == "cap" || b.Name() == "copy") {
			return true
		}
	case *ssa.BinOp:
		if isRangeIndex(x) {
			return true
		}
		if x.Op == token.AND || x.Op == token.REM || x.Op == token.SHR {
			return lp.nonNeg(x.X, d+1)
		}
		if x.Op == token.ADD {
			if c, ok := constInt(x.Y); ok && c >= 1 && isIndexCall(x.X) {
				return true
			}
		}
	case *ssa.Convert:
		// only conversions that canon() did not strip arrive here: narrowing or
		// sign-changing ones. Narrowing to a signed type may yield a negative
		// value; a conversion to an unsigned type was answered above.
		return false
	case *ssa.Extract:
		return isIOCount(x)
	case *ssa.Parameter:
		return lp.paramNonNeg(x)
	case *ssa.Phi:
		// induction variable: constant >= 0 start, steps phi + c (c >= 0)
		for _, e := range x.Edges {
			if c, ok := constInt(e); ok {
				if c < 0 {
					return false
				}
				continue
			}
			if bo, ok := canon(e).(*ssa.BinOp); ok && bo.Op == token.ADD && bo.X == ssa.Value(x) {
				if c, ok := constInt(bo.Y); ok && c >= 0 {
					continue
				}
			}
			if e == ssa.Value(x) {
				continue
			}
			if !lp.nonNeg(e, d+1) {
				return false
			}
		}
		return len(x.Edges) > 0
	}
	return false
}

// paramNonNeg: an integer parameter of a repository function is >= 0 if the
// argument is proved >= 0 at every call site (callers from the call graph).
func (lp *linProver) paramNonNeg(prm *ssa.Parameter) bool {
	if s := lp.paramNN[prm]; s != 0 {
		return s == 1
	}
	lp.paramNN[prm] = 2
	fn := prm.Parent()
	idx := -1
	for i, q := range fn.Params {
		if q == prm {
			idx = i
		}
	}
	node := lp.p.CallGraph().Nodes[fn]
	if node == nil || idx < 0 || len(node.In) == 0 || !isIntType(prm.Type()) {
		return false
	}
	for _, e := range node.In {
		if e.Site == nil {
			return false
		}
		c := e.Site.Common()
		args := c.Args
		if c.IsInvoke() {
			return false
		}
		if idx >= len(args) {
			return false
		}
		if !lp.ge0(args[idx], e.Site.Block()) {
			return false
		}
	}
	lp.paramNN[prm] = 1
	return true
}

// factsAt: branch facts at block b as constraints L <= 0, plus contract facts.
func (lp *linProver) factsAt(b *ssa.BasicBlock) []lin {
	if f, ok := lp.facts[b]; ok {
		return f
	}
	var out []lin
	for _, a := range atomsAt(b) {
		out = append(out, lp.atomConstraints(a)...)
	}
	lp.facts[b] = out
	return out
}

func (lp *linProver) atomConstraints(a Atom) []lin {
	var out []lin
	if a.Op == token.ILLEGAL {
		return nil
	}
	// string comparisons with "": x != "" => len(x) >= 1 ; x == "" => len(x) == 0
	if bt, ok := a.X.Type().Underlying().(*types.Basic); ok && bt.Info()&types.IsString != 0 {
		x, y := a.X, a.Y
		if s, isS := constString(x); isS && s == "" {
			x, y = y, x
		}
		if s, isS := constString(y); isS && s == "" {
			l := lp.lenLin(x, 0)
			switch a.Op {
			case token.NEQ:
				out = append(out, linConst(1).add(l, -1)) // 1 - len <= 0
			case token.EQL:
				out = append(out, l)
			}
		}
		return out
	}
	if !isIntType(a.X.Type()) || !isIntType(a.Y.Type()) {
		return nil
	}
	x, y := lp.linOf(a.X, 0), lp.linOf(a.Y, 0)
	if !x.ok || !y.ok {
		return nil
	}
	d := x.add(y, -1) // x - y
	switch a.Op {
	case token.LSS: // x - y + 1 <= 0
		out = append(out, d.add(linConst(1), 1))
	case token.LEQ:
		out = append(out, d)
	case token.GTR: // y - x + 1 <= 0
		out = append(out, d.scale(-1).add(linConst(1), 1))
	case token.GEQ:
		out = append(out, d.scale(-1))
	case token.EQL:
		out = append(out, d, d.scale(-1))
	case token.NEQ:
		// x != y with x - y known >= 0 (e.g. len(s) != 0): x - y >= 1
		if lp.obviouslyNonPos(d.scale(-1)) { // -(x-y) <= 0
			out = append(out, linConst(1).add(d, -1))
		} else if lp.obviouslyNonPos(d) {
			out = append(out, linConst(1).add(d, 1))
		}
	}
	return out
}

// obviouslyNonPos: constant <= 0 and every atom non-negative with coefficient <= 0.
func (lp *linProver) obviouslyNonPos(l lin) bool {
	if !l.ok || l.c > 0 {
		return false
	}
	for _, t := range l.ts {
		if t.k > 0 {
			return false
		}
		if !lp.nonNeg(t.v, 0) {
			return false
		}
	}
	return true
}

// contractFacts: facts that hold for the atoms of a form regardless of the
// block: G8 (0 <= n <= len(p) for n of Read/Write(p)), field-length
// invariants, callee summaries.
func (lp *linProver) contractFacts(l lin, b *ssa.BasicBlock) []lin {
	var out []lin
	for _, t := range l.ts {
		switch x := t.v.(type) {
		case lenAtom:
			if c, ok := canon(x.Value).(*ssa.Call); ok {
				if f := c.Call.StaticCallee(); f != nil && f.Pkg != nil && (f.Pkg.Pkg.Path() == "strings" || f.Pkg.Pkg.Path() == "bytes") && (f.Name() == "Split" || f.Name() == "SplitN") {
					// G5: with a non-empty constant separator the result has at least
					// one element (SplitN: n != 0); at least two when the same
					// string is known to contain the separator (n >= 2)
					sep, isS := constString(c.Call.Args[1])
					nOK, n2 := true, true
					if f.Name() == "SplitN" {
						k, isK := constInt(c.Call.Args[2])
						nOK = isK && k != 0
						n2 = isK && (k >= 2 || k < 0)
					}
					if isS && sep != "" && nOK {
						out = append(out, lin{ok: true, c: 1, ts: []lterm{{x, -1}}})
						if n2 && b != nil {
							for _, a := range atomsAt(b) {
								m, v := boolTestOn(a, func(y ssa.Value) bool {
									cc, ok := canon(y).(*ssa.Call)
									if !ok {
										return false
									}
									g := cc.Call.StaticCallee()
									return g != nil && g.Pkg != nil && g.Pkg.Pkg.Path() == f.Pkg.Pkg.Path() && g.Name() == "Contains" &&
										sameVal(cc.Call.Args[0], c.Call.Args[0]) && sameVal(cc.Call.Args[1], c.Call.Args[1])
								})
								if m && v {
									out = append(out, lin{ok: true, c: 2, ts: []lterm{{x, -1}}})
								}
							}
						}
					}
				}
			}
			if f := loadedField(x.Value); f != nil {
				for _, inv := range lp.invs {
					if inv.Field == f {
						out = append(out, lin{ok: true, c: -inv.K, ts: []lterm{{x, 1}}})
					}
				}
			}
		case *ssa.BinOp:
			// masks and shifts of unsigned values are bounded
			if m, isC := constInt(x.Y); isC {
				switch x.Op {
				case token.AND:
					if m >= 0 {
						out = append(out, lin{ok: true, c: -m, ts: []lterm{{x, 1}}})
					}
				case token.REM:
					if m > 0 {
						out = append(out, lin{ok: true, c: -(m - 1), ts: []lterm{{x, 1}}})
					}
				case token.SHR:
					if bt, ok := x.X.Type().Underlying().(*types.Basic); ok && m >= 0 && m < 64 {
						bits := int64(0)
						switch bt.Kind() {
						case types.Uint8:
							bits = 8
						case types.Uint16:
							bits = 16
						case types.Uint32:
							bits = 32
						}
						if bits > m {
							out = append(out, lin{ok: true, c: -((int64(1) << uint(bits-m)) - 1), ts: []lterm{{x, 1}}})
						}
					}
				}
			}
		case *ssa.Call:
			// strings/bytes Index family: -1 <= r <= len(s) - 1
			if isIndexCall(x) && len(x.Call.Args) >= 1 {
				out = append(out, lin{ok: true, c: -1, ts: []lterm{{x, -1}}})
				out = append(out, lin{ok: true, c: 1, ts: []lterm{{x, 1}}}.add(lp.lenLin(x.Call.Args[0], 0), -1))
			}
		case *ssa.Extract:
			if c, ok := x.Tuple.(*ssa.Call); ok && x.Index == 0 {
				if isIOCount(x) {
					for _, a := range c.Call.Args {
						if _, isSl := a.Type().Underlying().(*types.Slice); isSl {
							out = append(out, lin{ok: true, ts: []lterm{{x, 1}}}.add(lp.lenLin(a, 0), -1))
						}
					}
				}
				if callee := c.Call.StaticCallee(); callee != nil && lp.p.IsRepoFunc(callee) && lp.needSummary(callee) {
					// result#0 <= len(last []byte arg), result#0 >= 0
					for i := len(c.Call.Args) - 1; i >= 0; i-- {
						if _, isSl := c.Call.Args[i].Type().Underlying().(*types.Slice); isSl {
							out = append(out, lin{ok: true, ts: []lterm{{x, 1}}}.add(lp.lenLin(c.Call.Args[i], 0), -1))
							out = append(out, lin{ok: true, ts: []lterm{{x, -1}}})
							break
						}
					}
				}
			}
		}
	}
	return out
}

// needSummary proves, for a repository function of shape f(..., data []byte) (int, bool),
// that at every return 0 <= result#0 <= len(data).
func (lp *linProver) needSummary(fn *ssa.Function) bool {
	if s := lp.summary[fn]; s != 0 {
		return s == 1
	}
	lp.summary[fn] = 2
	res := fn.Signature.Results()
	if res.Len() != 2 || !isIntType(res.At(0).Type()) {
		return false
	}
	var data *ssa.Parameter
	for _, prm := range fn.Params {
		if _, isSl := prm.Type().Underlying().(*types.Slice); isSl {
			data = prm
		}
	}
	if data == nil {
		return false
	}
	for _, ret := range returnsOf(fn) {
		if b, isC := constBool(ret.Results[1]); isC && !b {
			continue // "not done": the count is not used by callers on this edge
		}
		for _, v := range retVals(ret, 0) {
			if v == nil {
				continue
			}
			g := lp.linOf(v, 0).add(lp.lenLin(data, 0), -1)
			if !lp.prove(g, ret.Block()) || !lp.prove(lp.linOf(v, 0).scale(-1), ret.Block()) {
				return false
			}
		}
	}
	lp.summary[fn] = 1
	return true
}

// prove: G <= 0 at block b.
func (lp *linProver) prove(g lin, b *ssa.BasicBlock) bool {
	if !g.ok {
		return false
	}
	if lp.obviouslyNonPos(g) {
		return true
	}
	facts := append([]lin{}, lp.factsAt(b)...)
	facts = append(facts, lp.hyp...)
	facts = append(facts, lp.contractFacts(g, b)...)
	facts = append(facts, lp.phiBoundFacts(g, facts)...)
	// second-order contract facts (atoms introduced by first-level facts)
	n0 := len(facts)
	for i := 0; i < n0; i++ {
		facts = append(facts, lp.contractFacts(facts[i], b)...)
	}
	for i := range facts {
		r1 := g.add(facts[i], -1)
		if lp.obviouslyNonPos(r1) {
			return true
		}
	}
	for i := range facts {
		r1 := g.add(facts[i], -1)
		for j := range facts {
			if lp.obviouslyNonPos(r1.add(facts[j], -1)) {
				return true
			}
		}
	}
	if len(facts) <= 14 {
		for i := range facts {
			r1 := g.add(facts[i], -1)
			for j := i; j < len(facts); j++ {
				r2 := r1.add(facts[j], -1)
				for k := j; k < len(facts); k++ {
					if lp.obviouslyNonPos(r2.add(facts[k], -1)) {
						return true
					}
				}
			}
		}
	}
	// phi atoms that are not loop-carried: substitute each edge
	for _, t := range g.ts {
		phi, ok := canon(t.v).(*ssa.Phi)
		if !ok || phi.Block() != b && !dominatesBlock(phi.Block(), b) {
			continue
		}
		loop := false
		for _, e := range phi.Edges {
			if dependsOn(e, phi, 0) {
				loop = true
			}
		}
		if loop && len(lp.hyp) > 12 {
			continue
		}
		all := len(phi.Edges) > 0
		for i, e := range phi.Edges {
			sub := g.add(lin{ok: true, ts: []lterm{{t.v, t.k}}}, -1).add(lp.linOf(e, 0).scale(t.k), 1)
			// facts of the incoming edge (the predecessor's own branch outcome included)
			var ef []lin
			for _, a := range edgeAtoms(phi.Block().Preds[i], phi.Block()) {
				ef = append(ef, lp.atomConstraints(a)...)
			}
			nh := len(lp.hyp)
			lp.hyp = append(lp.hyp, ef...)
			if loop && dependsOn(e, phi, 0) {
				// inductive step: assume the goal for the phi, prove it for the next value
				lp.hyp = append(lp.hyp, g)
			}
			ok := lp.proveNoPhi(sub, phi.Block().Preds[i])
			lp.hyp = lp.hyp[:nh]
			if !ok {
				all = false
				break
			}
		}
		if all {
			return true
		}
	}
	return false
}

func (lp *linProver) proveNoPhi(g lin, b *ssa.BasicBlock) bool {
	if lp.obviouslyNonPos(g) {
		return true
	}
	facts := append([]lin{}, lp.factsAt(b)...)
	facts = append(facts, lp.hyp...)
	facts = append(facts, lp.contractFacts(g, b)...)
	facts = append(facts, lp.phiBoundFacts(g, facts)...)
	for i := range facts {
		r1 := g.add(facts[i], -1)
		if lp.obviouslyNonPos(r1) {
			return true
		}
		for j := range facts {
			if lp.obviouslyNonPos(r1.add(facts[j], -1)) {
				return true
			}
		}
	}
	return false
}

func dependsOn(v ssa.Value, phi *ssa.Phi, d int) bool {
	if v == ssa.Value(phi) {
		return true
	}
	if d > 4 {
		return false
	}
	if in, ok := v.(ssa.Instruction); ok {
		for _, op := range in.Operands(nil) {
			if *op != nil && dependsOn(*op, phi, d+1) {
				return true
			}
		}
	}
	return false
}

func dominatesBlock(a, b *ssa.BasicBlock) bool {
	for x := b; x != nil; x = x.Idom() {
		if x == a {
			return true
		}
	}
	return false
}

// ---- goals ----

func (lp *linProver) ge0(v ssa.Value, b *ssa.BasicBlock) bool {
	return lp.prove(lp.linOf(v, 0).scale(-1), b)
}

// ltLen: v < len(x)  <=>  v - len(x) + 1 <= 0
func (lp *linProver) ltLen(v, x ssa.Value, b *ssa.BasicBlock) bool {
	return lp.prove(lp.linOf(v, 0).add(lp.lenLin(x, 0), -1).add(linConst(1), 1), b)
}

func (lp *linProver) leLen(v, x ssa.Value, b *ssa.BasicBlock) bool {
	return lp.prove(lp.linOf(v, 0).add(lp.lenLin(x, 0), -1), b)
}

func (lp *linProver) le(a, c ssa.Value, b *ssa.BasicBlock) bool {
	return lp.prove(lp.linOf(a, 0).add(lp.linOf(c, 0), -1), b)
}

func (lp *linProver) leConst(v ssa.Value, k int64, b *ssa.BasicBlock) bool {
	return lp.prove(lp.linOf(v, 0).add(linConst(k), -1), b)
}

// proveInvariant: every store to inv.Field in the repository keeps
// len(field) <= K, assuming it held before (induction over writers).
func (lp *linProver) proveInvariant(inv lenInv) (bool, ssa.Instruction, int) {
	n := 0
	for _, st := range storesToField(lp.p.RepoFuncs(), inv.Field) {
		n++
		g := lp.lenLin(st.Val, 0).add(linConst(inv.K), -1)
		if !lp.prove(g, st.Instr.Block()) {
			return false, st.Instr, n
		}
	}
	return true, nil, n
}

// localAllocFieldStore: u loads field F of a struct allocated in this very
// function (`x := &T{...}`); the field is written exactly once, by a store
// that dominates the load, and on no path from the allocation to the load has
// the struct been handed to anything (call argument, store, closure binding,
// return, channel send): then the load yields the stored value.
func localAllocFieldStore(u *ssa.UnOp, fa *ssa.FieldAddr) ssa.Value {
	al, ok := fa.X.(*ssa.Alloc)
	if !ok || al.Parent() != u.Parent() || al.Referrers() == nil {
		return nil
	}
	var store *ssa.Store
	after := func(a, b ssa.Instruction) bool { // a strictly after b in the same block
		seen := false
		for _, in := range a.Block().Instrs {
			if in == b {
				seen = true
			} else if in == a {
				return seen
			}
		}
		return false
	}
	// reachAvoidingAlloc: is `to` reachable from the successors of `from`
	// without passing through the allocation (every execution of the Alloc
	// instruction yields a fresh object, so an escape in an earlier loop
	// iteration concerns a different object)?
	reachAvoidingAlloc := func(from, to *ssa.BasicBlock) bool {
		if al.Block() == to {
			return false // entering the load's block from the top re-executes the allocation first
		}
		seen := map[*ssa.BasicBlock]bool{}
		work := append([]*ssa.BasicBlock{}, from.Succs...)
		for len(work) > 0 {
			b := work[len(work)-1]
			work = work[:len(work)-1]
			if seen[b] || b == al.Block() {
				continue
			}
			seen[b] = true
			if b == to {
				return true
			}
			work = append(work, b.Succs...)
		}
		return false
	}
	escapes := func(e ssa.Instruction) bool { // may the escape at e happen before the load, on the same object?
		if e.Block() == u.Block() {
			if !after(e, u) {
				return true
			}
			return reachAvoidingAlloc(e.Block(), u.Block())
		}
		return reachAvoidingAlloc(e.Block(), u.Block())
	}
	for _, ref := range *al.Referrers() {
		switch x := ref.(type) {
		case *ssa.FieldAddr:
			if x.Referrers() == nil {
				continue
			}
			for _, r2 := range *x.Referrers() {
				switch y := r2.(type) {
				case *ssa.Store:
					if y.Addr != ssa.Value(x) { // the field's address is stored somewhere
						if escapes(y) {
							return nil
						}
						continue
					}
					if x.Field == fa.Field {
						if store != nil {
							return nil
						}
						store = y
					}
				case *ssa.UnOp, *ssa.FieldAddr, *ssa.DebugRef:
					if fa2, isFA := y.(*ssa.FieldAddr); isFA {
						_ = fa2 // nested embedded struct field: written through a different path; only F itself matters
						if x.Field == fa.Field {
							return nil
						}
					}
				default:
					if x.Field == fa.Field || true {
						if escapes(r2) {
							return nil
						}
					}
				}
			}
		case *ssa.DebugRef:
		default:
			if escapes(ref) {
				return nil
			}
		}
	}
	if store == nil || store.Parent() != u.Parent() {
		return nil
	}
	if store.Block() == u.Block() {
		if !after(u, store) {
			return nil
		}
	} else if !dominatesBlock(store.Block(), u.Block()) {
		return nil
	}
	return store.Val
}

// phiBoundFacts: the `min` idiom. For a merge phi m (not loop-carried) that
// occurs in the facts at hand and a length atom L of the goal: if every
// incoming value of m is <= L under the facts of its edge, then m <= L.
func (lp *linProver) phiBoundFacts(g lin, facts []lin) []lin {
	if lp.inPhiBound {
		return nil
	}
	lp.inPhiBound = true
	defer func() { lp.inPhiBound = false }()
	var lens []lterm
	for _, t := range g.ts {
		if _, ok := t.v.(lenAtom); ok {
			lens = append(lens, t)
		}
	}
	if len(lens) == 0 {
		return nil
	}
	seen := map[*ssa.Phi]bool{}
	var out []lin
	for _, f := range facts {
		for _, t := range f.ts {
			phi, ok := canon(t.v).(*ssa.Phi)
			if !ok || seen[phi] || len(phi.Edges) == 0 || len(phi.Edges) > 4 || !isIntType(phi.Type()) {
				continue
			}
			seen[phi] = true
			loop := false
			for _, e := range phi.Edges {
				if dependsOn(e, phi, 0) {
					loop = true
				}
			}
			if loop {
				continue
			}
			for _, L := range lens {
				all := true
				for i, e := range phi.Edges {
					var ef []lin
					for _, a := range edgeAtoms(phi.Block().Preds[i], phi.Block()) {
						ef = append(ef, lp.atomConstraints(a)...)
					}
					nh := len(lp.hyp)
					lp.hyp = append(lp.hyp, ef...)
					sub := lp.linOf(e, 0).add(lin{ok: true, ts: []lterm{{L.v, 1}}}, -1)
					ok := lp.proveNoPhi(sub, phi.Block().Preds[i])
					lp.hyp = lp.hyp[:nh]
					if !ok {
						all = false
						break
					}
				}
				if all {
					out = append(out, lin{ok: true, ts: []lterm{{phi, 1}}}.add(lin{ok: true, ts: []lterm{{L.v, 1}}}, -1))
				}
			}
		}
	}
	return out
}
