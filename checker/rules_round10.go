package main

// Rules added after the tenth round of independent seeded changes.

import (
	"fmt"
	"go/constant"
	"go/token"
	"go/types"
	"strings"

	"golang.org/x/tools/go/ssa"
)

var round10Rules = map[string][]func(*Prog, *Report){
	"C01": {serverCertFilteredRule},
	"C02": {grpcClientEOFNotErrorRule},
	"C03": {timeoutPresenceNotByValueRule},
	"C04": {feedbackIndependentOfErrorRule, clientErrorNeverNilRule},
	"C05": {serverTimeoutBelowClientIdleRule},
	"C07": {rawResponseFirstMessageRule},
	"C08": {guardSameTrieRule},
	"C09": {truncationNotCleanEndRule},
	"C12": {timeoutRecordedUnconditionalRule},
	"C14": {goawayBoundaryRule},
	"C15": {frameGetsPrefixRule, everyFrameParsedRule},
	"C18": {noInputMutationRule},
	"C19": {clientLimitAlwaysSetRule},
	"C20": {readPassthroughRule},
}

var round10Explain = map[string]string{
	"C01": "(tls.server-cert-filtered) the client certificate is withheld from the server's start-up request unless the instance uses client certificates (the filter runs before the request is built)",
	"C02": "(grpc-client.eof-not-error) the gRPC reference client converts a Recv error to an RPC error only when it is not io.EOF, at every receive site",
	"C03": "(timeout.presence-not-by-value) checkRequestInfo never tests the presence of an echoed timeout through the value of GetTimeoutMs()",
	"C04": "(feedback.independent-of-error) reference-client feedback is recorded for error results too; (client-error.never-nil) a client-reported error is recorded with an error that cannot be nil",
	"C05": "(timeouts.server-below-client-idle) the time allowed for a server to report in is shorter than the client's idle limit",
	"C07": "(raw-response.first-message) whether a stream prescribes a raw response is read from its FIRST request message, as the servers and the expectation generator do",
	"C08": "(unmatched.guard-same-trie) each pattern validation is switched on by the length of the trie it validates",
	"C09": "(truncation-not-clean-end) no peer's request loop treats io.ErrUnexpectedEOF like io.EOF",
	"C12": "(timeout.recorded-unconditional) every accepted timeout is recorded in the request context, zero included",
	"C14": "(client.body-never-nil) a nil request body is replaced by http.NoBody before the tracing round tripper wraps it (defect D22); (goaway.boundary) streams are aborted by GOAWAY only when their id is GREATER than the last-stream-id, everywhere",
	"C15": "(accumulate.frame-gets-prefix) the frame buffer is fed with the accumulated 9-byte header; (hpack.every-frame-parsed) emitFrame runs every frame through the framer (the HPACK decoder is shared by the direction)",
	"C18": "(no-input-mutation) ConvertProtoHeaderToMetadata does not write into the header list it converts",
	"C19": "(client-limit.always-set) expandCases sets the client's receive limit independently of the TLS mode",
	"C20": "(read.passthrough) the decompressor wrappers' Read methods do not turn a clean end into an error",
}

func init() {
	for id, extra := range round10Explain {
		m := registry[id]
		if m == nil {
			continue
		}
		if i := strings.Index(m.Explain, " It does NOT decide"); i >= 0 {
			m.Explain = strings.TrimRight(m.Explain[:i], ". ;") + "; " + extra + "." + m.Explain[i:]
		} else {
			m.Explain = strings.TrimRight(m.Explain, ". ") + "; " + extra + "."
		}
	}
}

func isEOFGlobal(v ssa.Value, name string) bool {
	u, ok := canon(v).(*ssa.UnOp)
	if !ok || u.Op != token.MUL {
		return false
	}
	g, ok := u.X.(*ssa.Global)
	return ok && g.Pkg != nil && g.Pkg.Pkg.Path() == "io" && g.Name() == name
}

// ---------- C01 ----------

func serverCertFilteredRule(p *Prog, r *Report) {
	fn := p.Func(pkgCC, "", "runTestCasesForServer")
	f := p.Field(pkgGen, "ServerCompatRequest", "ClientTlsCert")
	if fn == nil || f == nil {
		r.Undecided("tls.server-cert-filtered", "R-GUARD", "runTestCasesForServer / ServerCompatRequest.ClientTlsCert not found")
		return
	}
	r.Func(funcName(fn))
	n := 0
	bad := ""
	pos := p.Pos(fn.Pos())
	for _, st := range storesToField([]*ssa.Function{fn}, f) {
		n++
		r.Sites++
		// the stored certificate must be nil on the ¬useTLSClientCerts path: some leaf of the
		// value (through getters / field loads of clientCreds) is nil under that fact
		filtered := false
		for v := range operandClosure(st.Val) {
			phi, ok := v.(*ssa.Phi)
			if !ok {
				continue
			}
			for _, l := range phiLeaves(phi) {
				if !isNilValue(l.Val) {
					continue
				}
				for _, a := range l.Facts {
					if k, neg, ok := genericKey(a); ok && strings.HasSuffix(k, ".useTLSClientCerts") && neg {
						filtered = true
					}
				}
			}
		}
		if !filtered {
			bad += " the certificate stored at " + p.InstrPos(st.Instr) + " is " + path(st.Val) + ", not withheld when the instance does not use client certificates;"
			pos = p.InstrPos(st.Instr)
		}
	}
	r.Check(n >= 1 && bad == "", "tls.server-cert-filtered", "R-GUARD", pos, "ClientTlsCert is nil on the ¬useTLSClientCerts path",
		"the server's start-up request carries the client certificate although the instance does not use client certificates:"+bad+" the reference server then demands a certificate the client was not given (its credentials ARE withheld), and every TLS permutation without client certificates fails with `tls: certificate required`")
}

// ---------- C02 ----------

func grpcClientEOFNotErrorRule(p *Prog, r *Report) {
	n := 0
	bad := ""
	pos := "-"
	for _, fn := range p.RepoFuncs() {
		if pkgOfFunc(fn) != modPath+"/internal/app/grpcclient" {
			continue
		}
		eachInstr(fn, func(in ssa.Instruction) {
			c := callCommon(in)
			if c == nil || c.StaticCallee() == nil || c.StaticCallee().Name() != "ConvertGrpcToProtoError" {
				return
			}
			// only errors that come from a Recv()
			arg := canon(c.Args[0])
			ex, ok := arg.(*ssa.Extract)
			if !ok {
				return
			}
			rc, ok := ex.Tuple.(*ssa.Call)
			if !ok || calleeObj(&rc.Call) == nil || calleeObj(&rc.Call).Name() != "Recv" {
				return
			}
			// a Recv whose message is discarded (`_, err := stream.Recv()` after Send reported
			// EOF) only fetches the status: not a receive site of the response stream
			usesMsg := false
			if rc.Referrers() != nil {
				for _, ref := range *rc.Referrers() {
					if e0, isEx := ref.(*ssa.Extract); isEx && e0.Index == 0 && e0.Referrers() != nil && len(*e0.Referrers()) > 0 {
						usesMsg = true
					}
				}
			}
			if !usesMsg {
				return
			}
			n++
			r.Sites++
			if !guardedBy(in, func(a Atom) bool {
				if a.Op == token.ILLEGAL && a.Neg {
					if cc, ok := canon(a.X).(*ssa.Call); ok && isCallToNamed(&cc.Call, "errors", "", "Is") && canon(cc.Call.Args[0]) == arg && isEOFGlobal(cc.Call.Args[1], "EOF") {
						return true
					}
				}
				if a.Op == token.NEQ && a.Y != nil && (canon(a.X) == arg && isEOFGlobal(a.Y, "EOF") || canon(a.Y) == arg && isEOFGlobal(a.X, "EOF")) {
					return true
				}
				return false
			}) {
				bad += " " + shortFn(fn) + " at " + p.InstrPos(in) + ";"
				pos = p.InstrPos(in)
			}
		})
	}
	r.Check(n >= 3 && bad == "", "grpc-client.eof-not-error", "R-SIBLING", pos, fmt.Sprintf("%d Recv errors converted to RPC errors, each only when it is not io.EOF", n),
		"the gRPC reference client converts the error of a Recv() without having excluded io.EOF:"+bad+" a clean end of the response stream (the server answered OK with fewer responses than requests) is reported as CODE_UNKNOWN \"EOF\", while the other receive sites and the connect-go client treat it as the end")
}

// ---------- C03 ----------

func timeoutPresenceNotByValueRule(p *Prog, r *Report) {
	fn := p.Func(pkgCC, "", "checkRequestInfo")
	if fn == nil {
		r.Undecided("timeout.presence-not-by-value", "R-GUARD", "checkRequestInfo not found")
		return
	}
	r.Func(funcName(fn))
	r.Sites++
	bad := ""
	pos := p.Pos(fn.Pos())
	eachInstr(fn, func(in ssa.Instruction) {
		b, ok := in.(*ssa.BinOp)
		if !ok {
			return
		}
		for _, pair := range [][2]ssa.Value{{b.X, b.Y}, {b.Y, b.X}} {
			if !getterOf(pair[0], "GetTimeoutMs") {
				continue
			}
			if k, isK := constInt(pair[1]); isK && k == 0 {
				bad += fmt.Sprintf(" GetTimeoutMs() %s 0 at %s;", b.Op, p.InstrPos(in))
				pos = p.InstrPos(in)
			}
		}
	})
	r.Check(bad == "", "timeout.presence-not-by-value", "R-GUARD", pos, "the presence of timeout_ms is tested on the optional field, never through GetTimeoutMs() against 0",
		"checkRequestInfo tests whether a timeout was echoed through the VALUE of the nil-safe getter:"+bad+" an optional int64 that is present and 0 looks absent — an echoed 0 ms inside the grace window is reported as `did not echo back a timeout` (or an unexpected explicit 0 is accepted)")
}

// ---------- C04 ----------

func feedbackIndependentOfErrorRule(p *Prog, r *Report) {
	fn := p.Func(pkgCC, "", "runTestCasesForServer")
	rec := p.Func(pkgCC, "testResults", "recordSideband")
	if fn == nil || rec == nil {
		r.Undecided("feedback.independent-of-error", "R-GUARD", "runTestCasesForServer / recordSideband not found")
		return
	}
	n := 0
	bad := ""
	pos := p.Pos(fn.Pos())
	for _, cl := range withClosures(fn) {
		for _, in := range findInstrs(cl, isCallObj(funcObj(rec))) {
			// only the feedback of the reference CLIENT (inside the response callback)
			if cl == fn {
				continue
			}
			isFeedback := false
			for v := range operandClosure(callCommon(in).Args[len(callCommon(in).Args)-1]) {
				if f := loadedField(v); f != nil && f.Name() == "Feedback" {
					isFeedback = true
				}
				if getterOf(v, "GetFeedback") {
					isFeedback = true
				}
			}
			if !isFeedback {
				continue
			}
			n++
			r.Sites++
			for _, a := range atomsAt(in.Block()) {
				for v := range operandClosure(a.X) {
					if getterOf(v, "GetError") {
						bad += " the feedback recorded at " + p.InstrPos(in) + " is under " + a.String() + ";"
						pos = p.InstrPos(in)
					}
				}
			}
		}
	}
	r.Check(n >= 1 && bad == "", "feedback.independent-of-error", "R-GUARD", pos, "reference-client feedback is recorded whatever the RPC's result",
		"feedback of the reference client is only recorded for results without an RPC error:"+bad+" ClientResponseResult.Error is the RPC's (expected) error, not a client failure — a server that returns exactly the expected error with a wire deviation keeps its passing result and the case is not named")
}

func clientErrorNeverNilRule(p *Prog, r *Report) {
	fn := p.Func(pkgCC, "testResults", "failed")
	if fn == nil {
		r.Undecided("client-error.never-nil", "R-WIRE", "testResults.failed not found")
		return
	}
	r.Func(funcName(fn))
	n := 0
	bad := ""
	eachInstr(fn, func(in ssa.Instruction) {
		c := callCommon(in)
		if c == nil || c.StaticCallee() == nil || c.StaticCallee().Name() != "setOutcome" {
			return
		}
		n++
		r.Sites++
		v := canon(c.Args[len(c.Args)-1])
		if mi, ok := v.(*ssa.MakeInterface); ok {
			v = canon(mi.X)
		}
		cc, ok := v.(*ssa.Call)
		if !ok || !(isCallToNamed(&cc.Call, "errors", "", "New") || isCallToNamed(&cc.Call, "fmt", "", "Errorf")) {
			bad += " the error recorded at " + p.InstrPos(in) + " is " + path(c.Args[len(c.Args)-1]) + ", which can be nil;"
		}
	})
	r.Check(n >= 1 && bad == "", "client-error.never-nil", "R-WIRE", p.Pos(fn.Pos()), "the outcome of a client-reported error is errors.New(…)",
		"a client-reported error is recorded with an error value that can be nil:"+bad+" a nil error is a PASS — a client that answers with the error arm and a blank message has its case counted as passed (and a known-failing one reported as `did not fail`)")
}

// ---------- C05 ----------

func serverTimeoutBelowClientIdleRule(p *Prog, r *Report) {
	sc, cc := p.Const(pkgCC, "serverResponseTimeout"), p.Const(pkgCC, "clientResponseTimeout")
	if sc == nil || cc == nil {
		r.Undecided("timeouts.server-below-client-idle", "R-TABLE-AGREE", "serverResponseTimeout / clientResponseTimeout not found")
		return
	}
	r.Sites += 2
	sv, ok1 := constant.Int64Val(constant.ToInt(sc.Val()))
	cv, ok2 := constant.Int64Val(constant.ToInt(cc.Val()))
	r.Check(ok1 && ok2 && sv < cv, "timeouts.server-below-client-idle", "R-TABLE-AGREE", p.Pos(sc.Pos()), fmt.Sprintf("serverResponseTimeout (%d ns) < clientResponseTimeout (%d ns)", sv, cv),
		fmt.Sprintf("serverResponseTimeout (%d ns) is not below clientResponseTimeout (%d ns): consumeOutput applies the client limit to every read of the client's output, also while no request is outstanding — while the runner waits for a slow server to report in, the idle client is declared dead, and the permutations of that and every later batch are neither executed nor recorded as that server's start-up failure", sv, cv))
}

// ---------- C07 ----------

func rawResponseFirstMessageRule(p *Prog, r *Report) {
	fn := p.Func(pkgCC, "", "hasRawResponse")
	if fn == nil {
		r.Undecided("raw-response.first-message", "R-WIRE", "hasRawResponse not found")
		return
	}
	r.Func(funcName(fn))
	n := 0
	bad := ""
	eachInstr(fn, func(in ssa.Instruction) {
		ia, ok := in.(*ssa.IndexAddr)
		if !ok || canon(ia.X) != ssa.Value(fn.Params[0]) {
			return
		}
		n++
		r.Sites++
		if k, isK := constInt(ia.Index); !isK || k != 0 {
			bad += " reqs[" + path(ia.Index) + "] at " + p.InstrPos(in) + ";"
		}
	})
	r.Check(n >= 1 && bad == "", "raw-response.first-message", "R-WIRE", p.Pos(fn.Pos()), "the response definition is read from reqs[0]",
		"hasRawResponse looks at a request message other than the first:"+bad+" both servers and the expectation generator take the response definition from the FIRST message of a stream, so a multi-message stream whose first message prescribes a raw response is not recognised — it is admitted to suites and gRPC-peer permutations that cannot serve it")
}

// ---------- C08 ----------

func guardSameTrieRule(p *Prog, r *Report) {
	fn := p.Func(pkgCC, "", "run")
	if fn == nil {
		r.Undecided("unmatched.guard-same-trie", "R-GUARD", "run not found")
		return
	}
	r.Func(funcName(fn))
	n := 0
	bad := ""
	pos := p.Pos(fn.Pos())
	eachInstr(fn, func(in ssa.Instruction) {
		c := callCommon(in)
		if c == nil || c.StaticCallee() == nil || c.StaticCallee().Name() != "tryMatchPatterns" || len(c.Args) < 2 {
			return
		}
		trie := canon(c.Args[1])
		// guarded by <some trie>.length() > 0 ?
		for _, a := range atomsAt(in.Block()) {
			lc, ok := canon(a.X).(*ssa.Call)
			if !ok || lc.Call.StaticCallee() == nil || lc.Call.StaticCallee().Name() != "length" {
				continue
			}
			n++
			r.Sites++
			if canon(lc.Call.Args[0]) != trie {
				what, _ := constString(c.Args[0])
				bad += fmt.Sprintf(" the validation of the %q patterns (%s) at %s is switched on by %s.length();", what, path(c.Args[1]), p.InstrPos(in), path(lc.Call.Args[0]))
				pos = p.InstrPos(in)
			}
		}
	})
	r.Check(n >= 2 && bad == "", "unmatched.guard-same-trie", "R-GUARD", pos, fmt.Sprintf("%d length-guarded validations, each guarded by its own trie", n),
		"a pattern set is validated only when ANOTHER pattern set is non-empty:"+bad+" given alone, its patterns are never checked, so one that matches no permutation is accepted silently")
}

// ---------- C09 ----------

func truncationNotCleanEndRule(p *Prog, r *Report) {
	n := 0
	bad := ""
	pos := "-"
	for _, fn := range p.RepoFuncs() {
		pk := pkgOfFunc(fn)
		if !strings.Contains(pk, "/internal/app/") || pk == ccPath {
			continue
		}
		eachInstr(fn, func(in ssa.Instruction) {
			c := callCommon(in)
			if c == nil || !isCallToNamed(c, "errors", "", "Is") || len(c.Args) != 2 {
				return
			}
			if isEOFGlobal(c.Args[1], "EOF") {
				n++
				r.Sites++
			}
			if !isEOFGlobal(c.Args[1], "ErrUnexpectedEOF") {
				return
			}
			// does it share a short-circuit condition with an errors.Is(x, io.EOF)?
			v, isV := in.(ssa.Value)
			if !isV || v.Referrers() == nil {
				return
			}
			// `if errors.Is(e, io.EOF) || errors.Is(e, io.ErrUnexpectedEOF) {`: two branches into one block
			if blk := in.Block(); len(blk.Instrs) > 0 {
				if iff, ok := blk.Instrs[len(blk.Instrs)-1].(*ssa.If); ok && iff.Cond == v {
					target := blk.Succs[0]
					for _, pb := range target.Preds {
						if pb == blk || len(pb.Instrs) == 0 {
							continue
						}
						if i2, ok := pb.Instrs[len(pb.Instrs)-1].(*ssa.If); ok && pb.Succs[0] == target {
							if cc, ok := i2.Cond.(*ssa.Call); ok && isCallToNamed(&cc.Call, "errors", "", "Is") && isEOFGlobal(cc.Call.Args[1], "EOF") {
								bad += " " + shortFn(fn) + " at " + p.InstrPos(in) + ";"
								pos = p.InstrPos(in)
								return
							}
						}
					}
				}
			}
			for _, ref := range *v.Referrers() {
				phi, ok := ref.(*ssa.Phi)
				if !ok {
					continue
				}
				for _, l := range phiLeaves(phi) {
					for _, a := range l.Facts {
						if cc, ok := canon(a.X).(*ssa.Call); ok && isCallToNamed(&cc.Call, "errors", "", "Is") && isEOFGlobal(cc.Call.Args[1], "EOF") {
							bad += " " + shortFn(fn) + " at " + p.InstrPos(in) + ";"
							pos = p.InstrPos(in)
							return
						}
					}
				}
			}
		})
	}
	r.Check(n >= 2 && bad == "", "truncation-not-clean-end", "R-SIBLING", pos, fmt.Sprintf("%d end-of-input tests in the peers, none also accepts io.ErrUnexpectedEOF", n),
		"a peer's request loop treats io.ErrUnexpectedEOF like io.EOF:"+bad+" the decoders take care to report a stream that ends inside a prefix or a message as UNEXPECTED end; classifying it with the clean end makes the peer exit normally without running or reporting the cut-off request")
}

// ---------- C12 ----------

func timeoutRecordedUnconditionalRule(p *Prog, r *Report) {
	outer := p.Func(pkgRS, "", "referenceServerChecks")
	ext := p.Func(pkgRS, "", "extractTimeout")
	cwt := p.Func(pkgRS, "", "contextWithTimeout")
	if outer == nil || ext == nil || cwt == nil {
		r.Undecided("timeout.recorded-unconditional", "R-GUARD", "referenceServerChecks / extractTimeout / contextWithTimeout not found")
		return
	}
	n := 0
	bad := ""
	pos := p.Pos(outer.Pos())
	for _, cl := range withClosures(outer) {
		calls := findInstrs(cl, isCallObj(funcObj(ext)))
		if len(calls) != 1 {
			continue
		}
		tup := calls[0].(ssa.Value)
		fromTuple := func(v ssa.Value, idx int) bool {
			ex, ok := canon(v).(*ssa.Extract)
			return ok && ex.Tuple == tup && ex.Index == idx
		}
		for _, in := range findInstrs(cl, isCallObj(funcObj(cwt))) {
			n++
			r.Sites++
			hasOK := false
			for _, a := range atomsAt(in.Block()) {
				if m, v := boolTestOn(a, func(x ssa.Value) bool { return fromTuple(x, 1) }); m && v {
					hasOK = true
					continue
				}
				for x := range operandClosure(a.X) {
					if fromTuple(x, 0) {
						bad += " the timeout is recorded at " + p.InstrPos(in) + " only under " + a.String() + ";"
						pos = p.InstrPos(in)
					}
				}
			}
			if !hasOK {
				bad += " the timeout recorded at " + p.InstrPos(in) + " is not on the ok edge of extractTimeout;"
			}
		}
	}
	r.Check(n == 1 && bad == "", "timeout.recorded-unconditional", "R-GUARD", pos, "the timeout is put into the context exactly when extractTimeout accepted one",
		"referenceServerChecks does not record every timeout extractTimeout accepted:"+bad+" the header has already been accepted and removed, so a grammatical zero timeout is neither enforced nor echoed (timeout_ms absent from the request info)")
}

// ---------- C14 ----------

func goawayBoundaryRule(p *Prog, r *Report) {
	n := 0
	bad := ""
	pos := "-"
	isMax := func(v ssa.Value) bool {
		v = canon(v)
		if prm, ok := v.(*ssa.Parameter); ok && prm.Name() == "maxStreamID" {
			return true
		}
		f := loadedField(v)
		return f != nil && f.Name() == "maxStreamID"
	}
	for _, fn := range tracerFuncs(p) {
		eachInstr(fn, func(in ssa.Instruction) {
			b, ok := in.(*ssa.BinOp)
			if !ok {
				return
			}
			switch b.Op {
			case token.GTR, token.GEQ, token.LSS, token.LEQ:
			default:
				return
			}
			x, y, op := b.X, b.Y, b.Op
			if isMax(x) && !isMax(y) {
				x, y, op = y, x, flipOp(op)
			}
			if !isMax(y) || isMax(x) {
				return
			}
			if k, isK := constInt(x); isK && k == 0 {
				return
			}
			n++
			r.Sites++
			r.Func(funcName(fn))
			// "beyond the last stream id": id > max  (or max < id, normalised above)
			if op != token.GTR && op != token.LEQ {
				bad += fmt.Sprintf(" %s compares a stream id with the last-stream-id using %s at %s;", shortFn(fn), op, p.InstrPos(in))
				pos = p.InstrPos(in)
			}
		})
	}
	r.Check(n >= 2 && bad == "", "goaway.boundary", "R-SIBLING", pos, fmt.Sprintf("%d comparisons with the GOAWAY last-stream-id, all `id > last`", n),
		"the tracer treats the stream whose id EQUALS the GOAWAY last-stream-id as refused:"+bad+" last-stream-id names the highest stream the sender will still finish; its trace gets an early body-end with `connection error: NO_ERROR` and loses every later message and the trailers (the sites that compare with the last-stream-id must agree)")
}

// ---------- C15 ----------

func frameGetsPrefixRule(p *Prog, r *Report) {
	fn := p.Func(pkgTr, "http2FrameTracer", "traceHeaderLocked")
	if fn == nil {
		r.Undecided("accumulate.frame-gets-prefix", "R-WIRE", "traceHeaderLocked not found")
		return
	}
	r.Func(funcName(fn))
	n := 0
	bad := ""
	eachInstr(fn, func(in ssa.Instruction) {
		c := callCommon(in)
		if c == nil || c.StaticCallee() == nil || c.StaticCallee().Name() != "Write" || len(c.Args) != 2 {
			return
		}
		fa, ok := c.Args[0].(*ssa.FieldAddr)
		if !ok || fieldName(fa.X.Type(), fa.Field) != "frame" {
			return
		}
		n++
		r.Sites++
		if f := loadedField(canon(c.Args[1])); f == nil || f.Name() != "prefix" {
			bad += " frame.Write(" + path(c.Args[1]) + ") at " + p.InstrPos(in) + ";"
		}
	})
	r.Check(n >= 1 && bad == "", "accumulate.frame-gets-prefix", "R-WIRE", p.Pos(fn.Pos()), "the frame buffer receives h.prefix (the whole accumulated header)",
		"traceHeaderLocked feeds the frame buffer with something other than the accumulated 9-byte header:"+bad+" when the header arrives split over two reads or writes only its last piece is kept, the frame is garbled, the frame tracer marks itself broken and every later event on the connection is lost")
}

func everyFrameParsedRule(p *Prog, r *Report) {
	fn := p.Func(pkgTr, "http2FrameTracer", "emitFrame")
	if fn == nil {
		r.Undecided("hpack.every-frame-parsed", "R-MUSTCALL", "emitFrame not found")
		return
	}
	r.Func(funcName(fn))
	r.Sites++
	ok, exit := entryMustPass(fn, func(in ssa.Instruction) bool {
		c := callCommon(in)
		return c != nil && c.StaticCallee() != nil && c.StaticCallee().Name() == "ReadFrame"
	})
	where := ""
	if exit != nil {
		where = " (" + p.InstrPos(exit) + ")"
	}
	r.Check(ok, "hpack.every-frame-parsed", "R-MUSTCALL", p.Pos(fn.Pos()), "every path of emitFrame passes Framer.ReadFrame",
		"emitFrame can return without running the frame through the framer"+where+": parsing HEADERS is what feeds the direction's shared HPACK decoder; skipping a frame (say, of a stream that was reset) leaves the dynamic table behind the peer's encoder, the next stream's header block fails to decode, the direction is marked broken and no later stream yields a trace")
}

// ---------- C18 ----------

func noInputMutationRule(p *Prog, r *Report) {
	fn := p.Func(pkgGU, "", "ConvertProtoHeaderToMetadata")
	valF := p.Field(pkgGen, "Header", "Value")
	if fn == nil || valF == nil {
		r.Undecided("no-input-mutation", "R-NOFLOW", "ConvertProtoHeaderToMetadata / Header.Value not found")
		return
	}
	r.Func(funcName(fn))
	n := 0
	bad := ""
	eachInstr(fn, func(in ssa.Instruction) {
		st, ok := in.(*ssa.Store)
		if !ok {
			return
		}
		ia, ok := st.Addr.(*ssa.IndexAddr)
		if !ok {
			return
		}
		n++
		r.Sites++
		for _, l := range phiLeaves(canon(ia.X)) {
			if loadedField(canon(l.Val)) == valF {
				bad += " an element of the input's Value slice is overwritten at " + p.InstrPos(in) + ";"
			}
		}
	})
	r.Check(n >= 1 && bad == "", "no-input-mutation", "R-NOFLOW", p.Pos(fn.Pos()), "decoded values are written into a slice of the function's own",
		"ConvertProtoHeaderToMetadata writes the decoded -bin values into the header list it was given:"+bad+" the caller's list now holds raw bytes where base64 text was; used again (converted a second time, echoed, compared) the values are decoded twice or no longer match")
}

// ---------- C19 ----------

func clientLimitAlwaysSetRule(p *Prog, r *Report) {
	fn := p.Func(pkgCC, "testCaseLibrary", "expandCases")
	f := p.Field(pkgGen, "ClientCompatRequest", "MessageReceiveLimit")
	if fn == nil || f == nil {
		r.Undecided("client-limit.always-set", "R-GUARD", "expandCases / MessageReceiveLimit not found")
		return
	}
	r.Func(funcName(fn))
	n := 0
	bad := ""
	pos := p.Pos(fn.Pos())
	for _, st := range storesToField([]*ssa.Function{fn}, f) {
		n++
		r.Sites++
		for _, a := range atomsAt(st.Instr.Block()) {
			if k, _, ok := genericKey(a); ok && strings.Contains(k, "TLS") {
				bad += " the limit is set at " + p.InstrPos(st.Instr) + " only under " + a.String() + ";"
				pos = p.InstrPos(st.Instr)
			}
		}
	}
	r.Check(n == 1 && bad == "", "client-limit.always-set", "R-GUARD", pos, "message_receive_limit is set independently of the TLS mode",
		"expandCases sets the client's receive limit only for some TLS modes:"+bad+" the other permutations carry message_receive_limit = 0, for which the reference client installs no limit at all and accepts responses of any size")
}

// ---------- C20 ----------

func readPassthroughRule(p *Prog, r *Report) {
	n := 0
	bad := ""
	pos := "-"
	for _, fn := range p.RepoFuncs() {
		if pkgOfFunc(fn) != modPath+"/"+pkgComp || fn.Name() != "Read" || fn.Signature.Recv() == nil {
			continue
		}
		n++
		r.Sites++
		r.Func(funcName(fn))
		eachInstr(fn, func(in ssa.Instruction) {
			for _, op := range in.Operands(nil) {
				if g, ok := (*op).(*ssa.Global); ok && g.Pkg != nil && g.Pkg.Pkg.Path() == "io" && g.Name() == "ErrUnexpectedEOF" {
					bad += " " + shortFn(fn) + " at " + p.InstrPos(in) + ";"
					pos = p.InstrPos(in)
				}
			}
		})
		_ = types.Typ
	}
	r.Check(n >= 5 && bad == "", "read.passthrough", "R-PASSTHRU", pos, fmt.Sprintf("%d Read methods of the decompressor wrappers, none manufactures an unexpected-EOF", n),
		"a decompressor wrapper's Read turns the library's result into io.ErrUnexpectedEOF:"+bad+" the matching compressor may legitimately produce no bytes at all for an empty message (framed snappy does), so `nothing was produced` is not `the stream was cut` — compress(\"\") no longer decompresses")
}

// ---------- defect found while reviewing rounds 9/10 (D22) ----------

// clientBodyNeverNilRule (D22): in TracingRoundTripper the request body handed
// to the tracing reader cannot be nil: a nil Body (a GET built without body, as
// when http.Client follows a 302) is replaced by http.NoBody first.
func clientBodyNeverNilRule(p *Prog, r *Report) {
	outer := p.Func(pkgTr, "", "TracingRoundTripper")
	if outer == nil {
		r.Undecided("client.body-never-nil", "R-NIL", "TracingRoundTripper not found")
		return
	}
	r.Func(funcName(outer))
	n := 0
	bad := ""
	for _, cl := range withClosures(outer) {
		for _, in := range findInstrs(cl, func(in ssa.Instruction) bool {
			c := callCommon(in)
			return c != nil && c.StaticCallee() != nil && c.StaticCallee().Name() == "newRequestReader"
		}) {
			n++
			r.Sites++
			// a store of http.NoBody into the Body field on the Body == nil edge precedes the call
			ok := precededByOnNilEdge(cl, in)
			if !ok {
				bad += " the body passed at " + p.InstrPos(in) + " can be nil;"
			}
		}
	}
	r.Check(n >= 1 && bad == "", "client.body-never-nil", "R-NIL", p.Pos(outer.Pos()), "a nil request body is replaced by http.NoBody before it is wrapped",
		"TracingRoundTripper wraps a request body that may be nil:"+bad+" the transport probes the wrapped body and the tracing reader dereferences the nil reader — a server under test that answers 302 makes http.Client follow with a body-less GET and the reference client crashes inside a net/http goroutine")
}

func precededByOnNilEdge(fn *ssa.Function, call ssa.Instruction) bool {
	found := false
	eachInstr(fn, func(in ssa.Instruction) {
		st, ok := in.(*ssa.Store)
		if !ok {
			return
		}
		fa, ok := st.Addr.(*ssa.FieldAddr)
		if !ok || fieldName(fa.X.Type(), fa.Field) != "Body" {
			return
		}
		isNoBody := false
		for v := range operandClosure(st.Val) {
			if g, ok := v.(*ssa.Global); ok && g.Pkg != nil && g.Pkg.Pkg.Path() == "net/http" && g.Name() == "NoBody" {
				isNoBody = true
			}
		}
		if !isNoBody {
			return
		}
		if !guardedBy(in, func(a Atom) bool {
			m, isNil := nilTestOn(a, func(x ssa.Value) bool {
				f := loadedField(canon(x))
				return f != nil && f.Name() == "Body"
			})
			return m && isNil
		}) {
			return
		}
		if reachesInstr(in, call) {
			found = true
		}
	})
	return found
}

func init() {
	round10Rules["C14"] = append(round10Rules["C14"], clientBodyNeverNilRule)
	addMutants(
		Mutant{ID: "C14-D22-nil-request-body", Prop: "C14", File: "internal/tracer/middleware.go",
			Old:    "\t\tif req.Body == nil {\n\t\t\t// e.g. a GET built without a body (as when a redirect is followed)\n\t\t\treq.Body = http.NoBody\n\t\t}\n",
			New:    "",
			Expect: []string{"client.body-never-nil"}, Note: "original defect D22: a nil request body crashes the tracing reader"},
	)
}
