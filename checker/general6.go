package main

// General audits added after the sixth round of independent seeded changes.
// Like the audits in general.go they are contradiction / who-may-use rules
// that do not name a function of the repository: each is evaluated over the
// functions declared in the files a property is anchored in, every exception
// is a table row with its reason.

import (
	"fmt"
	"go/token"
	"go/types"
	"sort"
	"strings"

	"golang.org/x/tools/go/ssa"
)

func init() {
	experiments["Xdeadline"] = func(p *Prog, r *Report) { deadlineDirectionRule(p, r, "deadline", p.RepoFuncs()) }
	experiments["Xlimit"] = func(p *Prog, r *Report) { truncatingReaderRule(p, r, "limit", p.RepoFuncs()) }
	experiments["Xerrfirst"] = func(p *Prog, r *Report) { errFirstRule(p, r, "errfirst", p.RepoFuncs()) }
	experiments["Xbase64"] = func(p *Prog, r *Report) { base64AlphabetRule(p, r, "base64", p.RepoFuncs()) }
	experiments["Xreset"] = func(p *Prog, r *Report) { resetRearmsRule(p, r, "reset", p.RepoFuncs()) }
	experiments["Xenv"] = func(p *Prog, r *Report) { envDependenceRule(p, r, "env", p.RepoFuncs()) }
	experiments["Xhset"] = func(p *Prog, r *Report) { headerSetInLoopRule(p, r, "hset", p.RepoFuncs()) }
}

func round6GeneralRules(p *Prog, r *Report, scope []*ssa.Function) {
	deadlineDirectionRule(p, r, "anchored-deadline", scope)
	truncatingReaderRule(p, r, "anchored-limit", scope)
	errFirstRule(p, r, "anchored-errfirst", scope)
	base64AlphabetRule(p, r, "anchored-base64", scope)
	resetRearmsRule(p, r, "anchored-reset", scope)
	envDependenceRule(p, r, "anchored-env", scope)
	headerSetInLoopRule(p, r, "anchored-header-set", scope)
}

// ---------- G-DEADLINE: a deadline lies in the future ----------

// deadlineDirectionRule: the time obtained from Context.Deadline() is never
// the argument of time.Since, nor the argument of x.Sub(deadline): the time
// left is time.Until(deadline) / deadline.Sub(now); the other direction is the
// negated value.
func deadlineDirectionRule(p *Prog, r *Report, key string, scope []*ssa.Function) {
	isDeadline := func(v ssa.Value) bool {
		for _, l := range phiLeaves(canon(v)) {
			ex, ok := canon(l.Val).(*ssa.Extract)
			if !ok || ex.Index != 0 {
				continue
			}
			c, ok := ex.Tuple.(*ssa.Call)
			if !ok {
				continue
			}
			if o := calleeObj(&c.Call); o != nil && o.Name() == "Deadline" {
				return true
			}
		}
		return false
	}
	n := 0
	for _, fn := range scope {
		eachInstr(fn, func(in ssa.Instruction) {
			c := callCommon(in)
			if c == nil {
				return
			}
			switch {
			case isCallToNamed(c, "time", "", "Since") || isCallToNamed(c, "time", "", "Until"):
				if !isDeadline(c.Args[0]) {
					return
				}
				n++
				r.Sites++
				r.Check(calleeObj(c).Name() == "Until", fmt.Sprintf("%s.%s#%d", key, shortFn(fn), n), "R-UNIT", p.InstrPos(in), "the remaining time is time.Until(deadline)",
					"in "+shortFn(fn)+" the deadline of a context is passed to time.Since: a deadline lies in the future, so the result is the NEGATED remaining time — every timeout derived from it is negative")
			case isCallToNamed(c, "time", "Time", "Sub") && len(c.Args) == 2:
				if !isDeadline(c.Args[0]) && !isDeadline(c.Args[1]) {
					return
				}
				n++
				r.Sites++
				r.Check(isDeadline(c.Args[0]), fmt.Sprintf("%s.%s#%d", key, shortFn(fn), n), "R-UNIT", p.InstrPos(in), "the remaining time is deadline.Sub(now)",
					"in "+shortFn(fn)+" the deadline of a context is SUBTRACTED from another time (x.Sub(deadline)): the result is the negated remaining time")
			}
		})
	}
	r.OK(key, "R-UNIT", "-", fmt.Sprintf("%d uses of a context deadline in time arithmetic, all in the direction deadline − now", n))
}

// ---------- G-LIMIT: who may truncate a stream ----------

// limitAllowed: functions that may wrap a reader in io.LimitReader /
// io.LimitedReader (a reader that ends silently with io.EOF after N bytes).
var limitAllowed = map[string]string{}

// truncatingReaderRule: nothing wraps a stream in a silently truncating reader.
// A LimitReader turns "too much data" into a clean end of input: a framing
// layer then reports end-of-stream in the middle of a message, a size check
// downstream never sees the byte that exceeds its limit.
func truncatingReaderRule(p *Prog, r *Report, key string, scope []*ssa.Function) {
	n := 0
	isLimited := func(t types.Type) bool {
		if pt, ok := t.(*types.Pointer); ok {
			t = pt.Elem()
		}
		nt, ok := t.(*types.Named)
		return ok && nt.Obj().Pkg() != nil && nt.Obj().Pkg().Path() == "io" && nt.Obj().Name() == "LimitedReader"
	}
	for _, fn := range scope {
		seen := map[string]bool{}
		eachInstr(fn, func(in ssa.Instruction) {
			what := ""
			if c := callCommon(in); c != nil && isCallToNamed(c, "io", "", "LimitReader") {
				what = "io.LimitReader"
			}
			if c := callCommon(in); c != nil && (isCallToNamed(c, "net/http", "", "MaxBytesReader") || isCallToNamed(c, "net/http", "", "MaxBytesHandler")) {
				what = "http." + calleeObj(c).Name() + " (a cap on the whole body, not on one message)"
			}
			if al, ok := in.(*ssa.Alloc); ok && isLimited(al.Type()) {
				what = "io.LimitedReader"
			}
			if fa, ok := in.(*ssa.FieldAddr); ok {
				if fv := fieldVar(fa.X.Type(), fa.Field); fv != nil && isLimited(fv.Type()) {
					what = "io.LimitedReader field " + fv.Name()
				}
			}
			if what == "" || seen[what] {
				return
			}
			seen[what] = true
			n++
			r.Sites++
			if why, ok := limitAllowed[shortFn(fn)]; ok {
				r.OK(fmt.Sprintf("%s.%s", key, shortFn(fn)), "A-WHO", p.InstrPos(in), "table: "+why)
				return
			}
			r.Fail(fmt.Sprintf("%s.%s", key, shortFn(fn)), "A-WHO", p.InstrPos(in),
				"in "+shortFn(fn)+" a stream is read through "+what+": after N bytes the reader reports a clean io.EOF, so data beyond the bound is silently cut off — a decoder sees end-of-input in the middle of a message and a size limit downstream never sees the byte that exceeds it (no function of the repository is in the table of allowed users)")
		})
	}
	r.OK(key, "A-WHO", "-", fmt.Sprintf("%d truncating readers, all in the table", n))
}

// ---------- G-ERRFIRST: result used before its error is checked ----------

// errFirstExempt: uses of a result that are deliberately made although the error may be set.
var errFirstExempt = map[string]string{}

// errFirstRule: when a call returns (…, *T, …, error) and the function tests
// that error against nil, the pointer result is not dereferenced (field
// access, embedded-interface method call) at a place that is reachable with
// the error set: every dereference is on the err == nil side of a test, or is
// itself guarded by a nil test of the pointer.
func errFirstRule(p *Prog, r *Report, key string, scope []*ssa.Function) {
	n := 0
	for _, fn := range scope {
		eachInstr(fn, func(in ssa.Instruction) {
			call, ok := in.(*ssa.Call)
			if !ok {
				return
			}
			tup, ok := call.Type().(*types.Tuple)
			if !ok || tup.Len() < 2 || !isErrorType(tup.At(tup.Len()-1).Type()) {
				return
			}
			var errEx *ssa.Extract
			var ptrs []*ssa.Extract
			if call.Referrers() == nil {
				return
			}
			for _, ref := range *call.Referrers() {
				ex, ok := ref.(*ssa.Extract)
				if !ok {
					continue
				}
				if ex.Index == tup.Len()-1 {
					errEx = ex
				} else if _, isPtr := ex.Type().Underlying().(*types.Pointer); isPtr {
					ptrs = append(ptrs, ex)
				}
			}
			if errEx == nil || len(ptrs) == 0 {
				return
			}
			isErr := func(x ssa.Value) bool { return canon(x) == ssa.Value(errEx) }
			// is the error tested at all?
			tested := false
			for _, f := range withClosures(fn) {
				eachInstr(f, func(i2 ssa.Instruction) {
					if b, ok := i2.(*ssa.BinOp); ok && (b.Op == token.EQL || b.Op == token.NEQ) && (isErr(b.X) && isNilConst(b.Y) || isErr(b.Y) && isNilConst(b.X)) {
						tested = true
					}
				})
			}
			if !tested {
				return
			}
			for _, px := range ptrs {
				derefs := derefsOf(px)
				for _, d := range derefs {
					n++
					r.Sites++
					if d.Parent() != fn {
						continue // inside a closure: created after the check or not decidable here
					}
					k := fmt.Sprintf("%s.%s.%s#%d", key, shortFn(fn), calleeLabel(&call.Call), px.Index)
					okG := guardedBy(d, func(a Atom) bool {
						if m, isNil := nilTestOn(a, isErr); m && isNil {
							return true
						}
						m, isNil := nilTestOn(a, func(x ssa.Value) bool { return canon(x) == ssa.Value(px) })
						return m && !isNil
					})
					if okG {
						continue
					}
					if why, ok := errFirstExempt[shortFn(fn)+"#"+path(px)]; ok {
						r.OK(k, "R-ORDER", p.InstrPos(d), "table: "+why)
						continue
					}
					r.Fail(k, "R-ORDER", p.InstrPos(d),
						fmt.Sprintf("in %s the pointer result %s of %s is dereferenced at a place that is reachable while the call's error is set (the function tests that error elsewhere): when the call fails the result is nil and the dereference crashes instead of the error being handled", shortFn(fn), path(px), callPath(&call.Call, 0)))
				}
			}
		})
	}
	r.OK(key, "R-ORDER", "-", fmt.Sprintf("%d dereferences of pointer results of fallible calls, all on the err == nil side", n))
}

// calleeLabel: a short, stable name of what a call calls (for obligation keys).
func calleeLabel(c *ssa.CallCommon) string {
	if c.IsInvoke() {
		return c.Method.Name()
	}
	if f := c.StaticCallee(); f != nil {
		return fnBase(f)
	}
	return path(c.Value)
}

func isErrorType(t types.Type) bool {
	nt, ok := t.(*types.Named)
	return ok && nt.Obj().Pkg() == nil && nt.Obj().Name() == "error"
}

// derefsOf: instructions that dereference pointer value v (field address,
// load through it, or — via a field load — a call on an embedded interface).
func derefsOf(v ssa.Value) []ssa.Instruction {
	var out []ssa.Instruction
	seen := map[ssa.Value]bool{}
	var walk func(x ssa.Value)
	walk = func(x ssa.Value) {
		if seen[x] || x.Referrers() == nil {
			return
		}
		seen[x] = true
		for _, ref := range *x.Referrers() {
			switch t := ref.(type) {
			case *ssa.FieldAddr:
				if t.X == x {
					out = append(out, t)
				}
			case *ssa.UnOp:
				if t.Op == token.MUL && t.X == x {
					out = append(out, t)
				}
			case *ssa.Store:
				// spilled into a local cell: follow the loads of the cell
				if al, ok := t.Addr.(*ssa.Alloc); ok && t.Val == x && al.Referrers() != nil {
					for _, r2 := range *al.Referrers() {
						if u, ok := r2.(*ssa.UnOp); ok && u.Op == token.MUL {
							vals := reachingStores(al, u)
							if len(vals) == 1 && vals[0] == x {
								walk(u)
							}
						}
					}
				}
			case *ssa.ChangeType:
				walk(t)
			}
		}
	}
	walk(v)
	return out
}

// ---------- G-BASE64: alphabets ----------

var base64URLAllowed = map[string]string{
	"(*referenceclient.rawRequestSender).RoundTrip": "the Connect GET protocol's `message` query parameter is URL-safe base64 (connect spec: base64=1)",
}

// base64AlphabetRule: header values are base64 in the standard alphabet
// (gRPC -bin metadata, connect.EncodeBinaryHeader); the URL-safe alphabet is
// used only where the table says so.
func base64AlphabetRule(p *Prog, r *Report, key string, scope []*ssa.Function) {
	n := 0
	for _, fn := range scope {
		seen := map[string]bool{}
		eachInstr(fn, func(in ssa.Instruction) {
			for _, op := range in.Operands(nil) {
				g, ok := (*op).(*ssa.Global)
				if !ok || g.Pkg == nil || g.Pkg.Pkg.Path() != "encoding/base64" || !strings.Contains(g.Name(), "URL") || seen[g.Name()] {
					continue
				}
				seen[g.Name()] = true
				n++
				r.Sites++
				k := fmt.Sprintf("%s.%s", key, shortFn(fn))
				allowed := ""
				for f, why := range base64URLAllowed {
					if f == shortFn(fn) || strings.HasPrefix(shortFn(fn), f+"$") {
						allowed = why
					}
				}
				if allowed != "" {
					r.OK(k, "R-TABLE-AGREE", p.InstrPos(in), "table: "+allowed)
					continue
				}
				r.Fail(k, "R-TABLE-AGREE", p.InstrPos(in),
					"in "+shortFn(fn)+" base64."+g.Name()+" is used: binary metadata on the wire is base64 in the STANDARD alphabet (what connect.EncodeBinaryHeader and grpc-go produce); with the URL-safe alphabet every value containing '+' or '/' is rejected or mis-decoded")
			}
		})
	}
	r.OK(key, "R-TABLE-AGREE", "-", fmt.Sprintf("%d uses of the URL-safe base64 alphabet, all in the table", n))
}

// ---------- G-RESET: Reset re-arms everything the other methods change ----------

// resetRearmsRule: for a type with a Reset method (pooled and re-used by
// connect-go), every field that another method of the type assigns is also
// assigned by Reset: otherwise state recorded while handling one message
// (a sticky error, a budget, a counter) survives into the next message.
func resetRearmsRule(p *Prog, r *Report, key string, scope []*ssa.Function) {
	type info struct {
		reset  *ssa.Function
		others []*ssa.Function
	}
	types_ := map[*types.Named]*info{}
	for _, fn := range scope {
		if fn.Parent() != nil || fn.Signature.Recv() == nil {
			continue
		}
		t := fn.Signature.Recv().Type()
		if pt, ok := t.(*types.Pointer); ok {
			t = pt.Elem()
		}
		nt, ok := t.(*types.Named)
		if !ok {
			continue
		}
		if _, ok := nt.Underlying().(*types.Struct); !ok {
			continue
		}
		if types_[nt] == nil {
			types_[nt] = &info{}
		}
		if fn.Name() == "Reset" {
			types_[nt].reset = fn
		} else {
			types_[nt].others = append(types_[nt].others, fn)
		}
	}
	var names []*types.Named
	for nt, inf := range types_ {
		if inf.reset != nil {
			names = append(names, nt)
		}
	}
	sort.Slice(names, func(i, j int) bool { return names[i].Obj().Name() < names[j].Obj().Name() })
	stored := func(fns []*ssa.Function, nt *types.Named) map[string]ssa.Instruction {
		out := map[string]ssa.Instruction{}
		for _, top := range fns {
			for _, fn := range withClosures(top) {
				eachInstr(fn, func(in ssa.Instruction) {
					st, ok := in.(*ssa.Store)
					if !ok {
						return
					}
					// a store to a field, or into a field that is itself a struct (c.limited.N = …)
					addr := st.Addr
					for {
						fa, ok := addr.(*ssa.FieldAddr)
						if !ok {
							return
						}
						bt := fa.X.Type()
						if pt, ok := bt.Underlying().(*types.Pointer); ok {
							bt = pt.Elem()
						}
						if bn, ok := bt.(*types.Named); ok && bn == nt {
							out[fieldName(fa.X.Type(), fa.Field)] = in
							return
						}
						addr = fa.X
					}
				})
			}
		}
		return out
	}
	n := 0
	for _, nt := range names {
		inf := types_[nt]
		n++
		r.Sites++
		inReset := stored([]*ssa.Function{inf.reset}, nt)
		elsewhere := stored(inf.others, nt)
		var missing []string
		pos := p.Pos(inf.reset.Pos())
		for f, in := range elsewhere {
			if _, ok := inReset[f]; !ok {
				missing = append(missing, f+" (assigned at "+p.InstrPos(in)+")")
			}
		}
		// fields of struct type that wrap state by value and are only initialised in a constructor
		st := nt.Underlying().(*types.Struct)
		for i := 0; i < st.NumFields(); i++ {
			ft := st.Field(i).Type()
			if nn, ok := ft.(*types.Named); ok && nn.Obj().Pkg() != nil && nn.Obj().Pkg().Path() == "io" && nn.Obj().Name() == "LimitedReader" {
				if _, ok := inReset[st.Field(i).Name()]; !ok {
					missing = append(missing, st.Field(i).Name()+" (an io.LimitedReader held by value: its remaining budget N is state)")
				}
			}
		}
		sort.Strings(missing)
		r.Check(len(missing) == 0, fmt.Sprintf("%s.%s", key, nt.Obj().Name()), "R-PAIR", pos, "every field another method assigns is assigned in Reset",
			fmt.Sprintf("%s.Reset does not re-initialise %s: instances are pooled and re-used, so what one message left there (a remembered error, a consumed budget) is still in effect for the next message on the same instance", nt.Obj().Name(), strings.Join(missing, ", ")))
	}
	r.OK(key, "R-PAIR", "-", fmt.Sprintf("%d resettable types, each Reset assigns every field its sibling methods assign", n))
}

// ---------- G-ENV: who may look at the machine ----------

var envAllowed = map[string]string{
	"cmd/connectconformance.bind": "default of the --parallel flag (how many RPCs in flight); does not change any RPC's behaviour",
	"grpcclient.RunWithTrace":     "default of the -p flag, as above",
	"grpcclient.Run":              "default of the -p flag, as above",
	"referenceclient.run":         "default of the -p flag, as above",
	"referenceclient.Run":         "default of the -p flag, as above",
}

// envDependenceRule: no behaviour depends on the machine the code runs on:
// runtime.GOMAXPROCS / NumCPU / os.Getenv / os.LookupEnv are used only by the
// functions in the table.
func envDependenceRule(p *Prog, r *Report, key string, scope []*ssa.Function) {
	n := 0
	for _, fn := range scope {
		seen := map[string]bool{}
		eachInstr(fn, func(in ssa.Instruction) {
			c := callCommon(in)
			if c == nil {
				return
			}
			o := calleeObj(c)
			if o == nil || o.Pkg() == nil {
				return
			}
			q := o.Pkg().Path() + "." + o.Name()
			switch q {
			case "runtime.GOMAXPROCS", "runtime.NumCPU", "os.Getenv", "os.LookupEnv":
			default:
				return
			}
			if seen[q] {
				return
			}
			seen[q] = true
			n++
			r.Sites++
			k := fmt.Sprintf("%s.%s", key, shortFn(fn))
			if why, ok := envAllowed[shortFn(fn)]; ok {
				r.OK(k, "A-WHO", p.InstrPos(in), "table: "+why)
				return
			}
			r.Fail(k, "A-WHO", p.InstrPos(in), "in "+shortFn(fn)+" a value is derived from "+q+": what the function does then depends on the machine it runs on (one core, a container CPU quota, an environment variable) — a configuration computed from it can be invalid or different on another machine although the tests pass here")
		})
	}
	r.OK(key, "A-WHO", "-", fmt.Sprintf("%d uses of machine/environment properties, all in the table", n))
}

// ---------- G-HSET: Set in a loop over a list loses values ----------

var headerSetAllowed = map[string]string{
	"referenceclient.examineGRPCEndStream": "obsolete line folding onto a key that has no values yet (guarded by len(vals) == 0): nothing to lose",
}

// headerSetInLoopRule: inside a loop over a SLICE, http.Header.Set /
// metadata.MD.Set is not called with a key and a value that both come from
// the slice element: a list may repeat a key, Set keeps only the last value.
func headerSetInLoopRule(p *Prog, r *Report, key string, scope []*ssa.Function) {
	n := 0
	for _, fn := range scope {
		eachInstr(fn, func(in ssa.Instruction) {
			c := callCommon(in)
			if c == nil {
				return
			}
			o := calleeObj(c)
			if o == nil || o.Name() != "Set" || c.IsInvoke() {
				return
			}
			sig := o.Type().(*types.Signature)
			if sig.Recv() == nil {
				return
			}
			rt := sig.Recv().Type()
			if _, isMap := rt.Underlying().(*types.Map); !isMap {
				return
			}
			if len(c.Args) < 3 {
				return
			}
			// in a loop?
			inLoop := false
			for _, s := range in.Block().Succs {
				if reachable(s, in.Block()) {
					inLoop = true
				}
			}
			if !inLoop {
				return
			}
			n++
			r.Sites++
			elem := func(v ssa.Value) ssa.Value {
				// a value derived from an element of a slice that is indexed by a loop counter
				for x := range operandClosure(v) {
					if ia, ok := x.(*ssa.IndexAddr); ok {
						if _, isSl := ia.X.Type().Underlying().(*types.Slice); isSl {
							if _, isK := constInt(ia.Index); !isK {
								return ia
							}
						}
					}
				}
				return nil
			}
			k := fmt.Sprintf("%s.%s#%d", key, shortFn(fn), n)
			ke, ve := elem(c.Args[1]), elem(c.Args[2])
			if ke == nil || ve == nil {
				r.OK(k, "R-WIRE", p.InstrPos(in), "key or value does not come from a slice element")
				return
			}
			if why, ok := headerSetAllowed[shortFn(fn)]; ok {
				r.OK(k, "R-WIRE", p.InstrPos(in), "table: "+why)
				return
			}
			r.Fail(k, "R-WIRE", p.InstrPos(in), "in "+shortFn(fn)+" "+callPath(c, 0)+" is called in a loop over a list with key and value both taken from the list element: Set REPLACES the values of the key, so when the list repeats a key (multi-valued metadata, several set-cookie lines) only the last value survives — Add accumulates")
		})
	}
	r.OK(key, "R-WIRE", "-", fmt.Sprintf("%d header Set calls inside loops, none fed with key and value from a list element", n))
}
