package main

// Rules added after the fifth round of independent seeded changes.

import (
	"fmt"
	"go/constant"
	"go/token"
	"go/types"
	"strings"

	"golang.org/x/tools/go/ssa"
)

var round5Rules = map[string][]func(*Prog, *Report){
	"C01": {certNameAgreeRule, bareMediaTypePrefixRule},
	"C02": {firstDefinitionWinsRule},
	"C03": {statusCompareUnconditionalRule},
	"C04": {reportAlwaysRule},
	"C05": {rawHeaderUnconditionalRule},
	"C06": {grpcDefaultNeedsHTTP2Rule},
	"C08": {conflictOverAllPermutationsRule},
	"C09": {noPerCallBufferRule},
	"C10": {perMessageAllocRule},
	"C12": {perRequestPrinterRule, bareMediaTypePrefixRule},
	"C13": {trailersOnlyCountsValuesRule},
	"C14": {emitUnfinishedResetsRule},
	"C18": {rawDetailBytesRule},
	"C19": {cachedErrorFirstRule, streamErrAfterLoopRule},
}

var round5Explain = map[string]string{
	"C01": "(tls.cert-names) generated client certificates carry the name the runner tells the reference server to expect; (names.bare-prefix) the reference server never tests a content type with HasPrefix against a bare media type that is a prefix of another protocol's",
	"C02": "(first-definition) in the client-stream and bidi handlers of both servers the response definition is taken from the first received message only",
	"C03": "(status.always-compared) the HTTP status codes are compared whenever both are present, on every path of assert",
	"C04": "(report.always) Run prints the report whenever run() returned results, also together with an error",
	"C05": "(complete.raw-header-unconditional) the test-name header is added to a raw request's headers regardless of which peer is the reference implementation",
	"C06": "(defaults.grpc-needs-http2) the defaulted protocol list contains gRPC only when the versions include HTTP/2",
	"C08": "(conflict.all-permutations) the known-failing ∧ known-flaky conflict check ranges over the same permutations as the unmatched-pattern validation",
	"C09": "(no-per-call-buffer) the framing functions do not wrap their input in a buffering reader per call (read-ahead would swallow the next frame)",
	"C10": "(once.per-message-alloc) every response handed to a callback is a message allocated for that iteration of the read loop",
	"C12": "(feedback.per-request) the feedback printer that names the test case is created per request; (names.bare-prefix) as in C01",
	"C13": "(trailers-only.values) a response is trailers-only unless some trailer key carries a value",
	"C14": "(reset.prefix) emitUnfinished also resets the partial prefix, so a second call emits nothing",
	"C18": "(cover.raw-detail-bytes) error details are copied as type URL + raw bytes, never re-marshalled",
	"C19": "(first-message.error-first) the pre-read first request's error is replayed before the cached request; (stream-err) the reference server's client-stream handler returns stream.Err() after the receive loop",
}

func init() {
	for id, extra := range round5Explain {
		m := registry[id]
		if m == nil {
			continue
		}
		if i := strings.Index(m.Explain, " It does NOT decide"); i >= 0 {
			m.Explain = strings.TrimRight(m.Explain[:i], ". ;") + "; " + extra + "." + m.Explain[i:]
		} else {
			m.Explain = strings.TrimRight(m.Explain, ". ") + "; " + extra + "."
		}
	}
}

// ---------- C01 ----------

func certNameAgreeRule(p *Prog, r *Report) {
	fn := p.Func("internal", "", "newCert")
	cc, sc := p.Const("internal", "ClientCertName"), p.Const("internal", "ServerCertName")
	if fn == nil || cc == nil || sc == nil {
		r.Undecided("tls.cert-names", "R-TABLE-AGREE", "newCert / ClientCertName / ServerCertName not found")
		return
	}
	r.Func(funcName(fn))
	r.Sites += 2
	got := map[bool]string{}
	eachInstr(fn, func(in ssa.Instruction) {
		st, ok := in.(*ssa.Store)
		if !ok {
			return
		}
		fa, ok := st.Addr.(*ssa.FieldAddr)
		if !ok {
			return
		}
		fv := fieldVar(fa.X.Type(), fa.Field)
		if fv == nil || fv.Name() != "CommonName" {
			return
		}
		s, isS := constString(st.Val)
		if !isS {
			return
		}
		client, guarded := false, false
		for _, a := range atomsAt(in.Block()) {
			if k, neg, ok := genericKey(a); ok && k == "$"+fn.Params[0].Name() {
				client, guarded = !neg, true
			}
		}
		if !guarded {
			got[true], got[false] = s, s // unconditional: both kinds get this name
			return
		}
		got[client] = s
	})
	okNames := got[true] == constant.StringVal(cc.Val()) && got[false] == constant.StringVal(sc.Val())
	// the runner tells the reference server to expect the same constant
	hdrOK := false
	if rts := p.Func(pkgCC, "", "runTestCasesForServer"); rts != nil {
		for _, f := range withClosures(rts) {
			eachInstr(f, func(in ssa.Instruction) {
				st, ok := in.(*ssa.Store)
				if !ok {
					return
				}
				if s, isS := constString(st.Val); isS && strings.EqualFold(s, "x-expect-client-cert") {
					hdrOK = true
				}
			})
		}
	}
	r.Check(okNames && hdrOK, "tls.cert-names", "R-TABLE-AGREE", p.Pos(fn.Pos()), "client certificates are named ClientCertName, server certificates ServerCertName, and the runner announces ClientCertName", fmt.Sprintf("newCert names client certificates %q and server certificates %q (expected %q / %q): the reference server compares the peer certificate's name with the x-expect-client-cert header and reports every client-certificate permutation", got[true], got[false], constant.StringVal(cc.Val()), constant.StringVal(sc.Val())))
}

func bareMediaTypePrefixRule(p *Prog, r *Report) {
	n := 0
	bad := ""
	for _, fn := range p.RepoFuncs() {
		if pkgOfFunc(fn) != rsPath() {
			continue
		}
		eachInstr(fn, func(in ssa.Instruction) {
			c, ok := in.(*ssa.Call)
			if !ok || !isCallToNamed(&c.Call, "strings", "", "HasPrefix") {
				return
			}
			s, isS := constString(c.Call.Args[1])
			if !isS || !strings.HasPrefix(s, "application/") {
				return
			}
			n++
			r.Sites++
			if s == "application/grpc" || s == "application/grpc-web" || s == "application/connect" || s == "application/json" || s == "application/proto" {
				bad += fmt.Sprintf(" HasPrefix(…, %q) at %s in %s;", s, p.InstrPos(in), shortFn(fn))
			}
		})
	}
	r.Check(n >= 4 && bad == "", "names.bare-prefix", "R-SIBLING", "-", fmt.Sprintf("%d media-type prefix tests in the reference server, all against a type ending in '+' or '/'", n), "the reference server tests a content type with HasPrefix against a bare media type:"+bad+" `application/grpc` is also a prefix of `application/grpc-web…`, so the other protocol's requests are classified (and, for the TE check, rejected) as gRPC")
}

// ---------- C02 ----------

func firstDefinitionWinsRule(p *Prog, r *Report) {
	n := 0
	for _, s := range []struct {
		key string
		fn  *ssa.Function
	}{
		{"referenceserver.ClientStream", p.Func(pkgRS, "conformanceServer", "ClientStream")},
		{"referenceserver.BidiStream", p.Func(pkgRS, "conformanceServer", "BidiStream")},
		{"grpcserver.ClientStream", p.Func("internal/app/grpcserver", "conformanceServiceServer", "ClientStream")},
		{"grpcserver.BidiStream", p.Func("internal/app/grpcserver", "conformanceServiceServer", "BidiStream")},
	} {
		if s.fn == nil {
			r.Undecided("first-definition."+s.key, "R-GUARD", s.key+" not found")
			continue
		}
		r.Func(funcName(s.fn))
		r.Sites++
		bad := ""
		found := false
		eachInstr(s.fn, func(in ssa.Instruction) {
			phi, ok := in.(*ssa.Phi)
			if !ok || phi.Comment != "responseDefinition" {
				return
			}
			for i, e := range phi.Edges {
				f := loadedField(canon(e))
				if f == nil || f.Name() != "ResponseDefinition" {
					continue
				}
				found = true
				n++
				as := edgeAtoms(phi.Block().Preds[i], phi.Block())
				if !hasAtom(as, func(a Atom) bool {
					if a.Op != token.ILLEGAL || a.Neg {
						return false
					}
					nm, _ := localName(a.X)
					return nm == "firstRecv"
				}) {
					bad += " a message's definition is taken outside the firstRecv edge (facts: " + atomsString(as) + ");"
				}
			}
		})
		r.Check(found && bad == "", "first-definition."+s.key, "R-GUARD", p.Pos(s.fn.Pos()), "responseDefinition is assigned from a message only on the firstRecv edge", "in "+s.key+" the response definition is not taken from the FIRST message only:"+bad+" service.proto says later definitions are ignored; the expectation and the other server use the first")
	}
	r.Floor("definition-assignments", n, 4)
}

// ---------- C03 ----------

func statusCompareUnconditionalRule(p *Prog, r *Report) {
	fn := p.Func(pkgCC, "testResults", "assert")
	if fn == nil {
		r.Undecided("status.always-compared", "R-GUARD", "assert not found")
		return
	}
	r.Func(funcName(fn))
	r.Sites++
	statusF := p.Field(pkgGen, "ClientResponseResult", "HttpStatusCode")
	found := false
	bad := ""
	eachInstr(fn, func(in ssa.Instruction) {
		b, ok := in.(*ssa.BinOp)
		if !ok || (b.Op != token.NEQ && b.Op != token.EQL) {
			return
		}
		isStatus := func(v ssa.Value) bool {
			c, ok := canon(v).(*ssa.Call)
			return ok && c.Call.StaticCallee() != nil && getterField(c.Call.StaticCallee()) == statusF
		}
		if !isStatus(b.X) || !isStatus(b.Y) {
			return
		}
		found = true
		for _, a := range atomsAt(in.Block()) {
			if m, _ := nilTestOn(a, func(x ssa.Value) bool { return loadedField(canon(x)) == statusF }); m {
				continue
			}
			if phi, isPhi := canon(a.X).(*ssa.Phi); isPhi && onlyNilTests(phi) {
				continue
			}
			bad += " the comparison at " + p.InstrPos(in) + " is only made under " + a.String() + ";"
		}
	})
	// and every path through assert that reaches the outcome tests whether the expected status is present
	if found && bad == "" {
		okAll, exit := mustPassToCall(fn, func(in ssa.Instruction) bool {
			b, ok := in.(*ssa.BinOp)
			if !ok || (b.Op != token.NEQ && b.Op != token.EQL) || !isNilConst(b.Y) {
				return false
			}
			return loadedField(canon(b.X)) == statusF
		}, "setOutcome")
		if !okAll {
			bad += " a path reaches setOutcome without testing the expected HTTP status"
			if exit != nil {
				bad += " (" + p.InstrPos(exit) + ")"
			}
			bad += ";"
		}
	}
	r.Check(found && bad == "", "status.always-compared", "R-GUARD", p.Pos(fn.Pos()), "the HTTP status comparison depends only on both status codes being present", "assert does not compare the HTTP status codes on every path:"+bad+" a wrong HTTP status goes unnoticed for the cases that take the other branch (e.g. error-only unary results)")
}

// ---------- C04 ----------

func reportAlwaysRule(p *Prog, r *Report) {
	Run := p.Func(pkgCC, "", "Run")
	run := p.Func(pkgCC, "", "run")
	report := p.Func(pkgCC, "testResults", "report")
	if Run == nil || run == nil || report == nil {
		r.Undecided("report.always", "R-MUSTCALL", "Run / run / report not found")
		return
	}
	r.Func(funcName(Run))
	r.Sites++
	calls := findInstrs(Run, isCallObj(funcObj(run)))
	if len(calls) != 1 {
		r.Fail("report.always", "R-MUSTCALL", p.Pos(Run.Pos()), "expected one call of run in Run")
		return
	}
	runCall := calls[0].(*ssa.Call)
	isReport := isCallObj(funcObj(report))
	bad := ""
	for _, ret := range returnsOf(Run) {
		if !reachesInstr(runCall, ret) {
			continue
		}
		resultsNil := hasAtom(atomsAt(ret.Block()), func(a Atom) bool {
			m, isNil := nilTestOn(a, func(x ssa.Value) bool {
				ex, ok := canon(x).(*ssa.Extract)
				return ok && ex.Tuple == ssa.Value(runCall) && ex.Index == 0
			})
			return m && isNil
		})
		if resultsNil {
			continue
		}
		if ok, _ := mustPassBefore(runCall, ret, isReport); !ok {
			bad += " " + p.InstrPos(ret) + ";"
		}
	}
	r.Check(bad == "", "report.always", "R-MUSTCALL", p.InstrPos(runCall), "every return after run() yielded results passes results.report", "Run can return after run() yielded results without printing the report:"+bad+" when a peer dies mid-run the failing cases are not named and no totals are printed")
}

// ---------- C05 ----------

func rawHeaderUnconditionalRule(p *Prog, r *Report) {
	rts := p.Func(pkgCC, "", "runTestCasesForServer")
	hdrs := p.Field(pkgGen, "RawHTTPRequest", "Headers")
	if rts == nil || hdrs == nil {
		r.Undecided("complete.raw-header-unconditional", "R-GUARD", "runTestCasesForServer / RawHTTPRequest.Headers not found")
		return
	}
	n := 0
	bad := ""
	nameF := p.Field(pkgGen, "Header", "Name")
	isTestNameHeader := func(v ssa.Value) bool {
		al, ok := canon(v).(*ssa.Alloc)
		if !ok || al.Referrers() == nil {
			return false
		}
		for _, ref := range *al.Referrers() {
			if fa, ok := ref.(*ssa.FieldAddr); ok && fieldVar(fa.X.Type(), fa.Field) == nameF && fa.Referrers() != nil {
				for _, r2 := range *fa.Referrers() {
					if st, ok := r2.(*ssa.Store); ok {
						if s, isS := constString(st.Val); isS && strings.EqualFold(s, "x-test-case-name") {
							return true
						}
					}
				}
			}
		}
		return false
	}
	for _, fn := range withClosures(rts) {
		for _, st := range storesToField([]*ssa.Function{fn}, hdrs) {
			c, ok := canon(st.Val).(*ssa.Call)
			if !ok || len(c.Call.Args) != 2 {
				continue
			}
			carries := false
			for _, e := range sliceLiteralElems(c.Call.Args[1]) {
				if isTestNameHeader(e) {
					carries = true
				}
			}
			if !carries {
				continue // the reference-only x-expect-* headers
			}
			n++
			r.Sites++
			for _, a := range atomsAt(st.Instr.Block()) {
				if k, _, ok := genericKey(a); ok && strings.HasPrefix(k, "$isReference") {
					bad += " the store at " + p.InstrPos(st.Instr) + " is only made under " + a.String() + ";"
				}
			}
		}
	}
	r.Check(n >= 1 && bad == "", "complete.raw-header-unconditional", "R-GUARD", p.Pos(rts.Pos()), "the test-name header is appended to a raw request's headers independently of the reference flags", "the test-name header reaches RawRequest.Headers only for a reference peer:"+bad+" in server mode (the only mode with raw requests) the server under test receives the request without its test name")
}

// ---------- C06 ----------

func grpcDefaultNeedsHTTP2Rule(p *Prog, r *Report) {
	fn := p.Func(pkgCC, "", "resolveFeatures")
	if fn == nil {
		r.Undecided("defaults.grpc-needs-http2", "R-DEPENDS", "resolveFeatures not found")
		return
	}
	r.Func(funcName(fn))
	r.Sites++
	protoF := p.Field(pkgCC, "supportedFeatures", "Protocols")
	versF := p.Field(pkgCC, "supportedFeatures", "Versions")
	grpc := enumVal(p, "Protocol_PROTOCOL_GRPC")
	h2 := enumVal(p, "HTTPVersion_HTTP_VERSION_2")
	found := false
	ok := false
	for _, st := range storesToField([]*ssa.Function{fn}, protoF) {
		hasGRPC := false
		for _, e := range sliceLiteralElems(st.Val) {
			if k, isK := constInt(e); isK && k == grpc {
				hasGRPC = true
			}
		}
		if !hasGRPC {
			continue
		}
		found = true
		// the branch that selects this default depends on contains(Versions, HTTP_2)
		for _, f := range factsAt(st.Instr.Block()) {
			for v := range dependenceClosure(f.Cond) {
				c, isC := v.(*ssa.Call)
				if !isC || c.Call.StaticCallee() == nil || fnBase(c.Call.StaticCallee()) != "contains" {
					continue
				}
				if k, isK := constInt(c.Call.Args[1]); isK && k == h2 && loadedField(canon(c.Call.Args[0])) == versF {
					ok = true
				}
			}
		}
	}
	r.Check(found && ok, "defaults.grpc-needs-http2", "R-DEPENDS", p.Pos(fn.Pos()), "the gRPC-containing protocol default is selected by a condition that depends on contains(Versions, HTTP_VERSION_2)", "the defaulted protocol list that contains gRPC is selected without looking at whether the versions include HTTP/2: with explicit versions lacking HTTP/2 the resolved features claim gRPC, which the same function rejects when written out")
}

// ---------- C08 ----------

func conflictOverAllPermutationsRule(p *Prog, r *Report) {
	run := p.Func(pkgCC, "", "run")
	allPerm := p.Func(pkgCC, "testCaseLibrary", "allPermutations")
	if run == nil || allPerm == nil {
		r.Undecided("conflict.all-permutations", "R-DEPENDS", "run / allPermutations not found")
		return
	}
	r.Sites++
	var apCall ssa.Value
	for _, in := range findInstrs(run, isCallObj(funcObj(allPerm))) {
		apCall = in.(ssa.Value)
	}
	n := 0
	bad := ""
	// the conflict check: a block region where matchPattern is called on both tries with the same name
	eachInstr(run, func(in ssa.Instruction) {
		c := callCommon(in)
		if c == nil || c.StaticCallee() == nil || c.StaticCallee().Name() != "matchPattern" {
			return
		}
		if nm, _ := localName(c.Args[0]); nm != "knownFlaky" && path(c.Args[0]) != "knownFlaky" {
			return
		}
		n++
		if apCall == nil || !operandClosure(c.Args[1])[apCall] {
			bad += " the name matched against knownFlaky at " + p.InstrPos(in) + " does not come from allPermutations (it is " + path(c.Args[1]) + ");"
		}
	})
	r.Check(n >= 1 && bad == "", "conflict.all-permutations", "R-DEPENDS", p.Pos(run.Pos()), "the known-failing ∧ known-flaky conflict is looked for among allPermutations", "the conflict check between known-failing and known-flaky patterns does not range over allPermutations:"+bad+" names that only exist as grpc-impl permutations can be matched by both lists without being rejected")
}

// ---------- C09 ----------

func noPerCallBufferRule(p *Prog, r *Report) {
	n := 0
	bad := ""
	for _, fn := range p.RepoFuncs() {
		if pkgOfFunc(fn) != internalPath {
			continue
		}
		file := p.Fset.Position(fn.Pos()).Filename
		if !strings.HasSuffix(file, "delimited.go") && fnBase(fn) != "DecodeNext" {
			continue
		}
		n++
		eachInstr(fn, func(in ssa.Instruction) {
			c := callCommon(in)
			if c == nil || c.StaticCallee() == nil || c.StaticCallee().Pkg == nil {
				return
			}
			if c.StaticCallee().Pkg.Pkg.Path() == "bufio" && strings.HasPrefix(c.StaticCallee().Name(), "NewReader") {
				bad += " " + shortFn(fn) + " at " + p.InstrPos(in) + ";"
			}
		})
	}
	r.Sites += n
	r.Check(n >= 4 && bad == "", "no-per-call-buffer", "R-WIRE", "-", fmt.Sprintf("%d framing functions, none wraps its input in a bufio reader", n), "a framing function wraps its input in a buffering reader for the duration of one call:"+bad+" whatever the buffer reads beyond the current frame is thrown away, so the decoded sequence depends on how the stream is chunked")
}

// ---------- C10 ----------

func perMessageAllocRule(p *Prog, r *Report) {
	fn := p.Func(pkgCC, "clientProcessRunner", "consumeOutput")
	if fn == nil {
		r.Undecided("once.per-message-alloc", "R-WIRE", "consumeOutput not found")
		return
	}
	r.Func(funcName(fn))
	r.Sites++
	n := 0
	bad := ""
	eachInstr(fn, func(in ssa.Instruction) {
		al, ok := in.(*ssa.Alloc)
		if !ok || !al.Heap {
			return
		}
		nt, ok := al.Type().(*types.Pointer).Elem().(*types.Named)
		if !ok || nt.Obj().Name() != "ClientCompatResponse" {
			return
		}
		n++
		inLoop := false
		for _, s := range al.Block().Succs {
			if reachable(s, al.Block()) {
				inLoop = true
			}
		}
		if !inLoop {
			bad += " the response message allocated at " + p.InstrPos(in) + " is outside the read loop;"
		}
	})
	r.Check(n >= 1 && bad == "", "once.per-message-alloc", "R-WIRE", p.Pos(fn.Pos()), "the response message is allocated inside the read loop", "consumeOutput decodes every response into the same message:"+bad+" a callback that keeps its response sees it overwritten by the next answer")
}

// ---------- C12 ----------

func perRequestPrinterRule(p *Prog, r *Report) {
	outer := p.Func(pkgRS, "", "referenceServerChecks")
	if outer == nil {
		r.Undecided("feedback.per-request", "R-WIRE", "referenceServerChecks not found")
		return
	}
	r.Sites++
	n := 0
	bad := ""
	for _, fn := range withClosures(outer) {
		eachInstr(fn, func(in ssa.Instruction) {
			al, ok := in.(*ssa.Alloc)
			if !ok {
				return
			}
			nt, ok := al.Type().(*types.Pointer).Elem().(*types.Named)
			if !ok || nt.Obj().Name() != "feedbackPrinter" {
				return
			}
			n++
			if fn == outer {
				bad += " the feedbackPrinter allocated at " + p.InstrPos(in) + " is shared by all requests;"
			}
		})
	}
	r.Check(n >= 1 && bad == "", "feedback.per-request", "R-WIRE", p.Pos(outer.Pos()), "the feedbackPrinter is allocated in the per-request handler", "the printer that prefixes feedback with the test-case name is not created per request:"+bad+" with overlapping requests feedback is attributed to another, conformant test case")
}

// ---------- C13 ----------

func trailersOnlyCountsValuesRule(p *Prog, r *Report) {
	fn := p.Func(pkgRC, "", "isTrailersOnlyResponse")
	if fn == nil {
		r.Undecided("trailers-only.values", "R-GUARD", "isTrailersOnlyResponse not found")
		return
	}
	r.Func(funcName(fn))
	r.Sites++
	// the `return false` taken because of trailers is guarded by len(values of one trailer) > 0
	ok := false
	for _, ret := range returnsOf(fn) {
		for _, l := range phiLeaves(ret.Results[0]) {
			if b, isC := constBool(l.Val); !isC || b {
				continue
			}
			facts := append(append([]Atom{}, atomsAt(ret.Block())...), l.Facts...)
			if hasAtom(facts, func(a Atom) bool {
				x, isLen := lenArg(a.X)
				z, isZ := constInt(a.Y)
				if !isLen || !isZ || z != 0 || (a.Op != token.GTR && a.Op != token.NEQ) {
					return false
				}
				// the measured value is a map element (Extract of a Next over the Trailer map)
				_, isEx := canon(x).(*ssa.Extract)
				return isEx
			}) {
				ok = true
			}
		}
	}
	// and the trailer map's mere size is not tested
	bad := ""
	eachInstr(fn, func(in ssa.Instruction) {
		b, isB := in.(*ssa.BinOp)
		if !isB {
			return
		}
		if x, isLen := lenArg(b.X); isLen {
			if f := loadedField(canon(x)); f != nil && f.Name() == "Trailer" {
				bad += " len(…Trailer) is tested at " + p.InstrPos(in) + ";"
			}
		}
	})
	r.Check(ok && bad == "", "trailers-only.values", "R-GUARD", p.Pos(fn.Pos()), "trailers count only when a key carries at least one value", "isTrailersOnlyResponse treats a response as having trailers because of trailer KEYS:"+bad+" net/http pre-populates declared trailer names with nil values, so a correct trailers-only response with a Trailer declaration is examined against an empty trailer map")
}

// ---------- C14 ----------

func emitUnfinishedResetsRule(p *Prog, r *Report) {
	fn := p.Func(pkgTr, "dataTracer", "emitUnfinished")
	if fn == nil {
		r.Undecided("reset.prefix", "R-MUSTCALL", "dataTracer.emitUnfinished not found")
		return
	}
	r.Func(funcName(fn))
	var missing []string
	for _, name := range []string{"prefix", "actual", "expecting", "env"} {
		f := p.Field(pkgTr, "dataTracer", name)
		r.Sites++
		ok, _ := entryMustPass(fn, func(in ssa.Instruction) bool {
			st, isSt := in.(*ssa.Store)
			if !isSt {
				return false
			}
			fa, isFA := st.Addr.(*ssa.FieldAddr)
			return isFA && fieldVar(fa.X.Type(), fa.Field) == f
		})
		if !ok {
			missing = append(missing, name)
		}
	}
	r.Check(len(missing) == 0, "reset.prefix", "R-MUSTCALL", p.Pos(fn.Pos()), "emitUnfinished resets prefix, actual, expecting and env on every path", fmt.Sprintf("emitUnfinished does not reset %v on every path: it is called at request end and again at response end, and the second call re-emits the partial event after the body-end event", missing))
}

// ---------- C18 ----------

func rawDetailBytesRule(p *Prog, r *Report) {
	n := 0
	bad := ""
	for _, name := range []string{"ConvertConnectToProtoError"} {
		fn := p.Func("internal", "", name)
		if fn == nil {
			r.Undecided("cover.raw-detail-bytes", "R-PASSTHRU", name+" not found")
			return
		}
		r.Func(funcName(fn))
		eachInstr(fn, func(in ssa.Instruction) {
			c := callCommon(in)
			if c == nil || c.StaticCallee() == nil {
				return
			}
			f := c.StaticCallee()
			if f.Name() == "Bytes" && f.Signature.Recv() != nil {
				n++
			}
			if (f.Name() == "New" && f.Pkg != nil && strings.HasSuffix(f.Pkg.Pkg.Path(), "anypb")) || (f.Name() == "Value" && f.Signature.Recv() != nil && strings.Contains(f.Signature.Recv().Type().String(), "ErrorDetail")) {
				bad += " " + f.Name() + " at " + p.InstrPos(in) + ";"
			}
		})
	}
	r.Sites += n
	r.Check(n >= 1 && bad == "", "cover.raw-detail-bytes", "R-PASSTHRU", "-", "details are copied with detail.Bytes(); nothing is decoded and re-marshalled", "an error detail is decoded and re-marshalled during conversion:"+bad+" a detail whose valid encoding is not Go's canonical one (field order, explicit zero, non-minimal varint, unknown fields) changes its bytes")
}

// ---------- C19 ----------

func cachedErrorFirstRule(p *Prog, r *Report) {
	fn := p.Func(pkgRS, "firstReqCachingStream", "Receive")
	errF := p.Field(pkgRS, "firstReqCachingStream", "recvErr")
	if fn == nil || errF == nil {
		r.Undecided("first-message.error-first", "R-ORDER", "firstReqCachingStream.Receive not found")
		return
	}
	r.Func(funcName(fn))
	r.Sites++
	// the replay of the cached request (proto.Merge) happens only on the recvErr == nil edge
	n := 0
	bad := ""
	eachInstr(fn, func(in ssa.Instruction) {
		c := callCommon(in)
		if c == nil || !isCallToNamed(c, "google.golang.org/protobuf/proto", "", "Merge") {
			return
		}
		n++
		if !guardedBy(in, func(a Atom) bool {
			m, isNil := nilTestOn(a, func(x ssa.Value) bool { return loadedField(canon(x)) == errF })
			return m && isNil
		}) {
			bad += " " + p.InstrPos(in) + ";"
		}
	})
	r.Check(n >= 1 && bad == "", "first-message.error-first", "R-ORDER", p.Pos(fn.Pos()), "the cached request is replayed only when no pre-read error is pending", "firstReqCachingStream.Receive replays the cached first request without having checked the cached receive error:"+bad+" an over-limit first message is handed to the handler as an empty message with a nil error instead of resource_exhausted")
}

func streamErrAfterLoopRule(p *Prog, r *Report) {
	fn := p.Func(pkgRS, "conformanceServer", "ClientStream")
	if fn == nil {
		r.Undecided("stream-err.after-loop", "R-MUSTCALL", "referenceserver ClientStream not found")
		return
	}
	r.Func(funcName(fn))
	r.Sites++
	isNamed := func(name string) instrPred {
		return func(in ssa.Instruction) bool {
			c := callCommon(in)
			return c != nil && c.StaticCallee() != nil && fnBase(c.StaticCallee()) == name && c.StaticCallee().Signature.Recv() != nil && strings.Contains(c.StaticCallee().Signature.Recv().Type().String(), "ClientStream")
		}
	}
	errs := findInstrs(fn, isNamed("Err"))
	parse := findInstrs(fn, func(in ssa.Instruction) bool {
		c := callCommon(in)
		return c != nil && c.StaticCallee() != nil && c.StaticCallee().Name() == "parseUnaryResponseDefinition"
	})
	ok := len(errs) >= 1 && len(parse) == 1
	if ok {
		// the response is built only after stream.Err() was consulted and found nil
		ok = guardedBy(parse[0], func(a Atom) bool {
			m, isNil := nilTestOn(a, func(x ssa.Value) bool { return canon(x) == errs[0].(ssa.Value) })
			return m && isNil
		})
	}
	r.Check(ok, "stream-err.after-loop", "R-MUSTCALL", p.Pos(fn.Pos()), "the response is built only on the stream.Err() == nil edge", "the reference server's ClientStream builds its response without having consulted stream.Err(): a receive failure with a live context (an over-limit later message) is swallowed and the call is answered normally")
}

// mustPassToCall: every path from the entry of fn to a call of the method
// named callee passes an instruction satisfying target.
func mustPassToCall(fn *ssa.Function, target instrPred, callee string) (bool, ssa.Instruction) {
	for _, in := range findInstrs(fn, func(in ssa.Instruction) bool {
		c := callCommon(in)
		return c != nil && c.StaticCallee() != nil && c.StaticCallee().Name() == callee
	}) {
		if !precededBy(in, target) {
			return false, in
		}
	}
	return true, nil
}
