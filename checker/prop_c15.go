package main

import (
	"fmt"
	"go/constant"
	"go/token"
	"go/types"
	"strings"

	"golang.org/x/tools/go/ssa"
)

func init() {
	register(&propMeta{
		ID: "C15",
		Explain: "Decides structural necessary conditions of 'HTTP/2 connection tracing is transparent and attributes frames to the right call': " +
			"(passthru) tracingHTTP2Conn.Read/Write/Close delegate to exactly one inner call with their own parameters and return its results unchanged, the tracer sees data[:n] (reads) / data before the write (writes) and never writes the buffer; tracingListener.Accept passes the error through and wraps the accepted conn; " +
			"(nil) every dereference through Trace.Response, Trace.Request and every use of a stream's response tracer (whose builder is nil until response headers) is dominated by the matching non-nil / gotResponse guard; every Trace literal that sets TestName sets Request; " +
			"(panic) every potential panic site (index, slice, make, type assertion, division, explicit panic) reachable from the frame tracer entries is discharged by a guard; " +
			"(broken) the broken latch is only ever set, and the frame tracer touches no state once it is set; " +
			"(locked) streams/maxStreamID under the connection mutex, waiting under the retry collector's mutex; " +
			"(retry-window) retryWait < TraceTimeout; " +
			"(close-rules) every removal of a stream is followed on every path by a body-end event, GOAWAY sweep and new-stream admission use the same strict comparison against the last stream id, every new stream announces a new attempt with the stream's own test name, the retry collector forwards held traces on timesUp and cancel; " +
			"(accumulate) partial frame/prefix progress is accumulated, not overwritten. " +
			"It does NOT decide attribution of frames under every interleaving and partition, nor HPACK state.",
		NotDecided: []string{"attribution of frames to streams for all interleavings and partitions into Read/Write calls", "HPACK decoder state", "behaviour of golang.org/x/net/http2 framer on malformed frames (treated as opaque; errors mark the tracer broken)"},
		Assume:     []string{"net.Conn.Read(p) returns 0 <= n <= len(p)", "x/net/http2 Framer.ReadFrame and hpack never panic on arbitrary input (third-party, outside the analysed program)", "int is at least 32 bits for the frame-length arithmetic"},
		Trusted:    commonTrusted,
		Run:        runC15,
	})
	f := "internal/tracer/http2.go"
	addMutants(
		Mutant{ID: "C15-D5a-resp-trailers", Prop: "C15", File: f,
			Old:    "\t\t\tif resp := stream.builder.trace.Response; resp != nil {\n\t\t\t\tresp.Trailer = makeHeaders(frame)\n\t\t\t}",
			New:    "\t\t\tstream.builder.trace.Response.Trailer = makeHeaders(frame)",
			Expect: []string{"nil.Trace.Response"}, Note: "original defect D5a: nil Response dereferenced for streams without test name"},
		Mutant{ID: "C15-D5b-data-before-headers", Prop: "C15", File: f,
			Old:    "\t\t} else if stream.gotResponse {\n\t\t\tstream.responseTracer.trace(frame.Data())",
			New:    "\t\t} else {\n\t\t\tstream.responseTracer.trace(frame.Data())",
			Expect: []string{"nil.responseTracer"}, Note: "original defect D5b: response tracer used before response headers"},
		Mutant{ID: "C15-D5c-no-bodyend", Prop: "C15", File: f,
			Old:    "\t} else {\n\t\tstream.requestTracer.emitUnfinished()\n\t\tif stream.gotResponse {\n\t\t\tstream.responseTracer.emitUnfinished()\n\t\t}\n\t\tstream.builder.add(&ResponseBodyEnd{Err: err})\n\t}\n}\n\nfunc (c *tracingHTTP2Conn) setMaxStreamIDLocked",
			New:    "\t} else if stream.gotResponse {\n\t\tstream.requestTracer.emitUnfinished()\n\t\tstream.responseTracer.emitUnfinished()\n\t\tstream.builder.add(&ResponseBodyEnd{Err: err})\n\t}\n}\n\nfunc (c *tracingHTTP2Conn) setMaxStreamIDLocked",
			Expect: []string{"close-rules.delete-then-end"}, Note: "original defect D5c: stream removed without a body-end when no response headers were seen"},
		Mutant{ID: "C15-actual-overwritten", Prop: "C15", File: f,
			Old: "\t\th.actual += uint64(len(data))", New: "\t\th.actual = uint64(len(data))",
			Expect: []string{"accumulate."}, Note: "seed C15-1: frame payload progress overwritten"},
		Mutant{ID: "C15-goaway-offbyone", Prop: "C15", File: f,
			Old: "\t\tif streamID > maxStreamID {", New: "\t\tif streamID >= maxStreamID {",
			Expect: []string{"close-rules.goaway-compare"}, Note: "seed C15-2: GOAWAY sweep kills the last valid stream"},
		Mutant{ID: "C15-write-count", Prop: "C15", File: f,
			Old:    "\tn, err = c.Conn.Write(data)\n\tif err != nil {\n\t\tc.cancelAll(err)\n\t}\n\treturn n, err",
			New:    "\tn, err = c.Conn.Write(data)\n\tif err != nil {\n\t\tc.cancelAll(err)\n\t\treturn 0, err\n\t}\n\treturn n, err",
			Expect: []string{"passthru.conn.Write"}, Note: "short-write count replaced by 0"},
		Mutant{ID: "C15-broken-cleared", Prop: "C15", File: f,
			Old: "\t\t\tif !prefaceIsValid(h.prefaceBytes) {\n\t\t\t\th.broken = true", New: "\t\t\tif !prefaceIsValid(h.prefaceBytes) {\n\t\t\t\th.broken = len(data) > 0",
			Expect: []string{"broken.latch"}, Note: "broken flag written with a non-constant"},
		Mutant{ID: "C15-streams-unlocked", Prop: "C15", File: f,
			Old: "func (c *tracingHTTP2Conn) handleFrame(frame http2.Frame, isRequest bool) {\n\tc.mu.Lock()\n\tdefer c.mu.Unlock()\n", New: "func (c *tracingHTTP2Conn) handleFrame(frame http2.Frame, isRequest bool) {\n",
			Expect: []string{"locked."}, Note: "frame handling without the connection mutex"},
		Mutant{ID: "C15-retry-window", Prop: "C15", File: f,
			Old: "retryWait = 3 * time.Second", New: "retryWait = 6 * time.Second",
			Expect: []string{"retry-window"}, Note: "retry wait exceeds the consumer's trace timeout"},
		Mutant{ID: "C15-no-new-attempt", Prop: "C15", File: f,
			Old: "\tc.collector.newAttempt(builder.trace.TestName)\n", New: "",
			Expect: []string{"close-rules.new-attempt"}, Note: "a retry no longer cancels the held trace of the refused attempt"},
		Mutant{ID: "C15-prefix-not-reset", Prop: "C15", File: f,
			Old: "\th.frame.Write(h.prefix)\n\th.prefix = h.prefix[:0]\n", New: "\th.frame.Write(h.prefix)\n\th.prefix = h.prefix[:1]\n",
			Expect: []string{"panic."}, Note: "frame-header buffer not emptied: 9-len(prefix) can go negative (slice panic inside Read/Write)"},
		Mutant{ID: "C15-split-unguarded", Prop: "C15", File: f,
			Old: "\tif strings.Contains(path, \"?\") {\n\t\t// There's a query string.", New: "\tif path != \"\" {\n\t\t// There's a query string.",
			Expect: []string{"panic."}, Note: "parts[1] indexed without the separator being present"},
		Mutant{ID: "C15-need-unchecked", Prop: "C15", File: f,
			Old: "\tneed := int(h.expecting - uint32(h.actual))\n\tif len(data) < need {", New: "\tneed := int(h.expecting - uint32(h.actual))\n\tif len(data) == 0 {",
			Expect: []string{"panic."}, Note: "payload slice taken without checking that enough bytes arrived"},
		Mutant{ID: "C15-accept-swallow", Prop: "C15", File: f,
			Old: "\tconn, err := t.Listener.Accept()\n\tif err != nil {\n\t\treturn nil, err\n\t}", New: "\tconn, err := t.Listener.Accept()\n\tif err != nil {\n\t\treturn nil, net.ErrClosed\n\t}",
			Expect: []string{"passthru.listener.Accept"}, Note: "Accept error replaced"},
	)
}

func tracerFuncs(p *Prog) []*ssa.Function {
	var out []*ssa.Function
	for _, fn := range p.RepoFuncs() {
		top := fn
		for top.Parent() != nil {
			top = top.Parent()
		}
		pk := top.Pkg
		if pk == nil && top.Origin() != nil {
			pk = top.Origin().Pkg
		}
		if pk != nil && pk.Pkg.Path() == trPath {
			out = append(out, fn)
		}
	}
	return out
}

func runC15(p *Prog, r *Report) {
	must := NewLockInfo(p, true)
	trFns := tracerFuncs(p)
	isInvoke := func(method string) func(*ssa.CallCommon) bool {
		return func(c *ssa.CallCommon) bool { return c.IsInvoke() && c.Method.Name() == method }
	}
	// ---- passthru ----
	rd := p.Func(pkgTr, "tracingHTTP2Conn", "Read")
	wr := p.Func(pkgTr, "tracingHTTP2Conn", "Write")
	rulePassthru(p, r, passthruSpec{Key: "passthru.conn.Read", Fn: rd, InnerIs: isInvoke("Read"), NResults: 2, ParamArgs: map[int]int{0: 1}})
	rulePassthru(p, r, passthruSpec{Key: "passthru.conn.Write", Fn: wr, InnerIs: isInvoke("Write"), NResults: 2, ParamArgs: map[int]int{0: 1}})
	rulePassthru(p, r, passthruSpec{Key: "passthru.conn.Close", Fn: p.Func(pkgTr, "tracingHTTP2Conn", "Close"), InnerIs: isInvoke("Close"), NResults: 1})
	frameTrace := p.TypeFunc(pkgTr, "http2FrameTracer", "trace")
	if rd != nil && wr != nil && frameTrace != nil {
		var innerR *ssa.Call
		eachInstr(rd, func(in ssa.Instruction) {
			if c, ok := in.(*ssa.Call); ok && c.Call.IsInvoke() && c.Call.Method.Name() == "Read" {
				innerR = c
			}
		})
		calls := findInstrs(rd, isCallObj(frameTrace))
		ok := len(calls) == 1 && innerR != nil
		if ok {
			sl, isSl := callCommon(calls[0]).Args[1].(*ssa.Slice)
			ok = isSl && sl.X == ssa.Value(rd.Params[1]) && sl.Low == nil && sl.High != nil && isResultOf(sl.High, innerR, 0, 2)
		}
		r.Sites++
		r.Check(ok, "passthru.conn.Read.traced-slice", "R-PASSTHRU", p.Pos(rd.Pos()), "the frame tracer sees exactly data[:n] of the wrapped read", "the bytes handed to the frame tracer on Read are not data[:n] of the wrapped call")
		callsW := findInstrs(wr, isCallObj(frameTrace))
		okW := len(callsW) == 1 && callCommon(callsW[0]).Args[1] == ssa.Value(wr.Params[1])
		r.Sites++
		r.Check(okW, "passthru.conn.Write.traced-slice", "R-PASSTHRU", p.Pos(wr.Pos()), "the frame tracer sees the data handed to Write", "the bytes handed to the frame tracer on Write are not the caller's data")
		for _, w := range []struct {
			k  string
			fn *ssa.Function
			in string
		}{{"passthru.conn.Read", rd, "Read"}, {"passthru.conn.Write", wr, "Write"}} {
			r.Sites++
			okRO, why := readOnlyParam(p, w.fn, 1, map[*ssa.Function]bool{}, isInvoke(w.in))
			r.Check(okRO, w.k+".readonly", "R-PASSTHRU", p.Pos(w.fn.Pos()), "the buffer is only read by the wrapper and the frame tracer", "the traced buffer may be modified or retained: "+why)
		}
	}
	if acc := p.Func(pkgTr, "tracingListener", "Accept"); acc == nil {
		r.Undecided("passthru.listener.Accept", "R-PASSTHRU", "Accept not found")
	} else {
		var inner *ssa.Call
		eachInstr(acc, func(in ssa.Instruction) {
			if c, ok := in.(*ssa.Call); ok && c.Call.IsInvoke() && c.Call.Method.Name() == "Accept" {
				inner = c
			}
		})
		ok := inner != nil
		wrapped := false
		if ok {
			for _, ret := range returnsOf(acc) {
				for _, v := range retVals(ret, 1) {
					if !isNilValue(v) && !isResultOf(v, inner, 1, 2) {
						ok = false
					}
				}
				for _, v := range retVals(ret, 0) {
					if c, isCall := canon(v).(*ssa.Call); isCall && isCallToNamed(&c.Call, trPath, "", "TracingHTTP2Conn") {
						wrapped = isResultOf(c.Call.Args[0], inner, 0, 2)
						if b, isC := constBool(c.Call.Args[1]); !isC || !b {
							wrapped = false
						}
					}
				}
			}
		}
		r.Sites++
		r.Check(ok && wrapped, "passthru.listener.Accept", "R-PASSTHRU", p.Pos(acc.Pos()), "Accept returns the wrapped listener's error unchanged and wraps the accepted conn as a server connection",
			"tracingListener.Accept alters the error of the wrapped listener or does not wrap the accepted connection as a server connection")
	}

	// ---- nil fields ----
	respF := p.Field(pkgTr, "Trace", "Response")
	reqF := p.Field(pkgTr, "Trace", "Request")
	testName := p.Field(pkgTr, "Trace", "TestName")
	all := p.RepoFuncs()
	nameNonEmpty := func(a Atom) bool {
		if a.Op != token.NEQ {
			return false
		}
		x, y := a.X, a.Y
		if s, ok := constString(x); ok && s == "" {
			x, y = y, x
		}
		s, ok := constString(y)
		return ok && s == "" && loadedField(canon(x)) == testName
	}
	n := ruleNilField(p, r, nilFieldRule{Key: "nil.Trace.Response", Field: respF, Scope: all})
	n += ruleNilField(p, r, nilFieldRule{Key: "nil.Trace.Request", Field: reqF, Scope: all,
		Extra: func(d ssa.Instruction, _ ssa.Value) (bool, string) {
			return guardedBy(d, nameNonEmpty), "TestName != \"\" implies Request != nil"
		},
		Exempt: map[string]string{
			"(*internal/app/referenceclient.wireTracer).Complete": "a Collector only receives traces with TestName != \"\" (builder.finish, C16.finish-once.forward-nonempty) and every such trace carries its Request (nil.trace-literal)",
		}})
	r.Floor("nil-field-derefs", n, 8)
	// correlation: every Trace literal that sets TestName sets Request
	lits := 0
	for _, fn := range trFns {
		eachInstr(fn, func(in ssa.Instruction) {
			st, ok := in.(*ssa.Store)
			if !ok {
				return
			}
			fa, ok := st.Addr.(*ssa.FieldAddr)
			if !ok || fieldVar(fa.X.Type(), fa.Field) != testName {
				return
			}
			if s, isC := constString(st.Val); isC && s == "" {
				return
			}
			lits++
			r.Sites++
			okR, _ := mustPass(in, func(x ssa.Instruction) bool {
				s2, ok := x.(*ssa.Store)
				if !ok {
					return false
				}
				f2, ok := s2.Addr.(*ssa.FieldAddr)
				return ok && f2.X == fa.X && fieldVar(f2.X.Type(), f2.Field) == reqF && !isNilConst(s2.Val)
			})
			r.Check(okR, "nil.trace-literal@"+funcName(fn), "R-NILFIELD", p.InstrPos(in), "the Trace that gets a TestName also gets its Request", "a Trace is given a TestName without a Request: consumers rely on TestName != \"\" implying Request != nil")
		})
	}
	r.Floor("trace-literals", lits, 1)
	// the stream's response tracer is unusable before response headers
	respTr := p.Field(pkgTr, "http2Stream", "responseTracer")
	gotResp := p.Field(pkgTr, "http2Stream", "gotResponse")
	dtBuilder := p.Field(pkgTr, "dataTracer", "builder")
	uses := 0
	badUses := 0
	for _, fn := range trFns {
		eachInstr(fn, func(in ssa.Instruction) {
			c := callCommon(in)
			if c == nil || c.IsInvoke() || len(c.Args) == 0 {
				return
			}
			fa, ok := c.Args[0].(*ssa.FieldAddr)
			if !ok || fieldVar(fa.X.Type(), fa.Field) != respTr {
				return
			}
			uses++
			r.Sites++
			sp := path(fa.X)
			if !guardedBy(in, func(a Atom) bool {
				m, v := boolTestOn(a, func(x ssa.Value) bool { return loadedField(x) == gotResp && strings.HasPrefix(path(x), sp+".") })
				return m && v
			}) {
				badUses++
				r.Fail("nil.responseTracer@"+funcName(fn), "R-NILFIELD", p.InstrPos(in), "the stream's response tracer is used in "+funcName(fn)+" without the gotResponse guard: before response headers its builder is nil and any event it emits dereferences nil (crash inside Read/Write)")
			}
		})
	}
	if badUses == 0 {
		r.OK("nil.responseTracer", "R-NILFIELD", "-", fmt.Sprintf("all %d use(s) of http2Stream.responseTracer are on the gotResponse edge", uses))
	}
	r.Floor("responseTracer-uses", uses, 4)
	// gotResponse = true is followed by the builder assignment
	for _, st := range storesToField(trFns, gotResp) {
		r.Sites++
		okB, _ := mustPass(st.Instr, func(x ssa.Instruction) bool {
			s2, ok := x.(*ssa.Store)
			if !ok {
				return false
			}
			f2, ok := s2.Addr.(*ssa.FieldAddr)
			return ok && fieldVar(f2.X.Type(), f2.Field) == dtBuilder && !isNilConst(s2.Val)
		})
		r.Check(okB, "nil.gotResponse-implies-builder", "R-NILFIELD", p.InstrPos(st.Instr), "setting gotResponse is followed by giving the response tracer its builder", "gotResponse is set without the response tracer receiving its builder: the guard no longer protects the nil builder")
	}
	ruleLatch(p, r, "nil.gotResponse-latch", gotResp)

	// ---- broken ----
	broken := p.Field(pkgTr, "http2FrameTracer", "broken")
	ruleLatch(p, r, "broken.latch", broken)
	if tr := p.Func(pkgTr, "http2FrameTracer", "trace"); tr == nil {
		r.Undecided("broken.stop", "R-GUARD", "http2FrameTracer.trace not found")
	} else {
		bad := 0
		cnt := 0
		eachInstr(tr, func(in ssa.Instruction) {
			c := callCommon(in)
			if c == nil {
				return
			}
			if _, isB := c.Value.(*ssa.Builtin); isB {
				return
			}
			cnt++
			r.Sites++
			if !guardedBy(in, func(a Atom) bool { m, v := boolTestOn(a, isLoadOfField(broken)); return m && !v }) {
				bad++
				r.Fail("broken.stop", "R-GUARD", p.InstrPos(in), "the frame tracer calls "+callPath(c, 0)+" without having tested the broken flag: after invalid input it must give up instead of interpreting further bytes")
			}
		})
		if bad == 0 {
			r.OK("broken.stop", "R-GUARD", p.Pos(tr.Pos()), fmt.Sprintf("all %d call(s) in trace are on the !broken edge", cnt))
		}
	}

	// ---- locked ----
	nl := ruleLocked(p, r, must, lockRule{Key: "locked.streams", Field: p.Field(pkgTr, "tracingHTTP2Conn", "streams"), Mu: "mu"})
	nl += ruleLocked(p, r, must, lockRule{Key: "locked.maxStreamID", Field: p.Field(pkgTr, "tracingHTTP2Conn", "maxStreamID"), Mu: "mu"})
	nl += ruleLocked(p, r, must, lockRule{Key: "locked.waiting", Field: p.Field(pkgTr, "http2RetryCollector", "waiting"), Mu: "mu"})
	r.Floor("locked-accesses", nl, 20)

	// ---- retry window ----
	rw, tt := p.Const(pkgTr, "retryWait"), p.Const(pkgTr, "TraceTimeout")
	r.Sites++
	if rw == nil || tt == nil {
		r.Undecided("retry-window", "const-relation", "retryWait / TraceTimeout not found")
	} else {
		r.Check(constant.Compare(rw.Val(), token.LSS, tt.Val()), "retry-window", "const-relation", p.Pos(rw.Pos()),
			fmt.Sprintf("retryWait (%s) < TraceTimeout (%s)", rw.Val(), tt.Val()),
			fmt.Sprintf("retryWait (%s) is not smaller than TraceTimeout (%s): a refused-but-not-retried stream cannot deliver its trace inside the consumer's wait", rw.Val(), tt.Val()))
	}

	// ---- close rules ----
	streams := p.Field(pkgTr, "tracingHTTP2Conn", "streams")
	addObj := p.TypeFunc(pkgTr, "builder", "add")
	isBodyEndAdd := func(in ssa.Instruction) bool {
		c := callCommon(in)
		if c == nil || calleeObj(c) != addObj || len(c.Args) < 2 {
			return false
		}
		k := eventKind(c.Args[1])
		return k == "RequestBodyEnd" || k == "ResponseBodyEnd"
	}
	nd := 0
	for _, fn := range trFns {
		for _, d := range builtinCallsOn(fn, "delete", streams) {
			nd++
			r.Sites++
			ok, exit := mustPass(d, isBodyEndAdd)
			r.Check(ok, "close-rules.delete-then-end@"+funcName(fn), "R-MUSTCALL", p.InstrPos(d), "removal of the stream is followed by a body-end event on every path",
				"a stream is removed from the connection in "+funcName(fn)+" on a path (to "+p.InstrPos(exit)+") that adds no body-end event: its trace is never completed (not even when the connection closes, the stream being gone)")
		}
	}
	r.Floor("stream-removals", nd, 3)
	// GOAWAY comparison agrees with admission of new streams
	maxID := p.Field(pkgTr, "tracingHTTP2Conn", "maxStreamID")
	setMax := p.Func(pkgTr, "tracingHTTP2Conn", "setMaxStreamIDLocked")
	getStream := p.Func(pkgTr, "tracingHTTP2Conn", "getStreamLocked")
	if setMax == nil || getStream == nil {
		r.Undecided("close-rules.goaway-compare", "R-TABLE-AGREE", "setMaxStreamIDLocked/getStreamLocked not found")
	} else {
		r.Func(funcName(setMax))
		r.Func(funcName(getStream))
		okSweep := false
		for _, d := range builtinCallsOn(setMax, "delete", streams) {
			okSweep = guardedBy(d, func(a Atom) bool {
				// streamID > maxStreamID (the parameter)
				op, x, y := a.Op, a.X, a.Y
				if op == token.LSS {
					op, x, y = token.GTR, y, x
				}
				return op == token.GTR && canon(y) == ssa.Value(setMax.Params[1]) && !isConstVal(x)
			})
		}
		okAdmit := false
		newStream := p.TypeFunc(pkgTr, "tracingHTTP2Conn", "newStreamLocked")
		for _, c := range findInstrs(getStream, isCallObj(newStream)) {
			// creation is on the edge NOT(maxStreamID != 0 && id > maxStreamID); the refusing return is on id > max
			_ = c
			for _, ret := range returnsOf(getStream) {
				vals := retVals(ret, 0)
				if len(vals) == 1 && isNilValue(vals[0]) {
					if guardedBy(ret, func(a Atom) bool {
						op, x, y := a.Op, a.X, a.Y
						if op == token.LSS {
							op, x, y = token.GTR, y, x
						}
						return op == token.GTR && loadedField(canon(y)) == maxID && !isConstVal(x)
					}) {
						okAdmit = true
					}
				}
			}
		}
		r.Sites += 2
		r.Check(okSweep && okAdmit, "close-rules.goaway-compare", "R-TABLE-AGREE", p.Pos(setMax.Pos()),
			"GOAWAY sweep removes ids > last and admission refuses ids > last (same strict comparison)",
			"the GOAWAY sweep and the admission of new streams disagree about the last valid stream id (both must use a strict `id > lastStreamID`): the stream with id == LastStreamID would be dropped although the server will still answer it")
	}
	// every new stream announces a new attempt with its own test name
	if ns := p.Func(pkgTr, "tracingHTTP2Conn", "newStreamLocked"); ns == nil {
		r.Undecided("close-rules.new-attempt", "R-MUSTCALL", "newStreamLocked not found")
	} else {
		na := p.TypeFunc(pkgTr, "http2RetryCollector", "newAttempt")
		ok, _ := entryMustPass(ns, func(in ssa.Instruction) bool {
			c := callCommon(in)
			return c != nil && calleeObj(c) == na && len(c.Args) == 2 && loadedField(canon(c.Args[1])) == testName
		})
		r.Sites++
		r.Check(ok, "close-rules.new-attempt", "R-MUSTCALL", p.Pos(ns.Pos()), "newAttempt(<stream's TestName>) on every path", "a new stream does not announce a new attempt (with its own test name) to the retry collector: the held trace of a refused attempt would be delivered in addition to / instead of the retry's")
	}
	// retry collector forwards on timesUp and cancel
	collectorComplete := func(in ssa.Instruction) bool {
		c := callCommon(in)
		return c != nil && c.IsInvoke() && objIs(c.Method, trPath, "Collector", "Complete")
	}
	for _, name := range []string{"timesUp", "cancel"} {
		fn := p.Func(pkgTr, "http2RetryCollector", name)
		r.Sites++
		if fn == nil {
			r.Undecided("close-rules.retry-forward."+name, "R-MUSTCALL", name+" not found")
			continue
		}
		cnt := 0
		for _, f := range withClosures(fn) {
			cnt += len(findInstrs(f, collectorComplete))
		}
		r.Check(cnt >= 1, "close-rules.retry-forward."+name, "R-MUSTCALL", p.Pos(fn.Pos()), name+" forwards held traces to the real collector", "http2RetryCollector."+name+" no longer forwards the held trace(s): a refused, not retried stream would never deliver its trace")
	}
	if cp := p.Func(pkgTr, "http2RetryCollector", "Complete"); cp != nil {
		// the timer callback calls timesUp
		tu := p.TypeFunc(pkgTr, "http2RetryCollector", "timesUp")
		cnt := 0
		for _, f := range withClosures(cp) {
			cnt += len(findInstrs(f, isCallObj(tu)))
		}
		r.Sites++
		r.Check(cnt == 1, "close-rules.retry-timer", "R-MUSTCALL", p.Pos(cp.Pos()), "the retry timer ends in timesUp", "the retry wait timer no longer ends in timesUp")
		rwUse := false
		eachInstr(cp, func(in ssa.Instruction) {
			if c := callCommon(in); c != nil && isCallToNamed(c, "time", "", "AfterFunc") {
				if k, ok := strip(c.Args[0]).(*ssa.Const); ok && rw != nil && constant.Compare(k.Value, token.EQL, constant.ToInt(rw.Val())) {
					rwUse = true
				}
			}
		})
		r.Sites++
		r.Check(rwUse, "close-rules.retry-timer-duration", "R-SINGLE-SOURCE", p.Pos(cp.Pos()), "the timer waits retryWait", "the retry timer does not wait retryWait (the constant whose relation to TraceTimeout is checked)")
	}

	// ---- accumulate ----
	for _, w := range []struct{ typ, fn string }{{"http2FrameTracer", "traceFrameLocked"}, {"dataTracer", "traceMessageLocked"}} {
		fn := p.Func(pkgTr, w.typ, w.fn)
		act := p.Field(pkgTr, w.typ, "actual")
		if fn == nil || act == nil {
			r.Undecided("accumulate."+w.typ, "R-WIRE", w.fn+" not found")
			continue
		}
		r.Func(funcName(fn))
		okAcc := false
		for _, st := range storesToField([]*ssa.Function{fn}, act) {
			if z, isC := constInt(st.Val); isC && z == 0 {
				continue
			}
			r.Sites++
			bo, ok := st.Val.(*ssa.BinOp)
			if ok && bo.Op == token.ADD && (loadedField(bo.X) == act || loadedField(bo.Y) == act) {
				okAcc = true
			} else {
				r.Fail("accumulate."+w.typ, "R-WIRE", p.InstrPos(st.Instr), "partial-message progress in "+w.fn+" is stored as "+path(st.Val)+" instead of being added to the bytes already seen: a payload split over three or more reads/writes desynchronises the tracer")
				okAcc = false
				break
			}
		}
		if okAcc {
			r.OK("accumulate."+w.typ, "R-WIRE", p.Pos(fn.Pos()), "actual += len(data) on the partial path")
		}
	}
	for _, w := range []struct{ typ, fn, fld string }{{"http2FrameTracer", "traceHeaderLocked", "prefix"}, {"dataTracer", "tracePrefixLocked", "prefix"}, {"http2FrameTracer", "trace", "prefaceBytes"}} {
		fn := p.Func(pkgTr, w.typ, w.fn)
		fld := p.Field(pkgTr, w.typ, w.fld)
		if fn == nil || fld == nil {
			r.Undecided("accumulate."+w.typ+"."+w.fld, "R-WIRE", w.fn+" not found")
			continue
		}
		ok := true
		cnt := 0
		for _, st := range storesToField([]*ssa.Function{fn}, fld) {
			r.Sites++
			v := canon(st.Val)
			if sl, isSl := v.(*ssa.Slice); isSl && loadedField(sl.X) == fld {
				continue // reset: prefix[:0]
			}
			c, isCall := v.(*ssa.Call)
			if isCall {
				if b, isB := c.Call.Value.(*ssa.Builtin); isB && b.Name() == "append" && loadedField(canon(c.Call.Args[0])) == fld {
					cnt++
					continue
				}
			}
			ok = false
			r.Fail("accumulate."+w.typ+"."+w.fld, "R-WIRE", p.InstrPos(st.Instr), w.fld+" is overwritten with "+path(st.Val)+" instead of being appended to: a prefix split over several reads/writes is lost")
		}
		if ok {
			r.Check(cnt >= 1, "accumulate."+w.typ+"."+w.fld, "R-WIRE", p.Pos(fn.Pos()), fmt.Sprintf("%d append(s) to %s, resets only via [:0]", cnt, w.fld), w.fn+" never accumulates "+w.fld)
		}
	}

	// ---- panic audit ----
	entries := []*ssa.Function{
		p.Func(pkgTr, "tracingHTTP2Conn", "Read"), p.Func(pkgTr, "tracingHTTP2Conn", "Write"), p.Func(pkgTr, "tracingHTTP2Conn", "Close"),
		p.Func(pkgTr, "http2RetryCollector", "Complete"), p.Func(pkgTr, "http2RetryCollector", "timesUp"), p.Func(pkgTr, "http2RetryCollector", "cancel"), p.Func(pkgTr, "http2RetryCollector", "newAttempt"),
	}
	rulePanic(p, r, panicSpec{Key: "panic", Entries: entries, Floor: 15, StayIn: []string{trPath}, Invariants: tracerInvariants(p)})
}

func isConstVal(v ssa.Value) bool {
	_, ok := strip(v).(*ssa.Const)
	return ok
}

var _ = types.Typ

func constIntOf(c *types.Const) int64 {
	if c == nil {
		return -1
	}
	v, _ := constant.Int64Val(constant.ToInt(c.Val()))
	return v
}

// tracerInvariants: the reassembly buffers never exceed the size of the
// prefix they collect (proved by induction over all their writers).
func tracerInvariants(p *Prog) []lenInv {
	return []lenInv{
		{Field: p.Field(pkgTr, "dataTracer", "prefix"), K: constIntOf(p.Const(pkgTr, "prefixLen")), Name: "dataTracer.prefix<=prefixLen"},
		{Field: p.Field(pkgTr, "http2FrameTracer", "prefix"), K: constIntOf(p.Const(pkgTr, "frameHeaderLen")), Name: "http2FrameTracer.prefix<=frameHeaderLen"},
	}
}
