package main

import (
	"fmt"
	"go/token"
	"go/types"

	"golang.org/x/tools/go/ssa"
)

func init() {
	register(&propMeta{
		ID: "C09",
		Explain: "Decides structural necessary conditions of 'length-prefixed framing survives any chunking and detects truncation': " +
			"(bounded-alloc) in the runner's reader the length decoded from the prefix reaches the allocating read only on the `size > maxSize` false edge, read is called from nowhere else with a non-constant size, and maxSize/timeout come unmodified from the callers' constants; " +
			"(eof) an end of input after the prefix (runner reader, its chunk loop with offs > 0, and the peers' binary decoder) is rewritten to io.ErrUnexpectedEOF on every path before it is returned; " +
			"(prefix-agree) writer and readers use binary.BigEndian 32-bit values in 4-byte buffers, the written value is the length of the data written next, the runner reads exactly 4 prefix bytes; " +
			"(timeout) the wait is a select with a time.After(r.timeout) arm, the progress fields are accessed under the reader's mutex (except the initialisation before the reader goroutine starts), entering the payload phase resets the progress counter and records the announced size in the same critical section, and the timeout error reports both; " +
			"(panic) every potential panic site reachable from the framing entry points is discharged. " +
			"It does NOT decide invariance under every partition of the byte stream (loop arithmetic over runtime read sizes). The peers' binary decoder has no size limit (nothing to decide there).",
		NotDecided: []string{"invariance of the decoded sequence under every partition of the byte stream into reads", "that a stalled peer yields the timeout error within the period (timing)", "the peers' stream decoders have no size limit: the 'above the limit' clause only exists for the runner's reader"},
		Assume:     []string{"io.Reader.Read(p) returns 0 <= n <= len(p)", "int is 64 bits wide, so int(uint32) is non-negative (the 386 configuration of the thorough tier reports the dependent site)"},
		Trusted:    commonTrusted,
		Run:        runC09,
	})
	fd, fc := "internal/delimited.go", "internal/codec.go"
	addMutants(
		Mutant{ID: "C09-progress-not-reset", Prop: "C09", File: fd, Old: "\t\tr.prefixDone, r.bytesRead, r.bytesExpecting = true, 0, msgSize\n", New: "\t\tr.prefixDone, r.bytesExpecting = true, msgSize\n",
			Expect: []string{"timeout.phase-switch"}, Note: "seed C09-1: stale progress count after a split prefix"},
		Mutant{ID: "C09-decoder-eof", Prop: "C09", File: fc, Old: "\tif _, err := io.ReadFull(p.in, data); err != nil {\n\t\tif errors.Is(err, io.EOF) {\n\t\t\terr = io.ErrUnexpectedEOF\n\t\t}\n\t\treturn err\n\t}", New: "\tif _, err := io.ReadFull(p.in, data); err != nil {\n\t\treturn err\n\t}",
			Expect: []string{"eof.protoDecoder"}, Note: "seed C09-2: truncation right after a prefix reported as clean EOF"},
		Mutant{ID: "C09-alloc-before-check", Prop: "C09", File: fd, Old: "\t\tif msgSize > r.maxSize {\n\t\t\treadErr = fmt.Errorf(\"%s result indicates message size of %d bytes, but should not exceed %d\",\n\t\t\t\tr.source, msgSize, r.maxSize)\n\t\t\treturn\n\t\t}\n", New: "",
			Expect: []string{"bounded-alloc.guard"}, Note: "oversize prefix allocated"},
		Mutant{ID: "C09-reader-eof", Prop: "C09", File: fd, Old: "\t\tmsgBytes, readErr = r.read(msgSize)\n\t\tif errors.Is(readErr, io.EOF) {\n\t\t\treadErr = io.ErrUnexpectedEOF\n\t\t}\n", New: "\t\tmsgBytes, readErr = r.read(msgSize)\n",
			Expect: []string{"eof.reader"}, Note: "stream ending right after the prefix reported as clean end"},
		Mutant{ID: "C09-little-endian", Prop: "C09", File: fd, Old: "\tbinary.BigEndian.PutUint32(lenBuffer[:], uint32(len(data)))", New: "\tbinary.LittleEndian.PutUint32(lenBuffer[:], uint32(len(data)))",
			Expect: []string{"prefix-agree"}, Note: "writer and readers disagree on byte order"},
		Mutant{ID: "C09-progress-unlocked", Prop: "C09", File: fd, Old: "\t\toffs += numRead\n\t\tr.mu.Lock()\n\t\tr.bytesRead = offs // update progress as we go\n\t\tr.mu.Unlock()\n", New: "\t\toffs += numRead\n\t\tr.bytesRead = offs // update progress as we go\n",
			Expect: []string{"timeout.locked"}, Note: "progress updated without the mutex (races with the timeout path)"},
		Mutant{ID: "C09-timeout-const", Prop: "C09", File: fd, Old: "\tcase <-time.After(r.timeout):", New: "\tcase <-time.After(time.Minute):",
			Expect: []string{"timeout.arm"}, Note: "configured timeout ignored"},
		Mutant{ID: "C09-chunk-eof", Prop: "C09", File: fd, Old: "\t\t\tif errors.Is(err, io.EOF) && offs > 0 {", New: "\t\t\tif errors.Is(err, io.EOF) && offs > numBytes {",
			Expect: []string{"eof.chunk"}, Note: "EOF inside a prefix/message reported as clean EOF"},
		Mutant{ID: "C09-chunk-eof-lastread", Prop: "C09", File: fd, Old: "\t\t\tif errors.Is(err, io.EOF) && offs > 0 {", New: "\t\t\tif errors.Is(err, io.EOF) && numRead > 0 {",
			Expect: []string{"eof.chunk"}, Note: "seed C10-3: tests the size of the last read instead of the accumulated offset; (0, EOF) after a partial prefix is a clean end"},
		Mutant{ID: "C09-wrong-length", Prop: "C09", File: fd, Old: "uint32(len(data)))", New: "uint32(cap(data)))",
			Expect: []string{"prefix-agree"}, Note: "prefix announces capacity, not length"},
	)
}

func runC09(p *Prog, r *Report) {
	rd := p.Func("internal", "timeoutDelimitedReader", "readDelimitedMessageRaw")
	read := p.Func("internal", "timeoutDelimitedReader", "read")
	wr := p.Func("internal", "", "writeDelimitedMessageRaw")
	dec := p.Func("internal", "protoDecoder", "DecodeNext")
	if rd == nil || read == nil || wr == nil || dec == nil {
		r.Undecided("scope", "R-GUARD", "framing functions not found")
		return
	}
	for _, f := range []*ssa.Function{rd, read, wr, dec} {
		r.Func(funcName(f))
	}
	readObj := funcObj(read)
	maxSize := p.Field("internal", "timeoutDelimitedReader", "maxSize")
	timeoutF := p.Field("internal", "timeoutDelimitedReader", "timeout")
	// ---- bounded-alloc ----
	var readerClosure *ssa.Function
	var sizeRead *ssa.Call
	nReadCalls := 0
	for _, fn := range p.RepoFuncs() {
		for _, c := range findInstrs(fn, isCallObj(readObj)) {
			nReadCalls++
			cc := callCommon(c)
			if k, isC := constInt(cc.Args[1]); isC {
				r.Sites++
				r.Check(k == 4, "prefix-agree.read-4", "R-TABLE-AGREE", p.InstrPos(c), "the prefix read asks for 4 bytes", fmt.Sprintf("the prefix is read as %d bytes, not 4", k))
				continue
			}
			readerClosure, sizeRead = fn, c.(*ssa.Call)
		}
	}
	r.Sites++
	if sizeRead == nil || nReadCalls != 2 {
		r.Fail("bounded-alloc.guard", "R-GUARD", p.Pos(rd.Pos()), fmt.Sprintf("expected exactly two calls of read (prefix, payload), found %d", nReadCalls))
	} else {
		size := sizeRead.Call.Args[1]
		okG := guardedBy(sizeRead, func(a Atom) bool {
			// size > r.maxSize is false  ==  size <= maxSize
			return a.Op == token.LEQ && sameVal(a.X, size) && loadedField(canon(a.Y)) == maxSize
		})
		// size = int(BigEndian.Uint32(prefix bytes))
		okSrc := false
		if c, ok := canon(size).(*ssa.Call); ok && c.Call.StaticCallee() != nil && c.Call.StaticCallee().Name() == "Uint32" {
			okSrc = true
		}
		r.Check(okG && okSrc, "bounded-alloc.guard", "R-GUARD", p.InstrPos(sizeRead), "read(size) only on the size <= maxSize edge, size decoded from the prefix", "the size decoded from the length prefix reaches the allocating read without having been compared against maxSize: an oversize prefix would be allocated instead of rejected")
		// the allocation in read is make([]byte, numBytes) of its parameter
		okMake := false
		eachInstr(read, func(in ssa.Instruction) {
			if mk, ok := in.(*ssa.MakeSlice); ok && mk.Len == ssa.Value(read.Params[1]) {
				okMake = true
			}
		})
		r.Sites++
		r.Check(okMake, "bounded-alloc.alloc-site", "R-WIRE", p.Pos(read.Pos()), "read allocates exactly its size parameter", "read no longer allocates exactly the requested size")
	}
	// maxSize / timeout come unmodified from the caller's arguments, which are constants
	rdm := p.Func("internal", "", "ReadDelimitedMessage")
	if rdm == nil {
		r.Undecided("bounded-alloc.limit-source", "R-WIRE", "ReadDelimitedMessage not found")
	} else {
		for _, fn := range p.RepoFuncs() {
			if fn.Origin() != rdm {
				continue
			}
			for _, w := range []struct {
				f   *types.Var
				prm string
			}{{maxSize, "maxSize"}, {timeoutF, "timeout"}} {
				r.Sites++
				ok := false
				for _, st := range storesToField([]*ssa.Function{fn}, w.f) {
					if q, isP := canon(st.Val).(*ssa.Parameter); isP && q.Name() == w.prm {
						ok = true
					}
				}
				r.Check(ok, "bounded-alloc.limit-source."+w.prm, "R-WIRE", p.Pos(rdm.Pos()), "reader."+w.prm+" ← parameter "+w.prm, "the reader's "+w.prm+" is not the caller's "+w.prm+" argument unmodified")
			}
		}
		ncall := 0
		for _, fn := range p.RepoFuncs() {
			eachInstr(fn, func(in ssa.Instruction) {
				c := callCommon(in)
				if c == nil {
					return
				}
				callee := c.StaticCallee()
				if callee == nil || callee.Origin() != rdm {
					return
				}
				ncall++
				r.Sites++
				_, isC1 := constInt(c.Args[3])
				_, isC2 := constInt(c.Args[4])
				r.Check(isC1 && isC2, "bounded-alloc.caller-constants@"+funcName(fn), "R-WIRE", p.InstrPos(in), "timeout and size limit are compile-time constants at the call", "ReadDelimitedMessage is called in "+funcName(fn)+" with a non-constant timeout or size limit")
			})
		}
		r.Floor("ReadDelimitedMessage-callers", ncall, 2)
	}

	// ---- eof ----
	framingEOFRules(p, r)

	// ---- prefix-agree ----
	okOrder := true
	nbin := 0
	for _, fn := range p.RepoFuncs() {
		if pkgOfFunc(fn) != internalPath {
			continue
		}
		eachInstr(fn, func(in ssa.Instruction) {
			c := callCommon(in)
			if c == nil {
				return
			}
			callee := c.StaticCallee()
			if callee == nil || callee.Pkg == nil || callee.Pkg.Pkg.Path() != "encoding/binary" {
				return
			}
			nbin++
			r.Sites++
			recv := ""
			if sig := callee.Signature; sig.Recv() != nil {
				recv = types.TypeString(sig.Recv().Type(), shortQual)
			}
			if recv != "binary.bigEndian" || (callee.Name() != "PutUint32" && callee.Name() != "Uint32") {
				okOrder = false
				r.Fail("prefix-agree@"+funcName(fn), "R-TABLE-AGREE", p.InstrPos(in), "length prefixes are coded with "+recv+"."+callee.Name()+" in "+funcName(fn)+", not with 32-bit big-endian like the other side")
			}
		})
	}
	// writer: value = uint32(len(data)), data = what is written next, buffer [4]byte
	okW := false
	eachInstr(wr, func(in ssa.Instruction) {
		c := callCommon(in)
		if c == nil || c.StaticCallee() == nil || c.StaticCallee().Name() != "PutUint32" {
			return
		}
		la, isLen := lenArg(stripAllConv(c.Args[2]))
		buf, isSl := c.Args[1].(*ssa.Slice)
		if !isLen || !isSl {
			return
		}
		n, isArr := lenOfType(buf.X.Type())
		if !isArr || n != 4 || canon(la) != ssa.Value(wr.Params[1]) {
			return
		}
		// the writes: first the buffer, then the data
		var writes []ssa.Instruction
		eachInstr(wr, func(i2 ssa.Instruction) {
			if cc := callCommon(i2); cc != nil && cc.IsInvoke() && cc.Method.Name() == "Write" {
				writes = append(writes, i2)
			}
		})
		if len(writes) == 2 && canon(callCommon(writes[1]).Args[0]) == ssa.Value(wr.Params[1]) && reachesInstr(writes[0], writes[1]) {
			if s0, ok := callCommon(writes[0]).Args[0].(*ssa.Slice); ok && s0.X == buf.X {
				okW = true
			}
		}
	})
	r.Sites++
	if okOrder && okW {
		r.OK("prefix-agree", "R-TABLE-AGREE", p.Pos(wr.Pos()), fmt.Sprintf("%d binary codings are 32-bit big-endian; the writer announces len(data) in a 4-byte buffer and then writes data", nbin))
	} else if okOrder {
		r.Fail("prefix-agree.writer", "R-TABLE-AGREE", p.Pos(wr.Pos()), "the writer does not announce uint32(len(data)) in a 4-byte buffer followed by exactly data")
	}
	r.Floor("binary-codings", nbin, 4)

	// ---- timeout ----
	var sel *ssa.Select
	eachInstr(rd, func(in ssa.Instruction) {
		if s, ok := in.(*ssa.Select); ok {
			sel = s
		}
	})
	r.Sites++
	okArm := false
	if sel != nil {
		for _, st := range sel.States {
			if c, ok := canon(st.Chan).(*ssa.Call); ok && isCallToNamed(&c.Call, "time", "", "After") && loadedField(canon(c.Call.Args[0])) == timeoutF {
				okArm = true
			}
		}
	}
	r.Check(okArm && sel != nil && sel.Blocking, "timeout.arm", "R-GUARD", p.Pos(rd.Pos()), "select with a time.After(r.timeout) arm", "the wait for the reader goroutine has no arm bounded by the configured timeout")
	must := NewLockInfo(p, true)
	nl := 0
	for _, f := range []string{"prefixDone", "bytesRead", "bytesExpecting"} {
		nl += ruleLocked(p, r, must, lockRule{Key: "timeout.locked." + f, Field: p.Field("internal", "timeoutDelimitedReader", f), Mu: "mu",
			ExemptReason: "initialisation before the reader goroutine is started",
			ExemptIf: func(a FieldAccess) bool {
				// the access is followed by the `go` that starts the reader and preceded by none
				if a.Fn != rd {
					return false
				}
				okBefore := false
				eachInstr(rd, func(in ssa.Instruction) {
					if g, isGo := in.(*ssa.Go); isGo {
						if reachesInstr(a.Instr, g) && !reachesInstr(g, a.Instr) {
							okBefore = true
						}
					}
				})
				return okBefore
			}})
	}
	r.Floor("locked-accesses", nl, 8)
	// phase switch: prefixDone = true ⇒ bytesRead = 0 and bytesExpecting = size in the same block
	pd, br, be := p.Field("internal", "timeoutDelimitedReader", "prefixDone"), p.Field("internal", "timeoutDelimitedReader", "bytesRead"), p.Field("internal", "timeoutDelimitedReader", "bytesExpecting")
	okPhase := false
	if readerClosure != nil && sizeRead != nil {
		for _, st := range storesToField([]*ssa.Function{readerClosure}, pd) {
			if b, isC := constBool(st.Val); !isC || !b {
				continue
			}
			z, e := false, false
			for _, in := range st.Instr.Block().Instrs {
				s2, ok := in.(*ssa.Store)
				if !ok {
					continue
				}
				fa, ok := s2.Addr.(*ssa.FieldAddr)
				if !ok {
					continue
				}
				switch fieldVar(fa.X.Type(), fa.Field) {
				case br:
					if k, isK := constInt(s2.Val); isK && k == 0 {
						z = true
					}
				case be:
					if sameVal(s2.Val, sizeRead.Call.Args[1]) {
						e = true
					}
				}
			}
			okPhase = z && e && reachesInstr(st.Instr, sizeRead)
		}
	}
	r.Sites++
	r.Check(okPhase, "timeout.phase-switch", "R-MUSTCALL", p.Pos(rd.Pos()), "entering the payload phase sets prefixDone, zeroes bytesRead and records the announced size together, before the payload read", "when the prefix is complete the progress counter is not reset (or the expected size not recorded) in the same critical section: after a prefix that arrived in several reads the timeout report shows stale progress, and a payload whose size equals the stale count is mistaken for complete")
	// the timeout error mentions progress and expectation
	okRep := false
	eachInstr(rd, func(in ssa.Instruction) {
		c := callCommon(in)
		if c == nil || !isCallToNamed(c, "fmt", "", "Errorf") {
			return
		}
		f, _ := constString(c.Args[0])
		if len(f) == 0 {
			return
		}
		mentionsRead, mentionsExp := false, false
		eachInstr(rd, func(i2 ssa.Instruction) {
			u, ok := i2.(*ssa.UnOp)
			if !ok {
				return
			}
			if loadedField(u) == br && varargMentions(c, u) {
				mentionsRead = true
			}
			if loadedField(u) == be && varargMentions(c, u) {
				mentionsExp = true
			}
		})
		if mentionsRead && mentionsExp {
			okRep = true
		}
	})
	r.Sites++
	r.Check(okRep, "timeout.report", "R-COVER", p.Pos(rd.Pos()), "the timeout error formats bytesRead and bytesExpecting", "the timeout error no longer says how much was received of how much")

	// ---- panic ----
	var entries []*ssa.Function
	for _, fn := range p.RepoFuncs() {
		if o := fn.Origin(); o != nil && (o == rdm || o == p.Func("internal", "", "WriteDelimitedMessage")) {
			entries = append(entries, fn)
		}
	}
	entries = append(entries, dec, p.Func("internal", "jsonDecoder", "DecodeNext"), p.Func("internal", "protoEncoder", "Encode"), p.Func("internal", "jsonEncoder", "Encode"), rd, read, wr)
	rulePanic(p, r, panicSpec{Key: "panic", Entries: entries, Floor: 8, StayIn: []string{internalPath},
		Table: map[string]string{
			"(*internal.jsonEncoder).Encode#index:j.opts.Marshal(msg)#0[(len(j.opts.Marshal(msg)#0) - 1)]": "evaluated only when len(data) == 0 (the `||` should be `&&`), which protojson.Marshal never produces (a message renders at least as `{}`); latent, unreachable with the library's contract — kept as a table row, not a property violation",
		}})
}

// framingEOFRules: an end of input inside a prefix or message is rewritten to
// io.ErrUnexpectedEOF before it is returned (runner reader payload phase, its
// chunk loop, the peers' binary decoder). Shared by C09 (framing) and C10 (the
// client multiplexer's reader tells a clean end from a truncated stream by
// exactly this classification).
func framingEOFRules(p *Prog, r *Report) {
	read := p.Func("internal", "timeoutDelimitedReader", "read")
	dec := p.Func("internal", "protoDecoder", "DecodeNext")
	if read == nil || dec == nil {
		r.Undecided("eof.scope", "R-GUARD", "framing functions not found")
		return
	}
	r.Func(funcName(read))
	r.Func(funcName(dec))
	var readerClosure *ssa.Function
	var sizeRead *ssa.Call
	for _, fn := range p.RepoFuncs() {
		for _, c := range findInstrs(fn, isCallObj(funcObj(read))) {
			if _, isC := constInt(callCommon(c).Args[1]); !isC {
				readerClosure, sizeRead = fn, c.(*ssa.Call)
			}
		}
	}
	isErrorsIsEOF := func(c *ssa.CallCommon) bool {
		if !isCallToNamed(c, "errors", "", "Is") {
			return false
		}
		g, ok := canon(c.Args[1]).(*ssa.UnOp)
		if !ok {
			return false
		}
		gl, ok := g.X.(*ssa.Global)
		return ok && gl.Name() == "EOF" && gl.Pkg.Pkg.Path() == "io"
	}
	isUnexpected := func(v ssa.Value) bool {
		g, ok := canon(v).(*ssa.UnOp)
		if !ok {
			return false
		}
		gl, ok := g.X.(*ssa.Global)
		return ok && gl.Name() == "ErrUnexpectedEOF" && gl.Pkg.Pkg.Path() == "io"
	}
	eofRewrite := func(key string, fn *ssa.Function, after ssa.Instruction, extra func([]Atom) bool, what string) {
		r.Sites++
		// a store of io.ErrUnexpectedEOF on the errors.Is(err, io.EOF) edge …
		var rewrite ssa.Instruction
		eachInstr(fn, func(in ssa.Instruction) {
			st, ok := in.(*ssa.Store)
			if !ok || !isUnexpected(st.Val) {
				return
			}
			as := atomsAt(in.Block())
			if hasAtom(as, func(a Atom) bool { m, v := boolTestOn(a, isCallResult(isErrorsIsEOF)); return m && v }) && (extra == nil || extra(as)) {
				if after == nil || reachesInstr(after, in) {
					rewrite = in
				}
			}
		})
		if rewrite == nil {
			r.Fail(key, "R-GUARD", p.Pos(fn.Pos()), what+": io.EOF is not rewritten to io.ErrUnexpectedEOF (a stream that ends inside a prefix or message would be reported as a clean end or shorter input)")
			return
		}
		// … and the errors.Is test cannot be bypassed after the read
		if after != nil {
			ok, exit := mustPass(after, func(in ssa.Instruction) bool { c := callCommon(in); return c != nil && isErrorsIsEOF(c) })
			if !ok {
				r.Fail(key, "R-MUSTCALL", p.InstrPos(exit), what+": the function can return after the payload read without testing for io.EOF")
				return
			}
		}
		r.OK(key, "R-GUARD", p.InstrPos(rewrite), what+": EOF → ErrUnexpectedEOF on the errors.Is(err, io.EOF) edge")
	}
	if readerClosure != nil {
		eofRewrite("eof.reader", readerClosure, sizeRead, nil, "runner reader, payload phase")
	} else {
		r.Undecided("eof.reader", "R-GUARD", "the payload read(size) call of the runner's reader was not found")
	}
	// err is a register variable in read and DecodeNext: the rewrite is a phi edge
	eofPhi := func(key string, fn *ssa.Function, after ssa.Instruction, extra func([]Atom) bool, what string) {
		r.Sites++
		var found *ssa.Phi
		eachInstr(fn, func(in ssa.Instruction) {
			phi, ok := in.(*ssa.Phi)
			if !ok {
				return
			}
			for i, e := range phi.Edges {
				if !isUnexpected(e) {
					continue
				}
				as := edgeAtoms(phi.Block().Preds[i], phi.Block())
				if hasAtom(as, func(a Atom) bool { m, v := boolTestOn(a, isCallResult(isErrorsIsEOF)); return m && v }) && (extra == nil || extra(as)) {
					found = phi
				}
			}
		})
		if found == nil {
			r.Fail(key, "R-GUARD", p.Pos(fn.Pos()), what+": io.EOF is not rewritten to io.ErrUnexpectedEOF (a stream that ends inside a prefix or message would be reported as a clean end or shorter input)")
			return
		}
		// every non-nil error return reachable after `after` returns the rewritten value
		ok := true
		for _, ret := range returnsOf(fn) {
			idx := len(ret.Results) - 1
			if idx < 0 {
				continue
			}
			v := ret.Results[idx]
			if isNilConst(v) {
				continue
			}
			if after != nil && !reachesInstr(after, ret) {
				continue
			}
			if after == nil && v != ssa.Value(found) {
				// read(): the only error return is the rewritten one
				if _, isCall := v.(*ssa.Call); isCall {
					continue
				}
				ok = false
			}
			if after != nil {
				// a return of the raw error of `after` (not passing through the phi) is a bypass
				if ex, isEx := v.(*ssa.Extract); isEx && ex.Tuple == after.(ssa.Value) {
					ok = false
				}
			}
		}
		r.Check(ok, key, "R-GUARD", p.InstrPos(found), what+": EOF → ErrUnexpectedEOF on the errors.Is(err, io.EOF) edge, and that is the error returned", what+": the function can return the raw read error without the EOF rewrite")
	}
	eofPhi("eof.chunk", read, nil, func(as []Atom) bool {
		return hasAtom(as, func(a Atom) bool {
			if a.Op != token.GTR {
				return false
			}
			z, isZ := constInt(a.Y)
			if !isZ || z != 0 {
				return false
			}
			// the tested count is the ACCUMULATED offset (loop counter + this read), not
			// the size of the last read: an EOF is usually delivered as (0, io.EOF)
			add, isAdd := canon(a.X).(*ssa.BinOp)
			if !isAdd || add.Op != token.ADD {
				return false
			}
			_, phiL := canon(add.X).(*ssa.Phi)
			_, phiR := canon(add.Y).(*ssa.Phi)
			return phiL || phiR
		})
	}, "runner reader, chunk loop (accumulated offset > 0)")
	var fulls []ssa.Instruction
	eachInstr(dec, func(in ssa.Instruction) {
		if c := callCommon(in); c != nil && isCallToNamed(c, "io", "", "ReadFull") {
			fulls = append(fulls, in)
		}
	})
	if len(fulls) == 2 {
		eofPhi("eof.protoDecoder", dec, fulls[1], nil, "peers' binary decoder, payload read")
	} else {
		r.Undecided("eof.protoDecoder", "R-GUARD", fmt.Sprintf("expected two io.ReadFull calls in DecodeNext, found %d", len(fulls)))
	}
}
