package main

// Rules added after the eighth round of independent seeded changes.

import (
	"fmt"
	"go/token"
	"go/types"
	"strings"

	"golang.org/x/tools/go/ssa"
)

var round8Rules = map[string][]func(*Prog, *Report){
	"C01": {h2cOutermostRule},
	"C03": {unexpectedTimeoutPresenceRule},
	"C04": {feedbackLineAtomicRule},
	"C08": {starFallbackRule},
	"C10": {stopAbortFirstRule},
	"C12": {emptyContentTypeNotConnectRule},
	"C13": {validatorArgRawRule, dupKeysExactRule},
	"C14": {zeroLengthEmittedRule, flushUnconditionalRule},
	"C16": {buildClearsRule},
	"C19": {readMaxOnlyFromRequestRule},
}

var round8Explain = map[string]string{
	"C01": "(h2c-outermost) the tracing handler is never wrapped around an h2c handler (its ResponseWriter is not a Hijacker, which h2c's prior-knowledge path needs)",
	"C03": "(timeout.unexpected-presence) an echoed timeout that was not expected is detected by its presence, not by its value",
	"C04": "(feedback-line.atomic) every write of safePrinter happens with its mutex held by the same method: a feedback line (prefix and message) is one critical section",
	"C08": "(match.star-fallback) the trie matcher tries the `*` child also when a literal child exists",
	"C10": "(stop.abort-first) stop() aborts the process before anything that needs sendMu",
	"C12": "(protocol.empty-content-type) a request is classified as Connect through its content-type prefix or the GET method, never because the content type is empty",
	"C13": "(field-value.raw) the HTTP field validators see the value as received, not a trimmed copy; (dup-keys.exact) duplicate JSON keys are detected on the exact key; (field-name.non-empty) the empty string is not a valid field name (defect D18)",
	"C14": "(zero-length.emitted) a message with declared length 0 is emitted at once whatever its flags; (passthru.flush-unconditional) Flush is forwarded on every path",
	"C16": "(build.clears) builder.build takes the trace with getAndClearLocked (the builder is reset when its trace is handed over)",
	"C11": "(stdout.drained) after the start-up response the runner keeps draining the server's stdout (defect D19)",
	"C19": "(limit.only-from-request) every connect.WithReadMaxBytes argument is the request's MessageReceiveLimit",
}

func init() {
	for id, extra := range round8Explain {
		m := registry[id]
		if m == nil {
			continue
		}
		if i := strings.Index(m.Explain, " It does NOT decide"); i >= 0 {
			m.Explain = strings.TrimRight(m.Explain[:i], ". ;") + "; " + extra + "." + m.Explain[i:]
		} else {
			m.Explain = strings.TrimRight(m.Explain, ". ") + "; " + extra + "."
		}
	}
}

// ---------- C01 ----------

func h2cOutermostRule(p *Prog, r *Report) {
	n := 0
	bad := ""
	pos := "-"
	th := p.Func(pkgTr, "", "TracingHandler")
	if th == nil {
		r.Undecided("h2c-outermost", "R-ORDER", "TracingHandler not found")
		return
	}
	for _, fn := range p.RepoFuncs() {
		for _, in := range findInstrs(fn, isCallObj(funcObj(th))) {
			n++
			r.Sites++
			c := callCommon(in)
			for v := range operandClosure(c.Args[0]) {
				if cc, ok := v.(*ssa.Call); ok {
					if o := calleeObj(&cc.Call); o != nil && o.Name() == "NewHandler" && o.Pkg() != nil && strings.HasSuffix(o.Pkg().Path(), "http2/h2c") {
						bad += " " + shortFn(fn) + " at " + p.InstrPos(in) + ";"
						pos = p.InstrPos(in)
					}
				}
			}
		}
	}
	r.Check(n >= 2 && bad == "", "h2c-outermost", "R-ORDER", pos, fmt.Sprintf("%d uses of TracingHandler, none around an h2c handler", n),
		"the tracing handler wraps an h2c handler:"+bad+" h2c's prior-knowledge path hijacks the connection, but the tracer's ResponseWriter is not an http.Hijacker, so cleartext HTTP/2 cannot be established whenever tracing is on (every HTTP/2 case of that peer fails with `frame too large`)")
}

// ---------- C03 ----------

func unexpectedTimeoutPresenceRule(p *Prog, r *Report) {
	fn := p.Func(pkgCC, "", "checkRequestInfo")
	tmo := p.Field(pkgGen, "ConformancePayload_RequestInfo", "TimeoutMs")
	if fn == nil || tmo == nil {
		r.Undecided("timeout.unexpected-presence", "R-GUARD", "checkRequestInfo / TimeoutMs not found")
		return
	}
	r.Func(funcName(fn))
	r.Sites++
	expected, actual := ssa.Value(fn.Params[0]), ssa.Value(fn.Params[1])
	fieldOf := func(v ssa.Value, root ssa.Value) bool {
		u, ok := canon(v).(*ssa.UnOp)
		if !ok {
			return false
		}
		fa, ok := u.X.(*ssa.FieldAddr)
		return ok && fieldVar(fa.X.Type(), fa.Field) == tmo && canon(fa.X) == root
	}
	// the report about an echoed timeout that mentions only the ACTUAL value (none was expected)
	n := 0
	bad := ""
	mentions := func(c *ssa.CallCommon, root ssa.Value) bool {
		for _, arg := range c.Args {
			for v := range operandClosure(arg) {
				if cc, ok := v.(*ssa.Call); ok && cc.Call.StaticCallee() != nil && cc.Call.StaticCallee().Name() == "GetTimeoutMs" && canon(cc.Call.Args[0]) == root {
					return true
				}
			}
		}
		return false
	}
	eachInstr(fn, func(in ssa.Instruction) {
		c := callCommon(in)
		if c == nil || !isCallToNamed(c, "fmt", "", "Errorf") || !mentions(c, actual) || mentions(c, expected) {
			return
		}
		n++
		as := atomsAt(in.Block())
		if !hasAtom(as, func(a Atom) bool {
			m, isNil := nilTestOn(a, func(x ssa.Value) bool { return fieldOf(x, actual) })
			return m && !isNil
		}) {
			bad += " the report at " + p.InstrPos(in) + " is made under [" + atomsString(as) + "], not under actual.TimeoutMs != nil;"
		}
	})
	r.Check(n == 1 && bad == "", "timeout.unexpected-presence", "R-GUARD", p.Pos(fn.Pos()), "an unexpected echoed timeout is reported whenever actual.TimeoutMs is present",
		"checkRequestInfo does not detect an unexpected echoed timeout by its presence:"+bad+" an explicitly present timeout_ms of 0 (or a negative one) for a request that sent no timeout is accepted")
}

// ---------- C04 ----------

// feedbackLineAtomicRule: in every method of safePrinter, each write to the
// underlying writer (fmt.Fprintf(p.w, …), p.w.Write) is preceded on all paths
// by p.mu.Lock() in the same method, and no method writes part of a line and
// then calls another locking method.
func feedbackLineAtomicRule(p *Prog, r *Report) {
	n := 0
	bad := ""
	pos := "-"
	for _, name := range []string{"Printf", "PrefixPrintf"} {
		fn := p.Func("internal", "safePrinter", name)
		if fn == nil {
			r.Undecided("feedback-line.atomic", "A-LOCK", "safePrinter."+name+" not found")
			return
		}
		r.Func(funcName(fn))
		isLock := func(in ssa.Instruction) bool {
			c := callCommon(in)
			return c != nil && c.StaticCallee() != nil && c.StaticCallee().Name() == "Lock" && c.StaticCallee().Pkg != nil && c.StaticCallee().Pkg.Pkg.Path() == "sync"
		}
		writes := 0
		eachInstr(fn, func(in ssa.Instruction) {
			c := callCommon(in)
			if c == nil {
				return
			}
			isWrite := isCallToNamed(c, "fmt", "", "Fprintf") || (c.StaticCallee() != nil && c.StaticCallee().Name() == "Write" && p.IsRepoFunc(c.StaticCallee()))
			if isWrite {
				writes++
				n++
				r.Sites++
				if !precededBy(in, isLock) {
					bad += " " + shortFn(fn) + " writes at " + p.InstrPos(in) + " without holding the mutex;"
					pos = p.InstrPos(in)
				}
			}
			if f := c.StaticCallee(); f != nil && f != fn && f.Signature.Recv() != nil && (f.Name() == "Printf" || f.Name() == "PrefixPrintf") && p.IsRepoFunc(f) {
				bad += " " + shortFn(fn) + " delegates the rest of the line to " + f.Name() + " at " + p.InstrPos(in) + " (another critical section);"
				pos = p.InstrPos(in)
			}
		})
		if writes == 0 {
			bad += " " + shortFn(fn) + " does not write itself;"
		}
	}
	r.Check(n >= 4 && bad == "", "feedback-line.atomic", "A-LOCK", pos, fmt.Sprintf("%d writes in safePrinter, all under the method's own lock", n),
		"a feedback line is not written atomically:"+bad+" the reference server prints `<test name>: <message>` for concurrent requests through this printer; when prefix and message are separate critical sections two lines interleave (`A: B: msg`), the runner attributes B's feedback to A and B keeps its passing result")
}

// ---------- C08 ----------

// starFallbackRule: in testTrie.match the lookup of the "*" child is not
// conditional on the literal child being absent.
func starFallbackRule(p *Prog, r *Report) {
	fn := p.Func(pkgCC, "testTrie", "match")
	if fn == nil {
		r.Undecided("match.star-fallback", "R-GUARD", "testTrie.match not found")
		return
	}
	r.Func(funcName(fn))
	n := 0
	bad := ""
	pos := p.Pos(fn.Pos())
	eachInstr(fn, func(in ssa.Instruction) {
		lk, ok := in.(*ssa.Lookup)
		if !ok {
			return
		}
		if s, isS := constString(lk.Index); !isS || s != "*" {
			return
		}
		n++
		r.Sites++
		for _, a := range atomsAt(in.Block()) {
			if m, isNil := nilTestOn(a, func(x ssa.Value) bool {
				l2, isL := canon(x).(*ssa.Lookup)
				if !isL {
					return false
				}
				_, isK := constString(l2.Index)
				return !isK // the literal child: looked up with the component itself
			}); m && isNil {
				bad += " the `*` child is only consulted when the literal child is absent (" + p.InstrPos(in) + ");"
				pos = p.InstrPos(in)
			}
		}
	})
	r.Check(n >= 1 && bad == "", "match.star-fallback", "R-GUARD", pos, "the `*` child is tried whether or not a literal child exists",
		"testTrie.match does not fall back from a literal child whose subtree fails to the `*` sibling:"+bad+" with patterns `S/v1/**/a` and `S/*/grpc/b` the name `S/v1/grpc/b` matches nothing, so a known-failing / skip / run pattern silently does not apply to it")
}

// ---------- C10 ----------

func stopAbortFirstRule(p *Prog, r *Report) {
	fn := p.Func(pkgCC, "clientProcessRunner", "stop")
	if fn == nil {
		r.Undecided("stop.abort-first", "R-ORDER", "clientProcessRunner.stop not found")
		return
	}
	r.Func(funcName(fn))
	r.Sites++
	isAbort := func(in ssa.Instruction) bool {
		c := callCommon(in)
		return c != nil && c.IsInvoke() && c.Method.Name() == "abort"
	}
	bad := ""
	nAbort := len(findInstrs(fn, isAbort))
	eachInstr(fn, func(in ssa.Instruction) {
		c := callCommon(in)
		if c == nil || c.StaticCallee() == nil || !p.IsRepoFunc(c.StaticCallee()) {
			return
		}
		switch c.StaticCallee().Name() {
		case "closeSend", "sendRequest", "waitForResponses":
			if !precededBy(in, isAbort) {
				bad += " " + c.StaticCallee().Name() + " at " + p.InstrPos(in) + " runs before the abort;"
			}
		}
	})
	r.Check(nAbort >= 1 && bad == "", "stop.abort-first", "R-ORDER", p.Pos(fn.Pos()), "stop() aborts the process before anything that takes sendMu",
		"stop() waits on the send side before aborting the process:"+bad+" a sender blocked in a pipe write to a client that stopped reading holds sendMu, and only the abort could release it — stop() hangs, the client is never aborted and isRunning() stays true")
}

// ---------- C12 ----------

// emptyContentTypeNotConnectRule: no edge into the block that classifies the
// request as Connect is taken because a string equals "".
func emptyContentTypeNotConnectRule(p *Prog, r *Report) {
	fn := p.Func(pkgRS, "", "checkProtocol")
	if fn == nil {
		r.Undecided("protocol.empty-content-type", "R-GUARD", "checkProtocol not found")
		return
	}
	r.Func(funcName(fn))
	connectVal := enumVal(p, "Protocol_PROTOCOL_CONNECT")
	n := 0
	bad := ""
	sawGet := false
	pos := p.Pos(fn.Pos())
	eachInstr(fn, func(in ssa.Instruction) {
		phi, ok := in.(*ssa.Phi)
		if !ok {
			return
		}
		for i, e := range phi.Edges {
			k, isK := constInt(e)
			if !isK || k != connectVal {
				continue
			}
			n++
			r.Sites++
			// the block that selects Connect and the edges that lead into it
			blk := phi.Block().Preds[i]
			var facts []Atom
			for _, pp := range blk.Preds {
				as := edgeAtoms(pp, blk)
				if len(as) > 0 {
					facts = append(facts, as[len(as)-1])
				}
			}
			// a short-circuit `a || b` arrives as one boolean phi: take the disjuncts
			var expanded []Atom
			for _, a := range facts {
				phiV, isPhi := a.X.(*ssa.Phi)
				if a.Op != token.ILLEGAL || a.Neg || !isPhi {
					expanded = append(expanded, a)
					continue
				}
				for _, l := range phiLeaves(phiV) {
					if b, isK := constBool(l.Val); isK {
						if b && len(l.Facts) > 0 {
							expanded = append(expanded, l.Facts[len(l.Facts)-1])
						}
						continue
					}
					expanded = append(expanded, atomOf(l.Val, true))
				}
			}
			facts = expanded
			for _, a := range facts {
				if (a.Op == token.EQL && !a.Neg) || (a.Op == token.NEQ && a.Neg) {
					for _, side := range []ssa.Value{a.X, a.Y} {
						if s, isS := constString(side); isS && s == "" {
							bad += " PROTOCOL_CONNECT is selected on the edge " + a.String() + ";"
						}
						if s, isS := constString(side); isS && s == "GET" {
							sawGet = true
						}
					}
				}
			}
		}
	})
	r.Check(n >= 1 && bad == "" && sawGet, "protocol.empty-content-type", "R-GUARD", pos, "Connect is selected by the content-type prefix or the GET method",
		"checkProtocol classifies a request as Connect because its content type is empty (GET-method edge present: "+fmt.Sprint(sawGet)+"):"+bad+" a POST without Content-Type then draws no feedback at all — checkCodec and checkCompression stay silent because checkProtocol is supposed to have complained")
}

// ---------- C13 ----------

// validatorArgRawRule: the arguments of isValidHTTPFieldValue / isValidHTTPFieldName
// do not pass through strings.TrimSpace (it also removes CR, LF, VT, FF — the
// very bytes the validators exist to reject).
func validatorArgRawRule(p *Prog, r *Report) {
	n := 0
	bad := ""
	pos := "-"
	for _, fn := range p.RepoFuncs() {
		if pkgOfFunc(fn) != modPath+"/"+pkgRC {
			continue
		}
		eachInstr(fn, func(in ssa.Instruction) {
			c := callCommon(in)
			if c == nil || c.StaticCallee() == nil || !strings.HasPrefix(c.StaticCallee().Name(), "isValidHTTPField") {
				return
			}
			n++
			r.Sites++
			for v := range operandClosure(c.Args[0]) {
				if cc, ok := v.(*ssa.Call); ok && isCallToNamed(&cc.Call, "strings", "", "TrimSpace") {
					bad += " " + shortFn(fn) + " at " + p.InstrPos(in) + ";"
					pos = p.InstrPos(in)
				}
			}
		})
	}
	r.Check(n >= 3 && bad == "", "field-value.raw", "R-WIRE", pos, fmt.Sprintf("%d validator calls, none on a TrimSpace'd copy", n),
		"an HTTP field validator is given strings.TrimSpace(value):"+bad+" TrimSpace also strips CR, LF, VT and FF, so a value that is invalid only at its edges (\"abc\\r\\n\") is no longer flagged; only SP and HTAB are optional whitespace")
}

// dupKeysExactRule: checkNoDuplicateKeys records and looks up the key exactly
// as decoded (JSON object keys are case-sensitive).
func dupKeysExactRule(p *Prog, r *Report) {
	fn := p.Func(pkgRC, "", "checkNoDuplicateKeys")
	if fn == nil {
		r.Undecided("dup-keys.exact", "R-WIRE", "checkNoDuplicateKeys not found")
		return
	}
	r.Func(funcName(fn))
	n := 0
	bad := ""
	check := func(in ssa.Instruction, key ssa.Value) {
		if _, isStr := key.Type().Underlying().(*types.Basic); !isStr {
			return
		}
		n++
		r.Sites++
		for v := range operandClosure(key) {
			if cc, ok := v.(*ssa.Call); ok {
				if o := calleeObj(&cc.Call); o != nil && o.Pkg() != nil && (o.Pkg().Path() == "strings" || o.Pkg().Path() == "unicode") {
					bad += " the key used at " + p.InstrPos(in) + " went through " + o.Pkg().Name() + "." + o.Name() + ";"
				}
			}
		}
	}
	eachInstr(fn, func(in ssa.Instruction) {
		switch x := in.(type) {
		case *ssa.MapUpdate:
			check(in, x.Key)
		case *ssa.Lookup:
			if _, isMap := x.X.Type().Underlying().(*types.Map); isMap {
				check(in, x.Index)
			}
		}
	})
	r.Check(n >= 2 && bad == "", "dup-keys.exact", "R-WIRE", p.Pos(fn.Pos()), "keys are recorded and looked up as decoded",
		"checkNoDuplicateKeys normalises object keys before comparing them:"+bad+" JSON keys are case-sensitive, so a well-formed detail whose debug object has keys `id` and `ID` is reported as containing a duplicate key")
}

// ---------- C14 ----------

// zeroLengthEmittedRule: in tracePrefixLocked the data event for a message of
// declared length 0 is added under a guard that does not look at the flags.
func zeroLengthEmittedRule(p *Prog, r *Report) {
	fn := p.Func(pkgTr, "dataTracer", "tracePrefixLocked")
	if fn == nil {
		r.Undecided("zero-length.emitted", "R-GUARD", "tracePrefixLocked not found")
		return
	}
	r.Func(funcName(fn))
	n := 0
	bad := ""
	pos := p.Pos(fn.Pos())
	// guard formulas: a test of the envelope flags is the atom "flags"
	e := &boolEval{key: func(a Atom) (string, bool, bool) {
		if a.Op == token.EQL || a.Op == token.NEQ {
			for _, side := range []ssa.Value{a.X, a.Y} {
				if bo, ok := side.(*ssa.BinOp); ok && bo.Op == token.AND {
					for v := range operandClosure(bo) {
						if u, ok := v.(*ssa.UnOp); ok {
							if fa, ok := u.X.(*ssa.FieldAddr); ok && fieldName(fa.X.Type(), fa.Field) == "Flags" {
								return "flags", a.Op == token.EQL, true
							}
						}
					}
				}
			}
		}
		return genericKey(a)
	}}
	keys := e.keysSeen(fn)
	zeroKey := ""
	for k := range keys {
		if strings.HasSuffix(k, ".expecting==0") {
			zeroKey = k
		}
	}
	eachInstr(fn, func(in ssa.Instruction) {
		c := callCommon(in)
		if c == nil || c.StaticCallee() == nil || c.StaticCallee().Name() != "add" {
			return
		}
		n++
		r.Sites++
		if zeroKey == "" || keys["flags"] == 0 {
			return
		}
		// the response-side event: reachable for a zero-length message whatever the flags say
		if !guardedBy(in, func(a Atom) bool { k, neg, ok := genericKey(a); return ok && k == "dataTracer.isRequest" && neg }) {
			return
		}
		for _, fl := range []bool{false, true} {
			if !e.reachableUnder(fn, in, sigma{zeroKey: true, "flags": fl, "dataTracer.isRequest": false}) {
				bad += fmt.Sprintf(" the response data event at %s is unreachable for a zero-length message when the end-stream flag test is %v;", p.InstrPos(in), fl)
				pos = p.InstrPos(in)
			}
		}
	})
	if zeroKey == "" || keys["flags"] == 0 {
		bad += " the guards on the declared length and on the flags were not recognised;"
	}
	r.Check(n >= 2 && bad == "", "zero-length.emitted", "R-GUARD", pos, "the zero-length data events do not depend on the envelope flags",
		"tracePrefixLocked emits the event of a zero-length message only for some flags:"+bad+" a zero-length end-stream message (80 00 00 00 00 / 02 00 00 00 00) then produces no data event and leaves the end-stream capture armed, so the traced message sequence is one short")
}

// flushUnconditionalRule: tracingResponseWriter.Flush reaches the wrapped
// writer's Flush on every path on which that writer is a Flusher.
func flushUnconditionalRule(p *Prog, r *Report) {
	fn := p.Func(pkgTr, "tracingResponseWriter", "Flush")
	if fn == nil {
		r.Undecided("passthru.flush-unconditional", "R-MUSTCALL", "tracingResponseWriter.Flush not found")
		return
	}
	r.Func(funcName(fn))
	r.Sites++
	ok, exit := entryMustPass(fn, func(in ssa.Instruction) bool {
		ta, isTA := in.(*ssa.TypeAssert)
		return isTA && strings.HasSuffix(ta.AssertedType.String(), "net/http.Flusher")
	})
	where := ""
	if exit != nil {
		where = " (" + p.InstrPos(exit) + ")"
	}
	r.Check(ok, "passthru.flush-unconditional", "R-MUSTCALL", p.Pos(fn.Pos()), "every path asks the wrapped writer for its Flusher",
		"tracingResponseWriter.Flush returns without forwarding the flush on some path"+where+": for net/http a Flush before the first write is what sends the status line and headers — a handler that announces a stream with a header-only flush and then waits is never seen by the client while tracing is on")
}

// ---------- C16 ----------

func buildClearsRule(p *Prog, r *Report) {
	fn := p.Func(pkgTr, "builder", "build")
	if fn == nil {
		r.Undecided("build.clears", "R-MUSTCALL", "builder.build not found")
		return
	}
	r.Func(funcName(fn))
	r.Sites++
	var fin *ssa.CallCommon
	eachInstr(fn, func(in ssa.Instruction) {
		if c := callCommon(in); c != nil && c.StaticCallee() != nil && c.StaticCallee().Name() == "finish" {
			fin = c
		}
	})
	ok := false
	if fin != nil && len(fin.Args) == 2 {
		if c, isC := canon(fin.Args[1]).(*ssa.Call); isC && c.Call.StaticCallee() != nil && c.Call.StaticCallee().Name() == "getAndClearLocked" {
			ok = true
		}
	}
	r.Check(ok, "build.clears", "R-MUSTCALL", p.Pos(fn.Pos()), "the trace handed to finish comes from getAndClearLocked",
		"builder.build hands over a trace that it did not take with getAndClearLocked: the builder keeps its state (and its `finished` marker is not set), so an event arriving afterwards — the cancellation watcher's RequestCanceled — is recorded after completion and the trace is completed a second time")
}

// ---------- C19 ----------

// readMaxOnlyFromRequestRule: every call of connect.WithReadMaxBytes in the
// repository gets int(req.MessageReceiveLimit).
func readMaxOnlyFromRequestRule(p *Prog, r *Report) {
	n := 0
	bad := ""
	pos := "-"
	for _, fn := range p.RepoFuncs() {
		eachInstr(fn, func(in ssa.Instruction) {
			c := callCommon(in)
			if c == nil || !isCallToNamed(c, "connectrpc.com/connect", "", "WithReadMaxBytes") {
				return
			}
			n++
			r.Sites++
			f := loadedField(stripAllConv(c.Args[0]))
			if f == nil || f.Name() != "MessageReceiveLimit" {
				bad += " " + shortFn(fn) + " passes " + path(c.Args[0]) + " at " + p.InstrPos(in) + ";"
				pos = p.InstrPos(in)
			}
		})
	}
	r.Check(n >= 2 && bad == "", "limit.only-from-request", "R-WIRE", pos, fmt.Sprintf("%d WithReadMaxBytes options, each int(req.MessageReceiveLimit)", n),
		"a receive limit other than the one the runner asked for is configured:"+bad+" connect-go applies options in order and the last read-max wins, so a default appended after the caller's options replaces the requested limit — a response between the two sizes is accepted instead of rejected with resource_exhausted")
}

// ---------- defects found while reviewing round 8 (D18, D19) ----------

// emptyFieldNameRejectedRule (D18): isValidHTTPFieldName cannot return true for
// an empty name — under len(s) == 0 no `return true` is reachable.
func emptyFieldNameRejectedRule(p *Prog, r *Report) {
	fn := p.Func(pkgRC, "", "isValidHTTPFieldName")
	if fn == nil {
		r.Undecided("field-name.non-empty", "R-GUARD", "isValidHTTPFieldName not found")
		return
	}
	r.Func(funcName(fn))
	r.Sites++
	prm := ssa.Value(fn.Params[0])
	e := &boolEval{key: func(a Atom) (string, bool, bool) {
		x, y, op := a.X, a.Y, a.Op
		if y == nil {
			return "", false, false
		}
		if isConstVal(x) {
			x, y, op = y, x, flipOp(op)
		}
		la, isLen := lenArg(x)
		k, isK := constInt(y)
		if !isLen || !isK || canon(la) != prm {
			// s == "" form
			if s, isS := constString(y); isS && s == "" && canon(x) == prm && (op == token.EQL || op == token.NEQ) {
				return "empty", op == token.NEQ, true
			}
			return "", false, false
		}
		switch {
		case k == 0 && op == token.EQL, k == 1 && op == token.LSS, k == 0 && op == token.LEQ:
			return "empty", false, true
		case k == 0 && op == token.NEQ, k == 0 && op == token.GTR, k == 1 && op == token.GEQ:
			return "empty", true, true
		}
		return "", false, false
	}}
	bad := ""
	for _, ret := range returnsOf(fn) {
		for _, v := range retVals(ret, 0) {
			if b, isK := constBool(v); isK && !b {
				continue
			}
			if e.reachableUnder(fn, ret, sigma{"empty": true}) {
				bad += " " + p.InstrPos(ret) + ";"
			}
		}
	}
	r.Check(bad == "", "field-name.non-empty", "R-GUARD", p.Pos(fn.Pos()), "no `return true` is reachable for an empty name",
		"isValidHTTPFieldName can return true for the empty string (its loop does not run):"+bad+" an HTTP field name is a token of at least one character, so a gRPC-Web trailer line `: value` or Connect end-stream metadata with the key \"\" draws no feedback")
}

// stdoutDrainedRule (D19): after the start-up handshake runTestCasesForServer
// keeps reading the server's stdout (io.Copy to io.Discard in a goroutine).
func stdoutDrainedRule(p *Prog, r *Report) {
	fn := p.Func(pkgCC, "", "runTestCasesForServer")
	if fn == nil {
		r.Undecided("stdout.drained", "R-MUSTCALL", "runTestCasesForServer not found")
		return
	}
	r.Func(funcName(fn))
	r.Sites++
	found := false
	for _, cl := range withClosures(fn) {
		if cl == fn {
			continue
		}
		eachInstr(cl, func(in ssa.Instruction) {
			c := callCommon(in)
			if c == nil || !isCallToNamed(c, "io", "", "Copy") || len(c.Args) != 2 {
				return
			}
			for v := range operandClosure(c.Args[1]) {
				if u, ok := v.(*ssa.UnOp); ok {
					if fa, ok := u.X.(*ssa.FieldAddr); ok && fieldName(fa.X.Type(), fa.Field) == "stdout" {
						found = true
					}
				}
			}
		})
	}
	r.Check(found, "stdout.drained", "R-MUSTCALL", p.Pos(fn.Pos()), "a goroutine copies the rest of the server's stdout to io.Discard",
		"runTestCasesForServer stops reading the server's stdout after the start-up response: a command server that prints anything more blocks the copy of its output into the unread pipe, so cmd.Wait (and with it the whenDone notification that cancels the batch) returns only after the 5 s wait delay — a server that dies in mid-batch goes unnoticed meanwhile and the remaining cases take the client's verdict instead of a set-up error")
}

func init() {
	round8Rules["C13"] = append(round8Rules["C13"], emptyFieldNameRejectedRule)
	round8Rules["C11"] = append(round8Rules["C11"], stdoutDrainedRule)
	addMutants(
		Mutant{ID: "C13-D18-empty-field-name", Prop: "C13", File: "internal/app/referenceclient/wire_details.go",
			Old:    "\tif len(s) == 0 {\n\t\treturn false // a token has at least one character\n\t}\n",
			New:    "",
			Expect: []string{"field-name.non-empty"}, Note: "original defect D18: the empty field name passes as a token"},
		Mutant{ID: "C11-D19-stdout-not-drained", Prop: "C11", File: "internal/app/connectconformance/server_runner.go",
			Old:    "\tgo func() {\n\t\t_, _ = io.Copy(io.Discard, serverProcess.stdout)\n\t}()\n",
			New:    "\t_ = io.Discard\n",
			Expect: []string{"stdout.drained"}, Note: "original defect D19: a command server that prints after its handshake is not noticed dying"},
	)
}
