package main

import (
	"fmt"
	"go/token"
	"go/types"

	"golang.org/x/tools/go/ssa"
)

func init() {
	register(&propMeta{
		ID: "C11",
		Explain: "Decides structural necessary conditions of 'a server batch always yields exactly one outcome per case and terminates': " +
			"(early) every return of runTestCasesForServer is preceded by failedToStart(<the whole batch>) or failRemaining(<the whole batch>), or is the server-terminated exit whose marking loop starts at the current case; the could-not-run exit compensates the WaitGroup, marks from the current case with a couldNotRunError and still reaches the common tail; " +
			"(tail) failRemaining is preceded by wg.Wait, abort, an unconditional wait for the server's result and, for a reference server, the join of the stderr reader; " +
			"(tls) a TLS batch whose server reports no certificate is failed as a setup error; (keep) failRemaining only writes cases without an outcome; " +
			"(sideband) a stderr line is attributed exactly when it splits at the first \": \" into two parts whose first is a test name of the batch, every other non-blank line is forwarded, and the last line is processed even when the read returned an error (EOF without newline); " +
			"(abort) cmdProcess.abort cancels first, force-closes after the graceful period, publishes a result and marks done only if none was published; done is closed through a sync.Once. " +
			"It does NOT decide bounded time or the outcome under executed fault positions.",
		NotDecided: []string{"bounded termination time", "behaviour under every executed fault position (which byte the server/client stops at)"},
		Assume:     []string{"sync.WaitGroup, sync.Once and context cancellation behave as documented"},
		Trusted:    commonTrusted,
		Run:        runC11,
	})
	fs := "internal/app/connectconformance/server_runner.go"
	addMutants(
		Mutant{ID: "C11-break-to-return", Prop: "C11", File: fs,
			Old: "\t\t\t\tresults.setOutcome(testCases[j].Request.TestName, true, &couldNotRunError{err})\n\t\t\t}\n\t\t\tbreak", New: "\t\t\t\tresults.setOutcome(testCases[j].Request.TestName, true, &couldNotRunError{err})\n\t\t\t}\n\t\t\treturn",
			Expect: []string{"early.could-not-run-tail", "early.return"}, Note: "seed C11-1: client pipe broken exit skips wg.Wait/failRemaining"},
		Mutant{ID: "C11-eof-line-lost", Prop: "C11", File: fs,
			Old: "\t\t\t\torigLine, err := r.ReadString('\\n')\n", New: "\t\t\t\torigLine, err := r.ReadString('\\n')\n\t\t\t\tif err != nil {\n\t\t\t\t\treturn\n\t\t\t\t}\n",
			Expect: []string{"sideband.last-line"}, Note: "seed C11-2: last stderr line without newline dropped"},
		Mutant{ID: "C11-split-all", Prop: "C11", File: fs, Old: "parts := strings.SplitN(str, \": \", 2)", New: "parts := strings.Split(str, \": \")",
			Expect: []string{"sideband.split"}, Note: "seed C04-2: feedback containing \": \" not recognised"},
		Mutant{ID: "C11-result-conditional", Prop: "C11", File: fs,
			Old: "\t_ = serverProcess.result() // wait for server process to end\n\tif isReferenceServer {\n\t\t<-refServerFinished\n\t}", New: "\tif isReferenceServer {\n\t\t_ = serverProcess.result() // wait for server process to end\n\t\t<-refServerFinished\n\t}",
			Expect: []string{"tail.order"}, Note: "seed C05-2: only reference servers are waited for"},
		Mutant{ID: "C11-tls-nocert-ok", Prop: "C11", File: fs, Old: "\tif meta.useTLS && len(resp.PemCert) == 0 {", New: "\tif meta.useTLSClientCerts && len(resp.PemCert) == 0 {",
			Expect: []string{"tls.missing-cert"}, Note: "TLS server without certificate is only rejected for client-cert batches"},
		Mutant{ID: "C11-mark-from-zero", Prop: "C11", File: fs, Old: "\t\t\tfor j := i; j < len(testCases); j++ {\n\t\t\t\tresults.setOutcome(testCases[j].Request.TestName, true, err)", New: "\t\t\tfor j := 0; j < len(testCases); j++ {\n\t\t\t\tresults.setOutcome(testCases[j].Request.TestName, true, err)",
			Expect: []string{"early.mark-from-current"}, Note: "server-terminated exit overwrites verdicts of already answered cases"},
		Mutant{ID: "C11-failRemaining-overwrites", Prop: "C11", File: "internal/app/connectconformance/results.go",
			Old: "\t\tif _, outcomeExists := r.outcomes[name]; outcomeExists {\n\t\t\tcontinue\n\t\t}\n", New: "\t\t_ = name\n",
			Expect: []string{"keep"}, Note: "failRemaining overwrites existing verdicts"},
		Mutant{ID: "C11-abort-no-publish", Prop: "C11", File: "internal/app/connectconformance/process.go",
			Old: "\t\t\tif c.cmdResult.CompareAndSwap(nil, &err) {\n\t\t\t\tc.markDone()\n\t\t\t}", New: "\t\t\tc.cmdResult.Store(&err)\n\t\t\tc.markDone()",
			Expect: []string{"abort.publish-once"}, Note: "give-up path overwrites a result published by Wait"},
	)
}

func runC11(p *Prog, r *Report) {
	rts := p.Func(pkgCC, "", "runTestCasesForServer")
	if rts == nil {
		r.Undecided("early", "R-MUSTCALL", "runTestCasesForServer not found")
		return
	}
	r.Func(funcName(rts))
	var testCases *ssa.Parameter
	for _, prm := range rts.Params {
		if prm.Name() == "testCases" {
			testCases = prm
		}
	}
	tcType := p.Named(pkgGen, "TestCase")
	if testCases == nil {
		// fall back: the []*TestCase parameter
		for _, prm := range rts.Params {
			if sl, ok := prm.Type().Underlying().(*types.Slice); ok {
				if pt, ok := sl.Elem().(*types.Pointer); ok && tcType != nil && types.Identical(pt.Elem(), tcType) {
					testCases = prm
				}
			}
		}
	}
	failedToStart := p.TypeFunc(pkgCC, "testResults", "failedToStart")
	failRemaining := p.TypeFunc(pkgCC, "testResults", "failRemaining")
	setOutcome := p.TypeFunc(pkgCC, "testResults", "setOutcome")
	wholeBatch := func(obj *types.Func) instrPred {
		return func(in ssa.Instruction) bool {
			c := callCommon(in)
			return c != nil && calleeObj(c) == obj && len(c.Args) >= 2 && c.Args[1] == ssa.Value(testCases)
		}
	}
	isFTS, isFR := wholeBatch(failedToStart), wholeBatch(failRemaining)
	// procCtx.Err() != nil
	isCtxErrNonNil := func(a Atom) bool {
		m, isNil := nilTestOn(a, isCallResult(func(c *ssa.CallCommon) bool { return c.IsInvoke() && c.Method.Name() == "Err" }))
		return m && !isNil
	}
	nret := 0
	for _, ret := range returnsOf(rts) {
		nret++
		r.Sites++
		switch {
		case precededBy(ret, isFTS), precededBy(ret, isFR):
			continue
		case guardedBy(ret, isCtxErrNonNil) && precededBy(ret, isCallObj(setOutcome)) || markedInLoopBefore(ret, setOutcome):
			continue
		}
		r.Fail("early.return", "R-MUSTCALL", p.InstrPos(ret), "runTestCasesForServer can return here without failedToStart(testCases, …), failRemaining(testCases, …) or the server-terminated marking of the remaining cases: cases of the batch would be left without an outcome")
	}
	if nret >= 7 {
		r.OK("early.return", "R-MUSTCALL", p.Pos(rts.Pos()), fmt.Sprintf("all %d returns mark the batch", nret))
	}
	r.Floor("returns", nret, 7)

	// marking loops start at the current case
	rangeIdx := func(v ssa.Value) bool { bo, ok := v.(*ssa.BinOp); return ok && isRangeIndex(bo) }
	marks := 0
	eachInstr(rts, func(in ssa.Instruction) {
		c := callCommon(in)
		if c == nil || calleeObj(c) != setOutcome {
			return
		}
		// name = testCases[j].Request.TestName ; j = phi [outer index, j+1]
		var idx ssa.Value
		var walk func(v ssa.Value, d int)
		walk = func(v ssa.Value, d int) {
			if d > 8 || v == nil {
				return
			}
			switch x := v.(type) {
			case *ssa.UnOp:
				walk(x.X, d+1)
			case *ssa.FieldAddr:
				walk(x.X, d+1)
			case *ssa.IndexAddr:
				if x.X == ssa.Value(testCases) {
					idx = x.Index
				}
			}
		}
		walk(c.Args[1], 0)
		phi, ok := idx.(*ssa.Phi)
		if !ok {
			return
		}
		marks++
		r.Sites++
		fromCurrent := false
		for _, e := range phi.Edges {
			if rangeIdx(e) {
				fromCurrent = true
			}
			if z, isC := constInt(e); isC && z == 0 {
				fromCurrent = false
				break
			}
		}
		r.Check(fromCurrent, "early.mark-from-current", "R-WIRE", p.InstrPos(in), "the marking loop starts at the index of the current case", "a marking loop in runTestCasesForServer does not start at the current case: verdicts of already answered cases would be overwritten (or cases skipped)")
		flag, _ := constBool(c.Args[2])
		r.Check(flag, "early.mark-setup", "R-WIRE", p.InstrPos(in), "marked as setup error", "remaining cases are not marked as setup errors")
	})
	r.Floor("marking-loops", marks, 2)

	// could-not-run exit: compensates wg and reaches the common tail
	isWgDone := func(in ssa.Instruction) bool {
		c, ok := in.(*ssa.Call)
		if !ok {
			return false
		}
		f := c.Call.StaticCallee()
		return f != nil && f.Name() == "Done" && f.Pkg != nil && f.Pkg.Pkg.Path() == "sync"
	}
	dones := findInstrs(rts, isWgDone)
	r.Sites++
	if len(dones) != 1 {
		r.Fail("early.could-not-run-tail", "R-MUSTCALL", p.Pos(rts.Pos()), fmt.Sprintf("expected exactly one compensating wg.Done() in runTestCasesForServer, found %d", len(dones)))
	} else {
		ok, exit := mustPass(dones[0], isFR)
		r.Check(ok, "early.could-not-run-tail", "R-MUSTCALL", p.InstrPos(dones[0]), "after the send failure every path reaches failRemaining (through wg.Wait, abort, result)",
			"after a failed send runTestCasesForServer can return at "+p.InstrPos(exit)+" without waiting for outstanding answers and without failRemaining: already sent cases may end without an outcome and the server is stopped underneath them")
		// the error is wrapped as couldNotRunError
		okW := false
		eachInstr(rts, func(in ssa.Instruction) {
			c := callCommon(in)
			if c != nil && calleeObj(c) == setOutcome && reachesInstr(dones[0], in) {
				if eventKind(c.Args[3]) == "couldNotRunError" {
					okW = true
				}
			}
		})
		r.Check(okW, "early.could-not-run-kind", "R-WIRE", p.InstrPos(dones[0]), "marked with *couldNotRunError", "cases that could not be sent are not marked with a couldNotRunError (report would count them as ordinary failures, not as not-run)")
	}

	tailRules(p, r, rts, isFR)

	// ---- tls ----
	pem := p.Field(pkgGen, "ServerCompatResponse", "PemCert")
	useTLS := p.Field(pkgCC, "serverInstance", "useTLS")
	okTLS := false
	for _, c := range findInstrs(rts, isFTS) {
		as := atomsAt(c.Block())
		t := hasAtom(as, func(a Atom) bool { m, v := boolTestOn(a, isLoadOfField(useTLS)); return m && v })
		e := hasAtom(as, func(a Atom) bool {
			if a.Op != token.EQL {
				return false
			}
			z, isZ := constInt(a.Y)
			x, isLen := lenArg(a.X)
			return isZ && z == 0 && isLen && loadedField(canon(x)) == pem
		})
		if t && e {
			okTLS = true
		}
	}
	r.Sites++
	r.Check(okTLS, "tls.missing-cert", "R-GUARD", p.Pos(rts.Pos()), "failedToStart on (useTLS ∧ len(PemCert) == 0)", "a TLS batch whose server response carries no certificate is not failed as a setup error")

	// ---- keep ----
	if fr := p.Func(pkgCC, "testResults", "failRemaining"); fr == nil {
		r.Undecided("keep", "R-GUARD", "failRemaining not found")
	} else {
		outcomes := p.Field(pkgCC, "testResults", "outcomes")
		sol := p.TypeFunc(pkgCC, "testResults", "setOutcomeLocked")
		cs := findInstrs(fr, isCallObj(sol))
		ok := len(cs) == 1
		for _, c := range cs {
			r.Sites++
			if !guardedBy(c, func(a Atom) bool {
				m, v := boolTestOn(a, func(x ssa.Value) bool { return commaOkOfLookupOn(x, outcomes) })
				return m && !v
			}) {
				ok = false
			}
			if b, isC := constBool(callCommon(c).Args[2]); !isC || !b {
				ok = false
			}
		}
		r.Check(ok, "keep", "R-GUARD", p.Pos(fr.Pos()), "failRemaining writes (as setup error) only on the no-outcome-yet edge", "failRemaining can overwrite an existing outcome (or does not mark as setup error): cases already answered would lose their own verdict")
	}

	sidebandRules(p, r, rts)

	// ---- abort ----
	ab := p.Func(pkgCC, "cmdProcess", "abort")
	if ab == nil {
		r.Undecided("abort", "R-ORDER", "cmdProcess.abort not found")
	} else {
		r.Func(funcName(ab))
		cancelF := p.Field(pkgCC, "cmdProcess", "cancel")
		forceF := p.Field(pkgCC, "cmdProcess", "forceClose")
		resultF := p.Field(pkgCC, "cmdProcess", "cmdResult")
		callsField := func(f *types.Var) instrPred {
			return func(in ssa.Instruction) bool {
				c := callCommon(in)
				return c != nil && !c.IsInvoke() && loadedField(canon(c.Value)) == f
			}
		}
		isDo := func(in ssa.Instruction) bool {
			c := callCommon(in)
			return c != nil && c.StaticCallee() != nil && c.StaticCallee().Name() == "Do"
		}
		dos := findInstrs(ab, isDo)
		r.Sites++
		r.Check(len(dos) == 1 && precededBy(dos[0], callsField(cancelF)), "abort.cancel-first", "R-ORDER", p.Pos(ab.Pos()), "cancel() precedes the once-only escalation", "cmdProcess.abort does not cancel the process context before escalating")
		okForce, okPub := false, false
		for _, fn := range withClosures(ab) {
			for _, fc := range findInstrs(fn, callsField(forceF)) {
				if precededBy(fc, func(in ssa.Instruction) bool { _, isSel := in.(*ssa.Select); return isSel }) {
					okForce = true
				}
			}
			markDone := p.TypeFunc(pkgCC, "cmdProcess", "markDone")
			for _, md := range findInstrs(fn, isCallObj(markDone)) {
				if guardedBy(md, func(a Atom) bool {
					m, v := boolTestOn(a, isCallResult(func(c *ssa.CallCommon) bool {
						f := c.StaticCallee()
						if f == nil || fnBase(f) != "CompareAndSwap" || len(c.Args) != 3 {
							return false
						}
						fa, ok := c.Args[0].(*ssa.FieldAddr)
						return ok && fieldVar(fa.X.Type(), fa.Field) == resultF && isNilConst(c.Args[1])
					}))
					return m && v
				}) && precededBy(md, callsField(forceF)) {
					okPub = true
				}
			}
		}
		r.Sites += 2
		r.Check(okForce, "abort.force-after-grace", "R-ORDER", p.Pos(ab.Pos()), "forceClose follows a select (done / grace period)", "abort force-closes the pipes without first waiting for the graceful period")
		r.Check(okPub, "abort.publish-once", "R-GUARD", p.Pos(ab.Pos()), "the give-up path marks done only if it published the result (CompareAndSwap(nil, …) succeeded), after forceClose", "the give-up path of abort publishes/marks done without the CompareAndSwap(nil, …) guard: it could overwrite the real exit status or mark done twice")
		// done closed only through doneOnce
		doneF := p.Field(pkgCC, "cmdProcess", "done")
		closes, viaOnce := 0, 0
		for _, fn := range p.RepoFuncs() {
			if pkgOfFunc(fn) != ccPath {
				continue
			}
			eachInstr(fn, func(in ssa.Instruction) {
				c := callCommon(in)
				if c == nil {
					return
				}
				if b, ok := c.Value.(*ssa.Builtin); ok && b.Name() == "close" && loadedField(canon(c.Args[0])) == doneF {
					closes++
					if fn.Parent() != nil {
						// the closure is the argument of a Once.Do
						for _, in2 := range findInstrs(fn.Parent(), isDo) {
							for _, a := range callCommon(in2).Args {
								if mc, ok := a.(*ssa.MakeClosure); ok && mc.Fn == ssa.Value(fn) {
									viaOnce++
								}
							}
						}
					}
				}
			})
		}
		r.Sites++
		r.Check(closes >= 1 && closes == viaOnce, "abort.done-once", "R-LATCH", p.Pos(ab.Pos()), fmt.Sprintf("all %d close(done) go through sync.Once.Do", closes), "cmdProcess.done can be closed outside its sync.Once: a second close would panic")
	}
}

// markedInLoopBefore: the return follows (on every path) a loop that calls
// setOutcome — the server-terminated exit.
func markedInLoopBefore(ret *ssa.Return, setOutcome *types.Func) bool {
	// the return's block is the exit of a loop whose body calls setOutcome:
	// every predecessor chain passes the loop header; the body is a successor
	// of the header that calls setOutcome.
	b := ret.Block()
	for _, pred := range b.Preds {
		for _, s := range pred.Succs {
			if s == b {
				continue
			}
			for _, in := range s.Instrs {
				if c := callCommon(in); c != nil && calleeObj(c) == setOutcome {
					return true
				}
			}
		}
	}
	return false
}

// sidebandRules: attribution of reference-server stderr lines (shared by C04
// and C11: peer feedback must turn a matching result into a failure).
func sidebandRules(p *Prog, r *Report, rts *ssa.Function) {
	// ---- sideband ----
	var sb *ssa.Function
	recSB := p.TypeFunc(pkgCC, "testResults", "recordSideband")
	for _, a := range rts.AnonFuncs {
		if len(findInstrs(a, isCallObj(recSB))) > 0 && len(findInstrs(a, func(in ssa.Instruction) bool {
			c := callCommon(in)
			return c != nil && c.StaticCallee() != nil && c.StaticCallee().Name() == "ReadString"
		})) > 0 {
			sb = a
		}
	}
	if sb == nil {
		r.Undecided("sideband", "R-GUARD", "stderr reader goroutine not found")
	} else {
		r.Func(funcName(sb))
		var split *ssa.Call
		eachInstr(sb, func(in ssa.Instruction) {
			if c, ok := in.(*ssa.Call); ok {
				if f := c.Call.StaticCallee(); f != nil && f.Pkg != nil && f.Pkg.Pkg.Path() == "strings" && (f.Name() == "Split" || f.Name() == "SplitN" || f.Name() == "Cut") {
					split = c
				}
			}
		})
		r.Sites++
		okSplit := false
		if split != nil && split.Call.StaticCallee().Name() == "SplitN" {
			sep, isS := constString(split.Call.Args[1])
			k, isK := constInt(split.Call.Args[2])
			okSplit = isS && sep == ": " && isK && k == 2
		}
		r.Check(okSplit, "sideband.split", "R-WIRE", p.Pos(sb.Pos()), `strings.SplitN(line, ": ", 2)`, `a stderr line is not split at the FIRST ": " into at most two parts: a feedback message that itself contains ": " would not be recognised and the case would pass`)
		var readCall *ssa.Call
		eachInstr(sb, func(in ssa.Instruction) {
			if c, ok := in.(*ssa.Call); ok && c.Call.StaticCallee() != nil && c.Call.StaticCallee().Name() == "ReadString" {
				readCall = c
			}
		})
		readErrNil := func(a Atom) bool {
			m, isNil := nilTestOn(a, func(v ssa.Value) bool {
				ex, ok := v.(*ssa.Extract)
				return ok && readCall != nil && ex.Tuple == ssa.Value(readCall) && ex.Index == 1
			})
			return m && isNil
		}
		for _, c := range findInstrs(sb, isCallObj(recSB)) {
			r.Sites++
			cc := callCommon(c)
			as := atomsAt(c.Block())
			two := hasAtom(as, func(a Atom) bool {
				if a.Op != token.EQL {
					return false
				}
				k, isK := constInt(a.Y)
				x, isLen := lenArg(a.X)
				return isK && k == 2 && isLen && split != nil && canon(x) == ssa.Value(split)
			})
			hit := hasAtom(as, func(a Atom) bool {
				m, v := boolTestOn(a, func(x ssa.Value) bool {
					ex, ok := x.(*ssa.Extract)
					if !ok || ex.Index != 1 {
						return false
					}
					lk, ok := ex.Tuple.(*ssa.Lookup)
					return ok && lk.CommaOk
				})
				return m && v
			})
			partIdx := func(v ssa.Value) int64 {
				if u, ok := v.(*ssa.UnOp); ok {
					if ia, ok := u.X.(*ssa.IndexAddr); ok && split != nil && canon(ia.X) == ssa.Value(split) {
						if k, isK := constInt(ia.Index); isK {
							return k
						}
					}
				}
				return -1
			}
			r.Check(two && hit && partIdx(cc.Args[1]) == 0 && partIdx(cc.Args[2]) == 1, "sideband.attribute", "R-GUARD", p.InstrPos(c), "recordSideband(parts[0], parts[1]) on (len(parts) == 2 ∧ parts[0] is a test name of the batch)",
				"feedback is not attributed exactly as recordSideband(parts[0], parts[1]) under (two parts ∧ first part names a case of this batch)")
			r.Check(!hasAtom(as, readErrNil), "sideband.last-line", "R-GUARD", p.InstrPos(c), "the line is processed before the read error is examined", "a stderr line is only processed when the read returned no error: the last line of a dying server (EOF without newline) would be dropped, and with it the feedback that should fail the case")
		}
		fw := 0
		eachInstr(sb, func(in ssa.Instruction) {
			c := callCommon(in)
			if c == nil || !c.IsInvoke() || c.Method.Name() != "PrefixPrintf" {
				return
			}
			fw++
			r.Sites++
			as := atomsAt(in.Block())
			nonBlank := hasAtom(as, func(a Atom) bool {
				if a.Op != token.NEQ {
					return false
				}
				s, isS := constString(a.Y)
				return isS && s == ""
			})
			r.Check(nonBlank && !hasAtom(as, readErrNil), "sideband.forward", "R-GUARD", p.InstrPos(in), "non-blank, unattributed lines are forwarded (also the last one)", "other stderr output of the server is not forwarded for every non-blank line")
		})
		r.Floor("forward-sites", fw, 1)
	}

}

// tailRules: the common tail of a batch (shared by C05 and C11).
func tailRules(p *Prog, r *Report, rts *ssa.Function, isFR instrPred) {
	// ---- tail order ----
	frs := findInstrs(rts, isFR)
	r.Sites++
	if len(frs) != 1 {
		r.Fail("tail.order", "R-ORDER", p.Pos(rts.Pos()), fmt.Sprintf("expected one failRemaining(testCases, …) call, found %d", len(frs)))
	} else {
		fr := frs[0]
		isWait := func(in ssa.Instruction) bool {
			c := callCommon(in)
			if c == nil {
				return false
			}
			f := c.StaticCallee()
			return f != nil && f.Name() == "Wait" && f.Pkg != nil && f.Pkg.Pkg.Path() == "sync"
		}
		isAbort := func(in ssa.Instruction) bool {
			_, isDefer := in.(*ssa.Defer)
			return !isDefer && isCallToNamed(callCommon(in), ccPath, "processController", "abort")
		}
		isResult := func(in ssa.Instruction) bool {
			return isCallToNamed(callCommon(in), ccPath, "processController", "result")
		}
		ok := precededBy(fr, isWait) && precededBy(fr, isAbort) && precededBy(fr, isResult)
		// abort before result
		for _, res := range findInstrs(rts, isResult) {
			if !precededBy(res, isAbort) {
				ok = false
			}
		}
		r.Check(ok, "tail.order", "R-ORDER", p.InstrPos(fr), "wg.Wait → abort → result → failRemaining on every path", "failRemaining is not preceded on every path by wg.Wait, abort and an unconditional wait for the server's result: the --max-servers permit could be released while the server is alive, or remaining cases be failed while answers are outstanding")
		// join of the stderr reader
		joined := false
		eachInstr(rts, func(in ssa.Instruction) {
			if u, ok := in.(*ssa.UnOp); ok && u.Op == token.ARROW {
				if guardedBy(in, func(a Atom) bool {
					m, v := boolTestOn(a, func(x ssa.Value) bool { prm, ok := x.(*ssa.Parameter); return ok && prm.Name() == "isReferenceServer" })
					return m && v
				}) && reachesInstr(in, fr) && !reachesInstr(fr, in) {
					joined = true
				}
			}
		})
		r.Sites++
		r.Check(joined, "tail.join-stderr", "R-ORDER", p.InstrPos(fr), "the stderr reader goroutine is joined before failRemaining", "the reference server's stderr reader is not joined before the batch ends: late feedback lines could be lost")
	}

}
