package main

import (
	"fmt"
	"go/constant"
	"go/token"
	"go/types"
	"sort"
	"strings"

	"golang.org/x/tools/go/ssa"
)

const pkgComp = "internal/compression"

func compPath() string { return modPath + "/" + pkgComp }

func init() {
	register(&propMeta{
		ID: "C20",
		Explain: "Decides structural necessary conditions of 'every supported compression round-trips, also when instances are reused' and of 'the same encoding name denotes the same algorithm everywhere': " +
			"(tables) a canonical relation enum ↔ IANA name ↔ compressor family ↔ decompressor family is extracted from internal/compression (family = the library package the constructor's object comes from) and must hold at GetCompressor, GetDecompressor, the tracer's name table, the reference server's handler options, the reference client's accept/send options and the gRPC client's gzip option; compressor and decompressor of one encoding come from the same family and snappy uses the framed stream format on both sides; " +
			"(reuse-typestate) the zstd wrapper's decoder is nil exactly after Close: every use is behind the nil test, Reset on the nil edge builds a new decoder *on the reader it was given*, and Close nils the field on every path after closing; the deflate wrapper's reader is nil-guarded and replaced on every Reset; wrappers whose reader is never nil are only constructed with one; constructor failures yield sentinel objects, nothing in the package panics; " +
			"(raw-encoder) the raw-payload encoder runs every present payload (also an empty one) through the compressor; " +
			"(panic) every potential panic site in the package is discharged. " +
			"It does NOT decide the round trip for all inputs and reuse histories, nor behaviour after a failed decode (third-party reader state).",
		NotDecided: []string{"round-trip equality for all inputs and reset/close/reuse histories", "state of third-party readers after a failed decode", "that connect-go's pools call Reset/Close in the assumed orders"},
		Assume:     []string{"a constructor's family is the package of the library functions it (transitively, inside internal/compression) calls"},
		Trusted:    commonTrusted,
		Run:        runC20,
	})
	fz, fcmp := "internal/compression/zstd.go", "internal/compression/compression.go"
	addMutants(
		Mutant{ID: "C20-zstd-reset-nil", Prop: "C20", File: fz, Old: "\t\tc.decoder, err = zstd.NewReader(rdr)", New: "\t\tc.decoder, err = zstd.NewReader(nil)",
			Expect: []string{"reuse-typestate.zstd.reset-source"}, Note: "seed C20-1: decoder rebuilt after Close without its input"},
		Mutant{ID: "C20-zstd-close-keeps", Prop: "C20", File: fz, Old: "\tc.decoder.Close()\n\t// zstd.Decoder cannot be re-used after close, even via Reset\n\tc.decoder = nil\n", New: "\tc.decoder.Close()\n",
			Expect: []string{"reuse-typestate.zstd.nil-after-close"}, Note: "closed zstd decoder kept for reuse (Reset on a closed decoder fails)"},
		Mutant{ID: "C20-zstd-deflate-swapped", Prop: "C20", File: fcmp, Old: "\tcase conformancev1.Compression_COMPRESSION_ZSTD:\n\t\treturn NewZstdDecompressor(), nil\n\tcase conformancev1.Compression_COMPRESSION_DEFLATE:\n\t\treturn NewDeflateDecompressor(), nil", New: "\tcase conformancev1.Compression_COMPRESSION_ZSTD:\n\t\treturn NewDeflateDecompressor(), nil\n\tcase conformancev1.Compression_COMPRESSION_DEFLATE:\n\t\treturn NewZstdDecompressor(), nil",
			Expect: []string{"tables."}, Note: "decompressors of two encodings swapped"},
		Mutant{ID: "C20-server-name-cross", Prop: "C20", File: "internal/app/referenceserver/server.go", Old: "connect.WithCompression(compression.Snappy, compression.NewSnappyDecompressor, compression.NewSnappyCompressor),", New: "connect.WithCompression(compression.Snappy, compression.NewSnappyDecompressor, compression.NewZstdCompressor),",
			Expect: []string{"tables.server"}, Note: "server answers 'snappy' with zstd data"},
		Mutant{ID: "C20-client-send-cross", Prop: "C20", File: "internal/app/referenceclient/client.go", Old: "\t\t\tconnect.WithSendCompression(compression.Deflate),", New: "\t\t\tconnect.WithSendCompression(compression.Zstd),",
			Expect: []string{"tables.client"}, Note: "client registers deflate but sends with the zstd name"},
		Mutant{ID: "C20-tracer-name", Prop: "C20", File: "internal/tracer/tracer.go", Old: "\tcase \"br\":\n\t\tcomp = conformancev1.Compression_COMPRESSION_BR\n\tcase \"zstd\":\n\t\tcomp = conformancev1.Compression_COMPRESSION_ZSTD", New: "\tcase \"br\":\n\t\tcomp = conformancev1.Compression_COMPRESSION_ZSTD\n\tcase \"zstd\":\n\t\tcomp = conformancev1.Compression_COMPRESSION_BR",
			Expect: []string{"tables.tracer"}, Note: "tracer decodes br end-stream messages with zstd"},
		Mutant{ID: "C20-deflate-read-unguarded", Prop: "C20", File: "internal/compression/deflate.go", Old: "func (c *deflateDecompressor) Read(bytes []byte) (int, error) {\n\tif c.reader == nil {\n\t\treturn 0, io.EOF\n\t}\n", New: "func (c *deflateDecompressor) Read(bytes []byte) (int, error) {\n",
			Expect: []string{"reuse-typestate.deflate"}, Note: "Read before the first Reset dereferences a nil reader"},
		Mutant{ID: "C20-empty-skip", Prop: "C20", File: "internal/raw_http_body.go", Old: "\tcompressor, err := compression.GetCompressor(contents.Compression)", New: "\tif len(msgBytes) == 0 {\n\t\treturn nil\n\t}\n\tcompressor, err := compression.GetCompressor(contents.Compression)",
			Expect: []string{"raw-encoder."}, Note: "seed C20-2: empty payload bypasses the compressor"},
		Mutant{ID: "C20-ctor-panics", Prop: "C20", File: fz, Old: "\tif err != nil {\n\t\treturn &errorDecompressor{err: err}\n\t}\n\treturn &zstdDecompressor{", New: "\tif err != nil {\n\t\tpanic(err)\n\t}\n\treturn &zstdDecompressor{",
			Expect: []string{"reuse-typestate.no-panic", "panic."}, Note: "constructor failure panics instead of yielding a sentinel"},
		Mutant{ID: "C20-grpc-gzip", Prop: "C20", File: "internal/app/grpcclient/client.go", Old: "\tif req.Compression == conformancev1.Compression_COMPRESSION_GZIP {", New: "\tif req.Compression != conformancev1.Compression_COMPRESSION_IDENTITY {",
			Expect: []string{"tables.grpcclient"}, Note: "gRPC client uses gzip for every non-identity compression"},
	)
}

var libFamilies = map[string]string{
	"github.com/andybalholm/brotli":        "brotli",
	"compress/zlib":                        "zlib",
	"github.com/golang/snappy":             "snappy",
	"github.com/klauspost/compress/zstd":   "zstd",
	"compress/gzip":                        "gzip",
	"google.golang.org/grpc/encoding/gzip": "gzip",
}

// familyOfFunc: the compression library a constructor (transitively within
// internal/compression) builds its object with.
func familyOfFunc(p *Prog, fn *ssa.Function, seen map[*ssa.Function]bool) map[string]bool {
	out := map[string]bool{}
	if fn == nil || seen[fn] {
		return out
	}
	seen[fn] = true
	eachInstr(fn, func(in ssa.Instruction) {
		c := callCommon(in)
		if c == nil {
			return
		}
		callee := c.StaticCallee()
		if callee == nil || callee.Pkg == nil {
			return
		}
		if fam, ok := libFamilies[callee.Pkg.Pkg.Path()]; ok {
			out[fam+":"+callee.Name()] = true
		} else if callee.Pkg.Pkg.Path() == compPath() {
			for k := range familyOfFunc(p, callee, seen) {
				out[k] = true
			}
		}
	})
	return out
}

func famName(m map[string]bool) string {
	fams := map[string]bool{}
	for k := range m {
		fams[strings.SplitN(k, ":", 2)[0]] = true
	}
	ks := sortedKeys(fams)
	if len(ks) == 0 {
		return "noop"
	}
	return strings.Join(ks, "+")
}

// familyOfValue: family of a returned compressor/decompressor value: a call of
// a constructor, or a literal of a library type (&gzip.Reader{}).
func familyOfValue(p *Prog, v ssa.Value) string {
	v = canon(v)
	switch x := v.(type) {
	case *ssa.Call:
		if callee := x.Call.StaticCallee(); callee != nil {
			if callee.Pkg != nil {
				if fam, ok := libFamilies[callee.Pkg.Pkg.Path()]; ok {
					return fam
				}
			}
			return famName(familyOfCtor(p, callee))
		}
	case *ssa.Alloc:
		t := x.Type().(*types.Pointer).Elem()
		if nt, ok := t.(*types.Named); ok && nt.Obj().Pkg() != nil {
			if fam, ok := libFamilies[nt.Obj().Pkg().Path()]; ok {
				return fam
			}
			if nt.Obj().Pkg().Path() == compPath() && strings.HasPrefix(nt.Obj().Name(), "noOp") {
				return "noop"
			}
		}
	case *ssa.Function:
		return famName(familyOfCtor(p, x))
	}
	return "?"
}

// familyOfCtor: library calls of the constructor and of the methods of the
// repository wrapper types it returns (a wrapper may only touch its library
// in Reset).
func familyOfCtor(p *Prog, ctor *ssa.Function) map[string]bool {
	out := familyOfFunc(p, ctor, map[*ssa.Function]bool{})
	for _, ret := range returnsOf(ctor) {
		for _, res := range ret.Results {
			v := canon(res)
			al, ok := v.(*ssa.Alloc)
			if !ok {
				continue
			}
			nt, ok := al.Type().(*types.Pointer).Elem().(*types.Named)
			if !ok || nt.Obj().Pkg() == nil || nt.Obj().Pkg().Path() != compPath() || strings.HasPrefix(nt.Obj().Name(), "error") {
				continue
			}
			ms := p.SSA.MethodSets.MethodSet(types.NewPointer(nt))
			for i := 0; i < ms.Len(); i++ {
				if m := p.SSA.MethodValue(ms.At(i)); m != nil {
					for k := range familyOfFunc(p, m, map[*ssa.Function]bool{}) {
						out[k] = true
					}
				}
			}
		}
	}
	return out
}

func runC20(p *Prog, r *Report) {
	// enum constants and canonical names
	type enc struct {
		enum   int64
		const_ string
		name   string // lower(suffix)
		fam    string
	}
	wantFam := map[string]string{"identity": "noop", "gzip": "gzip", "br": "brotli", "zstd": "zstd", "deflate": "zlib", "snappy": "snappy"}
	var encs []enc
	genPkg := p.Pkg(pkgGen)
	for _, n := range genPkg.Types.Scope().Names() {
		if !strings.HasPrefix(n, "Compression_COMPRESSION_") || n == "Compression_COMPRESSION_UNSPECIFIED" {
			continue
		}
		c := genPkg.Types.Scope().Lookup(n).(*types.Const)
		v, _ := constant.Int64Val(constant.ToInt(c.Val()))
		name := strings.ToLower(strings.TrimPrefix(n, "Compression_COMPRESSION_"))
		encs = append(encs, enc{v, n, name, wantFam[name]})
	}
	sort.Slice(encs, func(i, j int) bool { return encs[i].enum < encs[j].enum })
	byEnum := map[int64]enc{}
	byName := map[string]enc{}
	for _, e := range encs {
		byEnum[e.enum] = e
		byName[e.name] = e
	}
	r.Floor("encodings", len(encs), 6)
	// IANA name constants of the compression package agree with the enum names
	nameConsts := map[string]string{}
	compPkg := p.Pkg(pkgComp)
	for _, n := range compPkg.Types.Scope().Names() {
		if c, ok := compPkg.Types.Scope().Lookup(n).(*types.Const); ok && c.Val().Kind() == constant.String {
			nameConsts[n] = constant.StringVal(c.Val())
		}
	}
	r.Sites += len(nameConsts)
	var badNames []string
	for n, v := range nameConsts {
		if _, ok := byName[v]; !ok {
			badNames = append(badNames, n+"="+v)
		}
	}
	r.Check(len(badNames) == 0 && len(nameConsts) == 6, "tables.names", "R-TABLE-AGREE", "-", fmt.Sprintf("the %d IANA name constants are the lower-cased enum names", len(nameConsts)), fmt.Sprintf("IANA name constants %v do not correspond to an enum value (or some are missing: %d constants)", badNames, len(nameConsts)))

	// ---- GetCompressor / GetDecompressor ----
	tableOf := func(fn *ssa.Function) map[int64]string {
		out := map[int64]string{}
		if fn == nil {
			return out
		}
		ev := &boolEval{key: func(a Atom) (string, bool, bool) {
			if a.Op != token.EQL && a.Op != token.NEQ {
				return "", false, false
			}
			k, ok := constInt(a.Y)
			prm, isP := canon(a.X).(*ssa.Parameter)
			if !ok || !isP || prm != fn.Params[0] {
				return "", false, false
			}
			return "p==" + itoa(k), a.Op == token.NEQ, true
		}}
		for _, e := range encs {
			s := sigma{}
			for _, o := range encs {
				s["p=="+itoa(o.enum)] = o.enum == e.enum
			}
			s["p==0"] = false
			fams := map[string]bool{}
			for _, ret := range returnsOf(fn) {
				if isNilConst(ret.Results[0]) || !ev.reachableUnder(fn, ret, s) {
					continue
				}
				fams[familyOfValue(p, ret.Results[0])] = true
			}
			out[e.enum] = strings.Join(sortedKeys(fams), "|")
		}
		return out
	}
	getC, getD := p.Func(pkgComp, "", "GetCompressor"), p.Func(pkgComp, "", "GetDecompressor")
	tc, td := tableOf(getC), tableOf(getD)
	for _, e := range encs {
		r.Sites += 2
		ok := tc[e.enum] == e.fam && td[e.enum] == e.fam
		r.Check(ok, "tables.get."+e.name, "R-TABLE-AGREE", "-", fmt.Sprintf("%s: compressor and decompressor are both %s", e.const_, e.fam),
			fmt.Sprintf("%s: GetCompressor yields %q, GetDecompressor yields %q, expected %q on both sides: data written with one could not be read with the other (or under the wrong name)", e.const_, tc[e.enum], td[e.enum], e.fam))
	}
	// snappy framing on both sides
	snC := familyOfFunc(p, p.Func(pkgComp, "", "NewSnappyCompressor"), map[*ssa.Function]bool{})
	snD := familyOfFunc(p, p.Func(pkgComp, "", "NewSnappyDecompressor"), map[*ssa.Function]bool{})
	r.Sites++
	r.Check((snC["snappy:NewBufferedWriter"] || snC["snappy:NewWriter"]) && snD["snappy:NewReader"] && len(snC) == 1 && len(snD) == 1, "tables.snappy-framed", "R-TABLE-AGREE", "-", "snappy uses the framed stream format on both sides", fmt.Sprintf("snappy compressor %v and decompressor %v do not both use the framed stream format", sortedKeys(snC), sortedKeys(snD)))

	// ---- tracer name table ----
	if tg := p.Func(pkgTr, "", "GetDecompressor"); tg == nil {
		r.Undecided("tables.tracer", "R-TABLE-AGREE", "tracer.GetDecompressor not found")
	} else {
		var table *ssa.Phi
		eachInstr(tg, func(in ssa.Instruction) {
			if phi, ok := in.(*ssa.Phi); ok && phi.Comment == "comp" {
				table = phi
			}
		})
		bad := ""
		rows := 0
		if table != nil {
			ev := &boolEval{key: func(a Atom) (string, bool, bool) {
				if a.Op != token.EQL && a.Op != token.NEQ {
					return "", false, false
				}
				str, ok := constString(a.Y)
				if !ok {
					return "", false, false
				}
				return "s==" + str, a.Op == token.NEQ, true
			}}
			names := []string{""}
			for _, e := range encs {
				names = append(names, e.name)
			}
			for _, nm := range names {
				sg := sigma{}
				for _, o := range names {
					sg["s=="+o] = o == nm
				}
				var vals []int64
				for i, ed := range table.Edges {
					pred := table.Block().Preds[i]
					if k, isK := constInt(ed); isK && ev.reachableUnder(tg, pred.Instrs[len(pred.Instrs)-1], sg) {
						vals = append(vals, k)
					}
				}
				want := nm
				if nm == "" {
					want = "identity"
				}
				rows++
				if len(vals) != 1 || byEnum[vals[0]].name != want {
					bad += fmt.Sprintf(" %q→%v;", nm, vals)
				}
			}
		}
		// lookups are case-insensitive and delegate to the canonical table
		lower, deleg := false, false
		eachInstr(tg, func(in ssa.Instruction) {
			if c := callCommon(in); c != nil {
				if isCallToNamed(c, "strings", "", "ToLower") {
					lower = true
				}
				if calleeObj(c) == funcObj(getD) {
					deleg = true
				}
			}
		})
		r.Sites++
		r.Check(bad == "" && rows >= 7 && lower && deleg, "tables.tracer", "R-TABLE-AGREE", p.Pos(tg.Pos()), fmt.Sprintf("%d name rows map to the enum of the same name and delegate to compression.GetDecompressor", rows), "the tracer's encoding-name table disagrees with the canonical one:"+bad+fmt.Sprintf(" (rows=%d, case-folded=%v, delegates=%v)", rows, lower, deleg))
	}

	// ---- registration sites: (name, decompressor ctor, compressor ctor) ----
	regCheck := func(key string, fn *ssa.Function, optName string) int {
		n := 0
		if fn == nil {
			r.Undecided(key, "R-TABLE-AGREE", "function not found")
			return 0
		}
		r.Func(funcName(fn))
		for _, f := range withClosures(fn) {
			eachInstr(f, func(in ssa.Instruction) {
				c := callCommon(in)
				if c == nil || !isCallToNamed(c, "connectrpc.com/connect", "", optName) {
					return
				}
				name, _ := constString(c.Args[0])
				if isNilConst(c.Args[1]) && isNilConst(c.Args[2]) {
					return // de-registration
				}
				n++
				r.Sites++
				want, known := byName[name]
				fd, fc := familyOfValue(p, c.Args[1]), familyOfValue(p, c.Args[2])
				r.Check(known && fd == want.fam && fc == want.fam, key+"."+name, "R-TABLE-AGREE", p.InstrPos(in), fmt.Sprintf("%q registered with %s decompressor and compressor", name, want.fam),
					fmt.Sprintf("%q is registered with a %s decompressor and a %s compressor (expected %s for both): peers would exchange data they cannot decode under that name", name, fd, fc, want.fam))
			})
		}
		return n
	}
	ns := regCheck("tables.server", p.Func(pkgRS, "", "createServer"), "WithCompression")
	r.Floor("server-registrations", ns, 4)
	inv := p.Func(pkgRC, "", "invoke")
	nc := regCheck("tables.client", inv, "WithAcceptCompression")
	r.Floor("client-registrations", nc, 4)
	// client: in the arm for enum K the accept and send names both denote K
	if inv != nil {
		compF := p.Field(pkgGen, "ClientCompatRequest", "Compression")
		arms := 0
		eachInstr(inv, func(in ssa.Instruction) {
			c := callCommon(in)
			if c == nil {
				return
			}
			isSend := isCallToNamed(c, "connectrpc.com/connect", "", "WithSendCompression")
			isAcc := isCallToNamed(c, "connectrpc.com/connect", "", "WithAcceptCompression")
			isGz := isCallToNamed(c, "connectrpc.com/connect", "", "WithSendGzip")
			if !isSend && !isAcc && !isGz {
				return
			}
			name := "gzip"
			if !isGz {
				name, _ = constString(c.Args[0])
			}
			if isAcc && isNilConst(c.Args[1]) {
				// de-registration of the default gzip: on the Compression != GZIP edge
				r.Sites++
				ok := guardedBy(in, func(a Atom) bool {
					k, isK := constInt(a.Y)
					return a.Op == token.NEQ && isK && byEnum[k].name == name && loadedField(canon(a.X)) == compF
				})
				r.Check(ok, "tables.client.deregister."+name, "R-GUARD", p.InstrPos(in), "default "+name+" support removed exactly when another compression is requested", "the default "+name+" support is removed on an edge where "+name+" may be the requested compression")
				return
			}
			arms++
			r.Sites++
			ok := guardedBy(in, func(a Atom) bool {
				k, isK := constInt(a.Y)
				return a.Op == token.EQL && isK && byEnum[k].name == name && loadedField(canon(a.X)) == compF
			})
			r.Check(ok, fmt.Sprintf("tables.client.arm.%s.%s", name, map[bool]string{true: "send", false: "accept"}[isSend || isGz]), "R-TABLE-AGREE", p.InstrPos(in), "option for "+name+" sits in the switch arm of its own enum value", "the reference client configures "+name+" in the arm of a different compression: it would announce/send an encoding other than the requested one")
		})
		r.Floor("client-arms", arms, 9)
	}
	// gRPC client: gzip exactly for GZIP
	if gi := p.Func("internal/app/grpcclient", "", "invoke"); gi != nil {
		okG := false
		compF := p.Field(pkgGen, "ClientCompatRequest", "Compression")
		eachInstr(gi, func(in ssa.Instruction) {
			c := callCommon(in)
			if c == nil || !isCallToNamed(c, "google.golang.org/grpc", "", "UseCompressor") {
				return
			}
			name, _ := constString(c.Args[0])
			as := atomsAt(in.Block())
			nAtoms := 0
			match := false
			for _, a := range as {
				if loadedField(canon(a.X)) == compF {
					nAtoms++
					k, isK := constInt(a.Y)
					if a.Op == token.EQL && isK && byEnum[k].name == name {
						match = true
					}
				}
			}
			okG = match && nAtoms == 1 && name == "gzip"
		})
		r.Sites++
		r.Check(okG, "tables.grpcclient", "R-TABLE-AGREE", p.Pos(gi.Pos()), "grpc.UseCompressor(\"gzip\") exactly on Compression == GZIP", "the gRPC reference client does not select the gzip compressor exactly when GZIP is requested")
	} else {
		r.Undecided("tables.grpcclient", "R-TABLE-AGREE", "grpcclient.invoke not found")
	}

	// ---- reuse typestate ----
	compFns := []*ssa.Function{}
	for _, fn := range p.RepoFuncs() {
		if pkgOfFunc(fn) == compPath() {
			compFns = append(compFns, fn)
		}
	}
	zdec := p.Field(pkgComp, "zstdDecompressor", "decoder")
	drd := p.Field(pkgComp, "deflateDecompressor", "reader")
	nz := ruleNilField(p, r, nilFieldRule{Key: "reuse-typestate.zstd.guarded", Field: zdec, Scope: compFns})
	nd := ruleNilField(p, r, nilFieldRule{Key: "reuse-typestate.deflate.guarded", Field: drd, Scope: compFns,
		Extra: func(d ssa.Instruction, loaded ssa.Value) (bool, string) {
			// invoke on the interface value: a nil interface panics too; must be guarded the same way
			return false, ""
		}})
	// interface-typed field: method invocations on it
	eachFn := func(f func(fn *ssa.Function)) {
		for _, fn := range compFns {
			f(fn)
		}
	}
	eachFn(func(fn *ssa.Function) {
		eachInstr(fn, func(in ssa.Instruction) {
			c := callCommon(in)
			if c == nil || !c.IsInvoke() || loadedField(canon(c.Value)) != drd {
				return
			}
			nd++
			r.Sites++
			vp := path(c.Value)
			ok := guardedBy(in, func(a Atom) bool {
				m, isNil := nilTestOn(a, func(x ssa.Value) bool { return path(x) == vp })
				return m && !isNil
			})
			r.Check(ok, "reuse-typestate.deflate.guarded@"+funcName(fn), "R-NILFIELD", p.InstrPos(in), "call on the deflate reader is behind the nil test", "deflateDecompressor."+c.Method.Name()+" is invoked on the reader without the nil test: before the first Reset the reader is nil and the call panics")
		})
	})
	r.Floor("nil-guarded-uses", nz+nd, 4)
	if zr := p.Func(pkgComp, "zstdDecompressor", "Reset"); zr != nil {
		okSrc := false
		for _, st := range storesToField([]*ssa.Function{zr}, zdec) {
			r.Sites++
			onNil := guardedBy(st.Instr, func(a Atom) bool { m, isNil := nilTestOn(a, isLoadOfField(zdec)); return m && isNil })
			if ex, ok := canon(st.Val).(*ssa.Extract); ok && onNil {
				if c, ok := ex.Tuple.(*ssa.Call); ok && c.Call.StaticCallee() != nil && c.Call.StaticCallee().Name() == "NewReader" {
					okSrc = canon(c.Call.Args[0]) == ssa.Value(zr.Params[1])
				}
			}
		}
		r.Check(okSrc, "reuse-typestate.zstd.reset-source", "R-WIRE", p.Pos(zr.Pos()), "on the closed (nil) edge Reset builds zstd.NewReader(rdr) on its own argument", "after Close, zstdDecompressor.Reset does not rebuild the decoder on the reader it was given: the next Read fails although Reset reported success")
		// the live edge resets with the same reader
		okLive := false
		eachInstr(zr, func(in ssa.Instruction) {
			c := callCommon(in)
			if c != nil && c.StaticCallee() != nil && c.StaticCallee().Name() == "Reset" && len(c.Args) == 2 && canon(c.Args[1]) == ssa.Value(zr.Params[1]) {
				okLive = guardedBy(in, func(a Atom) bool { m, isNil := nilTestOn(a, isLoadOfField(zdec)); return m && !isNil })
			}
		})
		r.Sites++
		r.Check(okLive, "reuse-typestate.zstd.reset-live", "R-WIRE", p.Pos(zr.Pos()), "a live decoder is Reset(rdr)", "a live zstd decoder is not reset on the given reader")
	} else {
		r.Undecided("reuse-typestate.zstd.reset-source", "R-WIRE", "zstdDecompressor.Reset not found")
	}
	if zc := p.Func(pkgComp, "zstdDecompressor", "Close"); zc != nil {
		ok := false
		eachInstr(zc, func(in ssa.Instruction) {
			c := callCommon(in)
			if c == nil || c.StaticCallee() == nil || c.StaticCallee().Name() != "Close" || loadedField(canon(c.Args[0])) != zdec {
				return
			}
			okN, _ := mustPass(in, func(x ssa.Instruction) bool {
				st, ok := x.(*ssa.Store)
				if !ok {
					return false
				}
				fa, ok := st.Addr.(*ssa.FieldAddr)
				return ok && fieldVar(fa.X.Type(), fa.Field) == zdec && isNilConst(st.Val)
			})
			ok = okN
		})
		r.Sites++
		r.Check(ok, "reuse-typestate.zstd.nil-after-close", "R-MUSTCALL", p.Pos(zc.Pos()), "after decoder.Close() the field is set to nil on every path", "zstdDecompressor.Close closes the decoder but keeps it: a closed zstd decoder cannot be Reset, so a pooled instance would fail on reuse")
	}
	if dr := p.Func(pkgComp, "deflateDecompressor", "Reset"); dr != nil {
		ok, exit := entryMustPass(dr, func(in ssa.Instruction) bool {
			st, isSt := in.(*ssa.Store)
			if !isSt {
				return false
			}
			fa, isFA := st.Addr.(*ssa.FieldAddr)
			return isFA && fieldVar(fa.X.Type(), fa.Field) == drd && !isNilConst(st.Val)
		})
		r.Sites++
		r.Check(ok, "reuse-typestate.deflate.reset-replaces", "R-MUSTCALL", p.Pos(dr.Pos()), "every Reset stores a (non-nil) reader", "deflateDecompressor.Reset can return at "+p.InstrPos(exit)+" without replacing the reader: a failed Reset would leave the previous stream's reader in place")
	}
	// wrappers with an unguarded reader are only built with one
	for _, w := range []struct{ typ, field string }{{"brotliDecompressor", "reader"}, {"snappyDecompressor", "reader"}} {
		f := p.Field(pkgComp, w.typ, w.field)
		lits, okL := 0, true
		eachFn(func(fn *ssa.Function) {
			eachInstr(fn, func(in ssa.Instruction) {
				al, ok := in.(*ssa.Alloc)
				if !ok {
					return
				}
				nt, ok := al.Type().(*types.Pointer).Elem().(*types.Named)
				if !ok || nt.Obj().Name() != w.typ {
					return
				}
				lits++
				set := false
				for _, st := range storesToField([]*ssa.Function{fn}, f) {
					if st.Addr.X == ssa.Value(al) && !isNilConst(st.Val) {
						set = true
					}
				}
				if !set {
					okL = false
				}
			})
		})
		// and nothing nils it later
		for _, st := range storesToField(compFns, f) {
			if isNilConst(st.Val) {
				okL = false
			}
		}
		// … unless every use of the field is protected: on the field != nil side of a
		// test, or after a non-nil assignment in the same function
		unguarded := ""
		for _, fn := range compFns {
			eachInstr(fn, func(in ssa.Instruction) {
				c := callCommon(in)
				if c == nil || len(c.Args) == 0 || loadedField(canon(c.Args[0])) != f {
					return
				}
				if guardedBy(in, func(a Atom) bool {
					m, isNil := nilTestOn(a, isLoadOfField(f))
					return m && !isNil
				}) {
					return
				}
				if precededBy(in, func(x ssa.Instruction) bool {
					st, ok := x.(*ssa.Store)
					if !ok {
						return false
					}
					fa, ok := st.Addr.(*ssa.FieldAddr)
					return ok && fieldVar(fa.X.Type(), fa.Field) == f && !isNilConst(st.Val)
				}) {
					return
				}
				unguarded += " " + p.InstrPos(in) + ";"
			})
		}
		r.Sites++
		r.Check(lits >= 1 && (okL || unguarded == ""), "reuse-typestate.always-set."+w.typ, "R-NILFIELD", "-", fmt.Sprintf("%d construction site(s) of %s all set %s and nothing nils it (or every use is nil-guarded)", lits, w.typ, w.field), w.typ+"."+w.field+" can be nil (constructed without it, or set to nil) and is used without a nil test at:"+unguarded)
	}
	// nothing in the package panics
	np := 0
	eachFn(func(fn *ssa.Function) {
		eachInstr(fn, func(in ssa.Instruction) {
			if _, ok := in.(*ssa.Panic); ok {
				np++
				r.Fail("reuse-typestate.no-panic@"+funcName(fn), "R-PANIC", p.InstrPos(in), "explicit panic in "+funcName(fn)+": constructor or wrapper failures must surface as errors (sentinel compressor/decompressor), never crash a peer")
			}
		})
	})
	r.Sites++
	if np == 0 {
		r.OK("reuse-typestate.no-panic", "R-PANIC", "-", "no explicit panic in internal/compression")
	}

	// ---- raw encoder runs every present payload through the compressor (shared with C17) ----
	rawEncoderCompressAlways(p, r, "raw-encoder.compress-always")

	// ---- panic audit of the package ----
	var entries []*ssa.Function
	for _, fn := range compFns {
		if fn.Parent() == nil {
			entries = append(entries, fn)
		}
	}
	rulePanic(p, r, panicSpec{Key: "panic", Entries: entries, Floor: 0, StayIn: []string{compPath()}})
}

// rawEncoderCompressAlways: in WriteRawMessageContents every nil-error return
// for a present payload is preceded by compressor Write and Close.
func rawEncoderCompressAlways(p *Prog, r *Report, key string) {
	wmsg := p.Func("internal", "", "WriteRawMessageContents")
	if wmsg == nil {
		r.Undecided(key, "R-MUSTCALL", "WriteRawMessageContents not found")
		return
	}
	r.Func(funcName(wmsg))
	isClose := func(in ssa.Instruction) bool {
		c := callCommon(in)
		return c != nil && c.IsInvoke() && c.Method.Name() == "Close"
	}
	isCompWrite := func(in ssa.Instruction) bool {
		c := callCommon(in)
		return c != nil && c.IsInvoke() && c.Method.Name() == "Write"
	}
	dataF := p.Field(pkgGen, "MessageContents", "Data")
	ok := true
	for _, ret := range returnsOf(wmsg) {
		r.Sites++
		allNil := true
		for _, v := range retVals(ret, 0) {
			if !isNilValue(v) {
				allNil = false
			}
		}
		if !allNil {
			continue
		}
		noData := guardedBy(ret, func(a Atom) bool {
			// no payload at all: the Data oneof is unset, or there is no MessageContents
			m, isNil := nilTestOn(a, func(v ssa.Value) bool {
				return loadedField(canon(v)) == dataF || canon(v) == ssa.Value(wmsg.Params[0])
			})
			return m && isNil
		})
		if noData {
			continue
		}
		if !precededBy(ret, isClose) || !precededBy(ret, isCompWrite) {
			ok = false
			r.Fail(key, "R-MUSTCALL", p.InstrPos(ret), "WriteRawMessageContents can report success for a present payload without running it through the compressor (Write + Close): an empty payload with gzip/deflate/br would produce a zero-length body that the matching decompressor rejects, instead of the encoding of the empty string")
		}
	}
	if ok {
		r.OK(key, "R-MUSTCALL", p.Pos(wmsg.Pos()), "every successful return for a present payload is preceded by compressor Write and Close")
	}
}
