package main

import (
	"fmt"
	"go/token"
	"go/types"

	"golang.org/x/tools/go/ssa"
)

func init() {
	register(&propMeta{
		ID: "C14",
		Explain: "Decides structural necessary conditions of 'body tracing reconstructs the message sequence and never alters the data': " +
			"(passthru) tracingReader.Read/Close and tracingResponseWriter.Write/WriteHeader/Flush/Header/Unwrap delegate to exactly one inner call with their own parameters and return its results unchanged; the slice handed to the tracer is exactly data[:n] of that call; the buffer is never written or retained; " +
			"(eos-flag) the end-stream content is decompressed only on the edge where the envelope's compressed flag (bit 0) is set, and the end-stream capture is armed only for response envelopes with flag 0x02 or 0x80; " +
			"(locked) the five dataTracer state fields only under dataTracer.mu; " +
			"(reset) after every complete-message event the current envelope is cleared and, for payload-carrying messages, the expecting/actual counters are zeroed before the function returns; " +
			"(finish) every body-end event is preceded by emitUnfinished, is added at most once per side (CAS latch / finished flag dominate the add) and the client's done-callback runs after it; " +
			"(panic) every potential panic site (index, slice, make, type assertion, division, explicit panic) reachable from the body-tracing wrappers is discharged by a guard, using the proved invariant len(prefix) <= prefixLen; (index) builder.add numbers request data events from reqCount and response data events from respCount and increments that counter. " +
			"It does NOT decide reconstruction equality for all envelope sequences and partitions (state-machine arithmetic).",
		NotDecided: []string{"that the reconstructed events equal the envelope sequence for every partition into reads/writes (loop arithmetic over runtime lengths)", "what the decompressors return"},
		Assume:     []string{"io.Reader.Read(p) returns 0 <= n <= len(p)", "lock identity is the access path"},
		Trusted:    commonTrusted,
		Run:        runC14,
	})
	fr, fm, fb := "internal/tracer/reader.go", "internal/tracer/middleware.go", "internal/tracer/builder.go"
	addMutants(
		Mutant{ID: "C14-eos-D4", Prop: "C14", File: fr,
			Old: "if d.env.Flags&1 == 0 || d.decompressor == nil {", New: "if d.decompressor == nil {",
			Expect: []string{"eos-flag.decompress"}, Note: "original defect D4: compressed flag ignored"},
		Mutant{ID: "C14-trace-all", Prop: "C14", File: fm,
			Old: "\tn, err := t.respWriter.Write(data)\n\tt.dataTracer.trace(data[:n])", New: "\tn, err := t.respWriter.Write(data)\n\tt.dataTracer.trace(data)",
			Expect: []string{"passthru.rw.Write.traced-slice"}, Note: "seed C14-2: short writes traced as complete"},
		Mutant{ID: "C14-env-not-reset", Prop: "C14", File: fr,
			Old: "\t\t\t\tLen:      0,\n\t\t\t})\n\t\t}\n\t\td.env = nil\n\t} else if", New: "\t\t\t\tLen:      0,\n\t\t\t})\n\t\t}\n\t} else if",
			Expect: []string{"reset.env"}, Note: "seed C14-1: stale envelope after an empty message"},
		Mutant{ID: "C14-read-err-swallowed", Prop: "C14", File: fr,
			Old: "\t\t\tt.tryFinish(err)\n\t\t}\n\t}\n\treturn n, err\n}\n\nfunc (t *tracingReader) Close() error {", New: "\t\t\tt.tryFinish(err)\n\t\t}\n\t\treturn n, io.EOF\n\t}\n\treturn n, err\n}\n\nfunc (t *tracingReader) Close() error {",
			Expect: []string{"passthru.reader.Read"}, Note: "error of the wrapped reader replaced"},
		Mutant{ID: "C14-unlocked-emit", Prop: "C14", File: fr,
			Old: "func (d *dataTracer) emitUnfinished() {\n\td.mu.Lock()\n\tdefer d.mu.Unlock()\n", New: "func (d *dataTracer) emitUnfinished() {\n",
			Expect: []string{"locked."}, Note: "emitUnfinished without the tracer lock"},
		Mutant{ID: "C14-swapped-counters", Prop: "C14", File: fb,
			Old: "\t\tevent.MessageIndex = b.respCount\n\t\tb.respCount++", New: "\t\tevent.MessageIndex = b.reqCount\n\t\tb.respCount++",
			Expect: []string{"index.ResponseBodyData"}, Note: "response messages numbered from the request counter"},
		Mutant{ID: "C14-double-bodyend", Prop: "C14", File: fm,
			Old: "\tif t.finished {\n\t\treturn // already finished\n\t}\n", New: "",
			Expect: []string{"finish.once"}, Note: "response body-end can be added twice"},
		Mutant{ID: "C14-no-emit", Prop: "C14", File: fr,
			Old: "\tdefer t.whenDone()\n\n\tt.dataTracer.emitUnfinished()\n", New: "\tdefer t.whenDone()\n",
			Expect: []string{"finish.emit-first"}, Note: "partial final message not reported before body end"},
		Mutant{ID: "C14-need-unchecked", Prop: "C14", File: fr,
			Old: "\tneed := int(d.expecting - uint32(d.actual))\n\tif len(data) < need {", New: "\tneed := int(d.expecting - uint32(d.actual))\n\tif len(data) == 0 {",
			Expect: []string{"panic."}, Note: "payload slice taken without checking that enough bytes arrived (slice panic inside Read/Write)"},
		Mutant{ID: "C14-prefix-forgets-partial", Prop: "C14", File: fr,
			Old: "\tneed := prefixLen - len(d.prefix)\n", New: "\tneed := prefixLen\n",
			Expect: []string{"panic.inv."}, Note: "a partially received prefix is ignored when computing how many bytes are missing: the buffer outgrows the prefix"},
		Mutant{ID: "C14-capture-all", Prop: "C14", File: fr,
			Old: "} else if !d.isRequest && (d.env.Flags&0x82) != 0 {", New: "} else if (d.env.Flags&0x82) != 0 {",
			Expect: []string{"eos-flag.capture"}, Note: "end-stream capture armed for request bodies too"},
	)
}

func runC14(p *Prog, r *Report) {
	must := NewLockInfo(p, true)
	// ---- locked ----
	n := 0
	for _, f := range []string{"prefix", "env", "expecting", "actual", "endStream"} {
		n += ruleLocked(p, r, must, lockRule{Key: "locked." + f, Field: p.Field(pkgTr, "dataTracer", f), Mu: "mu"})
	}
	r.Floor("locked-accesses", n, 40)

	// ---- passthru ----
	isInvoke := func(method string) func(*ssa.CallCommon) bool {
		return func(c *ssa.CallCommon) bool { return c.IsInvoke() && c.Method.Name() == method }
	}
	traceObj := p.TypeFunc(pkgTr, "dataTracer", "trace")
	rd := p.Func(pkgTr, "tracingReader", "Read")
	rulePassthru(p, r, passthruSpec{Key: "passthru.reader.Read", Fn: rd, InnerIs: isInvoke("Read"), NResults: 2, ParamArgs: map[int]int{0: 1}})
	rulePassthru(p, r, passthruSpec{Key: "passthru.reader.Close", Fn: p.Func(pkgTr, "tracingReader", "Close"), InnerIs: isInvoke("Close"), NResults: 1})
	wr := p.Func(pkgTr, "tracingResponseWriter", "Write")
	rulePassthru(p, r, passthruSpec{Key: "passthru.rw.Write", Fn: wr, InnerIs: isInvoke("Write"), NResults: 2, ParamArgs: map[int]int{0: 1}})
	rulePassthru(p, r, passthruSpec{Key: "passthru.rw.WriteHeader", Fn: p.Func(pkgTr, "tracingResponseWriter", "WriteHeader"), InnerIs: isInvoke("WriteHeader"), NResults: 0, ParamArgs: map[int]int{0: 1}, Optional: true})
	rulePassthru(p, r, passthruSpec{Key: "passthru.rw.Header", Fn: p.Func(pkgTr, "tracingResponseWriter", "Header"), InnerIs: isInvoke("Header"), NResults: 1})
	rulePassthru(p, r, passthruSpec{Key: "passthru.rw.Flush", Fn: p.Func(pkgTr, "tracingResponseWriter", "Flush"), InnerIs: isInvoke("Flush"), NResults: 0, Optional: true})
	if uw := p.Func(pkgTr, "tracingResponseWriter", "Unwrap"); uw == nil {
		r.Undecided("passthru.rw.Unwrap", "R-PASSTHRU", "Unwrap not found")
	} else {
		rw := p.Field(pkgTr, "tracingResponseWriter", "respWriter")
		ok := true
		for _, ret := range returnsOf(uw) {
			for _, v := range retVals(ret, 0) {
				if loadedField(canon(v)) != rw {
					ok = false
				}
			}
		}
		r.Sites++
		r.Check(ok, "passthru.rw.Unwrap", "R-PASSTHRU", p.Pos(uw.Pos()), "Unwrap returns the wrapped writer", "Unwrap does not return the wrapped response writer")
	}
	// traced slice = data[:n] of the same call; buffer read-only
	for _, w := range []struct {
		key string
		fn  *ssa.Function
		in  string
	}{{"passthru.reader.Read", rd, "Read"}, {"passthru.rw.Write", wr, "Write"}} {
		if w.fn == nil || traceObj == nil {
			continue
		}
		var inner *ssa.Call
		eachInstr(w.fn, func(in ssa.Instruction) {
			if c, ok := in.(*ssa.Call); ok && c.Call.IsInvoke() && c.Call.Method.Name() == w.in {
				inner = c
			}
		})
		calls := findInstrs(w.fn, isCallObj(traceObj))
		r.Sites++
		ok := len(calls) == 1 && inner != nil
		if ok {
			arg := callCommon(calls[0]).Args[1]
			sl, isSl := arg.(*ssa.Slice)
			ok = isSl && sl.X == ssa.Value(w.fn.Params[1]) && sl.Low == nil && sl.High != nil && isResultOf(sl.High, inner, 0, 2) && sl.Max == nil
		}
		r.Check(ok, w.key+".traced-slice", "R-PASSTHRU", p.Pos(w.fn.Pos()), "the tracer sees exactly data[:n] of the wrapped call",
			"the bytes handed to the tracer are not data[:n] of the wrapped call: the trace would claim bytes the application never read/wrote (or miss some)")
		r.Sites++
		okRO, why := readOnlyParam(p, w.fn, 1, map[*ssa.Function]bool{}, isInvoke(w.in))
		r.Check(okRO, w.key+".readonly", "R-PASSTHRU", p.Pos(w.fn.Pos()), "the buffer is only read (len, re-slice, element loads, copying calls) in the wrapper and the tracer", "the traced buffer may be modified or retained: "+why)
	}

	// ---- eos-flag ----
	tml := p.Func(pkgTr, "dataTracer", "traceMessageLocked")
	tpl := p.Func(pkgTr, "dataTracer", "tracePrefixLocked")
	emit := p.Func(pkgTr, "dataTracer", "emitUnfinished")
	flags := p.Field(pkgTr, "Envelope", "Flags")
	envF := p.Field(pkgTr, "dataTracer", "env")
	endStream := p.Field(pkgTr, "dataTracer", "endStream")
	isReq := p.Field(pkgTr, "dataTracer", "isRequest")
	if tml == nil || tpl == nil || emit == nil || flags == nil {
		r.Undecided("eos-flag", "R-DEPENDS", "dataTracer methods / Envelope.Flags not found")
		return
	}
	r.Func(funcName(tml))
	r.Func(funcName(tpl))
	r.Func(funcName(emit))
	flagMask := func(a Atom, mask int64) (bool, bool) { // (matched, bitsSet)
		if a.Op != token.EQL && a.Op != token.NEQ {
			return false, false
		}
		x, y := a.X, a.Y
		if _, ok := constInt(x); ok {
			x, y = y, x
		}
		z, ok := constInt(y)
		if !ok || z != 0 {
			return false, false
		}
		bo, ok := canon(x).(*ssa.BinOp)
		if !ok || bo.Op != token.AND {
			return false, false
		}
		l, rr := bo.X, bo.Y
		if _, ok := constInt(l); ok {
			l, rr = rr, l
		}
		m, ok := constInt(rr)
		if !ok || m != mask || loadedField(canon(l)) != flags {
			return false, false
		}
		return true, a.Op == token.NEQ
	}
	resets := 0
	eachInstr(tml, func(in ssa.Instruction) {
		c, ok := in.(*ssa.Call)
		if !ok || !c.Call.IsInvoke() || c.Call.Method.Name() != "Reset" {
			return
		}
		resets++
		r.Sites++
		okG := guardedBy(in, func(a Atom) bool { m, set := flagMask(a, 1); return m && set })
		r.Check(okG, "eos-flag.decompress", "R-DEPENDS", p.InstrPos(in), "decompression of the end-stream content is on the (Flags & 1) != 0 edge",
			"the end-stream content is decompressed regardless of the envelope's compressed flag: an uncompressed end-stream message under a negotiated encoding is lost (or garbage)")
	})
	if resets == 0 {
		r.Fail("eos-flag.decompress", "R-DEPENDS", p.Pos(tml.Pos()), "traceMessageLocked never decompresses end-stream content")
	}
	caps := 0
	for _, st := range storesToField([]*ssa.Function{tpl}, endStream) {
		if isNilConst(st.Val) {
			continue
		}
		caps++
		r.Sites++
		as := atomsAt(st.Instr.Block())
		okF := hasAtom(as, func(a Atom) bool { m, set := flagMask(a, 0x82); return m && set })
		okR := hasAtom(as, func(a Atom) bool { m, v := boolTestOn(a, isLoadOfField(isReq)); return m && !v })
		r.Check(okF && okR, "eos-flag.capture", "R-GUARD", p.InstrPos(st.Instr), "capture armed on (response ∧ Flags&0x82 != 0): "+atomsString(as),
			"end-stream capture is not restricted to response envelopes with the end-stream flags 0x02/0x80")
	}
	if caps == 0 {
		r.Fail("eos-flag.capture", "R-GUARD", p.Pos(tpl.Pos()), "end-stream capture is never armed")
	}

	// ---- reset after a complete message ----
	addObj := p.TypeFunc(pkgTr, "builder", "add")
	isDataAdd := func(in ssa.Instruction) bool {
		c := callCommon(in)
		if c == nil || calleeObj(c) != addObj || len(c.Args) < 2 {
			return false
		}
		k := eventKind(c.Args[1])
		return k == "RequestBodyData" || k == "ResponseBodyData"
	}
	storeConstTo := func(f *types.Var, isWanted func(ssa.Value) bool) instrPred {
		return func(in ssa.Instruction) bool {
			st, ok := in.(*ssa.Store)
			if !ok {
				return false
			}
			fa, ok := st.Addr.(*ssa.FieldAddr)
			return ok && fieldVar(fa.X.Type(), fa.Field) == f && isWanted(st.Val)
		}
	}
	isZero := func(v ssa.Value) bool { z, ok := constInt(v); return ok && z == 0 }
	expecting, actual := p.Field(pkgTr, "dataTracer", "expecting"), p.Field(pkgTr, "dataTracer", "actual")
	nadds := 0
	for _, fn := range []*ssa.Function{tpl, tml, emit} {
		for _, a := range findInstrs(fn, isDataAdd) {
			nadds++
			r.Sites++
			ok, exit := mustPass(a, storeConstTo(envF, isNilConst))
			r.Check(ok, "reset.env@"+fn.Name(), "R-MUSTCALL", p.InstrPos(a), "the envelope is cleared after the event on every path",
				"after emitting a message event "+fn.Name()+" can return at "+p.InstrPos(exit)+" with the previous envelope still set: a later partial event would carry a stale envelope")
			if fn != tpl {
				ok1, _ := mustPass(a, storeConstTo(expecting, isZero))
				ok2, _ := mustPass(a, storeConstTo(actual, isZero))
				r.Check(ok1 && ok2, "reset.counters@"+fn.Name(), "R-MUSTCALL", p.InstrPos(a), "expecting/actual are zeroed after the event",
					"after emitting a message event "+fn.Name()+" does not zero expecting/actual on every path: the next prefix would be parsed as payload")
			}
		}
	}
	r.Floor("data-event-adds", nadds, 6)

	// ---- finish ----
	emitObj := p.TypeFunc(pkgTr, "dataTracer", "emitUnfinished")
	isBodyEndAdd := func(in ssa.Instruction) bool {
		c := callCommon(in)
		if c == nil || calleeObj(c) != addObj || len(c.Args) < 2 {
			return false
		}
		k := eventKind(c.Args[1])
		return k == "RequestBodyEnd" || k == "ResponseBodyEnd"
	}
	nend := 0
	for _, fn := range p.RepoFuncs() {
		if fn.Pkg == nil || fn.Pkg.Pkg.Path() != trPath {
			continue
		}
		for _, a := range findInstrs(fn, isBodyEndAdd) {
			nend++
			r.Sites++
			r.Func(funcName(fn))
			r.Check(precededBy(a, isCallObj(emitObj)), "finish.emit-first@"+funcName(fn), "R-ORDER", p.InstrPos(a), "emitUnfinished precedes the body-end event",
				"a body-end event is added in "+funcName(fn)+" without first reporting the unfinished (partial) message")
		}
	}
	r.Floor("body-end-adds", nend, 8)
	// at most once per side
	if tf := p.Func(pkgTr, "tracingReader", "tryFinish"); tf == nil {
		r.Undecided("finish.once.reader", "R-LATCH", "tracingReader.tryFinish not found")
	} else {
		closed := p.Field(pkgTr, "tracingReader", "closed")
		casTrue := func(a Atom) bool {
			m, v := boolTestOn(a, isCallResult(func(c *ssa.CallCommon) bool {
				f := c.StaticCallee()
				if f == nil || f.Name() != "CompareAndSwap" || len(c.Args) != 3 {
					return false
				}
				fa, ok := c.Args[0].(*ssa.FieldAddr)
				if !ok || fieldVar(fa.X.Type(), fa.Field) != closed {
					return false
				}
				o, ok1 := constBool(c.Args[1])
				nw, ok2 := constBool(c.Args[2])
				return ok1 && ok2 && !o && nw
			}))
			return m && v
		}
		for _, a := range findInstrs(tf, isBodyEndAdd) {
			r.Sites++
			r.Check(guardedBy(a, casTrue), "finish.once.reader", "R-LATCH", p.InstrPos(a), "body-end add is on the CompareAndSwap(false,true)-succeeded edge", "tracingReader can add its body-end event more than once (not guarded by the closed latch)")
		}
		// whenDone runs after the add: it is deferred, or follows the add
		wd := p.Field(pkgTr, "tracingReader", "whenDone")
		okWD := false
		eachInstr(tf, func(in ssa.Instruction) {
			c := callCommon(in)
			if c == nil || c.IsInvoke() || loadedField(canon(c.Value)) != wd {
				return
			}
			if _, isDefer := in.(*ssa.Defer); isDefer {
				okWD = true
			} else if precededBy(in, isBodyEndAdd) {
				okWD = true
			}
		})
		r.Sites++
		r.Check(okWD, "finish.done-after-end", "R-ORDER", p.Pos(tf.Pos()), "the done-callback (client cancel) runs after the body-end event", "the done-callback runs before the body-end event is recorded: the cancel event could complete the trace first and the body end be lost")
	}
	if tf := p.Func(pkgTr, "tracingResponseWriter", "tryFinish"); tf == nil {
		r.Undecided("finish.once.writer", "R-LATCH", "tracingResponseWriter.tryFinish not found")
	} else {
		fin := p.Field(pkgTr, "tracingResponseWriter", "finished")
		for _, a := range findInstrs(tf, isBodyEndAdd) {
			r.Sites++
			ok := guardedBy(a, func(at Atom) bool { m, v := boolTestOn(at, isLoadOfField(fin)); return m && !v }) &&
				precededBy(a, storeConstTo(fin, func(v ssa.Value) bool { b, ok := constBool(v); return ok && b }))
			r.Check(ok, "finish.once.writer", "R-LATCH", p.InstrPos(a), "body-end add is on the !finished edge and finished is set first", "tracingResponseWriter can add its body-end event more than once (finished flag not tested/set)")
		}
		ruleLatch(p, r, "finish.once.writer-flag", fin)
	}

	c14Panic(p, r)

	// ---- index ----
	if add := p.Func(pkgTr, "builder", "add"); add == nil {
		r.Undecided("index", "R-WIRE", "builder.add not found")
	} else {
		for _, w := range []struct{ typ, counter string }{{"RequestBodyData", "reqCount"}, {"ResponseBodyData", "respCount"}} {
			idx := p.Field(pkgTr, w.typ, "MessageIndex")
			cnt := p.Field(pkgTr, "builder", w.counter)
			sts := storesToField([]*ssa.Function{add}, idx)
			r.Sites++
			ok := len(sts) == 1 && loadedField(canon(sts[0].Val)) == cnt
			if ok {
				// the counter is incremented after being used
				incOK, _ := mustPass(sts[0].Instr, func(in ssa.Instruction) bool {
					st, ok := in.(*ssa.Store)
					if !ok {
						return false
					}
					fa, ok := st.Addr.(*ssa.FieldAddr)
					if !ok || fieldVar(fa.X.Type(), fa.Field) != cnt {
						return false
					}
					bo, ok := st.Val.(*ssa.BinOp)
					if !ok || bo.Op != token.ADD {
						return false
					}
					one, ok := constInt(bo.Y)
					return ok && one == 1 && loadedField(bo.X) == cnt
				})
				ok = incOK
			}
			r.Check(ok, "index."+w.typ, "R-WIRE", p.Pos(add.Pos()), fmt.Sprintf("%s.MessageIndex = b.%s; b.%s++", w.typ, w.counter, w.counter),
				fmt.Sprintf("%s events are not numbered from b.%s followed by its increment: message indices would not be consecutive per direction", w.typ, w.counter))
		}
	}
}

func c14Panic(p *Prog, r *Report) {
	entries := []*ssa.Function{
		p.Func(pkgTr, "tracingReader", "Read"), p.Func(pkgTr, "tracingReader", "Close"),
		p.Func(pkgTr, "tracingResponseWriter", "Write"), p.Func(pkgTr, "tracingResponseWriter", "WriteHeader"),
		p.Func(pkgTr, "tracingResponseWriter", "Flush"), p.Func(pkgTr, "tracingResponseWriter", "tryFinish"),
		p.Func(pkgTr, "", "TracingRoundTripper"), p.Func(pkgTr, "", "TracingHandler"),
	}
	rulePanic(p, r, panicSpec{Key: "panic", Entries: entries, Floor: 10, StayIn: []string{trPath}, Invariants: tracerInvariants(p)})
}

// eventKind returns the name of the concrete event type passed to builder.add.
func eventKind(v ssa.Value) string {
	v = strip(v)
	t := v.Type()
	if pt, ok := t.(*types.Pointer); ok {
		t = pt.Elem()
	}
	if n, ok := t.(*types.Named); ok {
		return n.Obj().Name()
	}
	return ""
}
