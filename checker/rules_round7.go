package main

// Rules added after the seventh round of independent seeded changes.

import (
	"fmt"
	"go/token"
	"go/types"
	"sort"
	"strings"

	"golang.org/x/tools/go/ssa"
)

var round7Rules = map[string][]func(*Prog, *Report){
	"C03": {requestCountEveryPayloadRule},
	"C04": {markingUnconditionalRule},
	"C10": {waitBoundedResultRule, closeSendUnconditionalRule},
	"C12": {timeoutEchoUnconditionalRule},
	"C15": {responseFlushOnlyAtResponseEndRule, retryTypesAgreeRule},
	"C16": {addBeforeCancelRule},
	"C20": {zstdCloseAlwaysNilsRule},
	"C17": {identityCompressorKeepsWriterOpenRule, recorderCoversBothUnaryKindsRule},
	"C09": {zeroLengthNoReadRule},
}

var round7Explain = map[string]string{
	"C03": "(request-count.every-payload) checkRequestInfo compares the number of echoed requests independently of verifyHeaders (for every payload, not only the first)",
	"C04": "(marking.unconditional) setOutcomeLocked records the known-failing / known-flaky marking as the plain trie match, independent of the outcome",
	"C10": "(wait.bounded-result) waitForResponses waits on processController.result (bounded for in-process peers) in a goroutine, not on whenDone; (close-send.unconditional) closeSend closes stdin and latches closedSend on every path",
	"C12": "(timeout.echo-unconditional) createRequestInfo echoes the timeout whenever timeoutFromContext reported one, whatever its value",
	"C15": "(flush.response-at-response-end) closeStreamLocked flushes the response parser only when the response side ends; (retry.types-agree) every error type the tracer records for a refused stream is matched by isRetryable",
	"C16": "(add-before-cancel) where a trace event is added and the operation's context cancelled in the same step, the event is added first",
	"C17": "(raw-encoder.identity-keeps-writer-open) the identity compressor never closes the writer it was reset with (defect D12); (recorder.unary-both-kinds) the raw-response recorder looks into every request type that carries a unary response definition (defect D13)",
	"C09": "(zero-length.no-read) nothing is read for a zero-length message, so an empty message followed by a stall cannot block past the timeout (defect D14)",
	"C20": "(reuse-typestate.zstd.close-nils-everywhere) every call of zstd.Decoder.Close in the wrapper is followed by decoder = nil on all paths",
}

func init() {
	for id, extra := range round7Explain {
		m := registry[id]
		if m == nil {
			continue
		}
		if i := strings.Index(m.Explain, " It does NOT decide"); i >= 0 {
			m.Explain = strings.TrimRight(m.Explain[:i], ". ;") + "; " + extra + "." + m.Explain[i:]
		} else {
			m.Explain = strings.TrimRight(m.Explain, ". ") + "; " + extra + "."
		}
	}
}

// ---------- C03 ----------

// requestCountEveryPayloadRule: in checkRequestInfo the comparison
// len(actual.GetRequests()) != len(expected.GetRequests()) is not under the
// verifyHeaders parameter.
func requestCountEveryPayloadRule(p *Prog, r *Report) {
	fn := p.Func(pkgCC, "", "checkRequestInfo")
	if fn == nil {
		r.Undecided("request-count.every-payload", "R-GUARD", "checkRequestInfo not found")
		return
	}
	r.Func(funcName(fn))
	r.Sites++
	isReqLen := func(v ssa.Value) bool {
		x, ok := lenArg(v)
		if !ok {
			return false
		}
		c, ok := canon(x).(*ssa.Call)
		return ok && c.Call.StaticCallee() != nil && c.Call.StaticCallee().Name() == "GetRequests"
	}
	n := 0
	bad := ""
	pos := p.Pos(fn.Pos())
	eachInstr(fn, func(in ssa.Instruction) {
		b, ok := in.(*ssa.BinOp)
		if !ok || (b.Op != token.NEQ && b.Op != token.EQL) || !isReqLen(b.X) || !isReqLen(b.Y) {
			return
		}
		n++
		for _, a := range atomsAt(in.Block()) {
			if k, _, ok := genericKey(a); ok && strings.HasPrefix(k, "$") {
				bad += " the comparison at " + p.InstrPos(in) + " is only made under " + a.String() + ";"
				pos = p.InstrPos(in)
			}
		}
	})
	r.Check(n >= 1 && bad == "", "request-count.every-payload", "R-GUARD", pos, "the echoed-request count is compared independently of verifyHeaders",
		"checkRequestInfo compares the number of echoed requests only for some payloads:"+bad+" checkPayloads passes verifyHeaders only for the first payload, and the per-request loop walks min(len, len) entries — a missing or surplus echoed request in a later payload is not flagged")
}

// ---------- C04 ----------

// markingUnconditionalRule: the knownFailing / knownFlaky fields of the
// outcome stored by setOutcomeLocked are the direct results of trie matches.
func markingUnconditionalRule(p *Prog, r *Report) {
	fn := p.Func(pkgCC, "testResults", "setOutcomeLocked")
	if fn == nil {
		r.Undecided("marking.unconditional", "R-WIRE", "setOutcomeLocked not found")
		return
	}
	r.Func(funcName(fn))
	n := 0
	bad := ""
	pos := p.Pos(fn.Pos())
	eachInstr(fn, func(in ssa.Instruction) {
		st, ok := in.(*ssa.Store)
		if !ok {
			return
		}
		fa, ok := st.Addr.(*ssa.FieldAddr)
		if !ok {
			return
		}
		nm := fieldName(fa.X.Type(), fa.Field)
		if nm != "knownFailing" && nm != "knownFlaky" {
			return
		}
		n++
		r.Sites++
		c, isCall := canon(st.Val).(*ssa.Call)
		if !isCall || c.Call.StaticCallee() == nil || c.Call.StaticCallee().Name() != "match" {
			bad += " " + nm + " is " + path(st.Val) + " at " + p.InstrPos(in) + ";"
			pos = p.InstrPos(in)
			return
		}
		// and the trie matched is the one of the same name
		if f := loadedField(canon(c.Call.Args[0])); f == nil || f.Name() != nm {
			bad += " " + nm + " is matched against " + path(c.Call.Args[0]) + " at " + p.InstrPos(in) + ";"
			pos = p.InstrPos(in)
		}
	})
	r.Check(n == 2 && bad == "", "marking.unconditional", "R-WIRE", pos, "knownFailing and knownFlaky are the plain matches of their tries",
		"setOutcomeLocked does not record the markings as plain trie matches:"+bad+" the stored marking is reused when reference-peer feedback later turns a passing outcome into a failing one, so a marking computed from the first outcome is wrong for that case (a known-flaky case with feedback fails the run)")
}

// ---------- C10 ----------

// waitBoundedResultRule: waitForResponses obtains the process result through
// processController.result in a goroutine of its own and never through whenDone.
func waitBoundedResultRule(p *Prog, r *Report) {
	fn := p.Func(pkgCC, "clientProcessRunner", "waitForResponses")
	if fn == nil {
		r.Undecided("wait.bounded-result", "R-MUSTCALL", "waitForResponses not found")
		return
	}
	r.Func(funcName(fn))
	r.Sites++
	inGo, when := false, ""
	for _, f := range withClosures(fn) {
		eachInstr(f, func(in ssa.Instruction) {
			c := callCommon(in)
			if c == nil || !c.IsInvoke() {
				return
			}
			switch c.Method.Name() {
			case "result":
				if f != fn {
					inGo = true
				}
			case "whenDone":
				when = p.InstrPos(in)
			}
		})
	}
	r.Check(inGo && when == "", "wait.bounded-result", "R-MUSTCALL", p.Pos(fn.Pos()), "the result is awaited through processController.result in a helper goroutine",
		"waitForResponses does not wait on processController.result (whenDone used at: "+when+"): result() is what gives up after the graceful-shutdown period for an in-process peer (C11 abort.local-bounded); whenDone waits for the peer unconditionally, so a wedged in-process client blocks the run forever after abort()")
}

// closeSendUnconditionalRule: closeSend closes stdin and stores closedSend = true on every path.
func closeSendUnconditionalRule(p *Prog, r *Report) {
	fn := p.Func(pkgCC, "clientProcessRunner", "closeSend")
	closed := p.Field(pkgCC, "clientProcessRunner", "closedSend")
	if fn == nil || closed == nil {
		r.Undecided("close-send.unconditional", "R-MUSTCALL", "closeSend / closedSend not found")
		return
	}
	r.Func(funcName(fn))
	r.Sites += 2
	okLatch, exit1 := entryMustPass(fn, func(in ssa.Instruction) bool {
		st, ok := in.(*ssa.Store)
		if !ok {
			return false
		}
		fa, ok := st.Addr.(*ssa.FieldAddr)
		if !ok || fieldVar(fa.X.Type(), fa.Field) != closed {
			return false
		}
		b, isK := constBool(st.Val)
		return isK && b
	})
	okClose, exit2 := entryMustPass(fn, func(in ssa.Instruction) bool {
		c := callCommon(in)
		return c != nil && c.IsInvoke() && c.Method.Name() == "Close"
	})
	okLock, _ := entryMustPass(fn, func(in ssa.Instruction) bool {
		c := callCommon(in)
		return c != nil && c.StaticCallee() != nil && c.StaticCallee().Name() == "Lock"
	})
	where := ""
	for _, e := range []ssa.Instruction{exit1, exit2} {
		if e != nil {
			where = " (" + p.InstrPos(e) + ")"
		}
	}
	r.Check(okLatch && okClose && okLock, "close-send.unconditional", "R-MUSTCALL", p.Pos(fn.Pos()), "every path takes sendMu, closes stdin and latches closedSend",
		"closeSend can return without taking sendMu, closing stdin and setting closedSend"+where+": consumeOutput's deferred drain relies on it as the barrier after which no sender can register; a sender queued on sendMu registers after the drain, its write succeeds and its callback never fires")
}

// ---------- C12 ----------

// timeoutEchoUnconditionalRule: in the reference server's createRequestInfo the
// timeout is echoed under the ok of timeoutFromContext alone.
func timeoutEchoUnconditionalRule(p *Prog, r *Report) {
	fn := p.Func(pkgRS, "", "createRequestInfo")
	tfc := p.Func(pkgRS, "", "timeoutFromContext")
	if fn == nil || tfc == nil {
		r.Undecided("timeout.echo-unconditional", "R-GUARD", "createRequestInfo / timeoutFromContext not found")
		return
	}
	r.Func(funcName(fn))
	r.Sites++
	calls := findInstrs(fn, isCallObj(funcObj(tfc)))
	if len(calls) != 1 {
		r.Fail("timeout.echo-unconditional", "R-GUARD", p.Pos(fn.Pos()), "expected one call of timeoutFromContext in createRequestInfo")
		return
	}
	tup := calls[0].(ssa.Value)
	fromTuple := func(v ssa.Value, idx int) bool {
		ex, ok := canon(v).(*ssa.Extract)
		return ok && ex.Tuple == tup && ex.Index == idx
	}
	n := 0
	bad := ""
	eachInstr(fn, func(in ssa.Instruction) {
		c := callCommon(in)
		if c == nil || c.StaticCallee() == nil || c.StaticCallee().Name() != "Milliseconds" || !fromTuple(c.Args[0], 0) {
			return
		}
		n++
		hasOK := false
		for _, a := range atomsAt(in.Block()) {
			if m, v := boolTestOn(a, func(x ssa.Value) bool { return fromTuple(x, 1) }); m && v {
				hasOK = true
				continue
			}
			// any other fact that looks at the duration itself
			for x := range operandClosure(a.X) {
				if fromTuple(x, 0) {
					bad += " the echo at " + p.InstrPos(in) + " is also under " + a.String() + ";"
				}
			}
		}
		if !hasOK {
			bad += " the echo at " + p.InstrPos(in) + " is not on the ok edge;"
		}
	})
	r.Check(n == 1 && bad == "", "timeout.echo-unconditional", "R-GUARD", p.InstrPos(calls[0]), "timeout_ms is set exactly when timeoutFromContext reports a timeout",
		"createRequestInfo does not echo every timeout that was accepted:"+bad+" extractTimeout accepts a grammatical zero (its lower bound is < 0), so such a header is accepted and removed but timeout_ms is missing from the request info")
}

// ---------- C15 ----------

// responseFlushOnlyAtResponseEndRule: in closeStreamLocked, responseTracer.emitUnfinished
// is called only on the !isRequest side.
func responseFlushOnlyAtResponseEndRule(p *Prog, r *Report) {
	fn := p.Func(pkgTr, "tracingHTTP2Conn", "closeStreamLocked")
	if fn == nil {
		r.Undecided("flush.response-at-response-end", "R-GUARD", "closeStreamLocked not found")
		return
	}
	r.Func(funcName(fn))
	n := 0
	bad := ""
	pos := p.Pos(fn.Pos())
	eachInstr(fn, func(in ssa.Instruction) {
		c := callCommon(in)
		if c == nil || c.StaticCallee() == nil || c.StaticCallee().Name() != "emitUnfinished" {
			return
		}
		fa, ok := c.Args[0].(*ssa.FieldAddr)
		if !ok || fieldName(fa.X.Type(), fa.Field) != "responseTracer" {
			return
		}
		n++
		r.Sites++
		if !guardedBy(in, func(a Atom) bool {
			k, neg, ok := genericKey(a)
			return ok && k == "$isRequest" && neg
		}) {
			bad += " " + p.InstrPos(in) + " (under [" + atomsString(atomsAt(in.Block())) + "]);"
			pos = p.InstrPos(in)
		}
	})
	r.Check(n >= 1 && bad == "", "flush.response-at-response-end", "R-GUARD", pos, "the response parser is flushed only on the !isRequest side",
		"closeStreamLocked flushes the response message parser although only the request side ended:"+bad+" on a full-duplex stream the client's END_STREAM can arrive between two DATA frames of one response message — the half-read message is emitted truncated, the parser reset, and the rest is parsed as a bogus envelope")
}

// retryTypesAgreeRule: every golang.org/x/net/http2 error type that the tracer
// itself converts to an error (what it records when a stream is refused) is
// one of the types isRetryable looks for with errors.As.
func retryTypesAgreeRule(p *Prog, r *Report) {
	fn := p.Func(pkgTr, "", "isRetryable")
	if fn == nil {
		r.Undecided("retry.types-agree", "R-TABLE-AGREE", "isRetryable not found")
		return
	}
	r.Func(funcName(fn))
	matched := map[string]bool{}
	eachInstr(fn, func(in ssa.Instruction) {
		c := callCommon(in)
		if c == nil || !isCallToNamed(c, "errors", "", "As") {
			return
		}
		t := c.Args[1]
		if mi, ok := t.(*ssa.MakeInterface); ok {
			t = mi.X
		}
		if pt, ok := t.Type().(*types.Pointer); ok {
			matched[pt.Elem().String()] = true
		}
	})
	produced := map[string]string{}
	for _, f := range tracerFuncs(p) {
		if f == fn {
			continue
		}
		eachInstr(f, func(in ssa.Instruction) {
			mi, ok := in.(*ssa.MakeInterface)
			if !ok || !isErrorType(mi.Type()) {
				return
			}
			nt, ok := mi.X.Type().(*types.Named)
			if !ok || nt.Obj().Pkg() == nil || !strings.HasSuffix(nt.Obj().Pkg().Path(), "x/net/http2") {
				return
			}
			if _, seen := produced[nt.String()]; !seen {
				produced[nt.String()] = p.InstrPos(in)
			}
		})
	}
	var missing []string
	for t, pos := range produced {
		r.Sites++
		if !matched[t] {
			missing = append(missing, t+" (recorded at "+pos+")")
		}
	}
	sort.Strings(missing)
	r.Check(len(produced) >= 2 && len(missing) == 0, "retry.types-agree", "R-TABLE-AGREE", p.Pos(fn.Pos()), fmt.Sprintf("%d recorded http2 error types, all matched by isRetryable", len(produced)),
		"isRetryable does not look for every error type the tracer records: "+strings.Join(missing, ", ")+" — the trace of a stream refused by GOAWAY is then completed at once instead of being held back for the retry, and Tracer.Complete keeps that first trace: the retry's trace is dropped")
}

// ---------- C16 ----------

// addBeforeCancelRule: in the tracer, when a basic block both adds an event to
// a builder and calls a context.CancelFunc, the add comes first: the tracer's
// own watcher goroutine adds RequestCanceled as soon as the context is done
// and would win the builder's finish-once slot.
func addBeforeCancelRule(p *Prog, r *Report) {
	n := 0
	bad := ""
	pos := "-"
	for _, fn := range tracerFuncs(p) {
		for _, b := range fn.Blocks {
			addIdx, cancelIdx := -1, -1
			for i, in := range b.Instrs {
				c := callCommon(in)
				if c == nil {
					continue
				}
				if _, isDefer := in.(*ssa.Defer); isDefer {
					continue
				}
				if c.StaticCallee() != nil && c.StaticCallee().Name() == "add" && c.StaticCallee().Signature.Recv() != nil && p.IsRepoFunc(c.StaticCallee()) && addIdx < 0 {
					addIdx = i
				}
				if !c.IsInvoke() && c.StaticCallee() == nil {
					if nt, ok := c.Value.Type().(*types.Named); ok && nt.Obj().Name() == "CancelFunc" && nt.Obj().Pkg() != nil && nt.Obj().Pkg().Path() == "context" && cancelIdx < 0 {
						cancelIdx = i
					}
				}
			}
			if addIdx < 0 || cancelIdx < 0 {
				continue
			}
			n++
			r.Sites++
			r.Func(funcName(fn))
			if cancelIdx < addIdx {
				bad += " " + shortFn(fn) + " cancels at " + p.InstrPos(b.Instrs[cancelIdx]) + " before adding at " + p.InstrPos(b.Instrs[addIdx]) + ";"
				pos = p.InstrPos(b.Instrs[cancelIdx])
			}
		}
	}
	r.Check(n >= 1 && bad == "", "add-before-cancel", "R-ORDER", pos, fmt.Sprintf("%d steps add an event and cancel the context; the event is added first", n),
		"the tracer cancels the operation's context before adding the event that describes why:"+bad+" the watcher goroutine (<-ctx.Done(); add(RequestCanceled)) can take the builder's finish-once slot first — the one completed trace then ends with RequestCanceled/context canceled and the real error is discarded as an event after completion")
}

// ---------- C20 ----------

// zstdCloseAlwaysNilsRule: in every method of zstdDecompressor, a call of
// (*zstd.Decoder).Close on the decoder field is followed on all paths by
// decoder = nil.
func zstdCloseAlwaysNilsRule(p *Prog, r *Report) {
	zdec := p.Field(pkgComp, "zstdDecompressor", "decoder")
	if zdec == nil {
		r.Undecided("reuse-typestate.zstd.close-nils-everywhere", "R-MUSTCALL", "zstdDecompressor.decoder not found")
		return
	}
	n := 0
	bad := ""
	pos := "-"
	for _, fn := range p.RepoFuncs() {
		if pkgOfFunc(fn) != modPath+"/"+pkgComp {
			continue
		}
		eachInstr(fn, func(in ssa.Instruction) {
			c := callCommon(in)
			if c == nil || c.StaticCallee() == nil || c.StaticCallee().Name() != "Close" || len(c.Args) == 0 || loadedField(canon(c.Args[0])) != zdec {
				return
			}
			n++
			r.Sites++
			r.Func(funcName(fn))
			ok, _ := mustPass(in, func(x ssa.Instruction) bool {
				st, isSt := x.(*ssa.Store)
				if !isSt {
					return false
				}
				fa, isFA := st.Addr.(*ssa.FieldAddr)
				return isFA && fieldVar(fa.X.Type(), fa.Field) == zdec && isNilConst(st.Val)
			})
			if !ok {
				bad += " " + shortFn(fn) + " at " + p.InstrPos(in) + ";"
				pos = p.InstrPos(in)
			}
		})
	}
	r.Check(n >= 1 && bad == "", "reuse-typestate.zstd.close-nils-everywhere", "R-MUSTCALL", pos, fmt.Sprintf("%d calls of zstd.Decoder.Close in the wrapper, each followed by decoder = nil", n),
		"the zstd wrapper closes its decoder without discarding it:"+bad+" a closed klauspost decoder cannot be Reset (\"decoder used after Close\"); Reset relies on decoder == nil to create a new one, so after a failed decode the same instance fails on the next, valid message")
}

// ---------- defects found while reviewing round 7 (D12–D14) ----------

// identityCompressorKeepsWriterOpenRule (D12): noOpCompressor.Reset stores a
// noOpCloser around the caller's writer on every path — closing a compressor
// must not close the writer it was reset with (WriteRawStreamContents writes
// several items to the same writer, one compressor per item).
func identityCompressorKeepsWriterOpenRule(p *Prog, r *Report) {
	fn := p.Func(pkgComp, "noOpCompressor", "Reset")
	if fn == nil {
		r.Undecided("raw-encoder.identity-keeps-writer-open", "R-WIRE", "noOpCompressor.Reset not found")
		return
	}
	r.Func(funcName(fn))
	n := 0
	bad := ""
	eachInstr(fn, func(in ssa.Instruction) {
		st, ok := in.(*ssa.Store)
		if !ok {
			return
		}
		fa, ok := st.Addr.(*ssa.FieldAddr)
		if !ok || fieldName(fa.X.Type(), fa.Field) != "WriteCloser" {
			return
		}
		n++
		r.Sites++
		for _, l := range phiLeaves(canon(st.Val)) {
			v := l.Val
			if mi, isMI := v.(*ssa.MakeInterface); isMI {
				v = mi.X
			}
			okT := false
			if pt, isP := canon(v).Type().(*types.Pointer); isP {
				if nt, isN := pt.Elem().(*types.Named); isN && nt.Obj().Name() == "noOpCloser" {
					okT = true
				}
			}
			if !okT {
				bad += " the stored closer can be " + path(l.Val) + " (the caller's own writer, when it happens to be an io.WriteCloser);"
			}
		}
	})
	r.Check(n >= 1 && bad == "", "raw-encoder.identity-keeps-writer-open", "R-WIRE", p.Pos(fn.Pos()), "the identity compressor always wraps the writer in a no-op closer",
		"noOpCompressor.Reset keeps the caller's writer as its own closer:"+bad+" WriteRawMessageContents closes the compressor after each item, which then closes the destination itself — the reference client writes a raw request body to an io.PipeWriter, so a stream body is cut after its first explicit-length identity item (\"io: read/write on closed pipe\", ignored by the caller)")
}

// recorderCoversBothUnaryKindsRule (D13): rawResponseRecorder.WrapUnary looks
// for a prescribed raw response in every request type that carries a
// UnaryResponseDefinition (UnaryRequest and IdempotentUnaryRequest).
func recorderCoversBothUnaryKindsRule(p *Prog, r *Report) {
	fn := p.Func(pkgRS, "rawResponseRecorder", "WrapUnary")
	if fn == nil {
		r.Undecided("recorder.unary-both-kinds", "A-COVER", "rawResponseRecorder.WrapUnary not found")
		return
	}
	r.Func(funcName(fn))
	// the request types of the service whose response definition is a UnaryResponseDefinition
	want := map[string]bool{}
	if gp := p.Pkg(pkgGen); gp != nil {
		sc := gp.Types.Scope()
		for _, nm := range sc.Names() {
			tn, ok := sc.Lookup(nm).(*types.TypeName)
			if !ok || !strings.HasSuffix(nm, "Request") {
				continue
			}
			ms := types.NewMethodSet(types.NewPointer(tn.Type()))
			if sel := ms.Lookup(gp.Types, "GetResponseDefinition"); sel != nil {
				if sig, ok := sel.Type().(*types.Signature); ok && sig.Results().Len() == 1 && strings.HasSuffix(sig.Results().At(0).Type().String(), ".UnaryResponseDefinition") {
					want[nm] = true
				}
			}
		}
	}
	covered := map[string]bool{}
	all := false
	for _, cl := range withClosures(fn) {
		eachInstr(cl, func(in ssa.Instruction) {
			ta, ok := in.(*ssa.TypeAssert)
			if !ok {
				return
			}
			if it, isI := ta.AssertedType.Underlying().(*types.Interface); isI {
				for i := 0; i < it.NumMethods(); i++ {
					if it.Method(i).Name() == "GetResponseDefinition" {
						all = true
					}
				}
				return
			}
			if pt, isP := ta.AssertedType.(*types.Pointer); isP {
				if nt, isN := pt.Elem().(*types.Named); isN {
					covered[nt.Obj().Name()] = true
				}
			}
		})
	}
	var missing []string
	for nm := range want {
		r.Sites++
		if !all && !covered[nm] {
			missing = append(missing, nm)
		}
	}
	sort.Strings(missing)
	r.Check(len(want) >= 2 && len(missing) == 0, "recorder.unary-both-kinds", "A-COVER", p.Pos(fn.Pos()), fmt.Sprintf("%d request types carry a unary response definition; the recorder looks into all of them", len(want)),
		"rawResponseRecorder.WrapUnary does not look for a prescribed raw response in "+strings.Join(missing, ", ")+": a test case that prescribes a raw response for that RPC gets the handler's normal response instead")
}

// zeroLengthNoReadRule (D14): timeoutDelimitedReader.read does not call Read
// for a zero-length message: a zero-length Read may block (io.Pipe, used for
// in-process peers), and the timeout branch then waits for the reader forever.
func zeroLengthNoReadRule(p *Prog, r *Report) {
	fn := p.Func("internal", "timeoutDelimitedReader", "read")
	if fn == nil {
		r.Undecided("zero-length.no-read", "R-GUARD", "timeoutDelimitedReader.read not found")
		return
	}
	r.Func(funcName(fn))
	n := 0
	bad := ""
	eachInstr(fn, func(in ssa.Instruction) {
		c := callCommon(in)
		if c == nil || !c.IsInvoke() || c.Method.Name() != "Read" {
			return
		}
		n++
		r.Sites++
		if !guardedBy(in, func(a Atom) bool {
			for _, v := range []ssa.Value{a.X, a.Y} {
				if v != nil && canon(v) == ssa.Value(fn.Params[1]) {
					return true
				}
			}
			return false
		}) {
			bad += " " + p.InstrPos(in) + ";"
		}
	})
	r.Check(n >= 1 && bad == "", "zero-length.no-read", "R-GUARD", p.Pos(fn.Pos()), "Read is only called after numBytes was compared (nothing is read for an empty message)",
		"timeoutDelimitedReader.read calls Read although zero bytes are wanted:"+bad+" a zero-length Read blocks on an io.Pipe (the stream of an in-process peer) until the peer writes again; when the peer idles, the timeout branch sees bytesRead == bytesExpecting (0 == 0), concludes the read is complete and waits for the reader forever — no timeout error within the configured period")
}

func init() {
	addMutants(
		Mutant{ID: "C17-D12-identity-closes-writer", Prop: "C17", File: "internal/compression/compression.go",
			Old:    "\tc.WriteCloser = &noOpCloser{writer}\n",
			New:    "\twc, ok := writer.(io.WriteCloser)\n\tif !ok {\n\t\twc = &noOpCloser{writer}\n\t}\n\tc.WriteCloser = wc\n",
			Expect: []string{"raw-encoder.identity-keeps-writer-open"}, Note: "original defect D12: the identity compressor closes the destination"},
		Mutant{ID: "C17-D13-unary-only", Prop: "C17", File: "internal/app/referenceserver/raw_response.go",
			Old:    "\t\tif msg, ok := req.Any().(interface {\n\t\t\tGetResponseDefinition() *conformancev1.UnaryResponseDefinition\n\t\t}); ok {\n",
			New:    "\t\tif msg, ok := req.Any().(*conformancev1.UnaryRequest); ok {\n",
			Expect: []string{"recorder.unary-both-kinds"}, Note: "original defect D13: raw response of an IdempotentUnaryRequest ignored"},
		Mutant{ID: "C17-D15-nil-payload", Prop: "C17", File: "internal/raw_http_body.go",
			Old:    "\tif contents == nil {\n\t\t// no payload given, so nothing to write\n\t\treturn nil\n\t}\n",
			New:    "",
			Expect: []string{"anchored-arg-nil."}, Note: "original defect D15: a stream item / query parameter without payload crashes the encoder"},
		Mutant{ID: "C18-D16-metadata-overwrite", Prop: "C18", File: "internal/grpcutil/metadata.go",
			Old:    "\t\tasMetadata[key] = append(asMetadata[key], vals...)\n",
			New:    "\t\tasMetadata[key] = vals\n",
			Expect: []string{"anchored-map-overwrite."}, Note: "original defect D16: repeated header keys lose values in gRPC metadata"},
		Mutant{ID: "C03-D17-header-overwrite", Prop: "C03", File: "internal/app/connectconformance/results.go",
			Old:    "\t\tactualHeaders[strings.ToLower(hdr.Name)] = append(actualHeaders[strings.ToLower(hdr.Name)], hdr.Value...)\n",
			New:    "\t\tactualHeaders[strings.ToLower(hdr.Name)] = hdr.Value\n",
			Expect: []string{"anchored-map-overwrite."}, Note: "original defect D17: a header reported in several entries keeps only the last entry"},
		Mutant{ID: "C09-D14-zero-length-read", Prop: "C09", File: "internal/delimited.go",
			Old:    "\tif numBytes == 0 {\n\t\t// Nothing to read. (A zero-length Read may block, e.g. on an io.Pipe.)\n\t\treturn data, nil\n\t}\n",
			New:    "",
			Expect: []string{"zero-length.no-read"}, Note: "original defect D14: zero-length Read blocks on a pipe past the timeout"},
	)
}
