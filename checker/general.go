package main

// General analyses that are not tied to one construct: repository-wide audits
// restricted, per property, to the functions declared in the files the
// property is anchored in (properties.jsonl: anchors.files).

import (
	"encoding/json"
	"fmt"
	"go/ast"
	"go/token"
	"go/types"
	"os"
	"path/filepath"
	"sort"
	"strings"

	"golang.org/x/tools/go/ssa"
)

// experiments: calibration entry points (`verifchk -prop X…`); not listed, not
// in the manifest, write no evidence.
var experiments = map[string]func(*Prog, *Report){}

var _ ssa.Value

func init() {
	experiments["Xpanic"] = func(p *Prog, r *Report) {
		var entries []*ssa.Function
		for _, fn := range p.RepoFuncs() {
			if fn.Parent() == nil {
				entries = append(entries, fn)
			}
		}
		rulePanic(p, r, panicSpec{Key: "panic", Entries: entries, Floor: 1, Invariants: tracerInvariants(p)})
	}
	experiments["Xunit"] = func(p *Prog, r *Report) { unitMsRule(p, r, "unit", p.RepoFuncs()) }
	experiments["Xwrap"] = func(p *Prog, r *Report) { errorWrapRule(p, r, "wrap", p.RepoFuncs()) }
	experiments["Xfmt"] = func(p *Prog, r *Report) {
		noDataFormatStringRule(p, r, "fmt", func(*ssa.Function) bool { return true })
	}
	experiments["Xshadow"] = func(p *Prog, r *Report) {
		shadowRule(p, r, "shadow", []string{"*", "*/*", "*/*/*", "*/*/*/*", "*/*/*/*/*"})
	}
	experiments["Xswap"] = func(p *Prog, r *Report) { swappedArgsRule(p, r, "swap", p.RepoFuncs()) }
	experiments["Xkeys"] = func(p *Prog, r *Report) {
		e := &boolEval{key: genericKey}
		for _, spec := range [][3]string{{pkgCC, "testCaseLibrary", "filterGRPCImplTestCases"}, {pkgRS, "", "checkTLS"}, {pkgRS, "", "timeoutFromContext"}, {pkgCC, "", "run"}, {pkgCC, "clientProcessRunner", "consumeOutput"}} {
			if fn := p.Func(spec[0], spec[1], spec[2]); fn != nil {
				fmt.Println(spec[2], sortedKeysInt(e.keysSeen(fn)))
			}
		}
	}
	experiments["Xmake"] = func(p *Prog, r *Report) { makeThenAppendRule(p, r, "make", p.RepoFuncs()) }
	experiments["Xname"] = func(p *Prog, r *Report) { siblingNameWiringRule(p, r, "name", p.RepoFuncs()) }
	experiments["Xunlock"] = func(p *Prog, r *Report) { lockReleasedRule(p, r, "unlock", p.RepoFuncs()) }
	experiments["Xreslice"] = func(p *Prog, r *Report) { resliceAliasRule(p, r, "reslice", p.RepoFuncs()) }
	experiments["Xsplit"] = func(p *Prog, r *Report) { splitRestRule(p, r, "split", p.RepoFuncs()) }
	experiments["Xnil"] = func(p *Prog, r *Report) {
		optionalDerefAudit(p, r, "nil", p.RepoFuncs(), 1)
	}
}

// ---------- anchored scopes ----------

// anchoredFuncs: the non-test repository functions (with their closures)
// declared in the Go files a property is anchored in (properties.jsonl,
// anchors.files, globs expanded).
func anchoredFuncs(p *Prog, propID string) []*ssa.Function {
	pats := anchorFiles(propID)
	var out []*ssa.Function
	for _, fn := range p.RepoFuncs() {
		f := p.Fset.Position(fn.Pos()).Filename
		if f == "" && fn.Parent() != nil {
			f = p.Fset.Position(fn.Parent().Pos()).Filename
		}
		rel, err := filepath.Rel(p.Root, f)
		if err != nil || strings.HasSuffix(rel, "_test.go") {
			continue
		}
		for _, pat := range pats {
			if ok, _ := filepath.Match(pat, rel); ok {
				out = append(out, fn)
				break
			}
		}
	}
	return out
}

var anchorCache map[string][]string

// extraAnchors: files that carry part of a property's mechanism although the
// property's anchor list does not name them (each confirmed by reading).
var extraAnchors = map[string][]string{
	"C19": {"internal/app/referenceserver/impl.go", "internal/app/referenceserver/raw_response.go", "internal/app/grpcserver/impl.go", "internal/compression/*.go"}, // the uncompressed size is what comes out of the decompressors; the over-limit error reaches the client through the handlers and the first-request pre-read
	"C18": {"internal/app/referenceserver/impl.go", "internal/app/referenceclient/wire_details.go"},                                                                 // grpcStatusTrailers: the Connect error -> gRPC status form
	"C16": {"internal/tracer/http2.go", "internal/tracer/reader.go"},                                                                                                // the HTTP/2 retry collector completes traces towards the Tracer
	"C02": {"internal/app/referenceclient/wire_details.go", "internal/app/referenceserver/raw_response.go"},                                                         // every streaming request reaches the reference server's handlers through firstReqCachingStream
	"C12": {"internal/printer.go"},                                                                                                                                  // feedback lines that name the test case are written through safePrinter
	"C14": {"internal/tracer/http2.go"},                                                                                                                             // the HTTP/2 connection tracer is the third producer of the same dataTracer events
	"C13": {"internal/tracer/reader.go"},                                                                                                                            // the end-stream content the examiners see is assembled by dataTracer
	"C04": {"internal/app/connectconformance/test_trie.go", "internal/printer.go", "internal/app/connectconformance/process.go"},                                    // the known-failing / known-flaky markings are trie matches; reference-peer feedback lines reach the runner through safePrinter
	"C11": {"internal/delimited.go", "internal/app/connectconformance/client_runner.go"},                                                                            // the server's start-up response is read with ReadDelimitedMessage: garbage there must become a set-up error, not a crash
	"C07": {"internal/app/connectconformance/connectconformance.go"},                                                                                                // run() computes the run mode the permutations are filtered by
	"C05": {"internal/app/connectconformance/test_trie.go"},                                                                                                         // the run/skip filter (filter.apply) is a trie match                                                                            // wire feedback fails a case whose result matched
}

func anchorFiles(propID string) []string {
	if anchorCache == nil {
		anchorCache = map[string][]string{}
		b, err := os.ReadFile(filepath.Join(verifDir, "properties.jsonl"))
		if err == nil {
			for _, line := range strings.Split(string(b), "\n") {
				var pr struct {
					ID      string `json:"id"`
					Anchors struct {
						Files []string `json:"files"`
					} `json:"anchors"`
				}
				if json.Unmarshal([]byte(line), &pr) == nil && pr.ID != "" {
					for _, f := range pr.Anchors.Files {
						if strings.HasSuffix(f, ".go") {
							anchorCache[pr.ID] = append(anchorCache[pr.ID], f)
						}
					}
					anchorCache[pr.ID] = append(anchorCache[pr.ID], extraAnchors[pr.ID]...)
				}
			}
		}
	}
	return anchorCache[propID]
}

// ---------- G-UNIT: milliseconds ----------

// unitMsRule: a value read from a field or getter whose name ends in "Ms"
// (TimeoutMs, ResponseDelayMs, AfterCloseSendMs, …) that is converted to
// time.Duration is multiplied by time.Millisecond before it is used: every
// use of the conversion is a multiplication with the constant 1e6.
func unitMsRule(p *Prog, r *Report, key string, scope []*ssa.Function) {
	n := 0
	for _, fn := range scope {
		eachInstr(fn, func(in ssa.Instruction) {
			cv, ok := in.(*ssa.Convert)
			if !ok {
				return
			}
			nt, ok := cv.Type().(*types.Named)
			if !ok || nt.Obj().Name() != "Duration" || nt.Obj().Pkg() == nil || nt.Obj().Pkg().Path() != "time" {
				return
			}
			src := ""
			for v := range operandClosure(cv.X) {
				if f := loadedField(canon(v)); f != nil && strings.HasSuffix(f.Name(), "Ms") {
					src = f.Name()
				}
				if pp, ok := v.(*ssa.Parameter); ok && strings.HasSuffix(pp.Name(), "Ms") {
					src = pp.Name()
				}
			}
			if src == "" || cv.Referrers() == nil {
				return
			}
			n++
			r.Sites++
			r.Func(funcName(fn))
			bad := ""
			for _, ref := range *cv.Referrers() {
				if _, isDbg := ref.(*ssa.DebugRef); isDbg {
					continue
				}
				bo, isBO := ref.(*ssa.BinOp)
				okMul := false
				if isBO && bo.Op == token.MUL {
					other := bo.Y
					if bo.Y == ssa.Value(cv) {
						other = bo.X
					}
					if k, isK := constInt(other); isK && k == 1000000 {
						okMul = true
					}
				}
				if !okMul {
					bad += " used at " + p.InstrPos(ref) + " without `* time.Millisecond`;"
				}
			}
			r.Check(bad == "", fmt.Sprintf("%s.%s#%s@%d", key, shortFn(fn), src, nthInFn(fn, in)), "R-UNIT", p.InstrPos(in), "time.Duration("+src+") * time.Millisecond",
				"a millisecond count ("+src+") is converted to time.Duration and"+bad+" the value would be interpreted as nanoseconds (a 1500 ms delay becomes 1.5 µs), unlike the sibling sites")
		})
	}
	r.Extra[key+"_conversions"] = n
}

// nthInFn: ordinal of an instruction among the instructions of the same kind
// in its function (a stable, position-free discriminator).
func nthInFn(fn *ssa.Function, target ssa.Instruction) int {
	n := 0
	found := 0
	eachInstr(fn, func(in ssa.Instruction) {
		if fmt.Sprintf("%T", in) == fmt.Sprintf("%T", target) {
			n++
			if in == target {
				found = n
			}
		}
	})
	return found
}

// ---------- G-WRAP: errors keep their identity ----------

// errorWrapRule: every fmt.Errorf in scope that formats an error value uses %w
// for it: connect-go / the runner classify errors with errors.As / errors.Is,
// so an error flattened with %v loses its code.
func errorWrapRule(p *Prog, r *Report, key string, scope []*ssa.Function) {
	n := 0
	errT := types.Universe.Lookup("error").Type()
	for _, fn := range scope {
		eachInstr(fn, func(in ssa.Instruction) {
			c, ok := in.(*ssa.Call)
			if !ok || !isCallToNamed(&c.Call, "fmt", "", "Errorf") {
				return
			}
			format, isS := constString(c.Call.Args[0])
			if !isS || len(c.Call.Args) < 2 {
				return
			}
			hasErr := false
			for _, e := range sliceLiteralElems(c.Call.Args[1]) {
				if mi, ok := e.(*ssa.MakeInterface); ok && types.Implements(mi.X.Type(), errT.Underlying().(*types.Interface)) {
					hasErr = true
				} else if types.Identical(e.Type(), errT) {
					hasErr = true
				} else if ci, ok := e.(*ssa.ChangeInterface); ok && types.Identical(ci.X.Type(), errT) {
					hasErr = true
				}
			}
			if !hasErr {
				return
			}
			n++
			r.Sites++
			r.Func(funcName(fn))
			r.Check(strings.Contains(format, "%w"), fmt.Sprintf("%s.%s@%d", key, shortFn(fn), nthInFn(fn, in)), "R-PASSTHRU", p.InstrPos(in), "the error argument is wrapped with %w",
				fmt.Sprintf("fmt.Errorf(%q, …) formats an error value without %%w: the wrapped error's identity (its connect code, io.EOF, context errors) is lost to errors.As / errors.Is", format))
		})
	}
	r.Extra[key+"_errorf_with_error"] = n
}

// ---------- G-SHADOW ----------

// errorOnly: rule keys for which only shadowed `error` variables are reported
// (the attached, per-property form; the calibration run reports all types).
var errorOnly = map[string]bool{"anchored-shadow": true}

// shadowAllowed: confirmed-by-reading exceptions of shadowRule, file:variable -> reason.
var shadowAllowed = map[string]string{
	"internal/app/referenceclient/wire_details.go:tok": "checkNoDuplicateKeys: the loop-local tok is the element's closing token; the outer tok (the opening delimiter) is deliberately what is returned",
}

// shadowRule: no `:=` / var declaration in a nested block re-declares, with the
// identical type, a variable of an enclosing block of the same function that is
// still read after the nested block ends. (The outer variable silently keeps
// its old value: the classic lost-error bug.)
func shadowRule(p *Prog, r *Report, key string, relFiles []string) {
	n := 0
	usedRows := map[string]bool{}
	match := func(rel string) bool {
		for _, pat := range relFiles {
			if ok, _ := filepath.Match(pat, rel); ok {
				return true
			}
		}
		return false
	}
	var bad []string
	for _, pkg := range p.Pkgs {
		for _, file := range pkg.Syntax {
			fname := p.Fset.Position(file.Pos()).Filename
			rel, err := filepath.Rel(p.Root, fname)
			if err != nil || strings.HasSuffix(rel, "_test.go") || !match(rel) {
				continue
			}
			info := pkg.TypesInfo
			// identifiers that are plain assignment targets
			writes := map[*ast.Ident]bool{}
			var assigns []*ast.AssignStmt
			ast.Inspect(file, func(nd ast.Node) bool {
				if as, ok := nd.(*ast.AssignStmt); ok && (as.Tok == token.ASSIGN || as.Tok == token.DEFINE) {
					assigns = append(assigns, as)
					for _, l := range as.Lhs {
						if id, ok := l.(*ast.Ident); ok {
							writes[id] = true
						}
					}
				}
				return true
			})
			ast.Inspect(file, func(nd ast.Node) bool {
				var idents []*ast.Ident
				switch x := nd.(type) {
				case *ast.AssignStmt:
					if x.Tok != token.DEFINE {
						return true
					}
					for _, l := range x.Lhs {
						if id, ok := l.(*ast.Ident); ok {
							idents = append(idents, id)
						}
					}
				case *ast.ValueSpec:
					idents = append(idents, x.Names...)
				default:
					return true
				}
				for _, id := range idents {
					if id.Name == "_" {
						continue
					}
					obj, ok := info.Defs[id].(*types.Var)
					if !ok || obj.Parent() == nil {
						continue
					}
					n++
					inner := obj.Parent()
					// look for an outer variable of the same name and type in an enclosing scope of the same function
					for sc := inner.Parent(); sc != nil && sc != pkg.Types.Scope() && sc != types.Universe; sc = sc.Parent() {
						o, ok := sc.Lookup(id.Name).(*types.Var)
						if !ok || o.Pos() >= id.Pos() || o.IsField() {
							continue
						}
						if !types.Identical(o.Type(), obj.Type()) {
							break
						}
						if !errorOnly[key] || types.Identical(o.Type(), types.Universe.Lookup("error").Type()) {
							// fallthrough: examine
						} else {
							break
						}
						// the outer variable is read after the inner scope ends (and inside the outer's scope)
						// the first mention of the outer variable after the inner scope is a READ
						// (if it is first assigned again, the shadowing is harmless)
						var first *ast.Ident
						for use, uo := range info.Uses {
							if uo == types.Object(o) && use.Pos() > inner.End() && (first == nil || use.Pos() < first.Pos()) {
								first = use
							}
						}
						usedAfter := first != nil && !writes[first]
						// an assignment to the outer variable whose right-hand side contains the inner
						// declaration (v = func() T { v := …; … }()) takes effect after the inner scope
						for _, as := range assigns {
							if as.Pos() < id.Pos() && as.End() >= inner.End() {
								for _, l := range as.Lhs {
									if lid, ok := l.(*ast.Ident); ok && (info.Uses[lid] == types.Object(o) || info.Defs[lid] == types.Object(o)) {
										usedAfter = false
									}
								}
							}
						}
						if why, ok := shadowAllowed[rel+":"+id.Name]; ok && usedAfter {
							usedRows[rel+":"+id.Name] = true
							_ = why
							usedAfter = false
						}
						// a function-literal boundary between the two scopes makes it a different function: still reported (captured variable)
						if usedAfter {
							bad = append(bad, fmt.Sprintf("%s: %q re-declared here shadows the %s declared at %s, which is read again after this block", p.Pos(id.Pos()), id.Name, o.Type().String(), p.Pos(o.Pos())))
						}
						break
					}
				}
				return true
			})
		}
	}
	sort.Strings(bad)
	r.Sites += n
	r.Extra[key+"_declarations"] = n
	r.Check(len(bad) == 0, key, "R-SHADOW", "-", fmt.Sprintf("%d nested declarations, none shadows a same-typed outer variable that is read afterwards", n),
		"a nested declaration shadows an outer variable that is read after the block, so the outer variable keeps its old value: "+strings.Join(bad, "; "))
}

// ---------- G-SWAP: swapped same-typed arguments ----------

var antonymPairs = [][2]string{
	{"client", "server"}, {"request", "response"}, {"req", "resp"}, {"req", "res"}, {"header", "trailer"}, {"headers", "trailers"},
	{"expected", "actual"}, {"failing", "flaky"}, {"run", "skip"}, {"stdin", "stdout"}, {"in", "out"}, {"send", "recv"},
	{"send", "receive"}, {"read", "write"}, {"reader", "writer"}, {"min", "max"}, {"first", "last"}, {"start", "end"},
	{"src", "dst"}, {"source", "dest"}, {"compress", "decompress"}, {"compressor", "decompressor"}, {"encode", "decode"},
	{"marshal", "unmarshal"}, {"include", "exclude"}, {"before", "after"}, {"log", "err"}, {"stdout", "stderr"},
}

func nameTokens(s string) map[string]bool {
	out := map[string]bool{}
	cur := ""
	flush := func() {
		if cur != "" {
			w := strings.ToLower(cur)
			out[w] = true
			if len(w) > 3 && strings.HasSuffix(w, "s") {
				out[strings.TrimSuffix(w, "s")] = true // headers ~ header
			} else {
				out[w+"s"] = true
			}
			cur = ""
		}
	}
	rs := []rune(s)
	for i, c := range rs {
		switch {
		case c >= 'a' && c <= 'z' || c >= '0' && c <= '9':
			cur += string(c)
		case c >= 'A' && c <= 'Z':
			// new token at lower→Upper, or at the last upper of an acronym followed by lower
			if cur != "" && (rs[i-1] >= 'a' && rs[i-1] <= 'z' || (i+1 < len(rs) && rs[i+1] >= 'a' && rs[i+1] <= 'z')) {
				flush()
			}
			cur += string(c)
		default:
			flush()
		}
	}
	flush()
	return out
}

// swappedArgsRule: at every call of a repository function that has two
// parameters of identical type whose names differ by an antonym pair
// (client/server, expected/actual, failing/flaky, run/skip, …), an argument
// whose own name carries the OTHER parameter's word and not its own is
// reported: the two same-typed arguments are swapped.
func swappedArgsRule(p *Prog, r *Report, key string, scope []*ssa.Function) {
	n := 0
	anti := map[string][]string{}
	for _, pr := range antonymPairs {
		anti[pr[0]] = append(anti[pr[0]], pr[1])
		anti[pr[1]] = append(anti[pr[1]], pr[0])
	}
	for _, fn := range scope {
		eachInstr(fn, func(in ssa.Instruction) {
			c := callCommon(in)
			if c == nil {
				return
			}
			callee := c.StaticCallee()
			if callee == nil || !p.IsRepoFunc(callee) || len(callee.Params) != len(c.Args) {
				return
			}
			for i, pi := range callee.Params {
				ti := nameTokens(pi.Name())
				for j, pj := range callee.Params {
					if i == j || !types.Identical(pi.Type(), pj.Type()) {
						continue
					}
					tj := nameTokens(pj.Name())
					for a := range ti {
						for _, b := range anti[a] {
							if !tj[b] || ti[b] || tj[a] {
								continue
							}
							// parameters i (word a) and j (word b) form an antonym pair
							n++
							if !isSimplePath(c.Args[i]) {
								continue
							}
							at := nameTokens(path(c.Args[i]))
							if at[b] && !at[a] {
								r.Sites++
								r.Fail(fmt.Sprintf("%s.%s→%s.%s", key, shortFn(fn), fnBase(callee), pi.Name()), "R-WIRE", p.InstrPos(in),
									fmt.Sprintf("in %s the call of %s passes %s for parameter %s although a same-typed parameter %s exists: the two arguments look swapped (%s/%s)", shortFn(fn), fnBase(callee), path(c.Args[i]), pi.Name(), pj.Name(), a, b))
							}
						}
					}
				}
			}
		})
	}
	// the same for struct fields: x.fieldA = <something named B> while a same-typed sibling field B exists
	for _, fn := range scope {
		eachInstr(fn, func(in ssa.Instruction) {
			st, ok := in.(*ssa.Store)
			if !ok {
				return
			}
			fa, ok := st.Addr.(*ssa.FieldAddr)
			if !ok {
				return
			}
			pt, ok := fa.X.Type().Underlying().(*types.Pointer)
			if !ok {
				return
			}
			stt, ok := pt.Elem().Underlying().(*types.Struct)
			if !ok {
				return
			}
			fi := stt.Field(fa.Field)
			ti := nameTokens(fi.Name())
			for j := 0; j < stt.NumFields(); j++ {
				fj := stt.Field(j)
				if j == fa.Field || !types.Identical(fi.Type(), fj.Type()) {
					continue
				}
				tj := nameTokens(fj.Name())
				for a := range ti {
					for _, b := range anti[a] {
						if !tj[b] || ti[b] || tj[a] {
							continue
						}
						n++
						if !isSimplePath(st.Val) {
							continue
						}
						at := nameTokens(path(st.Val))
						if at[b] && !at[a] {
							r.Sites++
							r.Fail(fmt.Sprintf("%s.%s.field.%s", key, shortFn(fn), fi.Name()), "R-WIRE", p.InstrPos(in),
								fmt.Sprintf("in %s field %s is set from %s although a same-typed sibling field %s exists: the two values look swapped (%s/%s)", shortFn(fn), fi.Name(), path(st.Val), fj.Name(), a, b))
						}
					}
				}
			}
		})
	}
	r.Sites += n
	r.Extra[key+"_antonym_pairs"] = n
	if os.Getenv("DBG_SWAP") != "" {
		fmt.Println("swap pairs", n)
	}
	r.OK(key, "R-WIRE", "-", fmt.Sprintf("%d antonym-named same-typed parameter pairs at call sites, no argument carries the other parameter's word", n))
}

// isSimplePath: a named variable or a field chain rooted at one (no calls, no
// arithmetic): only such values carry a name worth comparing.
func isSimplePath(v ssa.Value) bool {
	for i := 0; i < 8; i++ {
		v = strip(v)
		switch x := v.(type) {
		case *ssa.Parameter, *ssa.FreeVar, *ssa.Global:
			return true
		case *ssa.Alloc:
			return x.Comment != ""
		case *ssa.Phi:
			return x.Comment != ""
		case *ssa.UnOp:
			if x.Op != token.MUL {
				return false
			}
			v = x.X
		case *ssa.FieldAddr:
			v = x.X
		case *ssa.Field:
			v = x.X
		default:
			return false
		}
	}
	return false
}

// ---------- the general audits, per property ----------

// crashTable: potential panic sites of the anchored audit that are safe for a
// reason the prover cannot see; matched by function origin and site text.
var crashTable = []struct{ fn, site, why string }{
	{"run", "index:args[0]", "args is os.Args or the literal the runner builds for an in-process peer: never empty"},
	{"run", "slice:args[1:]", "as above"},
	{"RunWithTrace", "index:args[0]", "args is os.Args or the literal the runner builds for an in-process peer: never empty"},
	{"RunWithTrace", "slice:args[1:]", "as above"},
	{"run", "index:os.Args[0]", "os.Args is never empty"},
	{"run", "slice:command[:main.positionOf(command, \"----\")]", "positionOf returns -1 or an index of command; -1 is fatal (os.Exit) on the line before"},
	{"run", "slice:command[(main.positionOf(command, \"----\") + 1):]", "as above"},
	{"runCommand$1", "index:command[0]", "main refuses an empty client/server command before runCommand is used"},
	{"runCommand$1", "slice:command[1:]", "as above"},
	{"ParseServerCert", "index:certPair.Certificate[0]", "tls.X509KeyPair returns at least one certificate on success"},
	{"grpcStatusTrailers", "index:@", "statProto.Details is make(len(err.Details())) and the index ranges over err.Details(), a pure accessor"},
	{"serverStream", "index:req.RequestMessages[0]", "Invoke rejects a server-stream request that does not have exactly one message (checked by clients.arity-guard)"},
	{"serverStream", "index:ccr.RequestMessages[0]", "as above"},
	{"doUnary", "index:req.RequestMessages[0]", "Invoke rejects Unary / IdempotentUnary requests that do not have exactly one message (clients.arity-guard); the Unimplemented arm does not check — a test case with method Unimplemented and no request message crashes the client (observation, DESIGN.md §5)"},
	{"doUnary", "index:ccr.RequestMessages[0]", "as above"},
	{"Encode", "index:j.opts.Marshal(msg)#0[(len(j.opts.Marshal(msg)#0) - 1)]", "evaluated only when len(data) == 0 (the `||` should be `&&`), which protojson.Marshal never produces"},
}

// nilTable: field loads that are not optional although they look so.
var nilExemptSites = map[string]string{
	"referenceclient.maybeWrapContextError#httpErr":       "set by errors.As on the true edge",
	"referenceclient.examineConnectError#connErr":         "non-nil whenever a key callback fired: examineJSON decodes a JSON object into it before reporting keys (hasDetails implies it)",
	"referenceclient.examineConnectEndStream#endStream":   "as above (hasError implies a decoded object)",
	"referenceclient.examineConnectErrorDetail#detail":    "as above for the detail object",
	"referenceclient.examineConnectErrorDetail$1#*detail": "the callback only runs for keys of a decoded object",
	"referenceclient.examineConnectErrorDetail$1#detail":  "the callback only runs for keys of a decoded object",
}

func anchoredGeneralRules(p *Prog, r *Report, propID string) {
	scope := anchoredFuncs(p, propID)
	if len(scope) == 0 {
		r.Undecided("anchored.scope", "A-WHO", "no function found in the files the property is anchored in")
		return
	}
	r.Extra["anchored_functions"] = len(scope)
	// crash audit of everything declared in the anchored files
	rulePanic(p, r, panicSpec{Key: "anchored-crash", Only: scope, Floor: 0, Invariants: tracerInvariants(p),
		TableFn: func(fn *ssa.Function, desc string) (string, bool) {
			name := fn.Name()
			if o := fn.Origin(); o != nil {
				name = o.Name()
			}
			for _, row := range crashTable {
				if row.fn == name && (row.site == desc || strings.HasSuffix(row.site, "@") && strings.HasPrefix(desc, row.site)) {
					return row.why, true
				}
			}
			return "", false
		}})
	// the arity guards the table relies on
	if propID == "C01" || propID == "C02" {
		arityGuardRule(p, r)
	}
	// optional pointers (generated messages, JSON-decoded structs) outside the runner's validated-at-load cases
	var nilScope []*ssa.Function
	for _, fn := range scope {
		if pkgOfFunc(fn) != ccPath {
			nilScope = append(nilScope, fn)
		}
	}
	if len(nilScope) > 0 {
		optionalDerefAuditEx(p, r, "anchored-nil", nilScope, 0, nilExemptSites)
	}
	unitMsRule(p, r, "anchored-unit", scope)
	var wrapScope []*ssa.Function
	for _, fn := range scope {
		if pk := pkgOfFunc(fn); pk != ccPath && !strings.HasPrefix(pk, modPath+"/cmd/") {
			wrapScope = append(wrapScope, fn)
		}
	}
	if len(wrapScope) > 0 {
		errorWrapRule(p, r, "anchored-wrap", wrapScope)
	}
	swappedArgsRule(p, r, "anchored-swap", scope)
	shadowRule(p, r, "anchored-shadow", anchorFiles(propID))
	inScope := map[*ssa.Function]bool{}
	for _, fn := range scope {
		inScope[fn] = true
	}
	noDataFormatStringRule(p, r, "anchored-format", func(fn *ssa.Function) bool { return inScope[fn] })
	makeThenAppendRule(p, r, "anchored-make-append", scope)
	lockReleasedRule(p, r, "anchored-unlock", scope)
	resliceAliasRule(p, r, "anchored-reslice", scope)
	splitRestRule(p, r, "anchored-split", scope)
	siblingNameWiringRule(p, r, "anchored-name", scope)
	round6GeneralRules(p, r, scope)
	round7GeneralRules(p, r, scope)
	round8GeneralRules(p, r, scope)
	round9GeneralRules(p, r, scope)
}

// arityGuardRule: in both reference clients' Invoke, the calls of unary,
// idempotentUnary and serverStream are on the len(req.RequestMessages) == 1 edge.
func arityGuardRule(p *Prog, r *Report) {
	for _, rel := range []string{pkgRC, "internal/app/grpcclient"} {
		inv := p.Func(rel, "invoker", "Invoke")
		if inv == nil {
			r.Undecided("clients.arity-guard."+filepath.Base(rel), "R-GUARD", "Invoke not found")
			continue
		}
		reqMsgs := p.Field(pkgGen, "ClientCompatRequest", "RequestMessages")
		n := 0
		bad := ""
		eachInstr(inv, func(in ssa.Instruction) {
			c := callCommon(in)
			if c == nil || c.StaticCallee() == nil {
				return
			}
			switch c.StaticCallee().Name() {
			case "unary", "idempotentUnary", "serverStream":
			default:
				return
			}
			n++
			r.Sites++
			if !guardedBy(in, func(a Atom) bool {
				if a.Op != token.EQL {
					return false
				}
				x, isLen := lenArg(a.X)
				k, isK := constInt(a.Y)
				return isLen && isK && k == 1 && loadedField(canon(x)) == reqMsgs
			}) {
				bad += " " + c.StaticCallee().Name() + " at " + p.InstrPos(in) + ";"
			}
		})
		r.Check(bad == "" && n >= 2, "clients.arity-guard."+filepath.Base(rel), "R-GUARD", p.Pos(inv.Pos()), "unary / idempotent-unary / server-stream calls are made only with exactly one request message",
			"Invoke calls a single-request method without having checked len(RequestMessages) == 1:"+bad+" the method indexes RequestMessages[0] and would crash the client")
	}
}

func sortedKeysInt(m map[string]int) []string {
	ks := make([]string, 0, len(m))
	for k := range m {
		ks = append(ks, k)
	}
	sort.Strings(ks)
	return ks
}

// ---------- cross-property attribution ----------

// crossPropertyRules: a rule guards a construct; a property owns the
// constructs in the files it is anchored in. Every obligation that ANOTHER
// property's targeted rules establish at a position inside one of this
// property's anchored files is therefore also an obligation of this property
// (key `via.<other>.<key>`): breaking the construct breaks the mechanism this
// property relies on as well. Obligations without a source position (tables
// spanning several files) stay with their own property.
func crossPropertyRules(p *Prog, r *Report, propID string) {
	pats := anchorFiles(propID)
	inAnchors := func(pos string) bool {
		if pos == "" || pos == "-" {
			return false
		}
		file := pos
		if i := strings.Index(file, ":"); i > 0 {
			file = file[:i]
		}
		for _, pat := range pats {
			if ok, _ := filepath.Match(pat, file); ok {
				return true
			}
		}
		return false
	}
	own := map[string]bool{}
	for _, o := range r.Obls {
		own[strings.TrimPrefix(o.Key, propID+".")] = true
	}
	// a recorded finding stays with the property it was recorded for: whether
	// that defect also breaks THIS property was not established
	known := map[string]bool{}
	for _, kf := range loadKnownFindings(verifDir) {
		known[kf.Key] = true
	}
	ids := make([]string, 0, len(registry))
	for id := range registry {
		ids = append(ids, id)
	}
	sort.Strings(ids)
	n := 0
	for _, q := range ids {
		if q == propID {
			continue
		}
		tmp := NewReport(q)
		registry[q].Run(p, tmp)
		for _, extra := range round2Rules[q] {
			extra(p, tmp)
		}
		for _, extra := range round3Rules[q] {
			extra(p, tmp)
		}
		for _, extra := range round4Rules[q] {
			extra(p, tmp)
		}
		for _, extra := range round5Rules[q] {
			extra(p, tmp)
		}
		for _, extra := range round6Rules[q] {
			extra(p, tmp)
		}
		for _, extra := range round7Rules[q] {
			extra(p, tmp)
		}
		for _, extra := range round8Rules[q] {
			extra(p, tmp)
		}
		for _, extra := range round9Rules[q] {
			extra(p, tmp)
		}
		for _, extra := range round10Rules[q] {
			extra(p, tmp)
		}
		for _, o := range tmp.Obls {
			k := strings.TrimPrefix(o.Key, q+".")
			if strings.HasPrefix(k, "floor.") || own[k] || !inAnchors(o.Pos) || known[o.Key] {
				continue
			}
			// panic-audit sites are covered by this property's own anchored-crash audit
			if o.Rule == "R-PANIC" || o.Rule == "R-INV" {
				continue
			}
			o.Key = "via." + q + "." + k
			r.add(o)
			n++
		}
	}
	r.Extra["cross_property_obligations"] = n
}

// ---------- G-MAKEAPPEND ----------

// makeThenAppendRule: a slice created with make([]T, n) for a non-constant or
// non-zero n (length, not capacity) is not subsequently only appended to: its
// first n elements would stay zero values (nil pointers) in front of the
// appended ones.
func makeThenAppendRule(p *Prog, r *Report, key string, scope []*ssa.Function) {
	n := 0
	var bad []string
	for _, fn := range scope {
		eachInstr(fn, func(in ssa.Instruction) {
			mk, ok := in.(*ssa.MakeSlice)
			if !ok {
				return
			}
			if k, isK := constInt(mk.Len); isK && k == 0 {
				return
			}
			n++
			// all uses, through phis: indexed stores / copy / passing on make it a legitimate sized slice
			onlyAppended, appended := true, false
			seen := map[ssa.Value]bool{}
			var walk func(v ssa.Value)
			walk = func(v ssa.Value) {
				if seen[v] || v.Referrers() == nil {
					return
				}
				seen[v] = true
				for _, ref := range *v.Referrers() {
					switch x := ref.(type) {
					case *ssa.DebugRef:
					case *ssa.Phi:
						walk(x)
					case *ssa.Call:
						if b, isB := x.Call.Value.(*ssa.Builtin); isB && b.Name() == "append" && len(x.Call.Args) > 0 && x.Call.Args[0] == v {
							appended = true
							walk(x)
						} else if isB && (b.Name() == "len" || b.Name() == "cap") {
						} else {
							onlyAppended = false
						}
					case *ssa.Store:
						if x.Val == v {
							// stored into a variable: follow loads of a local cell
							if al, isAl := x.Addr.(*ssa.Alloc); isAl {
								for _, r2 := range *al.Referrers() {
									if u, isU := r2.(*ssa.UnOp); isU {
										walk(u)
									}
								}
							} else if fv, isFV := x.Addr.(*ssa.FreeVar); isFV {
								// a captured variable: follow its loads in this function (the enclosing
								// function's uses are ranges/lens over the finished slice)
								eachInstr(fn, func(i2 ssa.Instruction) {
									if u, isU := i2.(*ssa.UnOp); isU && u.Op == token.MUL && u.X == ssa.Value(fv) {
										walk(u)
									}
								})
							} else {
								onlyAppended = false
							}
						}
					case *ssa.Range, *ssa.Return:
					default:
						onlyAppended = false
					}
				}
			}
			walk(mk)
			if appended && onlyAppended {
				bad = append(bad, p.InstrPos(in)+" in "+shortFn(fn)+": make(…, "+path(mk.Len)+") is only ever appended to")
			}
		})
	}
	sort.Strings(bad)
	r.Sites += n
	r.Extra[key+"_sized_makes"] = n
	r.Check(len(bad) == 0, key, "R-WIRE", "-", fmt.Sprintf("%d slices created with a non-zero length, none is only appended to", n),
		"a slice is created with a non-zero LENGTH and then only appended to: "+strings.Join(bad, "; ")+" — it starts with that many zero values (nil pointers) in front of the appended elements")
}

// ---------- G-NAME: sibling-name wiring ----------

// siblingNameWiringRule: a struct field F is not initialised from a value whose
// own name is exactly the name of a same-typed sibling field G (getter GetG(),
// field .G, variable g) unless it also carries F's name.
func siblingNameWiringRule(p *Prog, r *Report, key string, scope []*ssa.Function) {
	n := 0
	leafName := func(v ssa.Value) string {
		v = canon(v)
		if c, ok := v.(*ssa.Call); ok && c.Call.StaticCallee() != nil && len(c.Call.Args) == 1 {
			return strings.TrimPrefix(c.Call.StaticCallee().Name(), "Get")
		}
		if f := loadedField(v); f != nil {
			return f.Name()
		}
		if nm, ok := localName(v); ok {
			return nm
		}
		return ""
	}
	norm := func(s string) string { return strings.ToLower(strings.ReplaceAll(s, "_", "")) }
	for _, fn := range scope {
		eachInstr(fn, func(in ssa.Instruction) {
			st, ok := in.(*ssa.Store)
			if !ok {
				return
			}
			fa, ok := st.Addr.(*ssa.FieldAddr)
			if !ok {
				return
			}
			pt, ok := fa.X.Type().Underlying().(*types.Pointer)
			if !ok {
				return
			}
			stt, ok := pt.Elem().Underlying().(*types.Struct)
			if !ok {
				return
			}
			fi := stt.Field(fa.Field)
			ln := leafName(st.Val)
			if ln == "" || norm(ln) == norm(fi.Name()) || strings.Contains(norm(ln), norm(fi.Name())) || strings.Contains(norm(fi.Name()), norm(ln)) {
				return
			}
			for j := 0; j < stt.NumFields(); j++ {
				fj := stt.Field(j)
				if j == fa.Field || !types.Identical(fi.Type(), fj.Type()) && !types.Identical(types.Default(st.Val.Type()), fj.Type()) {
					continue
				}
				if norm(fj.Name()) == norm(ln) {
					n++
					r.Sites++
					r.Fail(fmt.Sprintf("%s.%s.field.%s", key, shortFn(fn), fi.Name()), "R-WIRE", p.InstrPos(in),
						fmt.Sprintf("in %s field %s is set from %s, which is the name of its same-typed sibling field %s: the two initialisers look exchanged or copy-pasted", shortFn(fn), fi.Name(), path(st.Val), fj.Name()))
				}
			}
		})
	}
	r.OK(key, "R-WIRE", "-", "no struct field is initialised from a value named like a same-typed sibling field")
}

// ---------- G-UNLOCK: every acquire is released on all exits ----------

// lockReleasedRule: after x.mu.Lock() / RLock(), every path to a return of the
// same function passes x.mu.Unlock() / RUnlock() on the same access path, or
// the registration of a deferred one (a deferred closure that unlocks counts).
func lockReleasedRule(p *Prog, r *Report, key string, scope []*ssa.Function) {
	n := 0
	for _, fn := range scope {
		eachInstr(fn, func(in ssa.Instruction) {
			c := callCommon(in)
			if c == nil {
				return
			}
			if _, isDefer := in.(*ssa.Defer); isDefer {
				return
			}
			op, k := lockOp(c)
			if op != "lock" && op != "rlock" {
				return
			}
			n++
			r.Sites++
			r.Func(funcName(fn))
			isRelease := func(x ssa.Instruction) bool {
				cc := callCommon(x)
				if cc == nil {
					return false
				}
				if o2, k2 := lockOp(cc); (o2 == "unlock" || o2 == "runlock") && k2 == k {
					return true
				}
				// a deferred closure that unlocks k
				if d, isDefer := x.(*ssa.Defer); isDefer {
					if f := staticOrClosure(&d.Call); f != nil {
						hit := false
						eachInstr(f, func(y ssa.Instruction) {
							if c3 := callCommon(y); c3 != nil {
								if o3, k3 := lockOp(c3); (o3 == "unlock" || o3 == "runlock") && lockKind(k3) == lockKind(k) {
									hit = true
								}
							}
						})
						return hit
					}
				}
				return false
			}
			ok, exit := mustPass(in, isRelease)
			pos := p.InstrPos(in)
			if !ok && exit != nil {
				pos = p.InstrPos(exit)
			}
			r.Check(ok, fmt.Sprintf("%s.%s#%s@%d", key, shortFn(fn), lockKind(k), nthLock(fn, in)), "R-LOCKED", pos, "the lock taken here is released on every path to a return",
				fmt.Sprintf("%s acquires %s and can return (at %s) without releasing it: every later user of that lock blocks forever", shortFn(fn), k, pos))
		})
	}
	r.Extra[key+"_acquires"] = n
}

func nthLock(fn *ssa.Function, target ssa.Instruction) int {
	n, found := 0, 0
	eachInstr(fn, func(in ssa.Instruction) {
		if c := callCommon(in); c != nil {
			if _, isDefer := in.(*ssa.Defer); isDefer {
				return
			}
			if op, _ := lockOp(c); op == "lock" || op == "rlock" {
				n++
				if in == target {
					found = n
				}
			}
		}
	})
	return found
}

// ---------- G-RESLICE: append to a zero-length re-slice of someone else's array ----------

// resliceAliasRule: `append(x[:0], …)` (or x[:0] stored and then appended to)
// where x is a slice parameter, or a slice field of a struct that is a by-value
// copy of a parameter: the header is a copy but the backing array still belongs
// to the caller, so the append overwrites the caller's elements.
func resliceAliasRule(p *Prog, r *Report, key string, scope []*ssa.Function) {
	n := 0
	var bad []string
	for _, fn := range scope {
		eachInstr(fn, func(in ssa.Instruction) {
			sl, ok := in.(*ssa.Slice)
			if !ok || sl.High == nil {
				return
			}
			if k, isK := constInt(sl.High); !isK || k != 0 {
				return
			}
			if _, isSlice := sl.X.Type().Underlying().(*types.Slice); !isSlice {
				return
			}
			n++
			// whose array is it?
			foreign := ""
			base := canon(sl.X)
			if prm, isP := base.(*ssa.Parameter); isP {
				foreign = "the slice parameter " + prm.Name()
			}
			if u, isU := base.(*ssa.UnOp); isU && u.Op == token.MUL {
				if fa, isFA := u.X.(*ssa.FieldAddr); isFA {
					if al, isAl := fa.X.(*ssa.Alloc); isAl {
						// a local struct variable: was it initialised as a whole from a parameter / another struct?
						for _, ref := range *al.Referrers() {
							if st, isSt := ref.(*ssa.Store); isSt && st.Addr == ssa.Value(al) {
								src := canon(st.Val)
								if prm, isP := src.(*ssa.Parameter); isP {
									foreign = "field " + fieldName(fa.X.Type(), fa.Field) + " of a by-value copy of parameter " + prm.Name()
								}
								if u2, isU2 := src.(*ssa.UnOp); isU2 && u2.Op == token.MUL {
									foreign = "field " + fieldName(fa.X.Type(), fa.Field) + " of a by-value copy of " + path(u2.X)
								}
							}
						}
					}
				}
			}
			// a buffer kept in a long-lived object (field reached through a pointer): harmless
			// while it stays inside, an alias once the appended slice is RETURNED
			persistent := ""
			if foreign == "" {
				if u, isU := base.(*ssa.UnOp); isU && u.Op == token.MUL {
					if fa, isFA := u.X.(*ssa.FieldAddr); isFA {
						if _, isAl := fa.X.(*ssa.Alloc); !isAl {
							persistent = "the buffer kept in field " + fieldName(fa.X.Type(), fa.Field) + " of " + path(fa.X)
						}
					}
				}
			}
			if foreign == "" && persistent == "" {
				return
			}
			// is the re-slice appended to? does the result leave the function?
			appended, returned := false, false
			type visit struct {
				v   ssa.Value
				app bool
			}
			seen := map[visit]bool{}
			var walk func(v ssa.Value, app bool)
			walk = func(v ssa.Value, app bool) {
				if seen[visit{v, app}] || v.Referrers() == nil {
					return
				}
				seen[visit{v, app}] = true
				for _, ref := range *v.Referrers() {
					switch x := ref.(type) {
					case *ssa.Phi:
						walk(x, app)
					case *ssa.Call:
						if b, isB := x.Call.Value.(*ssa.Builtin); isB && b.Name() == "append" && x.Call.Args[0] == v {
							appended = true
							walk(x, true)
						}
					case *ssa.Return:
						if app {
							returned = true
						}
					}
				}
			}
			walk(sl, false)
			if appended && foreign != "" {
				bad = append(bad, p.InstrPos(in)+" in "+shortFn(fn)+": append to "+path(sl)+", a zero-length re-slice of "+foreign)
			}
			if appended && returned && persistent != "" {
				bad = append(bad, p.InstrPos(in)+" in "+shortFn(fn)+": the slice built by appending to "+path(sl)+" ("+persistent+") is returned — the next call re-uses the same backing array and overwrites what the previous caller still holds")
			}
		})
	}
	sort.Strings(bad)
	r.Sites += n
	r.Extra[key+"_zero_length_reslices"] = n
	r.Check(len(bad) == 0, key, "R-NOFLOW", "-", fmt.Sprintf("%d zero-length re-slices, none of a caller-owned array is appended to", n),
		"an append writes into a backing array that still belongs to the caller: "+strings.Join(bad, "; ")+" — elements the caller (or a later iteration) still reads are overwritten")
}

// ---------- G-SPLIT: rest dropped after an unbounded split ----------

// splitRestRule: when the pieces [0] and [1] of strings.Split(s, sep) are used
// by constant index, everything after a second separator is silently dropped;
// SplitN(s, sep, 2) keeps it. Reported unless the number of pieces is checked
// to be exactly 2 (or at most 2) before the use.
func splitRestRule(p *Prog, r *Report, key string, scope []*ssa.Function) {
	n := 0
	var bad []string
	for _, fn := range scope {
		eachInstr(fn, func(in ssa.Instruction) {
			c, ok := in.(*ssa.Call)
			if !ok || !(isCallToNamed(&c.Call, "strings", "", "Split") || isCallToNamed(&c.Call, "bytes", "", "Split")) {
				return
			}
			n++
			idx1 := false
			var at ssa.Instruction
			for _, ref := range *c.Referrers() {
				if ia, isIA := ref.(*ssa.IndexAddr); isIA {
					if k, isK := constInt(ia.Index); isK && k == 1 {
						idx1 = true
						at = ia
					}
				}
			}
			if !idx1 {
				return
			}
			// len(parts) == 2 / <= 2 / != 2 → return guards make it exact
			exact := guardedBy(at, func(a Atom) bool {
				x, isLen := lenArg(a.X)
				k, isK := constInt(a.Y)
				if !isLen || !isK || canon(x) != ssa.Value(c) {
					return false
				}
				return (a.Op == token.EQL && k == 2) || (a.Op == token.LEQ && k == 2) || (a.Op == token.LSS && k == 3)
			})
			if !exact {
				bad = append(bad, p.InstrPos(in)+" in "+shortFn(fn)+": "+path(c)+"[1] is used without the number of pieces being limited to 2")
			}
		})
	}
	sort.Strings(bad)
	r.Sites += n
	r.Extra[key+"_split_calls"] = n
	r.Check(len(bad) == 0, key, "R-WIRE", "-", fmt.Sprintf("%d Split calls, none uses piece [1] of an unbounded split", n),
		"piece [1] of an unbounded Split is used: "+strings.Join(bad, "; ")+" — everything after a second separator is dropped (SplitN(…, 2) keeps it)")
}
