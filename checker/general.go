package main

// General analyses that are not tied to one construct: repository-wide audits
// restricted, per property, to the functions declared in the files the
// property is anchored in (properties.jsonl: anchors.files).

import (
	"golang.org/x/tools/go/ssa"
)

// experiments: calibration entry points (`verifchk -prop X…`); not listed, not
// in the manifest, write no evidence.
var experiments = map[string]func(*Prog, *Report){}

var _ ssa.Value

func init() {
	experiments["Xpanic"] = func(p *Prog, r *Report) {
		var entries []*ssa.Function
		for _, fn := range p.RepoFuncs() {
			if fn.Parent() == nil {
				entries = append(entries, fn)
			}
		}
		rulePanic(p, r, panicSpec{Key: "panic", Entries: entries, Floor: 1, Invariants: tracerInvariants(p)})
	}
}
