package main

import (
	"fmt"
	"go/token"
	"go/types"
	"os"
	"strings"

	"golang.org/x/tools/go/ssa"
)

func init() {
	register(&propMeta{
		ID: "C02",
		Explain: "Decides structural necessary conditions of 'derived expectations agree with the reference peers; loading never crashes': " +
			"(panic) every potential panic site (index, slice, make, type assertion, division, explicit panic) reachable from parseTestSuites and newTestCaseLibrary is discharged by a guard — 'loading and expanding any parseable suite never crashes the runner' for these panic classes; " +
			"(nilreq) a test case without a request is rejected in parseTestSuites before anything dereferences it, helpers called from there are only called with a checked case, the library is only ever built from parseTestSuites' result, and nothing in the runner nils a request or builds a TestCase without one; " +
			"(contract) in both servers' stream handlers and in the expectation generator, request info is echoed only in the first response (counter == 0) or in the full-duplex per-request branch, the full request info with headers and timeout only for the first response, request info is appended to the error details only when no response was sent and an error is defined, and the received-requests buffer is emptied after each full-duplex response; " +
			"(duplex-aware) the generator's request list for the no-response error case depends on the stream type (a full-duplex server fails after the first request, a half-duplex one after all) — KNOWN FINDING D9 on the current tree; " +
			"(unary-contract) both servers and the generator append the request info to the error details on the error arm and take the payload data from the response definition on the data arm; " +
			"(bin) the gRPC peers see the same binary metadata as the Connect peers: every test for a binary key is on the lower-cased key and the three grpcutil converters decode/encode symmetrically (rules shared with C18); " +
			"(raw-status) the reference server's hand-made gRPC status trailers carry err.Code(), the percent-encoded message in grpc-message and the verbatim message and code in the google.rpc.Status of grpc-status-details-bin. " +
			"It does NOT decide that the three components agree on arbitrary well-formed cases across the protocol stack (an end-to-end behavioural equality).",
		NotDecided: []string{"agreement of generator, reference server and gRPC server on arbitrary well-formed cases over codec × compression × HTTP version", "header canonicalisation performed by net/http, connect-go and grpc-go"},
		Assume:     []string{"protoyaml never yields nil elements in repeated message fields other than through absent sub-messages (Request)"},
		Trusted:    commonTrusted,
		Run:        runC02,
	})
	f := "internal/app/connectconformance/test_case_library.go"
	addMutants(
		Mutant{ID: "C02-D6a-nil-request", Prop: "C02", File: f, Old: "\t\t\tif testCase.Request == nil {\n\t\t\t\treturn nil, fmt.Errorf(\"%s: test case #%d has no request\", testFilePath, i+1)\n\t\t\t}\n", New: "\t\t\t_ = i\n",
			Expect: []string{"nilreq."}, Note: "original defect D6a: test case without request dereferenced"},
		Mutant{ID: "C02-D6b-index", Prop: "C02", File: f, Old: "\t\t\tif idx >= len(testCase.Request.RequestMessages) {\n\t\t\t\t// More responses than requests: the remaining responses are sent\n\t\t\t\t// after the request stream ends and echo no request.\n\t\t\t\tcontinue\n\t\t\t}\n", New: "",
			Expect: []string{"panic."}, Note: "original defect D6b: more responses than requests indexes out of range"},
		Mutant{ID: "C02-echo-every-response", Prop: "C02", File: "internal/app/referenceserver/impl.go", Old: "\t\t\tif respNum == 0 {\n\t\t\t\tresp.Payload.RequestInfo = createRequestInfo(ctx, req.Header(), req.Peer().Query, []*anypb.Any{msgAsAny})\n\t\t\t}", New: "\t\t\tresp.Payload.RequestInfo = createRequestInfo(ctx, req.Header(), req.Peer().Query, []*anypb.Any{msgAsAny})",
			Expect: []string{"contract.echo"}, Note: "server stream echoes request info in every response"},
		Mutant{ID: "C02-details-after-responses", Prop: "C02", File: "internal/app/grpcserver/impl.go", Old: "\t\tif responseDefinition.Error != nil {\n\t\t\tif respNum == 0 {\n\t\t\t\t// We've sent no responses and are returning an error, so build a\n\t\t\t\t// RequestInfo message and append to the error details\n\t\t\t\trequestMetadata, _ := metadata.FromIncomingContext(stream.Context())\n\t\t\t\treqInfo := createRequestInfo(ctx, requestMetadata, reqs)", New: "\t\tif responseDefinition.Error != nil {\n\t\t\tif respNum >= 0 {\n\t\t\t\t// We've sent no responses and are returning an error, so build a\n\t\t\t\t// RequestInfo message and append to the error details\n\t\t\t\trequestMetadata, _ := metadata.FromIncomingContext(stream.Context())\n\t\t\t\treqInfo := createRequestInfo(ctx, requestMetadata, reqs)",
			Expect: []string{"contract.details"}, Note: "gRPC bidi handler appends request info to the error details even after responses were sent"},
		Mutant{ID: "C02-generator-first-only", Prop: "C02", File: f, Old: "\t\t\tif idx == 0 {\n\t\t\t\texpected.Payloads[idx].RequestInfo = &conformancev1.ConformancePayload_RequestInfo{\n\t\t\t\t\tRequestHeaders: testCase.Request.RequestHeaders,\n\t\t\t\t\tRequests:       testCase.Request.RequestMessages,", New: "\t\t\t{\n\t\t\t\texpected.Payloads[idx].RequestInfo = &conformancev1.ConformancePayload_RequestInfo{\n\t\t\t\t\tRequestHeaders: testCase.Request.RequestHeaders,\n\t\t\t\t\tRequests:       testCase.Request.RequestMessages,",
			Expect: []string{"contract.echo"}, Note: "generator expects request info in every server-stream response"},
		Mutant{ID: "C02-unary-no-detail", Prop: "C02", File: f, Old: "\t\trespType.Error.Details = append(respType.Error.Details, reqInfoAny)\n\tcase *conformancev1.UnaryResponseDefinition_ResponseData, nil:\n\t\t// If response data was specified for the response (or nothing at all),", New: "\t\t_ = reqInfoAny\n\tcase *conformancev1.UnaryResponseDefinition_ResponseData, nil:\n\t\t// If response data was specified for the response (or nothing at all),",
			Expect: []string{"unary-contract."}, Note: "generator no longer expects the request info in unary error details"},
		Mutant{ID: "C02-seed2-status-message-encoded", Prop: "C02", File: "internal/app/referenceserver/impl.go", Old: "\t\t\tCode:    int32(err.Code()),\n\t\t\tMessage: err.Message(),", New: "\t\t\tCode:    int32(err.Code()),\n\t\t\tMessage: grpcutil.PercentEncodeMessage(err.Message()),",
			Expect: []string{"raw-status.details-message-verbatim"}, Note: "seed C02-2: percent-encoded message inside grpc-status-details-bin"},
		Mutant{ID: "C02-seed1-bin-case", Prop: "C02", File: "internal/grpcutil/metadata.go", Old: "\t\tkey := strings.ToLower(hdr.Name)\n\t\tvals := hdr.Value\n\t\tif strings.HasSuffix(key, \"-bin\") {", New: "\t\tkey := strings.ToLower(hdr.Name)\n\t\tvals := hdr.Value\n\t\tif strings.HasSuffix(hdr.Name, \"-bin\") {",
			Expect: []string{"bin.suffix-on-lowered"}, Note: "seed C02-1: mixed-case -Bin response metadata double-encoded by the gRPC server"},
		Mutant{ID: "C02-reqs-not-reset", Prop: "C02", File: "internal/app/referenceserver/impl.go", Old: "\t\t\trespNum++\n\t\t\treqs = nil\n", New: "\t\t\trespNum++\n",
			Expect: []string{"contract.full-duplex-reset"}, Note: "full-duplex responses echo all requests so far instead of those since the last response"},
	)
}

var debugC02 = os.Getenv("DBG_C02") != ""

func grpcSrvPath() string { return modPath + "/internal/app/grpcserver" }

func runC02(p *Prog, r *Report) {
	parse := p.Func(pkgCC, "", "parseTestSuites")
	newLib := p.Func(pkgCC, "", "newTestCaseLibrary")
	if parse == nil || newLib == nil {
		r.Undecided("scope", "R-PANIC", "loader functions not found")
		return
	}
	// ---- panic ----
	rulePanic(p, r, panicSpec{Key: "panic", Entries: []*ssa.Function{parse, newLib}, Floor: 25, StayIn: []string{ccPath}})

	// ---- nilreq ----
	reqF := p.Field(pkgGen, "TestCase", "Request")
	ccFns := []*ssa.Function{}
	for _, fn := range p.RepoFuncs() {
		if pkgOfFunc(fn) == ccPath {
			ccFns = append(ccFns, fn)
		}
	}
	// (i) inside parseTestSuites and the helpers it calls with a test case
	scope := p.reachableRepo([]*ssa.Function{parse})
	var loaderScope []*ssa.Function
	for _, fn := range scope {
		if pkgOfFunc(fn) == ccPath {
			loaderScope = append(loaderScope, fn)
		}
	}
	nderef := ruleNilField(p, r, nilFieldRule{Key: "nilreq.checked-at-load", Field: reqF, Scope: loaderScope,
		Extra: func(d ssa.Instruction, loaded ssa.Value) (bool, string) {
			// the dereference sits in a helper: every call site passes a case whose Request was checked
			fn := d.Parent()
			root := rootParam(loaded)
			if root == nil || root.Parent() != fn {
				return false, ""
			}
			idx := -1
			for i, q := range fn.Params {
				if q == root {
					idx = i
				}
			}
			node := p.CallGraph().Nodes[fn]
			if node == nil || len(node.In) == 0 || idx < 0 {
				return false, ""
			}
			for _, e := range node.In {
				if e.Site == nil || !p.IsRepoFunc(e.Caller.Func) {
					return false, ""
				}
				if strings.HasSuffix(p.Fset.Position(e.Site.Pos()).Filename, "_test.go") {
					continue
				}
				ap := path(e.Site.Common().Args[idx])
				if !guardedBy(e.Site, func(a Atom) bool {
					m, isNil := nilTestOn(a, func(x ssa.Value) bool { return loadedField(x) == reqF && path(x) == ap+".Request" })
					return m && !isNil
				}) {
					return false, ""
				}
			}
			return true, "every caller passes a case whose Request was nil-checked"
		}})
	r.Floor("request-derefs-in-loader", nderef, 8)
	// (ii) the library is only built from parseTestSuites' result
	Run, run := p.Func(pkgCC, "", "Run"), p.Func(pkgCC, "", "run")
	okChain := false
	if Run != nil && run != nil {
		var parseCall, runCall *ssa.Call
		eachInstr(Run, func(in ssa.Instruction) {
			if c, ok := in.(*ssa.Call); ok {
				if calleeObj(&c.Call) == funcObj(parse) {
					parseCall = c
				}
				if calleeObj(&c.Call) == funcObj(run) {
					runCall = c
				}
			}
		})
		if parseCall != nil && runCall != nil {
			for i, a := range runCall.Call.Args {
				if ex, ok := canon(a).(*ssa.Extract); ok && ex.Tuple == ssa.Value(parseCall) && ex.Index == 0 {
					// and run hands that parameter to newTestCaseLibrary
					for _, c := range findInstrs(run, isCallObj(funcObj(newLib))) {
						if canon(callCommon(c).Args[0]) == ssa.Value(run.Params[i]) {
							okChain = true
						}
					}
				}
			}
		}
		// no other caller of newTestCaseLibrary in non-test code
		if node := p.CallGraph().Nodes[newLib]; node != nil {
			for _, e := range node.In {
				if e.Caller.Func != run && p.IsRepoFunc(e.Caller.Func) {
					okChain = false
				}
			}
		}
	}
	r.Sites++
	r.Check(okChain, "nilreq.library-from-validated", "A-WHO", "-", "newTestCaseLibrary is only called by run with the suites parseTestSuites returned", "the test-case library can be built from suites that did not pass parseTestSuites' validation")
	// (iii) nobody nils a request or builds a TestCase without one
	bad := ""
	for _, st := range storesToField(ccFns, reqF) {
		r.Sites++
		if isNilConst(st.Val) {
			bad += " nil store at " + p.InstrPos(st.Instr) + ";"
		}
	}
	for _, fn := range ccFns {
		eachInstr(fn, func(in ssa.Instruction) {
			al, ok := in.(*ssa.Alloc)
			if !ok {
				return
			}
			nt, ok := al.Type().(*types.Pointer).Elem().(*types.Named)
			if !ok || nt.Obj().Name() != "TestCase" || nt.Obj().Pkg().Path() != modPath+"/"+pkgGen {
				return
			}
			r.Sites++
			set := false
			for _, st := range storesToField([]*ssa.Function{fn}, reqF) {
				if st.Addr.X == ssa.Value(al) && !isNilConst(st.Val) {
					set = true
				}
			}
			if !set {
				bad += " TestCase literal without Request at " + p.InstrPos(in) + ";"
			}
		})
	}
	r.Check(bad == "", "nilreq.never-nilled", "A-WHO", "-", "no store of nil to TestCase.Request and no TestCase literal without a request in the runner", "the validated-at-load invariant `TestCase.Request != nil` can be broken after loading:"+bad)

	// ---- contract ----
	riF := p.Field(pkgGen, "ConformancePayload", "RequestInfo")
	detailsF := p.Field(pkgGen, "Error", "Details")
	errOfDef := p.Field(pkgGen, "StreamResponseDefinition", "Error")
	respData := p.Field(pkgGen, "StreamResponseDefinition", "ResponseData")
	hdrsF := p.Field(pkgGen, "ConformancePayload_RequestInfo", "RequestHeaders")
	streamType := p.Field(pkgGen, "ClientCompatRequest", "StreamType")
	fullConst := enumVal(p, "StreamType_STREAM_TYPE_FULL_DUPLEX_BIDI_STREAM")
	isCounterZero := func(a Atom) bool {
		if a.Op != token.EQL {
			return false
		}
		z, isZ := constInt(a.Y)
		if !isZ || z != 0 {
			return false
		}
		if _, isLen := lenArg(a.X); isLen {
			return false
		}
		return isIntType(a.X.Type())
	}
	isNoResponses := func(a Atom) bool { // len(ResponseData) == 0
		if a.Op != token.EQL {
			return false
		}
		z, isZ := constInt(a.Y)
		x, isLen := lenArg(a.X)
		return isZ && z == 0 && isLen && loadedField(canon(x)) == respData
	}
	isFullDuplex := func(a Atom) bool {
		if a.Op == token.ILLEGAL && !a.Neg {
			n, _ := localName(a.X)
			if n == "fullDuplex" {
				return true
			}
			if f := loadedField(canon(a.X)); f != nil && f.Name() == "FullDuplex" {
				return true
			}
		}
		if a.Op == token.EQL && loadedField(canon(a.X)) == streamType {
			if k, ok := constInt(a.Y); ok && k == fullConst {
				return true
			}
		}
		return false
	}
	type site struct {
		key string
		fn  *ssa.Function
	}
	sites := []site{
		{"referenceserver.ServerStream", p.Func(pkgRS, "conformanceServer", "ServerStream")},
		{"referenceserver.BidiStream", p.Func(pkgRS, "conformanceServer", "BidiStream")},
		{"grpcserver.ServerStream", p.Func("internal/app/grpcserver", "conformanceServiceServer", "ServerStream")},
		{"grpcserver.BidiStream", p.Func("internal/app/grpcserver", "conformanceServiceServer", "BidiStream")},
		{"generator", p.Func(pkgCC, "", "populateExpectedStreamResponse")},
	}
	nEcho, nDet := 0, 0
	for _, s := range sites {
		if s.fn == nil {
			r.Undecided("contract."+s.key, "R-GUARD", s.key+" not found")
			continue
		}
		r.Func(funcName(s.fn))
		for _, st := range storesToField([]*ssa.Function{s.fn}, riF) {
			if isNilConst(st.Val) {
				continue
			}
			nEcho++
			r.Sites++
			as := atomsAt(st.Instr.Block())
			first, full := hasAtom(as, isCounterZero), hasAtom(as, isFullDuplex)
			r.Check(first || full, fmt.Sprintf("contract.echo.%s#%d", s.key, nEcho), "R-GUARD", p.InstrPos(st.Instr), "request info is echoed only in the first response or in the full-duplex per-request branch: "+atomsString(as),
				"in "+s.key+" request info is put into a response that is neither the first one (counter == 0) nor in the full-duplex per-request branch: the servers and the expectation would disagree on which responses echo the request")
			if full && !first {
				// the header-carrying request info only for the first response
				okFirst := true
				for _, l := range phiLeaves(canon(st.Val)) {
					if c, ok := canon(l.Val).(*ssa.Call); ok && c.Call.StaticCallee() != nil && c.Call.StaticCallee().Name() == "createRequestInfo" {
						if !hasAtom(l.Facts, isCounterZero) {
							okFirst = false
						}
					}
				}
				r.Check(okFirst, "contract.full-duplex-first."+s.key, "R-GUARD", p.InstrPos(st.Instr), "full request info (headers, timeout) only for the first full-duplex response", "in "+s.key+" the full request info is sent for full-duplex responses other than the first")
			}
		}
		if s.key == "generator" {
			for _, st := range storesToField([]*ssa.Function{s.fn}, hdrsF) {
				// stores of RequestHeaders outside a literal guarded by idx == 0 (full-duplex branch)
				as := atomsAt(st.Instr.Block())
				if hasAtom(as, isFullDuplex) {
					r.Sites++
					r.Check(hasAtom(as, isCounterZero), "contract.full-duplex-first.generator", "R-GUARD", p.InstrPos(st.Instr), "headers expected only in the first full-duplex response", "the generator expects request headers in full-duplex responses other than the first")
				}
			}
		}
		for _, st := range storesToField([]*ssa.Function{s.fn}, detailsF) {
			c, ok := canon(st.Val).(*ssa.Call)
			if !ok {
				continue
			}
			if b, isB := c.Call.Value.(*ssa.Builtin); !isB || b.Name() != "append" {
				continue
			}
			nDet++
			r.Sites++
			as := atomsAt(st.Instr.Block())
			none := hasAtom(as, isCounterZero) || hasAtom(as, isNoResponses)
			hasErr := hasAtom(as, func(a Atom) bool {
				m, isNil := nilTestOn(a, func(v ssa.Value) bool {
					f := loadedField(canon(v))
					return f == errOfDef || (f != nil && f.Name() == "Error")
				})
				return m && !isNil
			})
			r.Check(none && hasErr, fmt.Sprintf("contract.details.%s#%d", s.key, nDet), "R-GUARD", p.InstrPos(st.Instr), "request info is appended to the error details only when no response was sent and an error is defined: "+atomsString(as),
				"in "+s.key+" the request info is appended to the error details outside (no response sent ∧ error defined): servers and expectation would disagree about the error details")
		}
	}
	r.Floor("echo-sites", nEcho, 8)
	r.Floor("detail-appends", nDet, 5)
	// full-duplex: the request buffer is reset after each send
	for _, s := range sites[1:4] {
		if s.fn == nil || !strings.HasSuffix(s.key, "BidiStream") {
			continue
		}
		r.Sites++
		okReset := false
		eachInstr(s.fn, func(in ssa.Instruction) {
			phi, ok := in.(*ssa.Phi)
			if !ok || phi.Comment != "reqs" {
				return
			}
			for i, e := range phi.Edges {
				if !isNilConst(e) {
					continue
				}
				// the nil edge comes from the full-duplex branch after a Send
				pred := phi.Block().Preds[i]
				as := edgeAtoms(pred, phi.Block())
				if debugC02 {
					fmt.Println("DBG reset", s.key, pred.Index, atomsString(as))
				}
				sent := hasAtom(as, func(a Atom) bool { // ... == nil of a Send on the stream
					c, ok := canon(a.X).(*ssa.Call)
					if !ok || a.Op != token.EQL || !isNilConst(a.Y) {
						return false
					}
					if c.Call.IsInvoke() {
						return c.Call.Method.Name() == "Send"
					}
					return c.Call.StaticCallee() != nil && fnBase(c.Call.StaticCallee()) == "Send"
				})
				if hasAtom(as, isFullDuplex) && sent {
					okReset = true
				}
			}
		})
		r.Check(okReset, "contract.full-duplex-reset."+s.key, "R-GUARD", p.Pos(s.fn.Pos()), "the received-requests buffer is emptied after each full-duplex response", "in "+s.key+" the received requests are not reset after a full-duplex response: later responses would echo all requests so far, not those since the last response (the generator expects one per response)")
	}

	// ---- duplex-aware (D9) ----
	gen := sites[4].fn
	reqsF := p.Field(pkgGen, "ConformancePayload_RequestInfo", "Requests")
	if gen != nil {
		okDup := false
		for _, st := range storesToField([]*ssa.Function{gen}, reqsF) {
			as := atomsAt(st.Instr.Block())
			if !hasAtom(as, isNoResponses) {
				continue
			}
			r.Sites++
			// the stored request list (or the branch it sits in) depends on the stream type
			for v := range dependenceClosure(st.Val) {
				if loadedField(canon(v)) == streamType {
					okDup = true
				}
			}
			for _, a := range as {
				if loadedField(canon(a.X)) == streamType {
					okDup = true
				}
			}
		}
		r.Check(okDup, "duplex-aware.generator-error-requests", "R-DEPENDS", p.Pos(gen.Pos()), "the request list expected in the no-response error details depends on the stream type",
			"populateExpectedStreamResponse expects ALL request messages in the error details of a stream that sends no responses, independent of the stream type; both servers fail a full-duplex stream right after the FIRST request (service.proto: 'if the server receives a request and has no responses to send, it should throw the error'), so for a full-duplex case with >= 2 requests, no response data and an error the derived expectation lists 2+ requests while the servers echo 1")
	}

	// ---- metadata seen by the gRPC peers ----
	binRules(p, r)

	// ---- hand-made gRPC status trailers of the reference server ----
	if fn := p.Func(pkgRS, "", "grpcStatusTrailers"); fn == nil {
		r.Undecided("raw-status", "R-WIRE", "grpcStatusTrailers not found")
	} else {
		r.Func(funcName(fn))
		isErrMethod := func(v ssa.Value, name string) bool {
			c, ok := canon(stripAllConv(v)).(*ssa.Call)
			if !ok {
				return false
			}
			f := c.Call.StaticCallee()
			return f != nil && f.Name() == name && f.Signature.Recv() != nil && f.Pkg != nil && f.Pkg.Pkg.Path() == "connectrpc.com/connect" && canon(c.Call.Args[0]) == ssa.Value(fn.Params[0])
		}
		okMsg, okCode, okHdr, okStatus, nStatus := false, false, false, false, 0
		eachInstr(fn, func(in ssa.Instruction) {
			st, ok := in.(*ssa.Store)
			if !ok {
				return
			}
			fa, ok := st.Addr.(*ssa.FieldAddr)
			if !ok {
				return
			}
			fv := fieldVar(fa.X.Type(), fa.Field)
			if fv == nil || fv.Pkg() == nil {
				return
			}
			owner := ""
			if pt, ok := fa.X.Type().Underlying().(*types.Pointer); ok {
				if nt, ok := pt.Elem().(*types.Named); ok {
					owner = nt.Obj().Pkg().Path() + "." + nt.Obj().Name()
				}
			}
			switch {
			case owner == "google.golang.org/genproto/googleapis/rpc/status.Status" && fv.Name() == "Message":
				nStatus++
				okMsg = isErrMethod(st.Val, "Message")
			case owner == "google.golang.org/genproto/googleapis/rpc/status.Status" && fv.Name() == "Code":
				nStatus++
				okCode = isErrMethod(st.Val, "Code")
			case owner == modPath+"/"+pkgGen+".Header" && fv.Name() == "Name":
				name, _ := constString(st.Val)
				// the Value of the same literal
				for _, st2 := range storesToField([]*ssa.Function{fn}, p.Field(pkgGen, "Header", "Value")) {
					if st2.Addr.X != fa.X {
						continue
					}
					for _, el := range sliceLiteralElems(st2.Val) {
						c, isCall := canon(el).(*ssa.Call)
						if !isCall {
							continue
						}
						switch name {
						case "grpc-message":
							if calleeObj(&c.Call) == p.TypeFunc(pkgGU, "", "PercentEncodeMessage") && isErrMethod(c.Call.Args[0], "Message") {
								okHdr = true
							}
						case "grpc-status":
							for _, a := range sliceLiteralElems(c.Call.Args[len(c.Call.Args)-1]) {
								if isErrMethod(a, "Code") {
									okStatus = true
								}
							}
							if isErrMethod(c, "Code") {
								okStatus = true
							}
						}
					}
				}
			}
		})
		r.Sites += 4
		r.Floor("raw-status-fields", nStatus, 2)
		r.Check(okMsg, "raw-status.details-message-verbatim", "R-WIRE", p.Pos(fn.Pos()), "google.rpc.Status.Message in grpc-status-details-bin is err.Message() verbatim", "the hand-made grpc-status-details-bin carries a message other than err.Message() verbatim (e.g. the percent-encoded grpc-message text): clients prefer the Status message and would observe a different error message under gRPC/gRPC-Web than under Connect")
		r.Check(okCode, "raw-status.details-code", "R-WIRE", p.Pos(fn.Pos()), "google.rpc.Status.Code is err.Code()", "the hand-made grpc-status-details-bin carries a code other than err.Code()")
		r.Check(okHdr, "raw-status.grpc-message-encoded", "R-WIRE", p.Pos(fn.Pos()), "grpc-message is PercentEncodeMessage(err.Message())", "the hand-made grpc-message trailer is not the percent-encoded err.Message()")
		r.Check(okStatus, "raw-status.grpc-status-code", "R-WIRE", p.Pos(fn.Pos()), "grpc-status is derived from err.Code()", "the hand-made grpc-status trailer is not derived from err.Code()")
	}

	// ---- unary contract ----
	dataF := p.Field(pkgGen, "ConformancePayload", "Data")
	rdF := p.Field(pkgGen, "UnaryResponseDefinition_ResponseData", "ResponseData")
	for _, s := range []site{
		{"referenceserver", p.Func(pkgRS, "", "parseUnaryResponseDefinition")},
		{"grpcserver", p.Func("internal/app/grpcserver", "", "parseUnaryResponseDefinition")},
		{"generator", p.Func(pkgCC, "", "populateExpectedUnaryResponse")},
	} {
		if s.fn == nil {
			r.Undecided("unary-contract."+s.key, "R-WIRE", s.key+" unary definition handler not found")
			continue
		}
		r.Func(funcName(s.fn))
		okDet, okData := false, false
		for _, st := range storesToField([]*ssa.Function{s.fn}, detailsF) {
			if c, ok := canon(st.Val).(*ssa.Call); ok {
				if b, isB := c.Call.Value.(*ssa.Builtin); isB && b.Name() == "append" {
					// on the error arm: dominated by the type-assert of UnaryResponseDefinition_Error
					if guardedBy(st.Instr, func(a Atom) bool {
						m, v := boolTestOn(a, func(x ssa.Value) bool { n, ok := typeAssertOK(x); return ok && n == "UnaryResponseDefinition_Error" })
						return m && v
					}) {
						okDet = true
					}
				}
			}
		}
		for _, st := range storesToField([]*ssa.Function{s.fn}, dataF) {
			if loadedField(canon(st.Val)) == rdF {
				okData = true
			}
		}
		r.Sites += 2
		r.Check(okDet, "unary-contract.error-details."+s.key, "R-WIRE", p.Pos(s.fn.Pos()), "on the error arm the request info is appended to the error details", s.key+": a unary error does not get the request info appended to its details")
		r.Check(okData, "unary-contract.data."+s.key, "R-WIRE", p.Pos(s.fn.Pos()), "payload.Data ← ResponseData", s.key+": the unary payload data is not taken from the response definition")
	}
}

// rootParam: the parameter a field-access chain is rooted at.
func rootParam(v ssa.Value) *ssa.Parameter {
	for i := 0; i < 12 && v != nil; i++ {
		switch x := v.(type) {
		case *ssa.Parameter:
			return x
		case *ssa.FieldAddr:
			v = x.X
		case *ssa.Field:
			v = x.X
		case *ssa.UnOp:
			v = x.X
		case *ssa.IndexAddr:
			v = x.X
		default:
			return nil
		}
	}
	return nil
}

// sliceLiteralElems: the values stored into a slice literal []T{a, b, ...}.
func sliceLiteralElems(v ssa.Value) []ssa.Value {
	sl, ok := canon(v).(*ssa.Slice)
	if !ok {
		return nil
	}
	arr, ok := sl.X.(*ssa.Alloc)
	if !ok || arr.Referrers() == nil {
		return nil
	}
	var out []ssa.Value
	for _, ref := range *arr.Referrers() {
		if ia, ok := ref.(*ssa.IndexAddr); ok && ia.Referrers() != nil {
			for _, r2 := range *ia.Referrers() {
				if st, ok := r2.(*ssa.Store); ok && st.Addr == ssa.Value(ia) {
					out = append(out, st.Val)
				}
			}
		}
	}
	return out
}
