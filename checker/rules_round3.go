package main

// Rules added after the third round of independent seeded changes (DESIGN.md
// §6.3). As in rules_round2.go: each is a structural necessary condition of the
// clause it is attached to, stated over resolved entities.

import (
	"fmt"
	"go/token"
	"go/types"
	"strings"

	"golang.org/x/tools/go/ssa"
)

var round3Rules = map[string][]func(*Prog, *Report){
	"C01": {shareFrom("C20", "reuse-typestate.", "tables.")},
	"C02": {grpcMessageDecoderRule},
	"C03": {everyPartKeptRule, countAlwaysComparedRule},
	"C05": {grpcPeerSupportRule, shareFrom("C10", "drain.", "once.")},
	"C06": {deprecationsReadOnlyRule},
	"C07": {grpcPeerSupportRule, markerPrefixRule},
	"C08": {trieAddRule, shareFrom("C05", "select.chain")},
	"C09": {jsonDecoderEOFRule},
	"C11": {pipesClosedAfterWaitRule, stderrLineBeforeCloseRule},
	"C12": {certCompareUnconditionalRule, ctxTimeoutPresenceRule},
	"C13": {grpcMessageDecoderRule},
	"C14": {traceBeforeExitRule, messageNeedsExpectingRule},
	"C15": {hpackUnboundedRule},
	"C16": {initRearmsRule},
	"C17": {addAccumulatesRule},
	"C18": {noSharedBackingRule, shareFrom("C02", "raw-status.")},
	"C20": {closeOnlyAfterResetRule},
}

var round3Explain = map[string]string{
	"C01": "(compression) the reuse typestate and the encoding tables of the compression package hold (rules of C20)",
	"C02": "(enc-agree.grpc-message-decoder) the reference client decodes grpc-message with the inverse of the percent-encoding (url.PathUnescape), never with a decoder that also rewrites '+'",
	"C03": "(canon.every-part) canonicalizeHeaderVals keeps every element of every value (no part is dropped); (payload-count) checkPayloads compares the payload counts on every path",
	"C05": "(grpc-peer-support) a permutation is kept for a grpc-go peer only under the peers' support table, and a supported one is not filtered out (guard-formula reachability over the function's own atoms); (drain) the client runner's drain order (rules of C10)",
	"C06": "(deprecations.read-only) checkForDeprecations only warns: it writes nothing into the configuration",
	"C07": "(grpc-peer-support) as in C05; (marker.prefix) the gRPC marker is inserted before the simple name found as a SUFFIX of the full name",
	"C08": "(trie.add) adding a pattern marks its last node present on every path and recurses for every non-empty remainder; (select.chain) the run/skip filter sees the marked names (rule of C05)",
	"C09": "(eof.jsonDecoder) the JSON stream decoder reports a clean end only for io.EOF, not for an input cut inside a message",
	"C11": "(drain.pipes-closed) as in C10; (passthrough.error-line) the in-process peer's final error line is written to stderr before the pipes are closed",
	"C12": "(tls.cert-compare) the expected and actual client certificate names are compared whether or not a certificate was presented; (timeout.ctx-presence) a timeout stored in the context is recognised by presence, not by value",
	"C13": "(enc-agree.grpc-message-decoder) as in C02",
	"C14": "(passthru.trace-before-exit) the bytes returned by the wrapped reader are handed to the tracer on every path, also when they arrive together with an error; (message-needs-expecting) message bytes are only consumed while a message is expected",
	"C15": "(hpack.unbounded) both header decoders accept any dynamic-table size (the tracer does not follow SETTINGS)",
	"C16": "(init.rearms) Tracer.Init installs a fresh slot on every path",
	"C17": "(trailers.add-accumulates) AddHeaders / AddTrailers add value by value and never overwrite",
	"C18": "(bin.no-shared-backing) header values built in a loop do not share a backing array across iterations; (raw-status) the hand-made gRPC status form (rules of C02)",
	"C20": "(tracer.close-after-reset) the tracer closes a decompressor only after a successful Reset",
}

func init() {
	for id, extra := range round3Explain {
		m := registry[id]
		if m == nil {
			continue
		}
		if i := strings.Index(m.Explain, " It does NOT decide"); i >= 0 {
			m.Explain = strings.TrimRight(m.Explain[:i], ". ;") + "; " + extra + "." + m.Explain[i:]
		} else {
			m.Explain = strings.TrimRight(m.Explain, ". ") + "; " + extra + "."
		}
	}
	general := " Every function declared in the files the property is anchored in is also subject to the general audits (DESIGN.md §3a): anchored-crash (no undischarged panic site), anchored-nil (optional pointers), anchored-unit (milliseconds), anchored-wrap (%w), anchored-swap (antonym-named same-typed arguments), anchored-shadow (shadowed error variables), anchored-format (no data as printf format)."
	for _, m := range registry {
		m.Explain += general
	}
}

// shareFrom: run another property's own rules and take over the obligations of
// the named clause families (the construct carries a clause of both properties).
func shareFrom(prop string, prefixes ...string) func(*Prog, *Report) {
	return func(p *Prog, r *Report) {
		m := registry[prop]
		if m == nil {
			r.Undecided("shared."+prop, "share", "property "+prop+" not registered")
			return
		}
		tmp := NewReport(prop)
		m.Run(p, tmp)
		for _, extra := range round2Rules[prop] {
			extra(p, tmp)
		}
		n := 0
		for _, o := range tmp.Obls {
			k := strings.TrimPrefix(o.Key, prop+".")
			for _, pre := range prefixes {
				if strings.HasPrefix(k, pre) {
					o.Key = k
					r.add(o)
					n++
					break
				}
			}
		}
		r.Sites += n
		r.Floor("shared-from-"+prop, n, 1)
	}
}

// ---------- C03 ----------

func everyPartKeptRule(p *Prog, r *Report) {
	fn := p.Func(pkgCC, "", "canonicalizeHeaderVals")
	if fn == nil {
		r.Undecided("canon.every-part", "R-FOLD", "canonicalizeHeaderVals not found")
		return
	}
	r.Func(funcName(fn))
	r.Sites++
	var app ssa.Instruction
	eachInstr(fn, func(in ssa.Instruction) {
		if c, ok := in.(*ssa.Call); ok {
			if b, isB := c.Call.Value.(*ssa.Builtin); isB && b.Name() == "append" {
				app = in
			}
		}
	})
	if app == nil {
		r.Fail("canon.every-part", "R-FOLD", p.Pos(fn.Pos()), "canonicalizeHeaderVals no longer appends the parts")
		return
	}
	// innermost loop containing the append: its header is the nearest dominator from which the append's block is reachable again
	var hdr *ssa.BasicBlock
	for b := app.Block(); b != nil; b = b.Idom() {
		back := false
		for _, pr := range b.Preds {
			if dominatesBlock(b, pr) {
				back = true
			}
		}
		if back {
			hdr = b
			break
		}
	}
	if hdr == nil {
		r.Fail("canon.every-part", "R-FOLD", p.InstrPos(app), "the append of a part is not inside a loop")
		return
	}
	var body *ssa.BasicBlock
	for _, s := range hdr.Succs {
		if dominatesBlock(hdr, s) && s != hdr && (dominatesBlock(s, app.Block()) || s == app.Block()) {
			body = s
		}
	}
	ok := body != nil && allPathsPassBetween(body, hdr, func(in ssa.Instruction) bool { return in == app })
	r.Check(ok, "canon.every-part", "R-FOLD", p.InstrPos(app), "every iteration over the parts of a value appends the part", "canonicalizeHeaderVals has a path through one iteration of the part loop that appends nothing: an element (e.g. an empty one) of a repeated header is dropped on both sides, so a missing value is not noticed")
}

func countAlwaysComparedRule(p *Prog, r *Report) {
	fn := p.Func(pkgCC, "", "checkPayloads")
	if fn == nil {
		r.Undecided("payload-count.always-compared", "R-MUSTCALL", "checkPayloads not found")
		return
	}
	r.Func(funcName(fn))
	r.Sites++
	isCmp := func(in ssa.Instruction) bool {
		b, ok := in.(*ssa.BinOp)
		if !ok || (b.Op != token.NEQ && b.Op != token.EQL) {
			return false
		}
		x, ok1 := lenArg(b.X)
		y, ok2 := lenArg(b.Y)
		if !ok1 || !ok2 {
			return false
		}
		px, py := canon(x), canon(y)
		return (px == ssa.Value(fn.Params[0]) && py == ssa.Value(fn.Params[1])) || (px == ssa.Value(fn.Params[1]) && py == ssa.Value(fn.Params[0]))
	}
	ok, exit := entryMustPass(fn, isCmp)
	pos := p.Pos(fn.Pos())
	if exit != nil {
		pos = p.InstrPos(exit)
	}
	r.Check(ok, "payload-count.always-compared", "R-MUSTCALL", pos, "len(actual) is compared with len(expected) on every path", "checkPayloads can return without comparing the number of payloads (e.g. when none is expected): surplus response messages are not flagged")
}

// ---------- C05 / C07: the grpc-go peers' support table ----------

func grpcPeerSupportRule(p *Prog, r *Report) {
	fn := p.Func(pkgCC, "testCaseLibrary", "filterGRPCImplTestCases")
	if fn == nil {
		r.Undecided("grpc-peer-support", "R-REACH", "filterGRPCImplTestCases not found")
		return
	}
	r.Func(funcName(fn))
	var keep ssa.Instruction
	eachInstr(fn, func(in ssa.Instruction) {
		if c, ok := in.(*ssa.Call); ok {
			if b, isB := c.Call.Value.(*ssa.Builtin); isB && b.Name() == "append" {
				keep = in
			}
		}
	})
	if keep == nil {
		r.Fail("grpc-peer-support", "R-REACH", p.Pos(fn.Pos()), "the append that keeps a permutation was not found")
		return
	}
	e := &boolEval{key: genericKey}
	q := "ClientCompatRequest."
	ev := func(name string) string { return itoa(enumVal(p, name)) }
	protoGRPC, protoWeb, protoConnect := q+"Protocol=="+ev("Protocol_PROTOCOL_GRPC"), q+"Protocol=="+ev("Protocol_PROTOCOL_GRPC_WEB"), q+"Protocol=="+ev("Protocol_PROTOCOL_CONNECT")
	v1, v2 := q+"HttpVersion=="+ev("HTTPVersion_HTTP_VERSION_1"), q+"HttpVersion=="+ev("HTTPVersion_HTTP_VERSION_2")
	codecProto := q + "Codec==" + ev("Codec_CODEC_PROTO")
	compID, compGzip := q+"Compression=="+ev("Compression_COMPRESSION_IDENTITY"), q+"Compression=="+ev("Compression_COMPRESSION_GZIP")
	noTLS := "len(" + q + "ServerTlsCert)==0"
	noRawReq := "nil(" + q + "RawRequest)"
	rawResp := "hasRawResponse(" + q + "RequestMessages)"
	cl, sv := "$clientIsGRPCImpl", "$serverIsGRPCImpl"
	seen := e.keysSeen(fn)
	var missing []string
	for _, k := range []string{protoGRPC, protoWeb, protoConnect, v1, v2, codecProto, compID, compGzip, noTLS, noRawReq, rawResp, cl, sv} {
		if seen[k] == 0 {
			missing = append(missing, k)
		}
	}
	r.Sites++
	r.Check(len(missing) == 0, "grpc-peer-support.atoms", "R-REACH", p.Pos(fn.Pos()), "the filter branches on all 13 expected atoms", fmt.Sprintf("filterGRPCImplTestCases no longer branches on %v: the support table cannot be decided", missing))
	if len(missing) > 0 {
		return
	}
	// a fully supported gRPC / HTTP-2 case for a given peer constellation
	base := func(client, server bool) sigma {
		return sigma{cl: client, sv: server, protoGRPC: true, protoWeb: false, protoConnect: false, v1: false, v2: true, codecProto: true, compID: true, compGzip: false, noTLS: true, noRawReq: true, rawResp: false}
	}
	with := func(s sigma, kv ...any) sigma {
		out := sigma{}
		for k, v := range s {
			out[k] = v
		}
		for i := 0; i+1 < len(kv); i += 2 {
			out[kv[i].(string)] = kv[i+1].(bool)
		}
		return out
	}
	type tc struct {
		name  string
		s     sigma
		reach bool
	}
	var cases []tc
	for _, peers := range [][2]bool{{true, false}, {false, true}, {true, true}} {
		b := base(peers[0], peers[1])
		tag := fmt.Sprintf("client=%v,server=%v", peers[0], peers[1])
		cases = append(cases,
			tc{"supported.grpc-h2." + tag, b, true},
			tc{"supported.gzip." + tag, with(b, compID, false, compGzip, true), true},
			tc{"unsupported.connect." + tag, with(b, protoGRPC, false, protoConnect, true), false},
			tc{"unsupported.codec." + tag, with(b, codecProto, false), false},
			tc{"unsupported.compression." + tag, with(b, compID, false, compGzip, false), false},
			tc{"unsupported.tls." + tag, with(b, noTLS, false), false},
			tc{"unsupported.grpc-not-h2." + tag, with(b, v2, false, v1, true), false},
		)
	}
	cases = append(cases,
		tc{"supported.web-h1.server-only", with(base(false, true), protoGRPC, false, protoWeb, true, v2, false, v1, true), true},
		tc{"unsupported.web.client", with(base(true, false), protoGRPC, false, protoWeb, true), false},
		tc{"unsupported.raw-request.client", with(base(true, false), noRawReq, false), false},
		tc{"supported.raw-request.server-only", with(base(false, true), noRawReq, false), true},
		tc{"unsupported.raw-response.server", with(base(false, true), rawResp, true), false},
		tc{"supported.raw-response.client-only", with(base(true, false), rawResp, true), true},
	)
	for _, c := range cases {
		r.Sites++
		got := e.reachableUnder(fn, keep, c.s)
		if c.reach {
			r.Check(got, "grpc-peer-support."+c.name, "R-REACH", p.InstrPos(keep), "kept under "+sigmaString(c.s), "a permutation the grpc-go peers support ("+c.name+") is filtered out: it would never be run against them")
		} else {
			r.Check(!got, "grpc-peer-support."+c.name, "R-REACH", p.InstrPos(keep), "not kept under "+sigmaString(c.s), "a permutation the grpc-go peers do NOT support ("+c.name+": "+sigmaString(c.s)+") is kept: it would be issued to a peer that cannot run it and fail (or be an unlisted failure)")
		}
	}
}

// ---------- C06 ----------

func deprecationsReadOnlyRule(p *Prog, r *Report) {
	fn := p.Func(pkgCC, "", "checkForDeprecations")
	if fn == nil {
		r.Undecided("deprecations.read-only", "R-NOFLOW", "checkForDeprecations not found")
		return
	}
	r.Func(funcName(fn))
	r.Sites++
	bad := ""
	for _, f := range withClosures(fn) {
		eachInstr(f, func(in ssa.Instruction) {
			switch x := in.(type) {
			case *ssa.Store:
				if _, isAlloc := x.Addr.(*ssa.Alloc); isAlloc {
					return // a local variable
				}
				if ia, isIA := x.Addr.(*ssa.IndexAddr); isIA {
					if _, isAlloc := ia.X.(*ssa.Alloc); isAlloc {
						return // an element of a local array (variadic argument list)
					}
				}
				bad += " store at " + p.InstrPos(in) + " (" + path(x.Addr) + ");"
			case *ssa.MapUpdate:
				bad += " map update at " + p.InstrPos(in) + ";"
			}
		})
	}
	r.Check(bad == "", "deprecations.read-only", "R-NOFLOW", p.Pos(fn.Pos()), "no store through the configuration", "checkForDeprecations modifies the configuration it is only meant to warn about:"+bad+" a list emptied here is later treated as omitted and defaulted, so the resolved set is no longer features ∪ include − exclude")
}

// ---------- C07 ----------

func markerPrefixRule(p *Prog, r *Report) {
	fn := p.Func(pkgCC, "", "addGRPCMarkerToName")
	if fn == nil {
		r.Undecided("marker.prefix", "R-WIRE", "addGRPCMarkerToName not found")
		return
	}
	r.Func(funcName(fn))
	r.Sites++
	ok := false
	for _, ret := range returnsOf(fn) {
		for v := range operandClosure(ret.Results[0]) {
			if c, isC := v.(*ssa.Call); isC && isCallToNamed(&c.Call, "strings", "", "TrimSuffix") &&
				canon(c.Call.Args[0]) == ssa.Value(fn.Params[0]) && canon(c.Call.Args[1]) == ssa.Value(fn.Params[1]) {
				ok = true
			}
		}
	}
	r.Check(ok, "marker.prefix", "R-WIRE", p.Pos(fn.Pos()), "prefix = strings.TrimSuffix(fullName, simpleName)", "addGRPCMarkerToName does not split the full name at its simpleName SUFFIX: when the simple name also occurs earlier (e.g. inside the suite name) the axis components are lost and the marked names collide")
}

// ---------- C08 ----------

func trieAddRule(p *Prog, r *Report) {
	fn := p.Func(pkgCC, "testTrie", "add")
	if fn == nil {
		r.Undecided("trie.add", "R-MUSTCALL", "testTrie.add not found")
		return
	}
	r.Func(funcName(fn))
	present := p.Field(pkgCC, "testTrie", "present")
	isEmptyAtom := func(a Atom) (bool, bool) { // (is the len(components)==0 test, its truth)
		if a.Op != token.EQL && a.Op != token.NEQ {
			return false, false
		}
		x, isLen := lenArg(a.X)
		z, isZ := constInt(a.Y)
		if !isLen || !isZ || z != 0 || canon(x) != ssa.Value(fn.Params[1]) {
			return false, false
		}
		return true, a.Op == token.EQL
	}
	r.Sites += 2
	okPresent := false
	for _, st := range storesToField([]*ssa.Function{fn}, present) {
		if b, isC := constBool(st.Val); !isC || !b {
			continue
		}
		// on the receiver itself, guarded by nothing but len(components) == 0
		if canon(st.Addr.X) != ssa.Value(fn.Params[0]) {
			continue
		}
		only := true
		has := false
		for _, a := range atomsAt(st.Instr.Block()) {
			if m, t := isEmptyAtom(a); m && t {
				has = true
			} else {
				only = false
			}
		}
		if has && only {
			okPresent = true
		}
	}
	r.Check(okPresent, "trie.add.present", "R-GUARD", p.Pos(fn.Pos()), "tt.present = true on the len(components) == 0 edge, unconditionally", "testTrie.add does not mark the node of a pattern's last component present on every path (e.g. only when the node is newly created): a pattern that is a prefix of an earlier one is silently dropped and never reported as unmatched")
	// on the non-empty edge every path recurses
	rec := findInstrs(fn, isCallObj(funcObj(fn)))
	okRec := len(rec) == 1
	if okRec {
		for _, ret := range returnsOf(fn) {
			nonEmpty := hasAtom(atomsAt(ret.Block()), func(a Atom) bool { m, t := isEmptyAtom(a); return m && !t })
			if nonEmpty && !precededBy(ret, func(in ssa.Instruction) bool { return in == rec[0] }) {
				okRec = false
			}
		}
	}
	r.Check(okRec, "trie.add.recurse", "R-MUSTCALL", p.Pos(fn.Pos()), "every non-empty remainder is added to the child", "testTrie.add can return for a non-empty component list without recursing into the child")
}

// ---------- C09 ----------

func jsonDecoderEOFRule(p *Prog, r *Report) {
	fn := p.Func("internal", "jsonDecoder", "DecodeNext")
	if fn == nil {
		r.Undecided("eof.jsonDecoder", "R-GUARD", "jsonDecoder.DecodeNext not found")
		return
	}
	r.Func(funcName(fn))
	r.Sites++
	isEOFGlobal := func(v ssa.Value, name string) bool {
		u, ok := canon(v).(*ssa.UnOp)
		if !ok {
			return false
		}
		g, ok := u.X.(*ssa.Global)
		return ok && g.Name() == name && g.Pkg != nil && g.Pkg.Pkg.Path() == "io"
	}
	isIs := func(name string) func(Atom) bool {
		return func(a Atom) bool {
			m, v := boolTestOn(a, isCallResult(func(c *ssa.CallCommon) bool {
				return isCallToNamed(c, "errors", "", "Is") && isEOFGlobal(c.Args[1], name)
			}))
			return m && v
		}
	}
	bad := ""
	nClean := 0
	for _, ret := range returnsOf(fn) {
		for _, l := range phiLeaves(ret.Results[0]) {
			v := canon(l.Val)
			if isNilConst(v) {
				continue
			}
			// wrapped errors (fmt.Errorf) are not a clean end; a raw return of the decode error or io.EOF is
			if c, isCall := v.(*ssa.Call); isCall && isCallToNamed(&c.Call, "fmt", "", "Errorf") {
				continue
			}
			nClean++
			facts := append(append([]Atom{}, atomsAt(ret.Block())...), l.Facts...)
			if !hasAtom(facts, isIs("EOF")) {
				bad += " " + p.InstrPos(ret) + " returns " + path(v) + " without being dominated by errors.Is(err, io.EOF);"
			}
		}
	}
	// and nothing maps ErrUnexpectedEOF to a clean end
	eachInstr(fn, func(in ssa.Instruction) {
		if c := callCommon(in); c != nil && isCallToNamed(c, "errors", "", "Is") && isEOFGlobal(c.Args[1], "ErrUnexpectedEOF") {
			bad += " tests for io.ErrUnexpectedEOF at " + p.InstrPos(in) + ";"
		}
	})
	r.Check(bad == "" && nClean >= 1, "eof.jsonDecoder", "R-GUARD", p.Pos(fn.Pos()), "the unwrapped error is returned only on the errors.Is(err, io.EOF) edge", "jsonDecoder.DecodeNext reports a clean end of input for more than io.EOF:"+bad+" a JSON stream cut inside a message would end the peer's loop normally")
}

// ---------- C11 ----------

func stderrLineBeforeCloseRule(p *Prog, r *Report) {
	top := p.Func(pkgCC, "", "runInProcess")
	if top == nil {
		r.Undecided("passthrough.error-line", "R-ORDER", "runInProcess not found")
		return
	}
	r.Func(funcName(top))
	r.Sites++
	// the goroutine body: the closure that calls impl (a call through a free variable / parameter of func type with 5 args)
	var body *ssa.Function
	for _, fn := range withClosures(top) {
		eachInstr(fn, func(in ssa.Instruction) {
			c := callCommon(in)
			if c != nil && !c.IsInvoke() && c.StaticCallee() == nil && len(c.Args) == 5 {
				if _, isB := c.Value.(*ssa.Builtin); !isB {
					body = fn
				}
			}
		})
	}
	if body == nil {
		r.Undecided("passthrough.error-line", "R-ORDER", "the goroutine that runs the in-process peer was not found")
		return
	}
	// the Fprintf of the error is in the goroutine body itself, i.e. executes before its deferred functions (which close the pipes)
	inBody := len(findInstrs(body, func(in ssa.Instruction) bool {
		c := callCommon(in)
		return c != nil && isCallToNamed(c, "fmt", "", "Fprintf") && in.Parent() == body
	})) > 0
	inDefer := false
	for _, fn := range withClosures(body) {
		if fn == body {
			continue
		}
		if len(findInstrs(fn, func(in ssa.Instruction) bool {
			c := callCommon(in)
			return c != nil && isCallToNamed(c, "fmt", "", "Fprintf")
		})) > 0 {
			inDefer = true
		}
	}
	r.Check(inBody && !inDefer, "passthrough.error-line", "R-ORDER", p.Pos(body.Pos()), "the peer's error is printed by the goroutine body, before its deferred clean-up closes the pipes", "the in-process peer's final error line is printed from a deferred function (or not at all): deferred functions run last-in first-out, so it can be written after stderr was closed and the reference server's start-up or fatal error is not passed through")
}

// ---------- C12 ----------

func certCompareUnconditionalRule(p *Prog, r *Report) {
	fn := p.Func(pkgRS, "", "checkTLS")
	if fn == nil {
		r.Undecided("tls.cert-compare", "R-GUARD", "checkTLS not found")
		return
	}
	r.Func(funcName(fn))
	r.Sites++
	found := false
	bad := ""
	eachInstr(fn, func(in ssa.Instruction) {
		b, ok := in.(*ssa.BinOp)
		if !ok || (b.Op != token.NEQ && b.Op != token.EQL) || !isStringType(b.X.Type()) {
			return
		}
		// one side is the result of getHeader(..., "X-Expect-Client-Cert", ...)
		isExpected := func(v ssa.Value) bool {
			ex, ok := canon(v).(*ssa.Extract)
			if !ok {
				return false
			}
			c, ok := ex.Tuple.(*ssa.Call)
			if !ok || len(c.Call.Args) < 2 {
				return false
			}
			s, isS := constString(c.Call.Args[1])
			return isS && strings.EqualFold(s, "x-expect-client-cert")
		}
		if !isExpected(b.X) && !isExpected(b.Y) {
			return
		}
		found = true
		for _, a := range atomsAt(in.Block()) {
			if k, _, ok := genericKey(a); ok && strings.Contains(k, "PeerCertificates") {
				bad += " the comparison at " + p.InstrPos(in) + " is only made under " + a.String() + ";"
			}
		}
	})
	r.Check(found && bad == "", "tls.cert-compare", "R-GUARD", p.Pos(fn.Pos()), "the expected client-certificate name is compared with the actual one whether or not a certificate was presented", "checkTLS does not compare the expected client certificate on every TLS request:"+bad+" a client that presents no certificate although one is expected is not flagged")
}

func ctxTimeoutPresenceRule(p *Prog, r *Report) {
	fn := p.Func(pkgRS, "", "timeoutFromContext")
	if fn == nil {
		r.Undecided("timeout.ctx-presence", "R-GUARD", "timeoutFromContext not found")
		return
	}
	r.Func(funcName(fn))
	r.Sites++
	var ta *ssa.TypeAssert
	eachInstr(fn, func(in ssa.Instruction) {
		if x, ok := in.(*ssa.TypeAssert); ok && x.CommaOk {
			ta = x
		}
	})
	if ta == nil {
		r.Fail("timeout.ctx-presence", "R-GUARD", p.Pos(fn.Pos()), "timeoutFromContext no longer reads the stored timeout with a comma-ok assertion")
		return
	}
	ok := false
	bad := ""
	for _, ret := range returnsOf(fn) {
		ex, isEx := canon(ret.Results[0]).(*ssa.Extract)
		if !isEx || ex.Tuple != ssa.Value(ta) {
			continue
		}
		// returned under the assertion's ok and nothing that looks at the value
		for _, a := range atomsAt(ret.Block()) {
			if m, v := boolTestOn(a, func(x ssa.Value) bool {
				e, ok := canon(x).(*ssa.Extract)
				return ok && e.Tuple == ssa.Value(ta) && e.Index == 1
			}); m && v {
				ok = true
				continue
			}
			bad += " additionally guarded by " + a.String() + ";"
		}
	}
	r.Check(ok && bad == "", "timeout.ctx-presence", "R-GUARD", p.Pos(fn.Pos()), "the stored timeout is returned exactly when the assertion's ok is true", "timeoutFromContext does not return the stored timeout by presence alone:"+bad+" an accepted timeout of 0 is treated as absent and is not echoed in the request info")
}

// ---------- C13 / C02 ----------

func grpcMessageDecoderRule(p *Prog, r *Report) {
	n := 0
	bad := ""
	for _, fn := range p.RepoFuncs() {
		if pkgOfFunc(fn) != modPath+"/"+pkgRC {
			continue
		}
		eachInstr(fn, func(in ssa.Instruction) {
			c := callCommon(in)
			if c == nil || c.StaticCallee() == nil || c.StaticCallee().Pkg == nil || c.StaticCallee().Pkg.Pkg.Path() != "net/url" {
				return
			}
			switch c.StaticCallee().Name() {
			case "PathUnescape":
				n++
			case "QueryUnescape":
				bad += " url.QueryUnescape at " + p.InstrPos(in) + " in " + shortFn(fn) + ";"
			}
		})
	}
	r.Sites += n
	r.Check(n >= 1 && bad == "", "enc-agree.grpc-message-decoder", "R-TABLE-AGREE", "-", "grpc-message is decoded with url.PathUnescape (the inverse of the percent-encoding)", "the reference client decodes a percent-encoded value with something other than url.PathUnescape:"+bad+" QueryUnescape also turns '+' into a space, so a correct grpc-message containing '+' is reported as disagreeing with grpc-status-details-bin")
}

// ---------- C14 ----------

func traceBeforeExitRule(p *Prog, r *Report) {
	for _, w := range []struct{ recv, name, inner string }{{"tracingReader", "Read", "Read"}, {"tracingResponseWriter", "Write", "Write"}} {
		fn := p.Func(pkgTr, w.recv, w.name)
		if fn == nil {
			r.Undecided("passthru.trace-before-exit."+w.recv, "R-MUSTCALL", w.recv+"."+w.name+" not found")
			continue
		}
		r.Func(funcName(fn))
		r.Sites++
		var inner ssa.Instruction
		eachInstr(fn, func(in ssa.Instruction) {
			if c := callCommon(in); c != nil && c.IsInvoke() && c.Method.Name() == w.inner {
				inner = in
			}
		})
		isTrace := func(in ssa.Instruction) bool {
			c := callCommon(in)
			return c != nil && c.StaticCallee() != nil && c.StaticCallee().Name() == "trace" && pkgOfFunc(c.StaticCallee()) == trPath
		}
		if inner == nil || len(findInstrs(fn, isTrace)) == 0 {
			r.Fail("passthru.trace-before-exit."+w.recv, "R-MUSTCALL", p.Pos(fn.Pos()), "inner "+w.inner+" or the tracer call was not found in "+w.recv+"."+w.name)
			continue
		}
		ok, exit := mustPass(inner, isTrace)
		if !ok {
			// the writer traces before the inner call: then every path TO the inner call passed the trace
			ok = precededBy(inner, isTrace)
		}
		pos := p.InstrPos(inner)
		if !ok && exit != nil {
			pos = p.InstrPos(exit)
		}
		r.Check(ok, "passthru.trace-before-exit."+w.recv, "R-MUSTCALL", pos, "the bytes of every call are handed to the tracer on every path", w.recv+"."+w.name+" can return without handing the bytes of this call to the tracer (e.g. when they arrive together with a non-EOF error): the byte count of the partial event and the message sequence then depend on how the transport splits its reads")
	}
}

func messageNeedsExpectingRule(p *Prog, r *Report) {
	fn := p.Func(pkgTr, "dataTracer", "trace")
	if fn == nil {
		r.Undecided("message-needs-expecting", "R-GUARD", "dataTracer.trace not found")
		return
	}
	r.Func(funcName(fn))
	r.Sites++
	exp := p.Field(pkgTr, "dataTracer", "expecting")
	n := 0
	bad := ""
	eachInstr(fn, func(in ssa.Instruction) {
		c := callCommon(in)
		if c == nil || c.StaticCallee() == nil || c.StaticCallee().Name() != "traceMessageLocked" {
			return
		}
		n++
		if !guardedBy(in, func(a Atom) bool {
			if a.Op != token.NEQ && a.Op != token.GTR {
				return false
			}
			z, isZ := constInt(a.Y)
			return isZ && z == 0 && loadedField(canon(a.X)) == exp
		}) {
			bad += " " + p.InstrPos(in) + " (facts: " + atomsString(atomsAt(in.Block())) + ");"
		}
	})
	r.Check(n >= 1 && bad == "", "message-needs-expecting", "R-GUARD", p.Pos(fn.Pos()), "traceMessageLocked is only called on the expecting != 0 edge", "dataTracer.trace hands bytes to traceMessageLocked without a message being expected:"+bad+" after a zero-length envelope a second, spurious event is emitted and all later message indices shift, depending on how the stream is chunked")
}

// ---------- C15 ----------

func hpackUnboundedRule(p *Prog, r *Report) {
	n := 0
	bad := ""
	for _, fn := range tracerFuncs(p) {
		eachInstr(fn, func(in ssa.Instruction) {
			c := callCommon(in)
			if c == nil || c.StaticCallee() == nil || c.StaticCallee().Name() != "NewDecoder" || c.StaticCallee().Pkg == nil || !strings.HasSuffix(c.StaticCallee().Pkg.Pkg.Path(), "http2/hpack") {
				return
			}
			n++
			r.Sites++
			if k, ok := constInt(c.Args[0]); !ok || k != 4294967295 {
				bad += " " + p.InstrPos(in) + " (max table size " + path(c.Args[0]) + ");"
			}
		})
	}
	r.Check(n >= 2 && bad == "", "hpack.unbounded", "R-SINGLE-SOURCE", "-", "both hpack decoders are created with the maximal dynamic-table size", "an hpack decoder of the connection tracer is created with a bounded dynamic-table size:"+bad+" the tracer does not follow SETTINGS, so a peer that negotiates a larger table makes the decoder fail, the direction is marked broken and no later stream of the connection is traced")
}

// ---------- C16 ----------

func initRearmsRule(p *Prog, r *Report) {
	fn := p.Func(pkgTr, "Tracer", "Init")
	if fn == nil {
		r.Undecided("init.rearms", "R-MUSTCALL", "Tracer.Init not found")
		return
	}
	r.Func(funcName(fn))
	r.Sites++
	traces := p.Field(pkgTr, "Tracer", "traces")
	isInstall := func(in ssa.Instruction) bool {
		mu, ok := in.(*ssa.MapUpdate)
		if !ok || loadedField(canon(mu.Map)) != traces {
			return false
		}
		_, isAlloc := canon(mu.Value).(*ssa.Alloc)
		return isAlloc
	}
	bad := ""
	for _, ret := range returnsOf(fn) {
		nilRecv := hasAtom(atomsAt(ret.Block()), func(a Atom) bool {
			m, isNil := nilTestOn(a, func(x ssa.Value) bool { return canon(x) == ssa.Value(fn.Params[0]) })
			return m && isNil
		})
		if nilRecv {
			continue
		}
		if !precededBy(ret, isInstall) {
			bad += " " + p.InstrPos(ret) + ";"
		}
	}
	r.Check(bad == "" && len(findInstrs(fn, isInstall)) >= 1, "init.rearms", "R-MUSTCALL", p.Pos(fn.Pos()), "every return of Init (for a non-nil tracer) has installed a fresh slot", "Tracer.Init can return without installing a fresh slot:"+bad+" a slot that was completed and not cleared keeps handing out the old trace, and the next completion is dropped as already completed")
}

// ---------- C17 ----------

func addAccumulatesRule(p *Prog, r *Report) {
	for _, name := range []string{"AddHeaders", "AddTrailers"} {
		fn := p.Func("internal", "", name)
		if fn == nil {
			r.Undecided("trailers.add-accumulates."+name, "R-WIRE", name+" not found")
			continue
		}
		r.Func(funcName(fn))
		r.Sites++
		adds, overwrites := 0, 0
		eachInstr(fn, func(in ssa.Instruction) {
			if _, ok := in.(*ssa.MapUpdate); ok {
				overwrites++
			}
			c := callCommon(in)
			if c == nil || c.StaticCallee() == nil || c.StaticCallee().Signature.Recv() == nil {
				return
			}
			switch c.StaticCallee().Name() {
			case "Add":
				adds++
			case "Set", "Del":
				overwrites++
			}
		})
		r.Check(adds >= 1 && overwrites == 0, "trailers.add-accumulates."+name, "R-WIRE", p.Pos(fn.Pos()), "every value is added with Header.Add; nothing is assigned or Set", "internal."+name+" overwrites instead of adding: a name repeated in separate entries keeps only its last entry's values")
	}
}

// ---------- C18 ----------

func noSharedBackingRule(p *Prog, r *Report) {
	valF := p.Field(pkgGen, "Header", "Value")
	n := 0
	for _, fn := range p.RepoFuncs() {
		pk := pkgOfFunc(fn)
		if pk != modPath+"/"+pkgGU && pk != internalPath {
			continue
		}
		for _, st := range storesToField([]*ssa.Function{fn}, valF) {
			// only stores inside a loop
			inLoop := false
			for _, s := range st.Instr.Block().Succs {
				if reachable(s, st.Instr.Block()) {
					inLoop = true
				}
			}
			if !inLoop {
				continue
			}
			n++
			r.Sites++
			bad := ""
			for v := range operandClosure(st.Val) {
				phi, ok := v.(*ssa.Phi)
				if !ok {
					continue
				}
				if _, isSlice := phi.Type().Underlying().(*types.Slice); !isSlice {
					continue
				}
				// a loop-carried slice: the phi sits in a block that can reach itself and one incoming edge comes from outside that cycle
				if reachable(phi.Block().Succs[0], phi.Block()) || (len(phi.Block().Succs) > 1 && reachable(phi.Block().Succs[1], phi.Block())) {
					bad += " the stored slice is derived from the loop-carried " + path(phi) + ";"
				}
			}
			r.Check(bad == "", fmt.Sprintf("bin.no-shared-backing.%s#%d", shortFn(fn), n), "R-NOFLOW", p.InstrPos(st.Instr), "the values stored in a header built inside the loop are not derived from a slice carried across iterations",
				"in "+shortFn(fn)+" the Value of a header built in a loop shares its backing array with other iterations:"+bad+" a later key's values overwrite an earlier header's")
		}
	}
	r.Extra["header_value_stores_in_loops"] = n
}

// ---------- C20 ----------

func closeOnlyAfterResetRule(p *Prog, r *Report) {
	n := 0
	bad := ""
	for _, fn := range tracerFuncs(p) {
		eachInstr(fn, func(in ssa.Instruction) {
			c := callCommon(in)
			if c == nil || !c.IsInvoke() || c.Method.Name() != "Close" {
				return
			}
			nt, ok := c.Value.Type().(*types.Named)
			if !ok || nt.Obj().Name() != "Decompressor" {
				return
			}
			n++
			r.Sites++
			if !guardedBy(in, func(a Atom) bool {
				m, isNil := nilTestOn(a, isCallResult(func(cc *ssa.CallCommon) bool { return cc.IsInvoke() && cc.Method.Name() == "Reset" }))
				return m && isNil
			}) {
				bad += " " + p.InstrPos(in) + " in " + shortFn(fn) + ";"
			}
		})
	}
	r.Extra["tracer_decompressor_close_calls"] = n
	r.Check(bad == "", "tracer.close-after-reset", "R-GUARD", "-", fmt.Sprintf("%d Close call(s) on a decompressor in the tracer, each on the Reset(...) == nil edge", n), "the tracer closes a decompressor that was not successfully Reset:"+bad+" a gzip reader whose Reset failed on a malformed header has no inner reader and panics in Close")
}
