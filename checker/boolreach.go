package main

// Guard-formula reasoning over opaque boolean atoms (A-DOM for disjunctive
// and nested guards). A classifier maps branch conditions of one function to
// atom keys ("ver==2", "tls", ...). Given a partial truth assignment σ of the
// keys, reachableUnder decides whether an instruction is reachable when every
// branch on a σ-decided condition follows only its consistent edge and every
// other branch may go both ways. Unreachability under σ is therefore a sound
// proof that no execution satisfying σ reaches the instruction. Atoms are
// never interpreted: no values are computed.

import (
	"go/token"
	"go/types"
	"strings"

	"golang.org/x/tools/go/ssa"
)

type sigma map[string]bool

// atomKeyFn classifies a normalised comparison/boolean value: returns the key
// and whether the atom as given is the *negation* of the key.
type atomKeyFn func(a Atom) (key string, neg bool, ok bool)

type boolEval struct {
	key atomKeyFn
}

// evalCond evaluates a boolean SSA value under σ: (value, known).
func (e *boolEval) evalCond(v ssa.Value, s sigma, depth int) (bool, bool) {
	if depth > 8 {
		return false, false
	}
	if b, ok := constBool(v); ok {
		return b, true
	}
	a := atomOf(v, true)
	if k, neg, ok := e.key(a); ok {
		if val, has := s[k]; has {
			return val != neg, true
		}
		return false, false
	}
	switch x := v.(type) {
	case *ssa.UnOp:
		if x.Op == token.NOT {
			val, known := e.evalCond(x.X, s, depth+1)
			return !val, known
		}
		if x.Op == token.MUL {
			// load of a local bool cell: evaluate the reaching stores
			if al, ok := x.X.(*ssa.Alloc); ok {
				vals := reachingStores(al, x)
				res, set := false, false
				for _, sv := range vals {
					if sv == nil {
						return false, false
					}
					val, known := e.evalCond(sv, s, depth+1)
					if !known {
						return false, false
					}
					if set && val != res {
						return false, false
					}
					res, set = val, true
				}
				return res, set
			}
		}
	case *ssa.Phi:
		// short-circuit boolean: leaves whose path facts are consistent with σ
		res, set := false, false
		for _, l := range phiLeaves(x) {
			active := true
			for _, f := range l.Facts {
				if k, neg, ok := e.key(f); ok {
					if val, has := s[k]; has && (val != neg) == false {
						active = false
					}
				} else if f.Op == token.ILLEGAL {
					// a nested boolean (phi / call) as fact
					if val, known := e.evalCond(f.X, s, depth+1); known && val == f.Neg {
						active = false
					}
				}
			}
			if !active {
				continue
			}
			val, known := e.evalCond(l.Val, s, depth+1)
			if !known {
				return false, false
			}
			if set && val != res {
				return false, false
			}
			res, set = val, true
		}
		return res, set
	}
	return false, false
}

// succsUnder: successors of b that are consistent with σ.
func (e *boolEval) succsUnder(b *ssa.BasicBlock, s sigma) []*ssa.BasicBlock {
	if len(b.Instrs) > 0 {
		if iff, ok := b.Instrs[len(b.Instrs)-1].(*ssa.If); ok {
			if val, known := e.evalCond(iff.Cond, s, 0); known {
				if val {
					return b.Succs[:1]
				}
				return b.Succs[1:2]
			}
		}
	}
	return b.Succs
}

// reachableUnder: is target reachable from fn's entry under σ?
func (e *boolEval) reachableUnder(fn *ssa.Function, target ssa.Instruction, s sigma) bool {
	tb := target.Block()
	seen := map[*ssa.BasicBlock]bool{fn.Blocks[0]: true}
	work := []*ssa.BasicBlock{fn.Blocks[0]}
	for len(work) > 0 {
		b := work[len(work)-1]
		work = work[:len(work)-1]
		if b == tb {
			return true
		}
		for _, nx := range e.succsUnder(b, s) {
			if !seen[nx] {
				seen[nx] = true
				work = append(work, nx)
			}
		}
	}
	return false
}

// keysSeen lists the atom keys that occur as branch conditions in fn (used
// for instance floors: a classifier that recognises nothing proves nothing).
func (e *boolEval) keysSeen(fn *ssa.Function) map[string]int {
	out := map[string]int{}
	var visit func(v ssa.Value, d int)
	visit = func(v ssa.Value, d int) {
		if d > 6 || v == nil {
			return
		}
		if k, _, ok := e.key(atomOf(v, true)); ok {
			out[k]++
			return
		}
		switch x := v.(type) {
		case *ssa.UnOp:
			visit(x.X, d+1)
		case *ssa.Phi:
			for _, l := range phiLeaves(x) {
				visit(l.Val, d+1)
				for _, f := range l.Facts {
					if k, _, ok := e.key(f); ok {
						out[k]++
					}
				}
			}
		}
	}
	for _, b := range fn.Blocks {
		if len(b.Instrs) == 0 {
			continue
		}
		if iff, ok := b.Instrs[len(b.Instrs)-1].(*ssa.If); ok {
			visit(iff.Cond, 0)
		}
	}
	return out
}

// genericKey renders a branch atom as a key built from typed entities only
// (struct type and field names, constant values, local slice variable names):
//
//	T.F            bool field load
//	get(T.F)       generated getter of field F
//	nil(T.F)       T.F == nil
//	T.F==c         integer/enum comparison of a field (or getter) with a constant
//	elem(T.F)==c   comparison of an element of slice field F with a constant
//	elem(v)        bool element of the local slice variable v
//	len(T.F)==0    emptiness of a slice field
//	contains(T.F,c) / only(T.F,c) / contains(v,c)   repository helper predicates
func genericKey(a Atom) (string, bool, bool) {
	switch a.Op {
	case token.ILLEGAL:
		if k, ok := boolValueKey(a.X); ok {
			return k, a.Neg, true
		}
		// a bool parameter of the function: $name
		if prm, isP := canon(a.X).(*ssa.Parameter); isP {
			if b, isB := prm.Type().Underlying().(*types.Basic); isB && b.Kind() == types.Bool {
				return "$" + prm.Name(), a.Neg, true
			}
		}
	case token.EQL, token.NEQ:
		x, y := a.X, a.Y
		if isConstVal(x) {
			x, y = y, x
		}
		neg := a.Op == token.NEQ
		if isNilConst(y) {
			if k, ok := fieldRefKey(x); ok {
				return "nil(" + k + ")", neg, true
			}
			return "", false, false
		}
		if c, ok := constInt(y); ok {
			if la, isLen := lenArg(x); isLen {
				if k, ok := fieldRefKey(la); ok {
					return "len(" + k + ")==" + itoa(c), neg, true
				}
			}
			if k, ok := fieldRefKey(x); ok {
				return k + "==" + itoa(c), neg, true
			}
			if k, ok := elemKey(x); ok {
				return k + "==" + itoa(c), neg, true
			}
		}
		if b, ok := constBool(y); ok {
			if k, ok2 := boolValueKey(x); ok2 {
				return k, neg != !b, true
			}
		}
		if s, ok := constString(y); ok && s == "" {
			if k, ok2 := fieldRefKey(x); ok2 {
				return "empty(" + k + ")", neg, true
			}
		}
		// field == parameter / field == field
		if kx, ok := fieldRefKey(x); ok {
			if prm, isP := canon(y).(*ssa.Parameter); isP {
				return kx + "==$" + prm.Name(), neg, true
			}
			if ky, ok2 := fieldRefKey(y); ok2 {
				if ky < kx {
					kx, ky = ky, kx
				}
				return kx + "==" + ky, neg, true
			}
		}
	case token.GTR, token.LSS, token.GEQ, token.LEQ:
		// len(F) compared with a constant, normalised to len(F)>c
		x, y, op := a.X, a.Y, a.Op
		if isConstVal(x) {
			x, y, op = y, x, flipOp(op)
		}
		c, ok := constInt(y)
		la, isLen := lenArg(x)
		if !ok || !isLen {
			return "", false, false
		}
		k, ok := fieldRefKey(la)
		if !ok {
			if n, ok2 := localName(la); ok2 {
				k = n
			} else {
				return "", false, false
			}
		}
		// len > c  |  len >= c (= len > c-1)  |  len < c (= !(len > c-1))  |  len <= c (= !(len > c))
		neg := false
		switch op {
		case token.GEQ:
			c--
		case token.LSS:
			c--
			neg = true
		case token.LEQ:
			neg = true
		}
		if c == 0 {
			return "len(" + k + ")==0", !neg, true
		}
		return "len(" + k + ")>" + itoa(c), neg, true
	}
	return "", false, false
}

func typeFieldName(base ssa.Value, idx int) string {
	t := base.Type()
	if pt, ok := t.Underlying().(*types.Pointer); ok {
		t = pt.Elem()
	}
	name := "?"
	if nt, ok := t.(*types.Named); ok {
		name = nt.Obj().Name()
	}
	return name + "." + fieldName(base.Type(), idx)
}

// fieldRefKey: value loaded from a struct field or returned by its getter.
func fieldRefKey(v ssa.Value) (string, bool) {
	v = canon(v)
	switch x := v.(type) {
	case *ssa.UnOp:
		if fa, ok := x.X.(*ssa.FieldAddr); ok && x.Op == token.MUL {
			return typeFieldName(fa.X, fa.Field), true
		}
	case *ssa.Field:
		return typeFieldName(x.X, x.Field), true
	case *ssa.Call:
		if f := x.Call.StaticCallee(); f != nil && len(x.Call.Args) == 1 {
			if fv := getterField(f); fv != nil && strings.HasPrefix(f.Name(), "Get") {
				t := f.Signature.Recv().Type()
				if pt, ok := t.(*types.Pointer); ok {
					t = pt.Elem()
				}
				if nt, ok := t.(*types.Named); ok {
					return "get(" + nt.Obj().Name() + "." + fv.Name() + ")", true
				}
			}
		}
	}
	return "", false
}

// elemKey: element of a slice field or of a local slice variable.
func elemKey(v ssa.Value) (string, bool) {
	v = canon(v)
	u, ok := v.(*ssa.UnOp)
	if !ok || u.Op != token.MUL {
		return "", false
	}
	ia, ok := u.X.(*ssa.IndexAddr)
	if !ok {
		return "", false
	}
	if k, ok := fieldRefKey(ia.X); ok {
		return "elem(" + k + ")", true
	}
	if n, ok := localName(ia.X); ok {
		return "elem(" + n + ")", true
	}
	return "", false
}

func localName(v ssa.Value) (string, bool) {
	switch x := canon(v).(type) {
	case *ssa.Phi:
		if x.Comment != "" {
			return x.Comment, true
		}
	case *ssa.Parameter:
		return x.Name(), true
	case *ssa.UnOp:
		if a, ok := x.X.(*ssa.Alloc); ok && a.Comment != "" {
			return a.Comment, true
		}
	}
	return "", false
}

func boolValueKey(v ssa.Value) (string, bool) {
	v = canon(v)
	if k, ok := fieldRefKey(v); ok {
		return k, true
	}
	if k, ok := elemKey(v); ok {
		return k, true
	}
	if c, ok := v.(*ssa.Call); ok {
		if f := c.Call.StaticCallee(); f != nil && len(c.Call.Args) == 2 {
			name := fnBase(f)
			if name == "contains" || name == "only" || name == "hasCodec" {
				arg := ""
				if k, ok := fieldRefKey(c.Call.Args[0]); ok {
					arg = k
				} else if n, ok := localName(c.Call.Args[0]); ok {
					arg = n
				}
				if arg != "" {
					if k, ok := constInt(c.Call.Args[1]); ok {
						return name + "(" + arg + "," + itoa(k) + ")", true
					}
					if b, ok := constBool(c.Call.Args[1]); ok {
						return name + "(" + arg + "," + map[bool]string{true: "true", false: "false"}[b] + ")", true
					}
				}
			}
		}
	}
	if c, ok := v.(*ssa.Call); ok {
		if f := c.Call.StaticCallee(); f != nil && len(c.Call.Args) == 1 && f.Signature.Recv() == nil {
			if k, ok := fieldRefKey(c.Call.Args[0]); ok && !strings.HasPrefix(f.Name(), "Get") {
				return fnBase(f) + "(" + k + ")", true
			}
		}
	}
	// a phi of bools all of whose non-constant leaves share one key (e.g. a
	// flag that is also force-set in a dead branch)
	if phi, ok := v.(*ssa.Phi); ok {
		key := ""
		for _, e := range phi.Edges {
			if _, isC := constBool(e); isC {
				continue
			}
			k, ok := boolValueKey(e)
			if !ok || (key != "" && k != key) {
				return "", false
			}
			key = k
		}
		if key != "" && phi.Comment != "&&" && phi.Comment != "||" {
			return key, true
		}
	}
	return "", false
}

func flipOp(op token.Token) token.Token {
	switch op {
	case token.LSS:
		return token.GTR
	case token.GTR:
		return token.LSS
	case token.LEQ:
		return token.GEQ
	case token.GEQ:
		return token.LEQ
	}
	return op
}
