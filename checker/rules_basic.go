package main

import (
	"fmt"
	"go/token"
	"go/types"

	"golang.org/x/tools/go/ssa"
)

// ruleLatch (R-LATCH): a one-way flag. Every write anywhere in the repository
// (Store / CompareAndSwap on an atomic.Bool field, or a plain assignment to a
// bool field) writes the constant true. Returns the number of writes seen.
func ruleLatch(p *Prog, r *Report, key string, f *types.Var) int {
	if f == nil {
		r.Undecided(key, "R-LATCH", "field not found")
		return 0
	}
	fns := p.RepoFuncs()
	n := 0
	bad := 0
	check := func(in ssa.Instruction, v ssa.Value, what string) {
		n++
		r.Sites++
		b, isConst := constBool(v)
		if !isConst || !b {
			bad++
			r.Fail(fmt.Sprintf("%s.write@%s", key, funcName(in.Parent())), "R-LATCH", p.InstrPos(in),
				fmt.Sprintf("one-way flag %s is written with %s by %s in %s; every write must store the constant true", f.Name(), path(v), what, funcName(in.Parent())))
		}
	}
	for _, in := range methodCallsOnField(fns, f, "Store") {
		c := callCommon(in)
		if len(c.Args) == 2 {
			check(in, c.Args[1], "Store")
		}
	}
	for _, in := range methodCallsOnField(fns, f, "CompareAndSwap") {
		c := callCommon(in)
		if len(c.Args) == 3 {
			check(in, c.Args[2], "CompareAndSwap")
		}
	}
	for _, in := range methodCallsOnField(fns, f, "Swap") {
		c := callCommon(in)
		if len(c.Args) == 2 {
			check(in, c.Args[1], "Swap")
		}
	}
	for _, st := range storesToField(fns, f) {
		check(st.Instr, st.Val, "assignment")
	}
	if bad == 0 {
		r.OK(key, "R-LATCH", "-", fmt.Sprintf("all %d write(s) to %s store constant true", n, f.Name()))
	}
	return n
}

// closureArgOfCall returns the function literal passed as argument #arg of
// the (first) call to callee inside fn.
func closureArgOfCall(fn *ssa.Function, match func(*ssa.CallCommon) bool, arg int) (*ssa.Function, ssa.Instruction) {
	var res *ssa.Function
	var at ssa.Instruction
	eachInstr(fn, func(in ssa.Instruction) {
		c := callCommon(in)
		if c == nil || res != nil || !match(c) {
			return
		}
		args := c.Args
		if arg >= len(args) {
			return
		}
		if mc, ok := strip(args[arg]).(*ssa.MakeClosure); ok {
			if f, ok := mc.Fn.(*ssa.Function); ok {
				res, at = f, in
			}
		} else if f, ok := strip(args[arg]).(*ssa.Function); ok {
			res, at = f, in
		}
	})
	return res, at
}

// isStoreTrueTo matches x.f.Store(true) / CompareAndSwap(_, true) on field f.
func isStoreTrueTo(f *types.Var) instrPred {
	return func(in ssa.Instruction) bool {
		c := callCommon(in)
		if c == nil || c.IsInvoke() || len(c.Args) < 2 {
			return false
		}
		callee := c.StaticCallee()
		if callee == nil || (fnBase(callee) != "Store" && fnBase(callee) != "CompareAndSwap") {
			return false
		}
		fa, ok := c.Args[0].(*ssa.FieldAddr)
		if !ok || fieldVar(fa.X.Type(), fa.Field) != f {
			return false
		}
		b, isConst := constBool(c.Args[len(c.Args)-1])
		return isConst && b
	}
}

// isCallNamed builds a predicate for calls to pkg.(recv.)name.
func isCallNamed(pkgPath, recv, name string) instrPred {
	return func(in ssa.Instruction) bool {
		return isCallToNamed(callCommon(in), pkgPath, recv, name)
	}
}

func isCallObj(obj *types.Func) instrPred {
	return func(in ssa.Instruction) bool {
		c := callCommon(in)
		return c != nil && obj != nil && calleeObj(c) == obj
	}
}

func orPred(ps ...instrPred) instrPred {
	return func(in ssa.Instruction) bool {
		for _, p := range ps {
			if p(in) {
				return true
			}
		}
		return false
	}
}

// notDeferGo restricts a predicate to plain calls (not defer/go).
func plainCall(pr instrPred) instrPred {
	return func(in ssa.Instruction) bool {
		if _, ok := in.(*ssa.Call); !ok {
			return false
		}
		return pr(in)
	}
}

// findInstrs lists the instructions of fn (no closures) satisfying pr, in
// block order.
func findInstrs(fn *ssa.Function, pr instrPred) []ssa.Instruction {
	var out []ssa.Instruction
	eachInstr(fn, func(in ssa.Instruction) {
		if pr(in) {
			out = append(out, in)
		}
	})
	return out
}

// lockRule describes one guarded field for R-LOCKED.
type lockRule struct {
	Key   string
	Field *types.Var
	Mu    string // name of the mutex field in the same object
	// Need overrides the required lock path for an access (default: <base>.<Mu>).
	Need func(a FieldAccess) string
	// Alt: function (top-level name) -> alternative lock path that must be held
	// there instead, with the reason (one symbol, one reason).
	Alt map[string][2]string
	// Exempt: function (top-level name) -> reason why no lock is needed there.
	Exempt map[string]string
	// ExemptIf: access-level exemption (e.g. initialisation before the object
	// is shared with another goroutine), with its reason.
	ExemptIf     func(a FieldAccess) bool
	ExemptReason string
}

// ruleLocked (R-LOCKED): every load/store of the field happens with the
// required mutex in the must-held set, or on an object freshly allocated in
// the same function (constructor), or under the table-listed alternative.
// Returns the number of accesses examined.
func ruleLocked(p *Prog, r *Report, li *LockInfo, lr lockRule) int {
	key, f := lr.Key, lr.Field
	if f == nil {
		r.Undecided(key, "R-LOCKED", "guarded field not found")
		return 0
	}
	acc := fieldAccesses(li.fns, f)
	bad := 0
	used := map[string]bool{}
	for _, a := range acc {
		r.Sites++
		r.Func(funcName(a.Fn))
		if _, fresh := a.Base.(*ssa.Alloc); fresh {
			continue
		}
		need := lockKeyFor(a.Base, lr.Mu)
		if lr.Need != nil {
			need = lr.Need(a)
		}
		held := li.At(a.Instr)
		if held[need] {
			continue
		}
		top := a.Fn
		for top.Parent() != nil {
			top = top.Parent()
		}
		tn := funcName(top)
		if lr.ExemptIf != nil && lr.ExemptIf(a) {
			continue
		}
		if alt, ok := lr.Alt[tn]; ok {
			used[tn] = true
			if held[alt[0]] {
				continue
			}
			need = need + " or " + alt[0]
		} else if _, ok := lr.Exempt[tn]; ok {
			used[tn] = true
			continue
		}
		bad++
		r.Fail(fmt.Sprintf("%s.access@%s", key, funcName(a.Fn)), "R-LOCKED", p.InstrPos(a.Instr),
			fmt.Sprintf("field %s is accessed in %s without %s held (must-held set here: %s)", f.Name(), funcName(a.Fn), need, held))
	}
	for fn := range lr.Alt {
		if !used[fn] {
			r.Fail(key+".stale-exception."+fn, "R-LOCKED", "-", "table row for "+fn+" no longer matches any access (stale table row)")
		}
	}
	for fn := range lr.Exempt {
		if !used[fn] {
			r.Fail(key+".stale-exception."+fn, "R-LOCKED", "-", "table row for "+fn+" no longer matches any access (stale table row)")
		}
	}
	if bad == 0 {
		r.OK(key, "R-LOCKED", "-", fmt.Sprintf("all %d access(es) to %s hold the required lock (or are constructor initialisations / table rows)", len(acc), f.Name()))
	}
	return len(acc)
}

// ruleNotHeldAtCalls (R-NOLOCKCALL / R-LOCKORDER): at every instruction in the
// repository satisfying pr, no lock satisfying isBad may be held (may-analysis).
func ruleNotHeldAtCalls(p *Prog, r *Report, may *LockInfo, key, rule string, pr instrPred, isBad func(lockKey string) bool, what string) int {
	n, bad := 0, 0
	for _, fn := range may.fns {
		eachInstr(fn, func(in ssa.Instruction) {
			if _, isDefer := in.(*ssa.Defer); isDefer {
				return
			}
			if !pr(in) {
				return
			}
			n++
			r.Sites++
			held := may.At(in)
			for k := range held {
				if isBad(k) {
					bad++
					r.Fail(fmt.Sprintf("%s@%s", key, funcName(fn)), rule, p.InstrPos(in),
						fmt.Sprintf("%s in %s may execute while %s is held (may-held set: %s)", what, funcName(fn), k, held))
				}
			}
		})
	}
	if bad == 0 {
		r.OK(key, rule, "-", fmt.Sprintf("%d site(s) of %s, none with a forbidden lock possibly held", n, what))
	}
	return n
}

// nilFieldRule (R-NILFIELD): a pointer-typed struct field that can be nil at
// some program point. Every dereference of a value loaded from it (field
// selection, method call with it as receiver, explicit *) in the scope must be
// dominated by a non-nil test of the same value or of a load with the same
// access path, or by one of the extra guards, or sit in a function listed in
// Exempt with its reason.
type nilFieldRule struct {
	Key    string
	Field  *types.Var
	Scope  []*ssa.Function
	Extra  func(deref ssa.Instruction, loaded ssa.Value) (bool, string) // alternative guard (e.g. correlated flag)
	Exempt map[string]string                                            // top-level function -> reason
}

func ruleNilField(p *Prog, r *Report, nr nilFieldRule) int {
	if nr.Field == nil {
		r.Undecided(nr.Key, "R-NILFIELD", "field not found")
		return 0
	}
	n, bad := 0, 0
	used := map[string]bool{}
	for _, fn := range nr.Scope {
		eachInstr(fn, func(in ssa.Instruction) {
			v, ok := in.(ssa.Value)
			if !ok || loadedField(v) != nr.Field {
				return
			}
			if _, isCall := v.(*ssa.Call); isCall {
				return // getter: nil-safe by construction
			}
			refs := v.Referrers()
			if refs == nil {
				return
			}
			vp := path(v)
			for _, ref := range *refs {
				deref := false
				switch x := ref.(type) {
				case *ssa.FieldAddr:
					deref = x.X == v
				case *ssa.Field:
					deref = x.X == v
				case *ssa.UnOp:
					deref = x.Op == token.MUL && x.X == v
				case ssa.CallInstruction:
					c := x.Common()
					if !c.IsInvoke() && len(c.Args) > 0 && c.Args[0] == v {
						if callee := c.StaticCallee(); callee != nil && callee.Signature.Recv() != nil && !nilSafeMethod(callee) {
							deref = true
						}
					}
				}
				if !deref {
					continue
				}
				n++
				r.Sites++
				r.Func(funcName(fn))
				guarded := guardedBy(ref, func(a Atom) bool {
					m, isNil := nilTestOn(a, func(x ssa.Value) bool { return x == v || path(x) == vp })
					return m && !isNil
				})
				if guarded {
					continue
				}
				if nr.Extra != nil {
					if ok, _ := nr.Extra(ref, v); ok {
						continue
					}
				}
				top := fn
				for top.Parent() != nil {
					top = top.Parent()
				}
				if _, ok := nr.Exempt[funcName(top)]; ok {
					used[funcName(top)] = true
					continue
				}
				bad++
				r.Fail(fmt.Sprintf("%s.deref@%s", nr.Key, funcName(fn)), "R-NILFIELD", p.InstrPos(ref),
					fmt.Sprintf("%s (field %s, which can be nil) is dereferenced in %s without a dominating non-nil test on the same access path; facts here: %s", vp, nr.Field.Name(), funcName(fn), atomsString(atomsAt(ref.Block()))))
			}
		})
	}
	for fn := range nr.Exempt {
		if !used[fn] {
			r.Fail(nr.Key+".stale-exception."+fn, "R-NILFIELD", "-", "table row for "+fn+" no longer matches any unguarded dereference (stale table row)")
		}
	}
	if bad == 0 {
		r.OK(nr.Key, "R-NILFIELD", "-", fmt.Sprintf("all %d dereference(s) through %s are guarded", n, nr.Field.Name()))
	}
	return n
}

// nilSafeMethod: the method's first action is to test its receiver for nil
// and return.
func nilSafeMethod(f *ssa.Function) bool {
	if len(f.Blocks) == 0 || len(f.Params) == 0 {
		return false
	}
	b := f.Blocks[0]
	iff, ok := b.Instrs[len(b.Instrs)-1].(*ssa.If)
	if !ok {
		return false
	}
	a := atomOf(iff.Cond, true)
	m, _ := nilTestOn(a, func(v ssa.Value) bool { return v == ssa.Value(f.Params[0]) })
	return m
}
