package main

import (
	"fmt"
	"go/types"

	"golang.org/x/tools/go/ssa"
)

// ruleLatch (R-LATCH): a one-way flag. Every write anywhere in the repository
// (Store / CompareAndSwap on an atomic.Bool field, or a plain assignment to a
// bool field) writes the constant true. Returns the number of writes seen.
func ruleLatch(p *Prog, r *Report, key string, f *types.Var) int {
	if f == nil {
		r.Undecided(key, "R-LATCH", "field not found")
		return 0
	}
	fns := p.RepoFuncs()
	n := 0
	bad := 0
	check := func(in ssa.Instruction, v ssa.Value, what string) {
		n++
		r.Sites++
		b, isConst := constBool(v)
		if !isConst || !b {
			bad++
			r.Fail(fmt.Sprintf("%s.write@%s", key, funcName(in.Parent())), "R-LATCH", p.InstrPos(in),
				fmt.Sprintf("one-way flag %s is written with %s by %s in %s; every write must store the constant true", f.Name(), path(v), what, funcName(in.Parent())))
		}
	}
	for _, in := range methodCallsOnField(fns, f, "Store") {
		c := callCommon(in)
		if len(c.Args) == 2 {
			check(in, c.Args[1], "Store")
		}
	}
	for _, in := range methodCallsOnField(fns, f, "CompareAndSwap") {
		c := callCommon(in)
		if len(c.Args) == 3 {
			check(in, c.Args[2], "CompareAndSwap")
		}
	}
	for _, in := range methodCallsOnField(fns, f, "Swap") {
		c := callCommon(in)
		if len(c.Args) == 2 {
			check(in, c.Args[1], "Swap")
		}
	}
	for _, st := range storesToField(fns, f) {
		check(st.Instr, st.Val, "assignment")
	}
	if bad == 0 {
		r.OK(key, "R-LATCH", "-", fmt.Sprintf("all %d write(s) to %s store constant true", n, f.Name()))
	}
	return n
}

// closureArgOfCall returns the function literal passed as argument #arg of
// the (first) call to callee inside fn.
func closureArgOfCall(fn *ssa.Function, match func(*ssa.CallCommon) bool, arg int) (*ssa.Function, ssa.Instruction) {
	var res *ssa.Function
	var at ssa.Instruction
	eachInstr(fn, func(in ssa.Instruction) {
		c := callCommon(in)
		if c == nil || res != nil || !match(c) {
			return
		}
		args := c.Args
		if arg >= len(args) {
			return
		}
		if mc, ok := strip(args[arg]).(*ssa.MakeClosure); ok {
			if f, ok := mc.Fn.(*ssa.Function); ok {
				res, at = f, in
			}
		} else if f, ok := strip(args[arg]).(*ssa.Function); ok {
			res, at = f, in
		}
	})
	return res, at
}

// isStoreTrueTo matches x.f.Store(true) / CompareAndSwap(_, true) on field f.
func isStoreTrueTo(f *types.Var) instrPred {
	return func(in ssa.Instruction) bool {
		c := callCommon(in)
		if c == nil || c.IsInvoke() || len(c.Args) < 2 {
			return false
		}
		callee := c.StaticCallee()
		if callee == nil || (callee.Name() != "Store" && callee.Name() != "CompareAndSwap") {
			return false
		}
		fa, ok := c.Args[0].(*ssa.FieldAddr)
		if !ok || fieldVar(fa.X.Type(), fa.Field) != f {
			return false
		}
		b, isConst := constBool(c.Args[len(c.Args)-1])
		return isConst && b
	}
}

// isCallNamed builds a predicate for calls to pkg.(recv.)name.
func isCallNamed(pkgPath, recv, name string) instrPred {
	return func(in ssa.Instruction) bool {
		return isCallToNamed(callCommon(in), pkgPath, recv, name)
	}
}

func isCallObj(obj *types.Func) instrPred {
	return func(in ssa.Instruction) bool {
		c := callCommon(in)
		return c != nil && obj != nil && calleeObj(c) == obj
	}
}

func orPred(ps ...instrPred) instrPred {
	return func(in ssa.Instruction) bool {
		for _, p := range ps {
			if p(in) {
				return true
			}
		}
		return false
	}
}

// notDeferGo restricts a predicate to plain calls (not defer/go).
func plainCall(pr instrPred) instrPred {
	return func(in ssa.Instruction) bool {
		if _, ok := in.(*ssa.Call); !ok {
			return false
		}
		return pr(in)
	}
}

// findInstrs lists the instructions of fn (no closures) satisfying pr, in
// block order.
func findInstrs(fn *ssa.Function, pr instrPred) []ssa.Instruction {
	var out []ssa.Instruction
	eachInstr(fn, func(in ssa.Instruction) {
		if pr(in) {
			out = append(out, in)
		}
	})
	return out
}
