package main

import (
	"fmt"
	"go/ast"
	"go/constant"
	"go/token"
	"go/types"

	"golang.org/x/tools/go/ssa"
)

func init() {
	register(&propMeta{
		ID: "C19",
		Explain: "Decides structural necessary conditions of 'size-limit requests are padded to exactly limit+delta and the limit is sharp': " +
			"(exact) in expandRequestData the re-marshalling of a padded request is reachable only through the `delta == 0` edge, where delta = (serverReceiveLimit + offset) − proto.Size(the very message that is marshalled), every other way out of the padding loop is an error return, and the size is re-measured after the last modification — this is 'exactly limit+offset or rejected' for all messages and offsets, given proto.Size = marshalled size; " +
			"(only-padding) the only mutation of the request is Set on the field looked up as request_data, reached only after the field was checked present, optional and of bytes kind; " +
			"(single-source) the padding target and the limit sent to the server are the same named constant serverReceiveLimit, the client limit is clientReceiveLimit and is larger; " +
			"(passthru) the limit reaches connect.WithReadMaxBytes (server and client) and grpc.MaxRecvMsgSize through an integer conversion only, each guarded only by `limit > 0`; " +
			"(panic) growing and shrinking the padding cannot panic (non-negative make length, guarded shrink). " +
			"It does NOT decide the sharpness of the limit inside connect-go / grpc-go.",
		NotDecided: []string{"that connect-go / grpc-go accept exactly the limit and reject one byte more (library behaviour)", "that proto.Size equals the marshalled length (library contract, assumed)"},
		Assume:     []string{"proto.Size(m) equals len(proto.Marshal(m))"},
		Trusted:    commonTrusted,
		Run:        runC19,
	})
	f := "internal/app/connectconformance/test_case_library.go"
	addMutants(
		Mutant{ID: "C19-bounded-loop", Prop: "C19", File: f, Old: "\t\tvar adjustCount int\n\t\tfor {\n", New: "\t\tfor adjustCount := 0; adjustCount < 3; adjustCount++ {\n",
			Expect: []string{"exact."}, Note: "seed C19-1 (variant): loop can end without the size being exact"},
		Mutant{ID: "C19-readmax-plus", Prop: "C19", File: "internal/app/referenceserver/server.go", Old: "connect.WithReadMaxBytes(int(req.MessageReceiveLimit))", New: "connect.WithReadMaxBytes(int(req.MessageReceiveLimit)+5)",
			Expect: []string{"passthru.server"}, Note: "seed C19-2: server limit widened by the envelope prefix size"},
		Mutant{ID: "C19-D6c-shrink", Prop: "C19", File: f, Old: "\t\t\t\tif -delta > int64(len(bytesVal)) {\n\t\t\t\t\treturn fmt.Errorf(\"request message #%d: can't shrink to %d bytes; message is %d bytes with only %d bytes of padding\",\n\t\t\t\t\t\ti+1, totalSize, size, len(bytesVal))\n\t\t\t\t}\n", New: "",
			Expect: []string{"panic."}, Note: "original defect D6c: shrinking below zero panics"},
		Mutant{ID: "C19-limit-literal", Prop: "C19", File: "internal/app/connectconformance/server_runner.go", Old: "\t\tMessageReceiveLimit: serverReceiveLimit,", New: "\t\tMessageReceiveLimit: 200 * 1000,",
			Expect: []string{"single-source."}, Note: "server told a different limit than the padding targets"},
		Mutant{ID: "C19-wrong-field", Prop: "C19", File: f, Old: "ByName(\"request_data\")", New: "ByName(\"response_definition\")",
			Expect: []string{"only-padding."}, Note: "padding written into another field"},
		Mutant{ID: "C19-size-of-other", Prop: "C19", File: f, Old: "\t\t\tsize := proto.Size(concreteReq)", New: "\t\t\tsize := proto.Size(testCase.Request.RequestMessages[i])",
			Expect: []string{"exact."}, Note: "size measured on the Any wrapper instead of the message"},
		Mutant{ID: "C19-client-limit-small", Prop: "C19", File: f, Old: "\tclientReceiveLimit = 1024 * 1024 // 1 MB", New: "\tclientReceiveLimit = 100 * 1024 // 100 KB",
			Expect: []string{"single-source.client-larger"}, Note: "client limit below the server limit: echoed requests near the server limit would be rejected by the client"},
	)
}

func runC19(p *Prog, r *Report) {
	erd := p.Func(pkgCC, "", "expandRequestData")
	if erd == nil {
		r.Undecided("exact", "A-PATH", "expandRequestData not found")
		return
	}
	r.Func(funcName(erd))
	limit := p.Const(pkgCC, "serverReceiveLimit")
	climit := p.Const(pkgCC, "clientReceiveLimit")
	var limitVal int64 = -1
	if limit != nil {
		limitVal, _ = constant.Int64Val(constant.ToInt(limit.Val()))
	}
	// ---- exact ----
	var marshal ssa.Instruction
	eachInstr(erd, func(in ssa.Instruction) {
		if c := callCommon(in); c != nil && c.StaticCallee() != nil && c.StaticCallee().Name() == "MarshalFrom" {
			marshal = in
		}
	})
	isSize := func(in ssa.Instruction) bool {
		c := callCommon(in)
		return c != nil && isCallToNamed(c, "google.golang.org/protobuf/proto", "", "Size")
	}
	isSet := func(in ssa.Instruction) bool {
		c := callCommon(in)
		return c != nil && c.IsInvoke() && c.Method.Name() == "Set"
	}
	r.Sites += 4
	if marshal == nil {
		r.Fail("exact.guard", "A-PATH", p.Pos(erd.Pos()), "expandRequestData no longer re-marshals the padded request")
	} else {
		msg := callCommon(marshal).Args[1] // the message marshalled
		var deltaOK, shapeOK bool
		why := ""
		for _, a := range atomsAt(marshal.Block()) {
			if a.Op != token.EQL {
				continue
			}
			z, isZ := constInt(a.Y)
			if !isZ || z != 0 {
				continue
			}
			sub, ok := canon(a.X).(*ssa.BinOp)
			if !ok || sub.Op != token.SUB {
				continue
			}
			deltaOK = true
			// delta = totalSize - int64(proto.Size(msg))
			if sz, ok := canon(sub.Y).(*ssa.Call); ok && isSize(sz) && sameMessage(sz.Call.Args[0], msg) {
				if add, ok := canon(sub.X).(*ssa.BinOp); ok && add.Op == token.ADD {
					k, isK := constInt(add.X)
					_, isGetter := fieldRefKey(add.Y)
					if !isK {
						k, isK = constInt(add.Y)
						_, isGetter = fieldRefKey(add.X)
					}
					if isK && k == limitVal && isGetter {
						shapeOK = true
					} else {
						why = fmt.Sprintf("target size is %s, expected serverReceiveLimit + SizeRelativeToLimit", path(sub.X))
					}
				} else {
					why = "target size is not limit + offset"
				}
			} else {
				why = "delta is not measured with proto.Size on the message that is marshalled afterwards"
			}
		}
		r.Check(deltaOK, "exact.guard", "A-PATH", p.InstrPos(marshal), "MarshalFrom is reachable only through the delta == 0 edge", "the padded request can be re-marshalled without its size having been found equal to the target (delta == 0): a request one or two bytes off would be used silently instead of the suite being rejected")
		r.Check(shapeOK, "exact.delta-shape", "R-WIRE", p.InstrPos(marshal), "delta = (serverReceiveLimit + SizeRelativeToLimit) − proto.Size(the marshalled message)", "the exactness test does not compare serverReceiveLimit + offset with proto.Size of the marshalled message: "+why)
		// re-measure after every modification
		okRemeasure := true
		nset := 0
		for _, s := range findInstrs(erd, isSet) {
			nset++
			if ok, _ := mustPassBefore(s, marshal, isSize); !ok {
				okRemeasure = false
			}
		}
		r.Check(okRemeasure && nset == 1, "exact.remeasure", "A-PATH", p.InstrPos(marshal), "after the padding is changed the size is measured again before marshalling", "the request can be marshalled after a padding change without its size being measured again")
		// every other exit from the loop is an error return
		okErr := true
		for _, ret := range returnsOf(erd) {
			if !reachesInstr(marshal, ret) {
				// returns not after the marshal: inside/before the loop
				for _, v := range retVals(ret, 0) {
					if isNilValue(v) {
						// allowed nil returns: nothing to expand (before any work)
						if precededBy(ret, isSize) {
							okErr = false
						}
					}
				}
			}
		}
		r.Check(okErr, "exact.other-exits-error", "A-PATH", p.Pos(erd.Pos()), "no success return after measuring without passing the exactness test", "expandRequestData can return success from inside the padding loop")
	}
	// ---- only-padding ----
	sets := findInstrs(erd, isSet)
	r.Sites += 2
	okField := len(sets) == 1
	if okField {
		fld := callCommon(sets[0]).Args[0]
		okField = false
		if c, ok := canon(fld).(*ssa.Call); ok && c.Call.IsInvoke() && c.Call.Method.Name() == "ByName" {
			if s, isS := constString(c.Call.Args[0]); isS && s == "request_data" {
				okField = true
			}
		}
		// guarded by the descriptor checks: field != nil, cardinality == optional, kind == bytes
		as := atomsAt(sets[0].Block())
		nonNil := hasAtom(as, func(a Atom) bool {
			m, isNil := nilTestOn(a, func(v ssa.Value) bool { return sameVal(v, fld) })
			return m && !isNil
		})
		card, kind := false, false
		for _, a := range as {
			if a.Op == token.EQL {
				if c, ok := canon(a.X).(*ssa.Call); ok && c.Call.IsInvoke() {
					k, _ := constInt(a.Y)
					if c.Call.Method.Name() == "Cardinality" && k == 1 {
						card = true
					}
					if c.Call.Method.Name() == "Kind" && k == 12 {
						kind = true
					}
				}
			}
		}
		r.Check(nonNil && card && kind, "only-padding.checked", "R-GUARD", p.InstrPos(sets[0]), "Set is reached only for a present, optional, bytes-kind field", "the padding field is written without having been checked present ∧ optional ∧ bytes kind")
	}
	r.Check(okField, "only-padding.field", "A-WHO", p.Pos(erd.Pos()), "the single mutation is Set(<field request_data>, …)", "expandRequestData mutates the request other than by one Set on the field named request_data")
	// no other mutating reflection calls
	mut := 0
	eachInstr(erd, func(in ssa.Instruction) {
		c := callCommon(in)
		if c != nil && c.IsInvoke() {
			switch c.Method.Name() {
			case "Clear", "Mutable", "NewField", "SetUnknown":
				mut++
			}
		}
	})
	r.Sites++
	r.Check(mut == 0, "only-padding.no-other-mutation", "A-WHO", p.Pos(erd.Pos()), "no other reflective mutation", "expandRequestData mutates the message through other reflective calls")

	// ---- single-source ----
	usesConst := func(fn *ssa.Function, c *types.Const) int {
		decl, pkg := p.Decl(fn)
		n := 0
		if decl == nil || c == nil {
			return 0
		}
		ast.Inspect(decl, func(node ast.Node) bool {
			if id, ok := node.(*ast.Ident); ok && pkg.TypesInfo.Uses[id] == types.Object(c) {
				n++
			}
			return true
		})
		return n
	}
	rts := p.Func(pkgCC, "", "runTestCasesForServer")
	ec := p.Func(pkgCC, "testCaseLibrary", "expandCases")
	r.Sites += 4
	r.Check(usesConst(erd, limit) >= 1, "single-source.padding-target", "R-SINGLE-SOURCE", p.Pos(erd.Pos()), "the padding target uses the constant serverReceiveLimit", "the padding target is not computed from the named constant serverReceiveLimit")
	okSrv := false
	if rts != nil {
		f := p.Field(pkgGen, "ServerCompatRequest", "MessageReceiveLimit")
		okSrv = usesConst(rts, limit) >= 1 && len(storesToField([]*ssa.Function{rts}, f)) == 1
		if okSrv {
			k, isK := constInt(storesToField([]*ssa.Function{rts}, f)[0].Val)
			okSrv = isK && k == limitVal
		}
	}
	r.Check(okSrv, "single-source.server-limit", "R-SINGLE-SOURCE", "-", "ServerCompatRequest.MessageReceiveLimit = serverReceiveLimit", "the limit sent to the server is not the named constant serverReceiveLimit the padding is computed from")
	okCli := false
	if ec != nil {
		f := p.Field(pkgGen, "ClientCompatRequest", "MessageReceiveLimit")
		okCli = usesConst(ec, climit) >= 1 && len(storesToField([]*ssa.Function{ec}, f)) == 1
	}
	r.Check(okCli, "single-source.client-limit", "R-SINGLE-SOURCE", "-", "Request.MessageReceiveLimit = clientReceiveLimit", "the limit sent to the client is not the named constant clientReceiveLimit")
	okLarger := limit != nil && climit != nil && constant.Compare(climit.Val(), token.GTR, limit.Val())
	r.Check(okLarger, "single-source.client-larger", "const-relation", "-", "clientReceiveLimit > serverReceiveLimit", "clientReceiveLimit is not larger than serverReceiveLimit: responses echoing a request near the server limit would exceed the client limit")

	// ---- passthru ----
	limF := map[string]*types.Var{"server": p.Field(pkgGen, "ServerCompatRequest", "MessageReceiveLimit"), "client": p.Field(pkgGen, "ClientCompatRequest", "MessageReceiveLimit")}
	for _, w := range []struct {
		key, rel, fn, pkgPath, opt string
		field                      *types.Var
	}{
		{"passthru.server", pkgRS, "createServer", "connectrpc.com/connect", "WithReadMaxBytes", limF["server"]},
		{"passthru.client", pkgRC, "invoke", "connectrpc.com/connect", "WithReadMaxBytes", limF["client"]},
	} {
		fn := p.Func(w.rel, "", w.fn)
		r.Sites++
		if fn == nil {
			r.Undecided(w.key, "A-FLOW", w.fn+" not found")
			continue
		}
		r.Func(funcName(fn))
		ok := false
		for _, f := range withClosures(fn) {
			eachInstr(f, func(in ssa.Instruction) {
				c := callCommon(in)
				if c == nil || !isCallToNamed(c, w.pkgPath, "", w.opt) {
					return
				}
				only := loadedField(canon(c.Args[0])) == w.field
				// guarded only by limit > 0
				as := atomsAtLocal(in.Block(), w.field)
				ok = only && as
			})
		}
		r.Check(ok, w.key, "A-FLOW", p.Pos(fn.Pos()), w.opt+"(int(req.MessageReceiveLimit)) on the limit > 0 edge", "the receive limit does not reach "+w.opt+" unmodified (through an integer conversion only, whenever it is positive): the "+map[string]string{"passthru.server": "server", "passthru.client": "client"}[w.key]+" would enforce a different limit than the one the padding targets")
	}
	// gRPC server: createServer(req.MessageReceiveLimit) -> grpc.MaxRecvMsgSize(int(recvLimit))
	if gs := p.Func("internal/app/grpcserver", "", "createServer"); gs != nil {
		okG := false
		eachInstr(gs, func(in ssa.Instruction) {
			c := callCommon(in)
			if c != nil && isCallToNamed(c, "google.golang.org/grpc", "", "MaxRecvMsgSize") {
				if prm, isP := canon(c.Args[0]).(*ssa.Parameter); isP && prm.Parent() == gs {
					okG = true
				}
			}
		})
		okCall := false
		for _, fn := range p.RepoFuncs() {
			if pkgOfFunc(fn) != modPath+"/internal/app/grpcserver" {
				continue
			}
			for _, c := range findInstrs(fn, isCallObj(funcObj(gs))) {
				if loadedField(canon(callCommon(c).Args[0])) == limF["server"] {
					okCall = true
				}
			}
		}
		r.Sites++
		r.Check(okG && okCall, "passthru.grpcserver", "A-FLOW", p.Pos(gs.Pos()), "grpc.MaxRecvMsgSize(int(limit)) with limit = req.MessageReceiveLimit", "the gRPC reference server does not enforce exactly the requested receive limit")
	} else {
		r.Undecided("passthru.grpcserver", "A-FLOW", "grpcserver.createServer not found")
	}

	// ---- panic ----
	rulePanic(p, r, panicSpec{Key: "panic", Entries: []*ssa.Function{erd}, Floor: 3, StayIn: []string{ccPath}})
}

// sameMessage: both values denote the same message object (directly or
// through MakeInterface of the same pointer).
func sameMessage(a, b ssa.Value) bool {
	return canon(a) == canon(b) || sameVal(a, b)
}

// atomsAtLocal: the block is guarded by `field > 0` (as its innermost, i.e.
// last established, fact about that field).
func atomsAtLocal(b *ssa.BasicBlock, f *types.Var) bool {
	for _, a := range atomsAt(b) {
		if a.Op == token.GTR && loadedField(canon(a.X)) == f {
			if z, ok := constInt(a.Y); ok && z == 0 {
				return true
			}
		}
	}
	return false
}
