package main

// General audits added after the ninth round of independent seeded changes.

import (
	"fmt"
	"go/token"
	"go/types"
	"strings"

	"golang.org/x/tools/go/ssa"
)

func init() {
	experiments["Xdeepeq"] = func(p *Prog, r *Report) { deepEqualBytesRule(p, r, "deepequal-bytes", p.RepoFuncs()) }
	experiments["Xeofwrap"] = func(p *Prog, r *Report) { eofRewrapRule(p, r, "eof-rewrap", p.RepoFuncs()) }
	experiments["Xctxescape"] = func(p *Prog, r *Report) { ctxCancelEscapeRule(p, r, "ctx-escape", p.RepoFuncs()) }
	experiments["Xlossy"] = func(p *Prog, r *Report) { lossyLibraryRule(p, r, "lossy", p.RepoFuncs()) }
	experiments["Xshadowprefix"] = func(p *Prog, r *Report) { prefixShadowRule(p, r, "prefix-shadow", p.RepoFuncs()) }
}

func round9GeneralRules(p *Prog, r *Report, scope []*ssa.Function) {
	deepEqualBytesRule(p, r, "anchored-deepequal-bytes", scope)
	eofRewrapRule(p, r, "anchored-eof-rewrap", scope)
	ctxCancelEscapeRule(p, r, "anchored-ctx-escape", scope)
	lossyLibraryRule(p, r, "anchored-lossy", scope)
	prefixShadowRule(p, r, "anchored-prefix-shadow", scope)
}

// ---------- G-DEEPEQ: reflect.DeepEqual on byte slices ----------

// deepEqualBytesRule: reflect.DeepEqual is not used to compare []byte values:
// it distinguishes a nil slice from an empty one, which is exactly the
// difference between an absent proto3 bytes field decoded from the wire (nil)
// and an empty one read from a test definition ([]byte{}); bytes.Equal does not.
func deepEqualBytesRule(p *Prog, r *Report, key string, scope []*ssa.Function) {
	n := 0
	for _, fn := range scope {
		cnt := 0
		eachInstr(fn, func(in ssa.Instruction) {
			c := callCommon(in)
			if c == nil || !isCallToNamed(c, "reflect", "", "DeepEqual") {
				return
			}
			n++
			r.Sites++
			for _, a := range c.Args {
				v := a
				if mi, ok := v.(*ssa.MakeInterface); ok {
					v = mi.X
				}
				if st, ok := v.Type().Underlying().(*types.Slice); ok {
					if b, ok := st.Elem().Underlying().(*types.Basic); ok && b.Kind() == types.Uint8 {
						cnt++
						r.Fail(fmt.Sprintf("%s.%s#%d", key, shortFn(fn), cnt), "R-WIRE", p.InstrPos(in),
							"in "+shortFn(fn)+" two byte slices are compared with reflect.DeepEqual ("+path(v)+"): DeepEqual tells a nil slice from an empty one, so an empty bytes field decoded from the wire (nil) differs from the empty value a test definition asked for ([]byte{}) although they are the same data; bytes.Equal is the comparison")
						return
					}
				}
			}
		})
	}
	r.OK(key, "R-WIRE", "-", fmt.Sprintf("%d reflect.DeepEqual calls, none on byte slices", n))
}

// ---------- G-EOFWRAP: an EOF that was recognised is not wrapped again ----------

// eofRewrapRule: on the branch taken because errors.Is(e, io.EOF) (or e ==
// io.EOF) holds, a new error is not built with %w around e: the result would
// still satisfy errors.Is(·, io.EOF), so callers that classify "clean end of
// input" by that test take a truncation for an orderly end.
func eofRewrapRule(p *Prog, r *Report, key string, scope []*ssa.Function) {
	n := 0
	isEOF := func(v ssa.Value) bool {
		u, ok := canon(v).(*ssa.UnOp)
		if !ok || u.Op != token.MUL {
			return false
		}
		g, ok := u.X.(*ssa.Global)
		return ok && g.Pkg != nil && g.Pkg.Pkg.Path() == "io" && g.Name() == "EOF"
	}
	for _, fn := range scope {
		cnt := 0
		eachInstr(fn, func(in ssa.Instruction) {
			c := callCommon(in)
			if c == nil || !isCallToNamed(c, "fmt", "", "Errorf") || len(c.Args) < 2 {
				return
			}
			f, isS := constString(c.Args[0])
			if !isS || !strings.Contains(f, "%w") {
				return
			}
			// which values are known to be EOF here?
			var eofVals []ssa.Value
			for _, a := range atomsAt(in.Block()) {
				if a.Op == token.ILLEGAL && !a.Neg {
					if cc, ok := canon(a.X).(*ssa.Call); ok && isCallToNamed(&cc.Call, "errors", "", "Is") && len(cc.Call.Args) == 2 && isEOF(cc.Call.Args[1]) {
						eofVals = append(eofVals, canon(cc.Call.Args[0]))
					}
				}
				if a.Op == token.EQL && a.Y != nil {
					if isEOF(a.Y) {
						eofVals = append(eofVals, canon(a.X))
					} else if isEOF(a.X) {
						eofVals = append(eofVals, canon(a.Y))
					}
				}
			}
			if len(eofVals) == 0 {
				return
			}
			n++
			r.Sites++
			for _, e := range sliceLiteralElems(c.Args[1]) {
				ev := canon(e)
				if mi, ok := ev.(*ssa.MakeInterface); ok {
					ev = canon(mi.X)
				}
				sameCell := func(a, b ssa.Value) bool {
					ua, ok1 := a.(*ssa.UnOp)
					ub, ok2 := b.(*ssa.UnOp)
					return ok1 && ok2 && ua.Op == token.MUL && ub.Op == token.MUL && ua.X == ub.X
				}
				for _, known := range eofVals {
					if ev == known || sameCell(ev, known) {
						cnt++
						r.Fail(fmt.Sprintf("%s.%s#%d", key, shortFn(fn), cnt), "R-ERRFLOW", p.InstrPos(in),
							"in "+shortFn(fn)+" the error "+path(e)+" is wrapped with %w on the branch where it is known to be io.EOF: the new error still matches errors.Is(·, io.EOF), so a caller that takes io.EOF for the orderly end of input treats this (a truncation) as a clean end")
						return
					}
				}
			}
		})
	}
	r.OK(key, "R-ERRFLOW", "-", fmt.Sprintf("%d errors built with %%w on an is-EOF branch, none wraps the EOF itself", n))
}

// ---------- G-CTXESCAPE: a context that dies with the function that made it ----------

var ctxEscapeAllowed = map[string]string{}

// ctxCancelEscapeRule: a context created with context.WithTimeout/WithCancel/
// WithDeadline whose cancel function is deferred in the creating function is
// not used inside a goroutine started by that function: the goroutine outlives
// the function and finds the context already cancelled.
func ctxCancelEscapeRule(p *Prog, r *Report, key string, scope []*ssa.Function) {
	n := 0
	for _, fn := range scope {
		eachInstr(fn, func(in ssa.Instruction) {
			c, ok := in.(*ssa.Call)
			if !ok {
				return
			}
			o := calleeObj(&c.Call)
			if o == nil || o.Pkg() == nil || o.Pkg().Path() != "context" || !strings.HasPrefix(o.Name(), "With") || c.Referrers() == nil {
				return
			}
			tup, isTup := c.Type().(*types.Tuple)
			if !isTup || tup.Len() != 2 {
				return
			}
			var ctxV, cancelV ssa.Value
			for _, ref := range *c.Referrers() {
				if ex, ok := ref.(*ssa.Extract); ok {
					if ex.Index == 0 {
						ctxV = ex
					} else {
						cancelV = ex
					}
				}
			}
			if ctxV == nil || cancelV == nil {
				return
			}
			n++
			r.Sites++
			// cancel deferred in fn itself?
			deferred := false
			eachInstr(fn, func(i2 ssa.Instruction) {
				if d, ok := i2.(*ssa.Defer); ok && canon(d.Call.Value) == cancelV {
					deferred = true
				}
			})
			if !deferred {
				return
			}
			// ctx captured by a closure that fn starts with `go`
			var goClosure *ssa.Function
			eachInstr(fn, func(i2 ssa.Instruction) {
				g, ok := i2.(*ssa.Go)
				if !ok {
					return
				}
				mc, ok := g.Call.Value.(*ssa.MakeClosure)
				if !ok {
					return
				}
				for _, b := range mc.Bindings {
					if canon(b) == ctxV || b == ctxV {
						goClosure, _ = mc.Fn.(*ssa.Function)
					}
					// captured through a cell
					if al, isAl := b.(*ssa.Alloc); isAl && al.Referrers() != nil {
						for _, r2 := range *al.Referrers() {
							if st, isSt := r2.(*ssa.Store); isSt && st.Addr == ssa.Value(al) && canon(st.Val) == ctxV {
								goClosure, _ = mc.Fn.(*ssa.Function)
							}
						}
					}
				}
			})
			if goClosure == nil {
				return
			}
			// a watcher that only waits for the cancellation (<-ctx.Done()) is the point of such a goroutine
			onlyDone := true
			eachInstr(goClosure, func(i2 ssa.Instruction) {
				c2 := callCommon(i2)
				if c2 == nil {
					return
				}
				uses := false
				vals := append([]ssa.Value{}, c2.Args...)
				if c2.IsInvoke() {
					vals = append(vals, c2.Value)
				}
				for _, a := range vals {
					if _, isCtx := a.Type().Underlying().(*types.Interface); isCtx && strings.HasSuffix(a.Type().String(), "context.Context") {
						uses = true
					}
				}
				if uses && !(c2.IsInvoke() && c2.Method.Name() == "Done") {
					onlyDone = false
				}
			})
			if onlyDone {
				return
			}
			k := fmt.Sprintf("%s.%s", key, shortFn(fn))
			if why, ok := ctxEscapeAllowed[shortFn(fn)]; ok {
				r.OK(k, "R-ORDER", p.InstrPos(in), "table: "+why)
				return
			}
			r.Fail(k, "R-ORDER", p.InstrPos(in), "in "+shortFn(fn)+" a context from context."+o.Name()+" is cancelled by a deferred cancel when the function returns, but it is used by the goroutine "+shortFn(goClosure)+" that the function starts: the goroutine runs after the return and finds the context already cancelled — a wait bounded by that context gives up at once")
		})
	}
	r.OK(key, "R-ORDER", "-", fmt.Sprintf("%d derived contexts, none is handed to a goroutine that outlives its deferred cancel", n))
}

// ---------- G-LOSSY: library calls that silently change or cap data ----------

var lossyAllowed = map[string]string{}

// lossyLibraryRule: who-may-use table (empty) for library features that change
// the data they are given or cap it, each plausible as a "tidy-up":
// slices.Compact/CompactFunc (drops adjacent equal values — repeated header
// values are data), proto.MarshalOptions{UseCachedSize: true} (re-uses sizes
// computed by an earlier encode — stale once the message changed),
// connect.WithHTTPGetMaxURLSize / WithSendMaxBytes (a second, hidden size limit).
func lossyLibraryRule(p *Prog, r *Report, key string, scope []*ssa.Function) {
	n := 0
	for _, fn := range scope {
		seen := map[string]bool{}
		report := func(in ssa.Instruction, what, why string) {
			if seen[what] {
				return
			}
			seen[what] = true
			n++
			r.Sites++
			k := fmt.Sprintf("%s.%s.%s", key, shortFn(fn), what)
			if a, ok := lossyAllowed[shortFn(fn)+"."+what]; ok {
				r.OK(k, "A-WHO", p.InstrPos(in), "table: "+a)
				return
			}
			r.Fail(k, "A-WHO", p.InstrPos(in), "in "+shortFn(fn)+" "+what+" is used: "+why)
		}
		eachInstr(fn, func(in ssa.Instruction) {
			if c := callCommon(in); c != nil {
				if o := calleeObj(c); o != nil && o.Pkg() != nil {
					switch {
					case o.Pkg().Path() == "slices" && strings.HasPrefix(o.Name(), "Compact"):
						report(in, "slices."+o.Name(), "it removes adjacent equal elements — a key that legitimately carries the same value twice (x: 1,1,2) loses one; Clip is the call that only trims capacity")
					case o.Pkg().Path() == "connectrpc.com/connect" && (o.Name() == "WithHTTPGetMaxURLSize" || o.Name() == "WithSendMaxBytes"):
						report(in, "connect."+o.Name(), "it installs a second size limit that the test runner did not ask for; requests beyond it fail locally with resource_exhausted, indistinguishable from the limit under test")
					}
				}
			}
			if st, ok := in.(*ssa.Store); ok {
				if fa, ok := st.Addr.(*ssa.FieldAddr); ok && fieldName(fa.X.Type(), fa.Field) == "UseCachedSize" {
					if b, isK := constBool(st.Val); isK && b {
						report(in, "MarshalOptions.UseCachedSize", "the encoder then trusts sizes cached by an earlier Size/Marshal of the same message; after the message changed (a nested field grew) the second encode fails with a size mismatch or writes a wrong length")
					}
				}
			}
		})
	}
	r.OK(key, "A-WHO", "-", fmt.Sprintf("%d uses of data-changing or capping library features, all in the table", n))
}

// ---------- G-PREFIXSHADOW: a test that an earlier, weaker test made unreachable ----------

// prefixShadowRule: strings.HasPrefix(s, Q) (or s == Q) is not evaluated only
// after strings.HasPrefix(s, P) failed for a P that is a prefix of Q: the
// later test can never succeed (its case is dead, the earlier, more general
// case takes its inputs).
func prefixShadowRule(p *Prog, r *Report, key string, scope []*ssa.Function) {
	n := 0
	for _, fn := range scope {
		cnt := 0
		eachInstr(fn, func(in ssa.Instruction) {
			var subject ssa.Value
			var q string
			what := ""
			switch x := in.(type) {
			case *ssa.Call:
				if !isCallToNamed(&x.Call, "strings", "", "HasPrefix") {
					return
				}
				s, ok := constString(x.Call.Args[1])
				if !ok {
					return
				}
				subject, q, what = canon(x.Call.Args[0]), s, "strings.HasPrefix(…, %q)"
			case *ssa.BinOp:
				if x.Op != token.EQL {
					return
				}
				if s, ok := constString(x.Y); ok {
					subject, q, what = canon(x.X), s, "… == %q"
				} else if s, ok := constString(x.X); ok {
					subject, q, what = canon(x.Y), s, "… == %q"
				} else {
					return
				}
			default:
				return
			}
			if q == "" {
				return
			}
			n++
			for _, a := range atomsAt(in.Block()) {
				if a.Op != token.ILLEGAL || !a.Neg {
					continue
				}
				gc, ok := canon(a.X).(*ssa.Call)
				if !ok || !isCallToNamed(&gc.Call, "strings", "", "HasPrefix") || canon(gc.Call.Args[0]) != subject {
					continue
				}
				pfx, ok := constString(gc.Call.Args[1])
				if !ok || !strings.HasPrefix(q, pfx) {
					continue
				}
				cnt++
				r.Sites++
				r.Fail(fmt.Sprintf("%s.%s#%d", key, shortFn(fn), cnt), "R-REACH", p.InstrPos(in),
					fmt.Sprintf("in %s the test "+what+" is only evaluated after strings.HasPrefix(…, %q) failed for the same string; %q is a prefix of %q, so the later test can never succeed: its case is dead and the earlier, more general case handles its inputs (e.g. Connect streams judged by the unary rules)", shortFn(fn), q, pfx, pfx, q))
				return
			}
		})
	}
	r.OK(key, "R-REACH", "-", fmt.Sprintf("%d constant prefix/equality tests, none shadowed by an earlier weaker prefix test", n))
}
