package main

import (
	"fmt"
	"go/ast"
	"go/constant"
	"go/token"
	"go/types"
	"sort"
	"strings"

	"golang.org/x/tools/go/packages"
	"golang.org/x/tools/go/ssa"
)

const pkgGU = "internal/grpcutil"

func init() {
	register(&propMeta{
		ID: "C18",
		Explain: "Decides structural necessary conditions of 'error, metadata and message conversions are lossless': " +
			"(codec-family) for each strict codec, Name(), IsBinary() and the encoding package reached by Marshal, MarshalAppend, MarshalStable and Unmarshal agree (proto/binary ↔ protobuf/proto, json/text ↔ protojson); " +
			"(strict) no unmarshal option discards unknown fields, and the binary codec's Unmarshal succeeds only when no unknown bytes remain; " +
			"(cover) every error conversion reads code, message and details of its source and sets all three on its result, and both places that unwrap a connect error detail restore the type URL with the same resolver-prefix constant; " +
			"(bin) every test for a binary metadata key is `HasSuffix(<lower-cased key>, \"-bin\")`, metadata keys are stored lower-cased, proto→gRPC directions decode and gRPC→proto encodes with the connect Encode/DecodeBinaryHeader pair (exactly once each way); " +
			"(percent) the escape predicate, evaluated as a boolean expression over all 256 byte values, is exactly {<0x20} ∪ {>0x7E} ∪ {'%'}; the encoder classifies bytes only through that predicate (both passes), and on the escape edge writes '%', upperhex[b>>4], upperhex[b&15] from a table of 16 distinct digits and the byte itself otherwise — which is injectivity and printable-ASCII output for all byte strings. " +
			"It does NOT decide round-trip laws over all values (multi-valued repeated keys, detail payloads).",
		NotDecided: []string{"round-trip equality of errors/metadata for all values", "behaviour of connect-go / grpc-go / protobuf libraries"},
		Assume:     []string{"the byte-predicate evaluator interprets one loop-free boolean expression over a single byte parameter on its 256-value domain (exact abstract interpretation of that expression, no repository code is executed)"},
		Trusted:    append([]string{"byte-predicate evaluator (constant folding of one boolean expression over byte)"}, commonTrusted...),
		Run:        runC18,
	})
	fc, fm := "internal/codec.go", "internal/grpcutil/metadata.go"
	addMutants(
		Mutant{ID: "C18-D3-marshalappend", Prop: "C18", File: fc, Old: "\treturn proto.MarshalOptions{}.MarshalAppend(b, protoMsg)", New: "\treturn protojson.MarshalOptions{}.MarshalAppend(b, protoMsg)",
			Expect: []string{"codec-family.StrictProtoCodec"}, Note: "original defect D3: proto codec appends JSON"},
		Mutant{ID: "C18-percent-fastpath", Prop: "C18", File: fm, Old: "\tfor i := range len(msg) {\n\t\tif ShouldEscapeByteInMessage(msg[i]) {\n\t\t\thexCount++", New: "\tfor i := range len(msg) {\n\t\tif char := msg[i]; char < ' ' || char > '~' {\n\t\t\thexCount++",
			Expect: []string{"percent.single-predicate"}, Note: "seed C18-1: fast path forgets '%'"},
		Mutant{ID: "C18-bin-case", Prop: "C18", File: fm, Old: "\t\tkey := strings.ToLower(hdr.Name)\n\t\tvals := hdr.Value\n\t\tif strings.HasSuffix(key, \"-bin\") {", New: "\t\tkey := strings.ToLower(hdr.Name)\n\t\tvals := hdr.Value\n\t\tif strings.HasSuffix(hdr.Name, \"-bin\") {",
			Expect: []string{"bin.suffix-on-lowered"}, Note: "seed C18-2 / C02-1: -Bin keys not decoded (double encoding)"},
		Mutant{ID: "C18-del-escape", Prop: "C18", File: fm, Old: "\treturn char < ' ' || char > '~' || char == '%'", New: "\treturn char < ' ' || char >= 0x80 || char == '%'",
			Expect: []string{"percent.byteset"}, Note: "seed C13-1: DEL (0x7F) no longer escaped"},
		Mutant{ID: "C18-D11-append-raw", Prop: "C18", File: fm, Old: "\t\t\tif isBinary {\n\t\t\t\t// binary headers are base64-encoded in Header proto, but\n\t\t\t\t// grpc-go library expects them to be unencoded\n\t\t\t\tif data, err := connect.DecodeBinaryHeader(val); err == nil {\n\t\t\t\t\tval = string(data)\n\t\t\t\t}\n\t\t\t}\n", New: "\t\t\t_ = isBinary\n",
			Expect: []string{"bin.direction"}, Note: "original defect D11: outgoing -bin headers not decoded"},
		Mutant{ID: "C18-discard-unknown", Prop: "C18", File: fc, Old: "\treturn protojson.Unmarshal(data, protoMsg)", New: "\treturn protojson.UnmarshalOptions{DiscardUnknown: true}.Unmarshal(data, protoMsg)",
			Expect: []string{"strict.no-discard"}, Note: "strict JSON codec drops unknown fields"},
		Mutant{ID: "C18-details-dropped", Prop: "C18", File: "internal/grpcutil/errors.go", Old: "\t\tMessage: err.GetMessage(),\n\t\tDetails: err.Details,", New: "\t\tMessage: err.GetMessage(),",
			Expect: []string{"cover."}, Note: "details lost converting to a gRPC status"},
		Mutant{ID: "C18-hex-nibbles", Prop: "C18", File: fm, Old: "\t\t\tout.WriteByte(upperhex[char>>4])\n\t\t\tout.WriteByte(upperhex[char&15])", New: "\t\t\tout.WriteByte(upperhex[char&15])\n\t\t\tout.WriteByte(upperhex[char>>4])",
			Expect: []string{"percent.encoder"}, Note: "nibbles swapped"},
		Mutant{ID: "C18-unknown-ok", Prop: "C18", File: fc, Old: "\tif len(unrecognized) == 0 {\n\t\treturn nil\n\t}", New: "\tif len(unrecognized) >= 0 {\n\t\treturn nil\n\t}",
			Expect: []string{"strict.unknown-rejected"}, Note: "binary codec accepts unknown fields"},
		Mutant{ID: "C18-prefix-literal", Prop: "C18", File: "internal/errors.go", Old: "TypeUrl: DefaultAnyResolverPrefix + detail.Type(),", New: "TypeUrl: \"type.googleapis.com\" + detail.Type(),",
			Expect: []string{"cover.type-url-prefix"}, Note: "type URL rebuilt with a different prefix (missing slash)"},
	)
}

// byteSet evaluates a function `func(b byte) bool` whose body is a single
// return of a boolean expression over b and constants, on all 256 values.
func byteSet(pkg *packages.Package, fd *ast.FuncDecl) (set [256]bool, ok bool) {
	if fd == nil || fd.Body == nil || len(fd.Body.List) != 1 || fd.Type.Params == nil || len(fd.Type.Params.List) != 1 || len(fd.Type.Params.List[0].Names) != 1 {
		return set, false
	}
	ret, isRet := fd.Body.List[0].(*ast.ReturnStmt)
	if !isRet || len(ret.Results) != 1 {
		return set, false
	}
	param := pkg.TypesInfo.Defs[fd.Type.Params.List[0].Names[0]]
	var evalInt func(e ast.Expr, b int64) (int64, bool)
	var evalBool func(e ast.Expr, b int64) (bool, bool)
	evalInt = func(e ast.Expr, b int64) (int64, bool) {
		if tv, has := pkg.TypesInfo.Types[e]; has && tv.Value != nil {
			if v, exact := constant.Int64Val(constant.ToInt(tv.Value)); exact {
				return v, true
			}
		}
		switch x := e.(type) {
		case *ast.ParenExpr:
			return evalInt(x.X, b)
		case *ast.Ident:
			if pkg.TypesInfo.Uses[x] == param {
				return b, true
			}
		case *ast.CallExpr: // conversions like byte(x), int(x)
			if len(x.Args) == 1 {
				if tv, has := pkg.TypesInfo.Types[x.Fun]; has && tv.IsType() {
					return evalInt(x.Args[0], b)
				}
			}
		case *ast.BinaryExpr:
			l, ok1 := evalInt(x.X, b)
			r, ok2 := evalInt(x.Y, b)
			if !ok1 || !ok2 {
				return 0, false
			}
			switch x.Op {
			case token.ADD:
				return l + r, true
			case token.SUB:
				return l - r, true
			case token.AND:
				return l & r, true
			case token.OR:
				return l | r, true
			case token.SHR:
				return l >> uint(r), true
			case token.SHL:
				return l << uint(r), true
			}
		}
		return 0, false
	}
	evalBool = func(e ast.Expr, b int64) (bool, bool) {
		switch x := e.(type) {
		case *ast.ParenExpr:
			return evalBool(x.X, b)
		case *ast.UnaryExpr:
			if x.Op == token.NOT {
				v, ok := evalBool(x.X, b)
				return !v, ok
			}
		case *ast.BinaryExpr:
			switch x.Op {
			case token.LOR, token.LAND:
				l, ok1 := evalBool(x.X, b)
				r, ok2 := evalBool(x.Y, b)
				if !ok1 || !ok2 {
					return false, false
				}
				if x.Op == token.LOR {
					return l || r, true
				}
				return l && r, true
			case token.LSS, token.GTR, token.LEQ, token.GEQ, token.EQL, token.NEQ:
				l, ok1 := evalInt(x.X, b)
				r, ok2 := evalInt(x.Y, b)
				if !ok1 || !ok2 {
					return false, false
				}
				switch x.Op {
				case token.LSS:
					return l < r, true
				case token.GTR:
					return l > r, true
				case token.LEQ:
					return l <= r, true
				case token.GEQ:
					return l >= r, true
				case token.EQL:
					return l == r, true
				case token.NEQ:
					return l != r, true
				}
			}
		}
		return false, false
	}
	for b := 0; b < 256; b++ {
		v, ok := evalBool(ret.Results[0], int64(b))
		if !ok {
			return set, false
		}
		set[b] = v
	}
	return set, true
}

func runC18(p *Prog, r *Report) {
	// ---- codec family ----
	protoPkg, jsonPkg := "google.golang.org/protobuf/proto", "google.golang.org/protobuf/encoding/protojson"
	for _, w := range []struct {
		typ, name  string
		binary     bool
		want, deny string
	}{{"StrictProtoCodec", "proto", true, protoPkg, jsonPkg}, {"StrictJSONCodec", "json", false, jsonPkg, protoPkg}} {
		ok := true
		why := ""
		for _, m := range []string{"Marshal", "MarshalAppend", "MarshalStable", "Unmarshal"} {
			fn := p.Func("internal", w.typ, m)
			r.Sites++
			if fn == nil {
				ok = false
				why += " " + m + " not found;"
				continue
			}
			r.Func(funcName(fn))
			used := map[string]bool{}
			seen := map[*ssa.Function]bool{}
			var walk func(f *ssa.Function)
			walk = func(f *ssa.Function) {
				if seen[f] {
					return
				}
				seen[f] = true
				eachInstr(f, func(in ssa.Instruction) {
					c := callCommon(in)
					if c == nil {
						return
					}
					callee := c.StaticCallee()
					if callee == nil {
						return
					}
					if pk := callee.Pkg; pk != nil {
						path := pk.Pkg.Path()
						if (path == protoPkg || path == jsonPkg) && (strings.HasPrefix(callee.Name(), "Marshal") || strings.HasPrefix(callee.Name(), "Unmarshal")) {
							used[path] = true
						}
					}
					// methods of the same codec type
					if callee.Signature.Recv() != nil && p.IsRepoFunc(callee) {
						if nt, ok := callee.Signature.Recv().Type().(*types.Named); ok && nt.Obj().Name() == w.typ {
							walk(callee)
						}
					}
				})
			}
			walk(fn)
			if !used[w.want] || used[w.deny] {
				ok = false
				why += fmt.Sprintf(" %s reaches %v;", m, sortedKeys(used))
			}
		}
		nameFn, binFn := p.Func("internal", w.typ, "Name"), p.Func("internal", w.typ, "IsBinary")
		if nameFn != nil && binFn != nil {
			for _, ret := range returnsOf(nameFn) {
				if s, isS := constString(ret.Results[0]); !isS || s != w.name {
					ok = false
					why += " Name() is not " + w.name + ";"
				}
			}
			for _, ret := range returnsOf(binFn) {
				if b, isC := constBool(ret.Results[0]); !isC || b != w.binary {
					ok = false
					why += fmt.Sprintf(" IsBinary() is not %v;", w.binary)
				}
			}
		} else {
			ok = false
			why += " Name/IsBinary not found;"
		}
		r.Check(ok, "codec-family."+w.typ, "R-TABLE-AGREE", "-", fmt.Sprintf("%s: Name=%q, IsBinary=%v, all four methods encode/decode with %s only", w.typ, w.name, w.binary, w.want),
			w.typ+" is internally inconsistent:"+why+" what one method writes another cannot read")
	}
	// ---- strict ----
	discard := false
	var discardPos ssa.Instruction
	for _, fn := range p.RepoFuncs() {
		eachInstr(fn, func(in ssa.Instruction) {
			st, ok := in.(*ssa.Store)
			if !ok {
				return
			}
			fa, ok := st.Addr.(*ssa.FieldAddr)
			if !ok || fieldName(fa.X.Type(), fa.Field) != "DiscardUnknown" {
				return
			}
			r.Sites++
			if b, isC := constBool(st.Val); !isC || b {
				if pkgOfFunc(fn) == internalPath {
					discard = true
					discardPos = in
				}
			}
		})
	}
	r.Sites++
	r.Check(!discard, "strict.no-discard", "R-GUARD", p.InstrPos(discardPos), "no codec in package internal sets DiscardUnknown", "a codec in package internal sets DiscardUnknown: unknown fields would be dropped instead of rejected")
	if un := p.Func("internal", "StrictProtoCodec", "Unmarshal"); un != nil {
		okU := true
		n := 0
		for _, ret := range returnsOf(un) {
			if !isNilConst(ret.Results[0]) {
				continue
			}
			n++
			r.Sites++
			if !guardedBy(ret, func(a Atom) bool {
				if a.Op != token.EQL {
					return false
				}
				z, isZ := constInt(a.Y)
				x, isLen := lenArg(a.X)
				if !isZ || z != 0 || !isLen {
					return false
				}
				c, ok := canon(x).(*ssa.Call)
				return ok && c.Call.IsInvoke() && c.Call.Method.Name() == "GetUnknown"
			}) {
				okU = false
			}
		}
		r.Check(okU && n == 1, "strict.unknown-rejected", "R-GUARD", p.Pos(un.Pos()), "nil is returned only on the len(GetUnknown()) == 0 edge", "StrictProtoCodec.Unmarshal can succeed although unknown field bytes remain")
	} else {
		r.Undecided("strict.unknown-rejected", "R-GUARD", "StrictProtoCodec.Unmarshal not found")
	}

	// ---- cover ----
	type conv struct {
		pkg, name string
		reads     []string // how the three components of the source are read
		writes    []string // how they are written
	}
	errCode, errMsg, errDet := p.Field(pkgGen, "Error", "Code"), p.Field(pkgGen, "Error", "Message"), p.Field(pkgGen, "Error", "Details")
	hasCall := func(fn *ssa.Function, name string) bool {
		found := false
		eachInstr(fn, func(in ssa.Instruction) {
			c := callCommon(in)
			if c == nil {
				return
			}
			if c.IsInvoke() && c.Method.Name() == name {
				found = true
			} else if f := c.StaticCallee(); f != nil && f.Name() == name {
				found = true
			}
		})
		return found
	}
	readsField := func(fn *ssa.Function, f *types.Var) bool {
		found := false
		eachInstr(fn, func(in ssa.Instruction) {
			if v, ok := in.(ssa.Value); ok && loadedField(v) == f {
				found = true
			}
		})
		return found
	}
	writesField := func(fn *ssa.Function, tname, fname string) bool {
		found := false
		eachInstr(fn, func(in ssa.Instruction) {
			st, ok := in.(*ssa.Store)
			if !ok {
				return
			}
			fa, ok := st.Addr.(*ssa.FieldAddr)
			if ok && ownerName(fa.X.Type()) == tname && fieldName(fa.X.Type(), fa.Field) == fname && !isNilConst(st.Val) {
				found = true
			}
		})
		return found
	}
	checks := []struct {
		key string
		fn  *ssa.Function
		ok  func(fn *ssa.Function) (bool, string)
	}{
		{"ConvertConnectToProtoError", p.Func("internal", "", "ConvertConnectToProtoError"), func(fn *ssa.Function) (bool, string) {
			return hasCall(fn, "Code") && hasCall(fn, "Message") && hasCall(fn, "Details") && hasCall(fn, "Bytes") && hasCall(fn, "Type") &&
				writesField(fn, "Error", "Code") && writesField(fn, "Error", "Message") && writesField(fn, "Error", "Details") && writesField(fn, "Any", "TypeUrl") && writesField(fn, "Any", "Value"), "connect → proto: Code(), Message(), Details() (Type(), Bytes()) → Error{Code, Message, Details[]{TypeUrl, Value}}"
		}},
		{"ConvertProtoToConnectError", p.Func("internal", "", "ConvertProtoToConnectError"), func(fn *ssa.Function) (bool, string) {
			return readsField(fn, errCode) && readsField(fn, errMsg) && readsField(fn, errDet) && hasCall(fn, "NewError") && hasCall(fn, "NewErrorDetail") && hasCall(fn, "AddDetail"), "proto → connect: Code, Message, Details → NewError + AddDetail per detail"
		}},
		{"ConvertProtoToGrpcError", p.Func(pkgGU, "", "ConvertProtoToGrpcError"), func(fn *ssa.Function) (bool, string) {
			return readsField(fn, errCode) && readsField(fn, errMsg) && readsField(fn, errDet) && writesField(fn, "Status", "Code") && writesField(fn, "Status", "Message") && writesField(fn, "Status", "Details"), "proto → gRPC status: all three fields"
		}},
		{"ConvertGrpcToProtoError", p.Func(pkgGU, "", "ConvertGrpcToProtoError"), func(fn *ssa.Function) (bool, string) {
			return hasCall(fn, "Code") && hasCall(fn, "Message") && writesField(fn, "Error", "Code") && writesField(fn, "Error", "Message") && writesField(fn, "Error", "Details"), "gRPC status → proto: all three fields"
		}},
	}
	for _, c := range checks {
		r.Sites++
		if c.fn == nil {
			r.Undecided("cover."+c.key, "R-COVER", c.key+" not found")
			continue
		}
		r.Func(funcName(c.fn))
		ok, what := c.ok(c.fn)
		r.Check(ok, "cover."+c.key, "R-COVER", p.Pos(c.fn.Pos()), what, c.key+" does not carry code, message and details over ("+what+")")
	}
	// type URL prefix: same constant object in both unwrapping sites (AST: identifier use)
	prefixConst := p.Const("internal", "DefaultAnyResolverPrefix")
	uses := 0
	if prefixConst != nil {
		for _, site := range []struct{ rel, recv, fn string }{{"internal", "", "ConvertConnectToProtoError"}, {pkgRS, "", "grpcStatusTrailers"}} {
			fn := p.Func(site.rel, site.recv, site.fn)
			decl, pkg := p.Decl(fn)
			if decl == nil {
				continue
			}
			found := false
			ast.Inspect(decl, func(n ast.Node) bool {
				be, ok := n.(*ast.BinaryExpr)
				if !ok || be.Op != token.ADD {
					return true
				}
				var obj types.Object
				switch x := be.X.(type) {
				case *ast.Ident:
					obj = pkg.TypesInfo.Uses[x]
				case *ast.SelectorExpr:
					obj = pkg.TypesInfo.Uses[x.Sel]
				}
				if obj == types.Object(prefixConst) {
					if call, ok := be.Y.(*ast.CallExpr); ok {
						if sel, ok := call.Fun.(*ast.SelectorExpr); ok && sel.Sel.Name == "Type" {
							found = true
						}
					}
				}
				return true
			})
			if found {
				uses++
			}
		}
	}
	r.Sites += 2
	r.Check(uses == 2, "cover.type-url-prefix", "R-SINGLE-SOURCE", "-", "both unwrapping sites rebuild the type URL as DefaultAnyResolverPrefix + detail.Type()", fmt.Sprintf("only %d of the 2 sites that unwrap connect error details rebuild the type URL as DefaultAnyResolverPrefix + detail.Type(): details would not compare equal to the ones read from YAML", uses))

	// ---- bin ----
	binRules(p, r)

	// ---- percent ----
	esc := p.Func(pkgGU, "", "ShouldEscapeByteInMessage")
	enc := p.Func(pkgGU, "", "PercentEncodeMessage")
	if esc == nil || enc == nil {
		r.Undecided("percent", "R-BYTESET", "percent-encoding functions not found")
		return
	}
	decl, pkg := p.Decl(esc)
	set, ok := byteSet(pkg, decl)
	r.Sites += 256
	if !ok {
		r.Undecided("percent.byteset", "R-BYTESET", "ShouldEscapeByteInMessage is no longer a single boolean expression over its byte parameter")
	} else {
		bad := []string{}
		for b := 0; b < 256; b++ {
			want := b < 0x20 || b > 0x7E || b == '%'
			if set[b] != want {
				bad = append(bad, fmt.Sprintf("0x%02X escape=%v (spec %v)", b, set[b], want))
			}
		}
		r.Check(len(bad) == 0, "percent.byteset", "R-BYTESET", p.Pos(esc.Pos()), "escape set = {<0x20} ∪ {>0x7E} ∪ {'%'} on all 256 byte values", "the escape predicate deviates from the gRPC grpc-message rule for: "+strings.Join(bad, ", "))
	}
	// the encoder classifies only through the predicate
	escObj := funcObj(esc)
	nclass, direct := 0, 0
	var directAt ssa.Instruction
	eachInstr(enc, func(in ssa.Instruction) {
		if c := callCommon(in); c != nil && calleeObj(c) == escObj {
			nclass++
		}
		if bo, ok := in.(*ssa.BinOp); ok {
			switch bo.Op {
			case token.LSS, token.GTR, token.LEQ, token.GEQ, token.EQL, token.NEQ:
				isByte := func(v ssa.Value) bool {
					b, ok := v.Type().Underlying().(*types.Basic)
					return ok && b.Kind() == types.Uint8
				}
				if isByte(bo.X) || isByte(bo.Y) {
					direct++
					directAt = in
				}
			}
		}
	})
	r.Sites++
	r.Check(nclass == 2 && direct == 0, "percent.single-predicate", "R-SINGLE-SOURCE", p.InstrPos(directAt), "both passes classify bytes only by calling ShouldEscapeByteInMessage", fmt.Sprintf("PercentEncodeMessage classifies bytes with %d call(s) of ShouldEscapeByteInMessage and %d direct comparison(s): the counting pass and the writing pass can disagree (e.g. a message whose only special byte is '%%' is returned unencoded)", nclass, direct))
	// escape edge writes '%', hex[b>>4], hex[b&15]; other edge writes b
	var writes []ssa.Instruction
	eachInstr(enc, func(in ssa.Instruction) {
		if c := callCommon(in); c != nil && c.StaticCallee() != nil && c.StaticCallee().Name() == "WriteByte" {
			writes = append(writes, in)
		}
	})
	onEsc := func(in ssa.Instruction, want bool) bool {
		return guardedBy(in, func(a Atom) bool {
			m, v := boolTestOn(a, isCallResult(func(c *ssa.CallCommon) bool { return calleeObj(c) == escObj }))
			return m && v == want
		})
	}
	okEnc := len(writes) == 4
	hexOK := false
	if okEnc {
		a0 := callCommon(writes[0]).Args[1]
		k, isK := constInt(a0)
		okEnc = isK && k == '%' && onEsc(writes[0], true) && onEsc(writes[1], true) && onEsc(writes[2], true) && onEsc(writes[3], false)
		nib := func(in ssa.Instruction) string {
			v := canon(callCommon(in).Args[1])
			var idx ssa.Value
			switch x := v.(type) {
			case *ssa.Index:
				if s, ok := constString(x.X); ok {
					hexOK = len(s) == 16 && distinctChars(s)
				}
				idx = x.Index
			case *ssa.UnOp:
				if ia, ok := x.X.(*ssa.IndexAddr); ok {
					idx = ia.Index
				}
			}
			if idx == nil {
				return "?"
			}
			if bo, ok := canon(idx).(*ssa.BinOp); ok {
				if c, isC := constInt(bo.Y); isC {
					return fmt.Sprintf("%s%d", bo.Op, c)
				}
			}
			return "?"
		}
		okEnc = okEnc && nib(writes[1]) == ">>4" && nib(writes[2]) == "&15"
		// the unescaped byte is the byte itself
		okEnc = okEnc && !isConstVal(callCommon(writes[3]).Args[1])
	}
	r.Sites++
	r.Check(okEnc && hexOK, "percent.encoder", "R-WIRE", p.Pos(enc.Pos()), "escape edge: '%', hex[b>>4], hex[b&15] (16 distinct digits); other edge: the byte", "the percent-encoder does not emit '%', hex[b>>4], hex[b&15] (from 16 distinct digits) for escaped bytes and the byte itself otherwise: the encoding would not be invertible")
}

func distinctChars(s string) bool {
	seen := map[rune]bool{}
	for _, c := range s {
		if seen[c] {
			return false
		}
		seen[c] = true
	}
	return true
}

// binRules: the "-bin" (binary metadata) handling of the three grpcutil
// converters is symmetric and decided on the lower-cased key. Shared by C18
// (header conversion) and C02 (the gRPC peers see the same metadata as the
// Connect peers).
func binRules(p *Prog, r *Report) {
	nsuf, okSuf := 0, true
	var dirs []string
	for _, name := range []string{"ConvertMetadataToProtoHeader", "ConvertProtoHeaderToMetadata", "AppendToOutgoingContext"} {
		fn := p.Func(pkgGU, "", name)
		if fn == nil {
			r.Undecided("bin."+name, "R-TABLE-AGREE", name+" not found")
			continue
		}
		r.Func(funcName(fn))
		eachInstr(fn, func(in ssa.Instruction) {
			c, ok := in.(*ssa.Call)
			if !ok || !isCallToNamed(&c.Call, "strings", "", "HasSuffix") {
				return
			}
			s, isS := constString(c.Call.Args[1])
			if !isS || s != "-bin" {
				return
			}
			nsuf++
			r.Sites++
			arg := canon(c.Call.Args[0])
			lowered := false
			if cl, ok := arg.(*ssa.Call); ok && isCallToNamed(&cl.Call, "strings", "", "ToLower") {
				lowered = true
			}
			// keys of grpc metadata.MD are lower-case by construction
			if ex, ok := arg.(*ssa.Extract); ok {
				if nx, ok := ex.Tuple.(*ssa.Next); ok {
					if rg, ok := nx.Iter.(*ssa.Range); ok {
						if nt, ok := rg.X.Type().(*types.Named); ok && nt.Obj().Name() == "MD" {
							lowered = true
						}
					}
				}
			}
			if !lowered {
				okSuf = false
				r.Fail("bin.suffix-on-lowered@"+name, "R-TABLE-AGREE", p.InstrPos(in), name+" tests the \"-bin\" suffix on "+path(arg)+", not on the lower-cased key: a key such as X-Data-Bin would be treated as text and base64-encoded a second time")
			}
			// direction: which codec call is on the suffix-true edge
			enc, dec := false, false
			eachInstr(fn, func(i2 ssa.Instruction) {
				cc := callCommon(i2)
				if cc == nil {
					return
				}
				f := cc.StaticCallee()
				if f == nil || f.Pkg == nil || f.Pkg.Pkg.Path() != "connectrpc.com/connect" {
					return
				}
				if !guardedBy(i2, func(a Atom) bool {
					m, v := boolTestOn(a, func(x ssa.Value) bool { return canon(x) == ssa.Value(c) })
					return m && v
				}) {
					return
				}
				if f.Name() == "EncodeBinaryHeader" {
					enc = true
				}
				if f.Name() == "DecodeBinaryHeader" {
					dec = true
				}
			})
			switch {
			case enc && !dec:
				dirs = append(dirs, name+":encode")
			case dec && !enc:
				dirs = append(dirs, name+":decode")
			default:
				dirs = append(dirs, name+":none")
			}
		})
	}
	if okSuf {
		r.OK("bin.suffix-on-lowered", "R-TABLE-AGREE", "-", fmt.Sprintf("%d suffix tests, all on lower-cased keys", nsuf))
	}
	r.Floor("bin-suffix-tests", nsuf, 3)
	sort.Strings(dirs)
	r.Sites++
	r.Check(fmt.Sprint(dirs) == "[AppendToOutgoingContext:decode ConvertMetadataToProtoHeader:encode ConvertProtoHeaderToMetadata:decode]", "bin.direction", "R-TABLE-AGREE", "-", "gRPC metadata → proto encodes, proto → gRPC metadata (both functions) decodes, each on the -bin edge", fmt.Sprintf("binary header handling is not symmetric: %v (expected metadata→proto: encode; proto→metadata and outgoing context: decode): a -bin value would be base64-encoded twice or not at all", dirs))
	if fn := p.Func(pkgGU, "", "ConvertProtoHeaderToMetadata"); fn != nil {
		okKey := false
		eachInstr(fn, func(in ssa.Instruction) {
			if mu, ok := in.(*ssa.MapUpdate); ok {
				if c, ok := canon(mu.Key).(*ssa.Call); ok && isCallToNamed(&c.Call, "strings", "", "ToLower") {
					okKey = true
				}
			}
		})
		r.Sites++
		r.Check(okKey, "bin.keys-lowered", "R-WIRE", p.Pos(fn.Pos()), "metadata keys are stored lower-cased", "metadata keys are not stored lower-cased")
	}
}
