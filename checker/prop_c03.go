package main

import (
	"fmt"
	"go/ast"
	"go/token"
	"go/types"
	"sort"
	"strings"

	"golang.org/x/tools/go/ssa"
)

func init() {
	register(&propMeta{
		ID: "C03",
		Explain: "Decides structural necessary conditions of 'result assertion flags every semantic deviation, allows only documented leniency': " +
			"(cover) every field the statement lists is read on both the expected and the actual side in the function that compares it; NumUnsentRequests is never compared; " +
			"(polarity) for every comparison between an expected-side and an actual-side value (==/!=, bytes.Equal, reflect.DeepEqual, cmp.Diff, map-lookup ok, range checks) the *differs* edge reaches an append to the function's error accumulator and the *agrees* edge does not; " +
			"(errflow) every error list returned by a check* helper flows into the accumulator that becomes the outcome, the only droppable lists are the merged-metadata probes, which are only length-tested; the original metadata errors are dropped only when one of the merged probes succeeded, and the merged fallback is entered only under (no expected payloads ∧ expected error) for unary/client-stream; " +
			"(grace) the lower timeout bound is expected − timeoutCheckGracePeriodMillis (the named constant), clamped at 0, the upper bound is expected, both ends inclusive; " +
			"(first-only) header/timeout/query verification is requested for payload #0 only and always for the request info carried in error details; " +
			"(leniency) each documented leniency is exactly the documented guard (other allowed codes via slices.Contains(otherCodes, actual.Code); message only when specified; HTTP status only when both present; header names lowered and values canonicalised on both sides). " +
			"It does NOT decide that results equal up to the leniencies pass, nor off-by-one weakenings that keep coverage and polarity.",
		NotDecided: []string{"the passes-when-equal-up-to-leniency direction", "position-level correctness (n-th payload/detail/value) beyond loop-index wiring", "canonicalizeHeaderVals' splitting arithmetic"},
		Assume:     []string{"sides are identified by the parameter a value is loaded from (expected / definition vs actual)"},
		Trusted:    commonTrusted,
		Run:        runC03,
	})
	f := "internal/app/connectconformance/results.go"
	addMutants(
		Mutant{ID: "C03-detail-first-only", Prop: "C03", File: f, Old: "errs = append(errs, checkRequestInfo(expectedReqInfo, actualReqInfo, true)...)", New: "errs = append(errs, checkRequestInfo(expectedReqInfo, actualReqInfo, i == 0)...)",
			Expect: []string{"first-only.checkError"}, Note: "seed C03-1: request info in error details verified only at index 0"},
		Mutant{ID: "C03-merged-guard", Prop: "C03", File: f,
			Old:    "\tif len(expected.Payloads) == 0 &&\n\t\texpected.Error != nil &&\n\t\t(definition.Request.StreamType == conformancev1.StreamType_STREAM_TYPE_UNARY ||\n\t\t\tdefinition.Request.StreamType == conformancev1.StreamType_STREAM_TYPE_CLIENT_STREAM) {",
			New:    "\tif len(expected.Payloads) == 0 &&\n\t\texpected.Error != nil &&\n\t\tdefinition.Request.StreamType == conformancev1.StreamType_STREAM_TYPE_UNARY ||\n\t\tdefinition.Request.StreamType == conformancev1.StreamType_STREAM_TYPE_CLIENT_STREAM {",
			Expect: []string{"errflow.merged-guard"}, Note: "seed C03-2: merged-metadata leniency applied to every client stream"},
		Mutant{ID: "C03-data-polarity", Prop: "C03", File: f, Old: "if !bytes.Equal(actualPayload.Data, expectedPayload.Data) {", New: "if bytes.Equal(actualPayload.Data, expectedPayload.Data) {",
			Expect: []string{"polarity."}, Note: "payload data mismatch polarity inverted"},
		Mutant{ID: "C03-trailers-dropped", Prop: "C03", File: f, Old: "\t\terrs = append(errs, checkHeaders(\"response trailers\", expected.ResponseTrailers, actual.ResponseTrailers)...)\n\t}", New: "\t\t_ = checkHeaders(\"response trailers\", expected.ResponseTrailers, actual.ResponseTrailers)\n\t}",
			Expect: []string{"errflow.flows"}, Note: "trailer errors computed but discarded"},
		Mutant{ID: "C03-grace-literal", Prop: "C03", File: f, Old: "minAllowed := maxAllowed - timeoutCheckGracePeriodMillis", New: "minAllowed := maxAllowed - 5000",
			Expect: []string{"grace."}, Note: "grace window no longer the documented constant"},
		Mutant{ID: "C03-grace-exclusive", Prop: "C03", File: f, Old: "if actual.GetTimeoutMs() > maxAllowed || actual.GetTimeoutMs() < minAllowed {", New: "if actual.GetTimeoutMs() >= maxAllowed || actual.GetTimeoutMs() < minAllowed {",
			Expect: []string{"grace.inclusive"}, Note: "an exactly echoed timeout is rejected"},
		Mutant{ID: "C03-code-leniency-wide", Prop: "C03", File: f, Old: "if expected.Code != actual.Code && !slices.Contains(otherCodes, actual.Code) {", New: "if expected.Code != actual.Code && (len(otherCodes) == 0 || !slices.Contains(otherCodes, expected.Code)) {",
			Expect: []string{"leniency.other-codes"}, Note: "any code accepted as soon as alternatives are listed"},
		Mutant{ID: "C03-status-one-sided", Prop: "C03", File: f, Old: "\tif expected.HttpStatusCode != nil &&\n\t\tactual.HttpStatusCode != nil &&", New: "\tif expected.HttpStatusCode != nil &&",
			Expect: []string{"leniency.http-status"}, Note: "absent actual status no longer lenient (compares against 0)"},
		Mutant{ID: "C03-header-case", Prop: "C03", File: f, Old: "\t\tactualHeaders[strings.ToLower(hdr.Name)] = append(actualHeaders[strings.ToLower(hdr.Name)], hdr.Value...)", New: "\t\tactualHeaders[hdr.Name] = append(actualHeaders[hdr.Name], hdr.Value...)",
			Expect: []string{"leniency.header-case"}, Note: "actual header names no longer case-folded"},
		Mutant{ID: "C03-payload-all-verify", Prop: "C03", File: f, Old: "checkRequestInfo(expectedPayload.GetRequestInfo(), actualPayload.GetRequestInfo(), i == 0)", New: "checkRequestInfo(expectedPayload.GetRequestInfo(), actualPayload.GetRequestInfo(), i >= 0)",
			Expect: []string{"first-only.checkPayloads"}, Note: "headers demanded on every payload"},
		Mutant{ID: "C03-message-always", Prop: "C03", File: f, Old: "if expected.Message != nil && expected.GetMessage() != actual.GetMessage() {", New: "if expected.GetMessage() != actual.GetMessage() {",
			Expect: []string{"leniency.message"}, Note: "unspecified expected message no longer lenient"},
		Mutant{ID: "C03-unsent-compared", Prop: "C03", File: f, Old: "\tr.setOutcome(testCase, false, errs.Result())", New: "\tif expected.NumUnsentRequests != actual.NumUnsentRequests {\n\t\terrs = append(errs, errors.New(\"unsent\"))\n\t}\n\tr.setOutcome(testCase, false, errs.Result())",
			Expect: []string{"cover.not-compared"}, Note: "unsent-request count compared although documented as lenient"},
	)
}

var c03Sides = map[string]string{"expected": "expected", "definition": "expected", "actual": "actual", "a": "", "b": ""}

// sideOf: which parameter (expected/actual) a value is loaded from.
func sideOf(v ssa.Value) string { return sideOfD(v, 0, map[ssa.Value]bool{}) }

func sideOfD(v ssa.Value, d int, seen map[ssa.Value]bool) string {
	if v == nil || d > 14 || seen[v] {
		return ""
	}
	seen[v] = true
	v = canon(v)
	switch x := v.(type) {
	case *ssa.Parameter:
		return c03Sides[x.Name()]
	case *ssa.FieldAddr:
		return sideOfD(x.X, d+1, seen)
	case *ssa.Field:
		return sideOfD(x.X, d+1, seen)
	case *ssa.UnOp:
		return sideOfD(x.X, d+1, seen)
	case *ssa.IndexAddr:
		return sideOfD(x.X, d+1, seen)
	case *ssa.Index:
		return sideOfD(x.X, d+1, seen)
	case *ssa.Lookup:
		return sideOfD(x.X, d+1, seen)
	case *ssa.Extract:
		return sideOfD(x.Tuple, d+1, seen)
	case *ssa.Slice:
		return sideOfD(x.X, d+1, seen)
	case *ssa.TypeAssert:
		return sideOfD(x.X, d+1, seen)
	case *ssa.MakeInterface:
		return sideOfD(x.X, d+1, seen)
	case *ssa.BinOp:
		a, b := sideOfD(x.X, d+1, seen), sideOfD(x.Y, d+1, seen)
		if a == "" {
			return b
		}
		if b == "" || a == b {
			return a
		}
		return "mixed"
	case *ssa.Phi:
		s := ""
		for _, e := range x.Edges {
			t := sideOfD(e, d+1, seen)
			if t == "" {
				continue
			}
			if s == "" {
				s = t
			} else if s != t {
				return "mixed"
			}
		}
		return s
	case *ssa.Call:
		// getters, len, conversions through pure helpers: side of the arguments
		s := ""
		for _, a := range x.Call.Args {
			t := sideOfD(a, d+1, seen)
			if t == "" {
				continue
			}
			if s == "" {
				s = t
			} else if s != t {
				return "mixed"
			}
		}
		return s
	case *ssa.Alloc:
		// a local filled from one side (e.g. UnmarshalTo / map built from one parameter)
		s := ""
		if refs := x.Referrers(); refs != nil {
			for _, ref := range *refs {
				if st, ok := ref.(*ssa.Store); ok && st.Addr == ssa.Value(x) {
					t := sideOfD(st.Val, d+1, seen)
					if t != "" {
						if s == "" {
							s = t
						} else if s != t {
							return "mixed"
						}
					}
				}
			}
		}
		if s == "" && x.Comment != "" {
			if strings.HasPrefix(x.Comment, "expected") {
				return "expected"
			}
			if strings.HasPrefix(x.Comment, "actual") {
				return "actual"
			}
		}
		return s
	case *ssa.MakeMap:
		// a map filled from one side: look at its updates
		s := ""
		if refs := x.Referrers(); refs != nil {
			for _, ref := range *refs {
				if mu, ok := ref.(*ssa.MapUpdate); ok {
					t := sideOfD(mu.Value, d+1, seen)
					if t != "" {
						if s == "" {
							s = t
						} else if s != t {
							return "mixed"
						}
					}
				}
			}
		}
		return s
	}
	return ""
}

func runC03(p *Prog, r *Report) {
	fnNames := []string{"assert", "checkError", "checkPayloads", "checkRequestInfo", "checkHeaders", "mergeHeaders", "canonicalizeHeaderVals"}
	fns := map[string]*ssa.Function{}
	for _, n := range fnNames {
		recv := ""
		if n == "assert" {
			recv = "testResults"
		}
		fn := p.Func(pkgCC, recv, n)
		if fn == nil {
			r.Undecided("scope."+n, "R-COVER", "function "+n+" not found")
			return
		}
		fns[n] = fn
		r.Func(funcName(fn))
	}
	gen := func(t, f string) *types.Var { return p.Field(pkgGen, t, f) }

	// ---- cover ----
	reads := func(fn *ssa.Function, f *types.Var) map[string]bool {
		out := map[string]bool{}
		eachInstr(fn, func(in ssa.Instruction) {
			var base ssa.Value
			switch x := in.(type) {
			case *ssa.FieldAddr:
				if fieldVar(x.X.Type(), x.Field) == f {
					base = x.X
				}
			case *ssa.Field:
				if fieldVar(x.X.Type(), x.Field) == f {
					base = x.X
				}
			case *ssa.Call:
				if fc := x.Call.StaticCallee(); fc != nil && strings.HasPrefix(fc.Name(), "Get") && getterField(fc) == f && len(x.Call.Args) == 1 {
					base = x.Call.Args[0]
				}
			}
			if base != nil {
				r.Sites++
				if s := sideOf(base); s != "" {
					out[s] = true
				}
			}
		})
		return out
	}
	type cov struct {
		fn, typ string
		fields  []string
		sides   []string
	}
	both := []string{"expected", "actual"}
	for _, c := range []cov{
		{"assert", "ClientResponseResult", []string{"Error", "Payloads", "ResponseHeaders", "ResponseTrailers", "HttpStatusCode"}, both},
		{"assert", "TestCase", []string{"OtherAllowedErrorCodes"}, []string{"expected"}},
		{"checkError", "Error", []string{"Code", "Message", "Details"}, both},
		{"checkPayloads", "ConformancePayload", []string{"Data", "RequestInfo"}, both},
		{"checkRequestInfo", "ConformancePayload_RequestInfo", []string{"RequestHeaders", "TimeoutMs", "Requests", "ConnectGetInfo"}, both},
		{"checkRequestInfo", "ConformancePayload_ConnectGetInfo", []string{"QueryParams"}, both},
		{"checkHeaders", "Header", []string{"Name", "Value"}, both},
	} {
		for _, fld := range c.fields {
			f := gen(c.typ, fld)
			if f == nil {
				r.Undecided("cover."+c.typ+"."+fld, "R-COVER", "field not found")
				continue
			}
			got := reads(fns[c.fn], f)
			for _, side := range c.sides {
				r.Check(got[side], "cover."+c.typ+"."+fld+"."+side, "R-COVER", p.Pos(fns[c.fn].Pos()), c.fn+" reads "+c.typ+"."+fld+" on the "+side+" side",
					c.fn+" never reads "+c.typ+"."+fld+" of the "+side+" result: a deviation in that field cannot be detected")
			}
		}
	}
	unsent := gen("ClientResponseResult", "NumUnsentRequests")
	cmpd := false
	for _, fn := range fns {
		if len(reads(fn, unsent)) > 0 {
			cmpd = true
		}
	}
	r.Check(!cmpd, "cover.not-compared.NumUnsentRequests", "R-COVER", "-", "NumUnsentRequests is not read by the assertion", "the assertion reads NumUnsentRequests, which is documented as not compared")

	// ---- polarity ----
	isAppendErr := func(in ssa.Instruction) bool {
		c, ok := in.(*ssa.Call)
		if !ok {
			return false
		}
		b, isB := c.Call.Value.(*ssa.Builtin)
		if !isB || b.Name() != "append" {
			return false
		}
		nt, ok := c.Type().(*types.Named)
		if !ok || nt.Obj().Name() != "multiErrors" {
			return false
		}
		// a freshly built error element (varargs array), not the spread of a helper's result list
		sl, isSl := c.Call.Args[1].(*ssa.Slice)
		if !isSl {
			return false
		}
		_, isArr := sl.X.(*ssa.Alloc)
		return isArr
	}
	isErrReturn := func(in ssa.Instruction) bool {
		ret, ok := in.(*ssa.Return)
		if !ok || len(ret.Results) != 1 {
			return false
		}
		nt, ok := ret.Results[0].Type().(*types.Named)
		if !ok || nt.Obj().Name() != "multiErrors" {
			return false
		}
		_, isSlice := ret.Results[0].(*ssa.Slice) // multiErrors{...} literal
		return isSlice
	}
	reports := func(fn *ssa.Function, from *ssa.BasicBlock, edge int) bool {
		for _, b := range fn.Blocks {
			if !edgeDominates(from, edge, b) {
				continue
			}
			for _, in := range b.Instrs {
				if isAppendErr(in) || isErrReturn(in) {
					return true
				}
			}
		}
		return false
	}
	npol := 0
	for _, n := range []string{"assert", "checkError", "checkPayloads", "checkRequestInfo", "checkHeaders"} {
		fn := fns[n]
		for _, b := range fn.Blocks {
			iff, ok := b.Instrs[len(b.Instrs)-1].(*ssa.If)
			if !ok {
				continue
			}
			a := atomOf(iff.Cond, true)
			differsOnTrue, relevant, what := false, false, ""
			switch a.Op {
			case token.EQL, token.NEQ:
				sx, sy := sideOf(a.X), sideOf(a.Y)
				if sx != "" && sy != "" && sx != sy && sx != "mixed" && sy != "mixed" {
					relevant, differsOnTrue, what = true, a.Op == token.NEQ, a.String()
				}
				// cmp.Diff(...) != ""
				if c, isCall := canon(a.X).(*ssa.Call); isCall && isCallToNamed(&c.Call, "github.com/google/go-cmp/cmp", "", "Diff") {
					relevant, differsOnTrue, what = true, a.Op == token.NEQ, "cmp.Diff(...) "+a.Op.String()+` ""`
				}
			case token.LSS, token.GTR, token.LEQ, token.GEQ:
				sx, sy := sideOf(a.X), sideOf(a.Y)
				if sx != "" && sy != "" && sx != sy && sx != "mixed" && sy != "mixed" {
					// a range check: relevant only if some edge reports
					if reports(fn, b, 0) || reports(fn, b, 1) {
						relevant, differsOnTrue, what = true, true, a.String()
					}
				}
			case token.ILLEGAL:
				if c, isCall := canon(a.X).(*ssa.Call); isCall {
					switch {
					case isCallToNamed(&c.Call, "bytes", "", "Equal"), isCallToNamed(&c.Call, "reflect", "", "DeepEqual"):
						relevant, differsOnTrue, what = true, a.Neg, path(c)
					case isCallToNamed(&c.Call, "slices", "", "Contains"):
						// allowed alternative codes: "differs" = not contained
						relevant, differsOnTrue, what = true, a.Neg, path(c)
					}
				}
				if ex, isEx := a.X.(*ssa.Extract); isEx && ex.Index == 1 {
					if lk, isLk := ex.Tuple.(*ssa.Lookup); isLk && lk.CommaOk && sideOf(lk.X) == "actual" {
						relevant, differsOnTrue, what = true, a.Neg, "lookup of expected key in actual map"
					}
				}
			}
			if !relevant {
				continue
			}
			npol++
			r.Sites++
			diffEdge, sameEdge := 0, 1
			if !differsOnTrue {
				diffEdge, sameEdge = 1, 0
			}
			key := fmt.Sprintf("polarity.%s#%s", n, keySan.ReplaceAllString(what, "_"))
			if len(key) > 120 {
				key = key[:120]
			}
			switch {
			case !reports(fn, b, diffEdge):
				r.Fail(key, "R-POLARITY", p.InstrPos(iff), "the comparison `"+what+"` in "+n+" does not lead to a reported error on its *differs* edge: that deviation would pass silently")
			case reports(fn, b, sameEdge) && !reports(fn, b, diffEdge):
				r.Fail(key, "R-POLARITY", p.InstrPos(iff), "the comparison `"+what+"` reports an error on its *agrees* edge")
			case !canAvoidReport(b.Succs[sameEdge], b, func(in ssa.Instruction) bool { return isAppendErr(in) || isErrReturn(in) }):
				r.Fail(key, "R-POLARITY", p.InstrPos(iff), "the comparison `"+what+"` in "+n+" reports an error when the values agree")
			default:
				r.OK(key, "R-POLARITY", p.InstrPos(iff), "differs edge reports, agrees edge does not")
			}
		}
	}
	r.Floor("polarity-sites", npol, 12)

	// ---- errflow ----
	asrt := fns["assert"]
	checkObjs := map[*types.Func]bool{}
	for _, n := range []string{"checkError", "checkPayloads", "checkRequestInfo", "checkHeaders"} {
		checkObjs[funcObj(fns[n])] = true
	}
	setOutcome := p.TypeFunc(pkgCC, "testResults", "setOutcome")
	var finalDeps map[ssa.Value]bool
	for _, c := range findInstrs(asrt, isCallObj(setOutcome)) {
		finalDeps = dependenceClosure(callCommon(c).Args[3])
	}
	if finalDeps == nil {
		r.Fail("errflow.outcome", "R-DEPENDS", p.Pos(asrt.Pos()), "assert no longer records the accumulated errors as the outcome")
	}
	for _, n := range []string{"assert", "checkError", "checkPayloads", "checkRequestInfo"} {
		fn := fns[n]
		idx := 0
		eachInstr(fn, func(in ssa.Instruction) {
			c, ok := in.(*ssa.Call)
			if !ok || !checkObjs[calleeObj(&c.Call)] {
				return
			}
			idx++
			r.Sites++
			label := path(c.Call.Args[0])
			if s, isS := constString(c.Call.Args[0]); isS {
				label = s
			}
			key := fmt.Sprintf("errflow.flows.%s#%s(%s)", n, calleeObj(&c.Call).Name(), keySan.ReplaceAllString(label, "_"))
			probe := false
			if s, isS := constString(c.Call.Args[0]); isS && s == "response metadata" {
				probe = true
			}
			// where does the result go?
			appended, lenOnly := false, true
			var refs []ssa.Instruction
			var collect func(v ssa.Value, d int)
			collect = func(v ssa.Value, d int) {
				if v.Referrers() == nil || d > 4 {
					return
				}
				for _, ref := range *v.Referrers() {
					switch x := ref.(type) {
					case *ssa.ChangeType:
						collect(x, d+1)
					case *ssa.Convert:
						collect(x, d+1)
					default:
						refs = append(refs, ref)
					}
				}
			}
			collect(c, 0)
			isRes := func(v ssa.Value) bool { return strip(v) == ssa.Value(c) }
			for _, ref := range refs {
				switch x := ref.(type) {
				case *ssa.Call:
					if b, isB := x.Call.Value.(*ssa.Builtin); isB {
						if b.Name() == "append" && len(x.Call.Args) == 2 && isRes(x.Call.Args[1]) {
							appended = true
							lenOnly = false
						} else if b.Name() == "append" && isRes(x.Call.Args[0]) {
							appended = true // becomes the accumulator itself (metadataErrs := checkHeaders(...); append(metadataErrs, ...))
							lenOnly = false
						} else if b.Name() != "len" {
							lenOnly = false
						}
					} else {
						lenOnly = false
					}
				case *ssa.DebugRef:
				case *ssa.Return:
					appended, lenOnly = true, false
				case *ssa.Phi, *ssa.Store:
					appended, lenOnly = true, false
				default:
					lenOnly = false
				}
			}
			if probe {
				r.Check(lenOnly, key, "R-DEPENDS", p.InstrPos(c), "merged-metadata probe is only length-tested", "the result of a merged-metadata probe is used for more than a length test")
				return
			}
			inFinal := n != "assert" || finalDeps[c]
			r.Check(appended && inFinal, key, "R-DEPENDS", p.InstrPos(c), "errors returned by the helper flow into the accumulator (and the recorded outcome)",
				"the errors returned by "+calleeObj(&c.Call).Name()+"("+label+", …) in "+n+" are discarded: they never reach the accumulator that becomes the outcome")
		})
	}
	// merged-metadata branch: guard and drop condition
	payloads, errF := gen("ClientResponseResult", "Payloads"), gen("ClientResponseResult", "Error")
	streamType := gen("ClientCompatRequest", "StreamType")
	var probes []ssa.Instruction
	eachInstr(asrt, func(in ssa.Instruction) {
		if c, ok := in.(*ssa.Call); ok && checkObjs[calleeObj(&c.Call)] {
			if s, isS := constString(c.Call.Args[0]); isS && s == "response metadata" {
				probes = append(probes, in)
			}
		}
	})
	r.Sites++
	okGuard := len(probes) == 2
	for _, pr := range probes {
		as := atomsAt(pr.Block())
		noPayloads := hasAtom(as, func(a Atom) bool {
			if a.Op != token.EQL {
				return false
			}
			z, isZ := constInt(a.Y)
			x, isLen := lenArg(a.X)
			return isZ && z == 0 && isLen && loadedField(canon(x)) == payloads && sideOf(x) == "expected"
		})
		hasErr := hasAtom(as, func(a Atom) bool {
			m, isNil := nilTestOn(a, func(v ssa.Value) bool { return loadedField(canon(v)) == errF && sideOf(v) == "expected" })
			return m && !isNil
		})
		if !noPayloads || !hasErr {
			okGuard = false
		}
	}
	// stream types tested in assert
	stypes := map[string]bool{}
	eachInstr(asrt, func(in ssa.Instruction) {
		bo, ok := in.(*ssa.BinOp)
		if !ok || bo.Op != token.EQL {
			return
		}
		if loadedField(canon(bo.X)) == streamType {
			if c, isC := constInt(bo.Y); isC {
				stypes[fmt.Sprint(c)] = true
			}
		}
	})
	wantTypes := map[string]bool{}
	for _, n := range []string{"StreamType_STREAM_TYPE_UNARY", "StreamType_STREAM_TYPE_CLIENT_STREAM"} {
		if c := p.Const(pkgGen, n); c != nil {
			wantTypes[c.Val().ExactString()] = true
		}
	}
	if fmt.Sprint(sortedKeys(stypes)) != fmt.Sprint(sortedKeys(wantTypes)) {
		okGuard = false
	}
	r.Check(okGuard, "errflow.merged-guard", "R-GUARD", p.Pos(asrt.Pos()), "merged headers+trailers probing only under (no expected payloads ∧ expected error), stream types tested = {UNARY, CLIENT_STREAM}",
		"the merged headers-and-trailers leniency is not confined to (no expected payloads ∧ an expected error ∧ unary or client stream): misattributed metadata on other results would pass")
	// drop condition: original metadata errors appended under both probes failing
	okDrop := false
	eachInstr(asrt, func(in ssa.Instruction) {
		c, isCall := in.(*ssa.Call)
		if !isCall {
			return
		}
		if bi, isB := c.Call.Value.(*ssa.Builtin); !isB || bi.Name() != "append" {
			return
		}
		if len(c.Call.Args) != 2 {
			return
		}
		// appended list is the accumulated metadataErrs (derived from the two non-probe checkHeaders in the merged branch)
		src := dependenceClosure(c.Call.Args[1])
		fromMeta := 0
		for v := range src {
			if cc, ok := v.(*ssa.Call); ok && checkObjs[calleeObj(&cc.Call)] && len(probes) == 2 && dominatesBlock(cc.Block(), probes[0].Block()) && cc.Block() != probes[0].Block() {
				fromMeta++
			}
		}
		if fromMeta < 2 {
			return
		}
		as := atomsAt(in.Block())
		nz := 0
		for _, a := range as {
			if a.Op == token.NEQ || a.Op == token.GTR {
				z, isZ := constInt(a.Y)
				x, isLen := lenArg(a.X)
				if isZ && z == 0 && isLen {
					for _, pr := range probes {
						if canon(x) == pr.(ssa.Value) {
							nz++
						}
					}
				}
			}
		}
		if nz == 2 {
			okDrop = true
		}
	})
	r.Sites++
	r.Check(okDrop, "errflow.drop-only-if-probe-ok", "R-GUARD", p.Pos(asrt.Pos()), "the separately attributed metadata errors are reported whenever both merged probes failed", "the original header/trailer errors are not reported exactly when both merged-metadata probes failed")

	// ---- grace ----
	cri := fns["checkRequestInfo"]
	timeoutMs := gen("ConformancePayload_RequestInfo", "TimeoutMs")
	graceConst := p.Const(pkgCC, "timeoutCheckGracePeriodMillis")
	okSrc := false
	if decl, pkg := p.Decl(cri); decl != nil && graceConst != nil {
		ast.Inspect(decl, func(n ast.Node) bool {
			be, ok := n.(*ast.BinaryExpr)
			if !ok || be.Op != token.SUB {
				return true
			}
			if id, ok := be.Y.(*ast.Ident); ok && pkg.TypesInfo.Uses[id] == types.Object(graceConst) {
				okSrc = true
			}
			return true
		})
	}
	r.Sites++
	r.Check(okSrc, "grace.single-source", "R-SINGLE-SOURCE", p.Pos(cri.Pos()), "lower bound = … − timeoutCheckGracePeriodMillis (the named constant)", "the lower bound of the timeout window is not computed from the named constant timeoutCheckGracePeriodMillis")
	var minV, maxV ssa.Value
	eachInstr(cri, func(in ssa.Instruction) {
		bo, ok := in.(*ssa.BinOp)
		if ok && bo.Op == token.SUB && sideOf(bo.X) == "expected" && derivesFromField(bo.X, timeoutMs, 0) {
			if _, isC := constInt(bo.Y); isC {
				minV, maxV = bo, bo.X
			}
		}
	})
	okIncl, okClamp := false, false
	if minV != nil {
		var upper, lower bool
		eachInstr(cri, func(in ssa.Instruction) {
			bo, ok := in.(*ssa.BinOp)
			if !ok {
				return
			}
			if bo.Op == token.GTR && sideOf(bo.X) == "actual" && sameVal(bo.Y, maxV) {
				upper = true
			}
			if bo.Op == token.LSS && sideOf(bo.X) == "actual" {
				if phi, isPhi := bo.Y.(*ssa.Phi); isPhi {
					hasMin, hasZero := false, false
					for _, e := range phi.Edges {
						if e == minV {
							hasMin = true
						}
						if z, isZ := constInt(e); isZ && z == 0 {
							hasZero = true
						}
					}
					if hasMin && hasZero {
						lower, okClamp = true, true
					}
				} else if bo.Y == minV {
					lower = true
				}
			}
		})
		okIncl = upper && lower
	}
	r.Sites += 2
	r.Check(okIncl, "grace.inclusive", "R-GUARD", p.Pos(cri.Pos()), "error only for actual > expected or actual < expected − grace (both ends inclusive)", "the echoed-timeout window is not `expected − grace ≤ actual ≤ expected` with both ends inclusive")
	r.Check(okClamp, "grace.clamp", "R-GUARD", p.Pos(cri.Pos()), "lower bound clamped at 0", "the lower bound of the timeout window is not clamped at 0")

	// ---- first-only ----
	criObj := funcObj(cri)
	for _, n := range []string{"checkPayloads", "checkError"} {
		fn := fns[n]
		calls := findInstrs(fn, isCallObj(criObj))
		r.Sites++
		ok := len(calls) == 1
		if ok {
			arg := callCommon(calls[0]).Args[2]
			if n == "checkError" {
				b, isC := constBool(arg)
				ok = isC && b
			} else {
				bo, isB := arg.(*ssa.BinOp)
				ok = isB && bo.Op == token.EQL
				if ok {
					z, isZ := constInt(bo.Y)
					_, isPhi := bo.X.(*ssa.Phi)
					ok = isZ && z == 0 && isPhi && indexesWith(fn, bo.X)
				}
			}
		}
		r.Check(ok, "first-only."+n, "R-GUARD", p.Pos(fn.Pos()), map[string]string{"checkPayloads": "verifyHeaders = (payload index == 0)", "checkError": "verifyHeaders = true for request info in error details"}[n],
			map[string]string{"checkPayloads": "checkPayloads does not request header/timeout/query verification exactly for payload #0", "checkError": "checkError does not always verify headers/timeout/query of the request info carried in the error details (it is appended after user details, so its index is not 0)"}[n])
	}

	// ---- leniency guards ----
	ce := fns["checkError"]
	code, msg := gen("Error", "Code"), gen("Error", "Message")
	var codeCmp, msgCmp *ssa.If
	for _, b := range ce.Blocks {
		iff, ok := b.Instrs[len(b.Instrs)-1].(*ssa.If)
		if !ok {
			continue
		}
		a := atomOf(iff.Cond, true)
		if a.Op == token.NEQ || a.Op == token.EQL {
			if loadedField(canon(a.X)) == code && loadedField(canon(a.Y)) == code {
				codeCmp = iff
			}
			if derivesFromField(a.X, msg, 0) && derivesFromField(a.Y, msg, 0) && sideOf(a.X) != sideOf(a.Y) {
				msgCmp = iff
			}
		}
	}
	okCodes := false
	if codeCmp != nil {
		for _, b := range ce.Blocks {
			for _, in := range b.Instrs {
				if !isAppendErr(in) || !edgeDominates(codeCmp.Block(), 0, b) && !edgeDominates(codeCmp.Block(), 1, b) {
					continue
				}
				as := atomsAt(b)
				cont := 0
				other := 0
				for _, a := range as {
					if m, v := boolTestOn(a, isCallResult(func(c *ssa.CallCommon) bool {
						if !isCallToNamed(c, "slices", "", "Contains") {
							return false
						}
						prm, isP := canon(c.Args[0]).(*ssa.Parameter)
						return isP && prm.Name() == "otherCodes" && loadedField(canon(c.Args[1])) == code && sideOf(c.Args[1]) == "actual"
					})); m && !v {
						cont++
						continue
					}
					if a.Op == token.NEQ && loadedField(canon(a.X)) == code {
						continue
					}
					if m, _ := nilTestOn(a, func(ssa.Value) bool { return true }); m {
						continue // the nil prologue of checkError
					}
					if phi, isPhi := a.X.(*ssa.Phi); isPhi && a.Op == token.ILLEGAL && (phi.Comment == "&&" || phi.Comment == "||") && onlyNilTests(phi) {
						continue // the nil prologue (switch over expected/actual == nil)
					}
					other++
				}
				if cont == 1 && other == 0 {
					okCodes = true
				}
			}
		}
	}
	r.Sites++
	r.Check(okCodes, "leniency.other-codes", "R-GUARD", p.Pos(ce.Pos()), "code mismatch reported exactly when codes differ ∧ ¬slices.Contains(otherCodes, actual.Code)", "the alternative-error-code leniency is not exactly `codes differ ∧ actual code not among otherCodes`")
	okMsg := false
	if msgCmp != nil {
		okMsg = guardedBy(msgCmp, func(a Atom) bool {
			m, isNil := nilTestOn(a, func(v ssa.Value) bool { return loadedField(canon(v)) == msg && sideOf(v) == "expected" })
			return m && !isNil
		})
	}
	r.Sites++
	r.Check(okMsg, "leniency.message", "R-GUARD", p.Pos(ce.Pos()), "message compared only when the expected message is specified", "the error message is compared although the expected message may be unspecified (or is never compared)")
	// HTTP status
	status := gen("ClientResponseResult", "HttpStatusCode")
	okStatus := false
	for _, b := range asrt.Blocks {
		for _, in := range b.Instrs {
			if !isAppendErr(in) {
				continue
			}
			as := atomsAt(b)
			e := hasAtom(as, func(a Atom) bool {
				m, isNil := nilTestOn(a, func(v ssa.Value) bool { return loadedField(canon(v)) == status && sideOf(v) == "expected" })
				return m && !isNil
			})
			ac := hasAtom(as, func(a Atom) bool {
				m, isNil := nilTestOn(a, func(v ssa.Value) bool { return loadedField(canon(v)) == status && sideOf(v) == "actual" })
				return m && !isNil
			})
			ne := hasAtom(as, func(a Atom) bool {
				return a.Op == token.NEQ && derivesFromField(a.X, status, 0) && derivesFromField(a.Y, status, 0)
			})
			if e && ac && ne {
				okStatus = true
			}
		}
	}
	r.Sites++
	r.Check(okStatus, "leniency.http-status", "R-GUARD", p.Pos(asrt.Pos()), "HTTP status compared only when both sides report one", "the HTTP status is not compared exactly when both the expected and the actual status are present")
	// header names lowered / values canonicalised on both sides
	okCase := true
	nkeys := 0
	for _, n := range []string{"checkHeaders", "mergeHeaders"} {
		eachInstr(fns[n], func(in ssa.Instruction) {
			var key ssa.Value
			switch x := in.(type) {
			case *ssa.MapUpdate:
				key = x.Key
			case *ssa.Lookup:
				if _, isMap := x.X.Type().Underlying().(*types.Map); isMap {
					key = x.Index
				}
			}
			if key == nil {
				return
			}
			if n == "mergeHeaders" {
				// the final copy loop ranges over the merged map: keys come from the map itself
				if _, isEx := key.(*ssa.Extract); isEx {
					return
				}
			}
			nkeys++
			r.Sites++
			c, ok := canon(key).(*ssa.Call)
			if !ok || !isCallToNamed(&c.Call, "strings", "", "ToLower") {
				okCase = false
				r.Fail("leniency.header-case@"+n, "R-GUARD", p.InstrPos(in), "a header map in "+n+" is keyed by "+path(key)+" instead of strings.ToLower(name): header-name case would matter on one side")
			}
		})
	}
	if okCase {
		r.OK("leniency.header-case", "R-GUARD", "-", fmt.Sprintf("all %d header-map keys are strings.ToLower(name)", nkeys))
	}
	r.Floor("header-map-keys", nkeys, 5)
	chd := fns["checkHeaders"]
	canonObj := funcObj(fns["canonicalizeHeaderVals"])
	okCanon := false
	eachInstr(chd, func(in ssa.Instruction) {
		c, ok := in.(*ssa.Call)
		if !ok || !isCallToNamed(&c.Call, "reflect", "", "DeepEqual") {
			return
		}
		sides := map[string]bool{}
		for _, a := range c.Call.Args {
			cc, ok := canon(a).(*ssa.Call)
			if ok && calleeObj(&cc.Call) == canonObj {
				sides[sideOf(cc.Call.Args[0])] = true
			}
		}
		if sides["expected"] && sides["actual"] {
			okCanon = true
		}
	})
	r.Sites++
	r.Check(okCanon, "leniency.header-values", "R-GUARD", p.Pos(chd.Pos()), "both value lists pass through canonicalizeHeaderVals before being compared", "header values are not canonicalised on both sides before comparison (comma-joined vs split values would differ)")
}

// canAvoidReport: from block start there is a path to a return or back to
// the branching block `origin` (next loop iteration) that passes no report.
func canAvoidReport(start, origin *ssa.BasicBlock, isReport instrPred) bool {
	seen := map[*ssa.BasicBlock]bool{}
	var visit func(b *ssa.BasicBlock) bool
	visit = func(b *ssa.BasicBlock) bool {
		if seen[b] {
			return false
		}
		seen[b] = true
		for _, in := range b.Instrs {
			if isReport(in) {
				return false
			}
			if _, ok := in.(*ssa.Return); ok {
				return true
			}
		}
		for _, s := range b.Succs {
			if s == origin || dominatesBlock(s, origin) && s != b {
				return true // left the construct (loop header / enclosing merge)
			}
			if visit(s) {
				return true
			}
		}
		return false
	}
	return visit(start)
}

// indexesWith: the phi (or phi+... ) is used as the index of an element access in fn.
func indexesWith(fn *ssa.Function, idx ssa.Value) bool {
	found := false
	eachInstr(fn, func(in ssa.Instruction) {
		if ia, ok := in.(*ssa.IndexAddr); ok && ia.Index == idx {
			found = true
		}
	})
	return found
}

func sortedKeys(m map[string]bool) []string {
	out := make([]string, 0, len(m))
	for k := range m {
		out = append(out, k)
	}
	sort.Strings(out)
	return out
}

// onlyNilTests: a short-circuit boolean phi all of whose leaves are nil
// comparisons (or constants).
func onlyNilTests(phi *ssa.Phi) bool {
	for _, l := range phiLeaves(phi) {
		if _, isC := constBool(l.Val); isC {
			continue
		}
		bo, ok := l.Val.(*ssa.BinOp)
		if !ok || (bo.Op != token.EQL && bo.Op != token.NEQ) || !(isNilConst(bo.X) || isNilConst(bo.Y)) {
			return false
		}
	}
	return true
}
