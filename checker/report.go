package main

import (
	"bufio"
	"encoding/json"
	"fmt"
	"golang.org/x/tools/go/ssa"
	"os"
	"path/filepath"
	"regexp"
	"sort"
	"strings"
)

// Obligation is one rule instance: rule x construct, with a verdict.
type Obligation struct {
	Key     string `json:"key"`     // <ID>.<rule>.<construct>, stable, never a line number
	Rule    string `json:"rule"`    // rule family (R-LATCH, R-GUARD, ...)
	Status  string `json:"status"`  // discharged | violated | undecided
	Pos     string `json:"pos"`     // file:line:col of the construct / witness
	Detail  string `json:"detail"`  // witness (discharged) or diagnosis (violated)
	Trivial bool   `json:"trivial"` // discharged without a non-trivial witness
}

type Report struct {
	Prop         string
	Obls         []Obligation
	seen         map[string]int
	Sites        int // program points examined (evaluations)
	Funcs        map[string]bool
	Extra        map[string]any
	Assume       []string
	Explain      string
	PanicAudited map[*ssa.Function]bool // functions whose panic sites were already audited in this report
}

func NewReport(prop string) *Report {
	return &Report{Prop: prop, seen: map[string]int{}, Funcs: map[string]bool{}, Extra: map[string]any{}, PanicAudited: map[*ssa.Function]bool{}}
}

func (r *Report) add(o Obligation) {
	o.Key = r.Prop + "." + o.Key
	if n, dup := r.seen[o.Key]; dup {
		// the same construct reached twice (e.g. several instantiations of a
		// generic function): verdicts must agree, the worse one wins.
		old := &r.Obls[n]
		if rank(o.Status) > rank(old.Status) {
			*old = o
		}
		return
	}
	r.seen[o.Key] = len(r.Obls)
	r.Obls = append(r.Obls, o)
}

func rank(s string) int {
	switch s {
	case "violated":
		return 2
	case "undecided":
		return 1
	}
	return 0
}

func (r *Report) OK(key, rule, pos, witness string) {
	r.add(Obligation{Key: key, Rule: rule, Status: "discharged", Pos: pos, Detail: witness})
}

func (r *Report) Trivial(key, rule, pos, witness string) {
	r.add(Obligation{Key: key, Rule: rule, Status: "discharged", Pos: pos, Detail: witness, Trivial: true})
}

func (r *Report) Fail(key, rule, pos, diag string) {
	r.add(Obligation{Key: key, Rule: rule, Status: "violated", Pos: pos, Detail: diag})
}

func (r *Report) Undecided(key, rule, why string) {
	r.add(Obligation{Key: key, Rule: rule, Status: "undecided", Pos: "?", Detail: "UNDECIDED: " + why})
}

// Check records a verdict from a boolean.
func (r *Report) Check(ok bool, key, rule, pos, witness, diag string) {
	if ok {
		r.OK(key, rule, pos, witness)
	} else {
		r.Fail(key, rule, pos, diag)
	}
}

// Floor fails when a rule family matched fewer instances than were confirmed
// by hand: a rule that matches nothing would otherwise pass vacuously.
func (r *Report) Floor(family string, got, min int) {
	key := "floor." + family
	if got < min {
		r.Fail(key, "instance-floor", "-", fmt.Sprintf("rule family %s matched %d instance(s); at least %d were confirmed by reading — the rule no longer sees the code it is meant to check", family, got, min))
	} else {
		r.Trivial(key, "instance-floor", "-", fmt.Sprintf("%d instance(s) >= floor %d", got, min))
	}
}

func (r *Report) Func(name string) { r.Funcs[name] = true }

// ---- known findings ----

type knownFinding struct {
	Prop, Key, Text string
}

var kfRe = regexp.MustCompile(`^finding:\s+property=(\S+)\s+key=(\S+)\s+(.*)$`)

func loadKnownFindings(verifDir string) []knownFinding {
	f, err := os.Open(filepath.Join(verifDir, "known-findings.txt"))
	if err != nil {
		return nil
	}
	defer f.Close()
	var out []knownFinding
	sc := bufio.NewScanner(f)
	for sc.Scan() {
		line := strings.TrimSpace(sc.Text())
		if m := kfRe.FindStringSubmatch(line); m != nil {
			out = append(out, knownFinding{m[1], m[2], m[3]})
		}
	}
	return out
}

// ---- evidence ----

type runInfo struct {
	Tier      string
	Seed      int64
	WallS     float64
	Packages  int
	Functions int
	RepoFuncs int
	CGEdges   int
	Configs   []string
	Cmd       string
	Thorough  map[string]any
}

func (r *Report) counts() (total, discharged, violated, undecided, nontrivial int) {
	for _, o := range r.Obls {
		total++
		switch o.Status {
		case "discharged":
			discharged++
			if !o.Trivial {
				nontrivial++
			}
		case "violated":
			violated++
		default:
			undecided++
		}
	}
	return
}

func (r *Report) WriteEvidence(verifDir string, meta propMeta, ri runInfo, nviol int) error {
	total, discharged, _, _, nontrivial := r.counts()
	obls := append([]Obligation(nil), r.Obls...)
	sort.Slice(obls, func(i, j int) bool { return obls[i].Key < obls[j].Key })
	// samples: rotate by seed so different runs show different obligations
	var samples []any
	if n := len(obls); n > 0 {
		start := int(ri.Seed % int64(n))
		if start < 0 {
			start = -start
		}
		for i := 0; i < n && len(samples) < 12; i++ {
			o := obls[(start+i)%n]
			if o.Trivial && len(samples) > 2 {
				continue
			}
			samples = append(samples, o)
		}
	}
	rules := map[string]int{}
	for _, o := range obls {
		rules[o.Rule]++
	}
	funcs := make([]string, 0, len(r.Funcs))
	for f := range r.Funcs {
		funcs = append(funcs, f)
	}
	sort.Strings(funcs)
	cov := map[string]any{
		"explanation":           meta.Explain,
		"obligations":           total,
		"discharged":            discharged,
		"evaluations":           r.Sites,
		"distinct_nontrivial":   nontrivial,
		"rule":                  "obligation = rule x construct resolved through go/types + go/ssa on /repo's working tree; evaluations = program points (instructions, call sites, table rows, literal fields) examined by the rules; an obligation is non-trivial when its discharge needed a witness (dominating guard, path argument, table row, lock set) rather than a constant/instance-floor fact",
		"samples":               samples,
		"obligations_by_rule":   rules,
		"all_obligations":       obls,
		"functions_analysed":    funcs,
		"packages":              ri.Packages,
		"repo_functions_loaded": ri.RepoFuncs,
		"build_configs":         ri.Configs,
		"checker_cmd":           ri.Cmd,
		"trusted_base":          meta.Trusted,
		"not_decided":           meta.NotDecided,
		"exhaustive":            false,
	}
	if ri.Functions > 0 { // a VTA call graph was built for this property
		cov["call_graph_functions"] = ri.Functions
		cov["call_graph_edges"] = ri.CGEdges
	}
	for k, v := range r.Extra {
		cov[k] = v
	}
	for k, v := range ri.Thorough {
		cov[k] = v
	}
	ev := map[string]any{
		"property_id": r.Prop,
		"tier":        ri.Tier,
		"seed":        ri.Seed,
		"level":       "other",
		"coverage":    cov,
		"assumptions": append(append([]string{}, meta.Assume...), r.Assume...),
		"wall_s":      ri.WallS,
		"violations":  nviol,
	}
	b, err := json.MarshalIndent(ev, "", " ")
	if err != nil {
		return err
	}
	dir := filepath.Join(verifDir, "evidence")
	if err := os.MkdirAll(dir, 0o755); err != nil {
		return err
	}
	return os.WriteFile(filepath.Join(dir, r.Prop+".json"), b, 0o644)
}

var keySan = regexp.MustCompile(`[^A-Za-z0-9._-]+`)

func writeReplay(verifDir string, o Obligation, prop string) string {
	dir := filepath.Join(verifDir, "evidence", "violations")
	_ = os.MkdirAll(dir, 0o755)
	name := keySan.ReplaceAllString(o.Key, "_")
	if len(name) > 150 {
		name = name[:150]
	}
	path := filepath.Join(dir, name+".json")
	b, _ := json.MarshalIndent(map[string]any{"property": prop, "obligation": o}, "", " ")
	_ = os.WriteFile(path, b, 0o644)
	return path
}
