package main

import (
	"fmt"
	"go/token"
	"go/types"
	"sort"

	"golang.org/x/tools/go/ssa"
)

func init() {
	register(&propMeta{
		ID: "C08",
		Explain: "Decides structural necessary conditions of 'test-name patterns follow glob semantics; every given pattern is honoured': " +
			"(fold) argsToPatterns, parsePatternFile and parsePatterns range over their whole input, never leave the loop with a success return, and every iteration either contributes to the accumulator, is a blank/comment-line skip, or returns an error; the accumulator is what is returned; " +
			"(wire) each of the four pattern lists travels from its command-line flag through argsToPatterns, Flags, parsePatterns and run into exactly its own consumer (known-failing / known-flaky tries of the results, run / skip tries of the filter) and the outcome's known-failing / known-flaky flags are read from their own tries; " +
			"(unmatched) every given trie is validated against all permutations before results exist and an unmatched pattern is an error; (conflict) a name matched by both the known-failing and the known-flaky trie is an error; " +
			"(compose) a case is accepted unless a run trie exists and does not match or a skip trie exists and matches; apply keeps exactly the accepted; " +
			"(separator) patterns and names are split at \"/\" everywhere, the only wildcard keys are \"*\" and \"**\"; " +
			"(alternatives) in the matcher, a literal, a `*` and a `**` child are alternatives: no non-true result is returned before all of them were looked up. " +
			"It does NOT decide that the trie matcher equals glob semantics (a statement about all pattern/name pairs of a recursive function): reading found the deviation D8 (`a/**/**` does not match `a`), which no rule here can see.",
		NotDecided: []string{"that the trie matcher equals glob semantics for all pattern/name pairs (D8: trailing `**/**` does not match the empty remainder)", "that matched counters are updated for every matching pattern"},
		Assume:     []string{"strings.Split / path.Join behave as documented"},
		Trusted:    commonTrusted,
		Run:        runC08,
	})
	fm := "cmd/connectconformance/main.go"
	fc := "internal/app/connectconformance/connectconformance.go"
	ft := "internal/app/connectconformance/test_trie.go"
	fl := "internal/app/connectconformance/test_case_library.go"
	addMutants(
		Mutant{ID: "C08-D2-early-return", Prop: "C08", File: fm, Old: "\t\tpatterns = append(patterns, parsePatternFile(data)...)\n", New: "\t\treturn parsePatternFile(data), nil\n",
			Expect: []string{"fold.argsToPatterns"}, Note: "original defect D2: first @file drops all other patterns"},
		Mutant{ID: "C08-last-line", Prop: "C08", File: fm, Old: "\tlines := bytes.Split(data, []byte{'\\n'})\n", New: "\tlines := bytes.Split(data, []byte{'\\n'})\n\tlines = lines[:len(lines)-1]\n",
			Expect: []string{"fold.parsePatternFile"}, Note: "seed C08-2: last line of an @file without trailing newline dropped"},
		Mutant{ID: "C08-star-no-fallthrough", Prop: "C08", File: ft, Old: "\tchild = tt.children[\"*\"]\n\tif child != nil && child.match(rest) {\n\t\treturn true\n\t}\n", New: "\tchild = tt.children[\"*\"]\n\tif child != nil {\n\t\treturn child.match(rest)\n\t}\n",
			Expect: []string{"alternatives"}, Note: "seed C08-1: a failing `*` branch hides a `**` sibling"},
		Mutant{ID: "C08-failing-flaky-swapped", Prop: "C08", File: fc, Old: "\tresults := newResults(filteredTestCount, knownFailing, knownFlaky, trace)", New: "\tresults := newResults(filteredTestCount, knownFlaky, knownFailing, trace)",
			Expect: []string{"wire."}, Note: "known-failing and known-flaky tries swapped"},
		Mutant{ID: "C08-skip-unvalidated", Prop: "C08", File: fc, Old: "\tif skip != nil {\n\t\tif _, err := tryMatchPatterns(\"no-run patterns\", skip, allPermutations); err != nil {\n\t\t\treturn nil, err\n\t\t}\n\t}\n", New: "",
			Expect: []string{"unmatched."}, Note: "skip patterns that match nothing are not reported"},
		Mutant{ID: "C08-conflict-or", Prop: "C08", File: fc, Old: "if knownFailing.matchPattern(name) && knownFlaky.matchPattern(name) {", New: "if knownFailing.matchPattern(name) && knownFailing.matchPattern(name) {",
			Expect: []string{"conflict"}, Note: "ambiguity check compares a trie with itself"},
		Mutant{ID: "C08-skip-polarity", Prop: "C08", File: fl, Old: "\tif f.noRun != nil && f.noRun.matchPattern(testCase.Request.TestName) {\n\t\treturn false\n\t}", New: "\tif f.noRun != nil && !f.noRun.matchPattern(testCase.Request.TestName) {\n\t\treturn false\n\t}",
			Expect: []string{"compose."}, Note: "skip polarity inverted"},
		Mutant{ID: "C08-flag-cross", Prop: "C08", File: fm, Old: "knownFlakyPatterns, err := argsToPatterns(flags.knownFlakyPatterns)", New: "knownFlakyPatterns, err := argsToPatterns(flags.knownFailingPatterns)",
			Expect: []string{"wire."}, Note: "--known-flaky reads the --known-failing flag values"},
		Mutant{ID: "C08-separator", Prop: "C08", File: ft, Old: "\ttt.add(strings.Split(pattern, \"/\"))", New: "\ttt.add(strings.Split(pattern, \":\"))",
			Expect: []string{"separator"}, Note: "patterns split on a different separator than names"},
		Mutant{ID: "C08-unmatched-ok", Prop: "C08", File: fc, Old: "\tif len(unmatched) == 0 {\n\t\treturn matchCount, nil\n\t}", New: "\tif len(unmatched) >= 0 {\n\t\treturn matchCount, nil\n\t}",
			Expect: []string{"unmatched."}, Note: "unmatched patterns never reported"},
	)
}

// foldSpec describes one fold function for R-FOLD.
type foldSpec struct {
	Key        string
	Fn         *ssa.Function
	InputParam int                                  // index of the input parameter
	Derive     func(v ssa.Value, in ssa.Value) bool // ranged value is the input itself or this direct derivation of it
	Accumulate instrPred
	Skip       func(a Atom) bool // whitelisted skip conditions
	ErrIdx     int               // index of the error result, -1 if none
}

func ruleFold(p *Prog, r *Report, fs foldSpec) {
	if fs.Fn == nil {
		r.Undecided(fs.Key, "R-FOLD", "function not found")
		return
	}
	fn := fs.Fn
	r.Func(funcName(fn))
	in := ssa.Value(fn.Params[fs.InputParam])
	// find the range loop over the input: a rangeindex phi whose bound is len(X)
	var header *ssa.BasicBlock
	var ranged ssa.Value
	eachInstr(fn, func(i ssa.Instruction) {
		bo, ok := i.(*ssa.BinOp)
		if !ok || bo.Op != token.LSS || header != nil {
			return
		}
		idx, ok := bo.X.(*ssa.BinOp)
		if !ok || !isRangeIndex(idx) {
			return
		}
		if la, ok := lenArg(bo.Y); ok {
			header, ranged = bo.Block(), la
		}
	})
	r.Sites++
	if header == nil {
		r.Fail(fs.Key+".loop", "R-FOLD", p.Pos(fn.Pos()), funcName(fn)+" no longer ranges over its input")
		return
	}
	rv := canon(ranged)
	okIn := rv == in || (fs.Derive != nil && fs.Derive(rv, in))
	r.Check(okIn, fs.Key+".whole-input", "R-FOLD", p.Pos(fn.Pos()), "the loop ranges over the whole input", funcName(fn)+" ranges over "+path(ranged)+", not over its whole input: elements are dropped before the fold")
	body := header.Succs[0]
	inLoop := func(b *ssa.BasicBlock) bool { return dominatesBlock(body, b) }
	// no success return inside the loop
	bad := false
	for _, ret := range returnsOf(fn) {
		if !inLoop(ret.Block()) {
			continue
		}
		r.Sites++
		if fs.ErrIdx < 0 {
			bad = true
			continue
		}
		for _, v := range retVals(ret, fs.ErrIdx) {
			if isNilValue(v) {
				bad = true
			}
		}
	}
	r.Check(!bad, fs.Key+".no-early-success", "R-FOLD", p.Pos(fn.Pos()), "no success return inside the loop", funcName(fn)+" returns successfully from inside the loop: the remaining elements (and what was accumulated so far) are dropped")
	// every iteration accumulates, skips on a whitelisted condition, or errors out
	blocked := func(b *ssa.BasicBlock) bool {
		for _, i := range b.Instrs {
			if fs.Accumulate(i) {
				return true
			}
		}
		if fs.Skip != nil && hasAtom(atomsAtWithin(b, body), fs.Skip) {
			return true
		}
		return false
	}
	seen := map[*ssa.BasicBlock]bool{}
	var escapes func(b *ssa.BasicBlock) bool
	escapes = func(b *ssa.BasicBlock) bool {
		if b == header {
			return true
		}
		if seen[b] || blocked(b) || !inLoop(b) {
			return false
		}
		seen[b] = true
		for i, s := range b.Succs {
			// an edge taken on a whitelisted skip condition is a documented skip
			if fs.Skip != nil && len(b.Succs) == 2 {
				if iff, ok := b.Instrs[len(b.Instrs)-1].(*ssa.If); ok && fs.Skip(atomOf(iff.Cond, i == 0)) {
					continue
				}
			}
			if escapes(s) {
				return true
			}
		}
		return false
	}
	r.Sites++
	r.Check(!escapes(body), fs.Key+".every-element", "R-FOLD", p.Pos(fn.Pos()), "every iteration reaches the accumulator, a blank/comment skip or an error return", funcName(fn)+" has a path through one iteration that neither contributes the element nor is a documented skip: that pattern silently takes no part")
	// the success return returns the accumulator
	okRet := false
	for _, ret := range returnsOf(fn) {
		if inLoop(ret.Block()) {
			continue
		}
		d := dependenceClosure(ret.Results[0])
		for v := range d {
			if i, ok := v.(ssa.Instruction); ok && fs.Accumulate(i) {
				okRet = true
			}
		}
		// accumulation through a method on the returned object
		eachInstr(fn, func(i ssa.Instruction) {
			if fs.Accumulate(i) {
				if c := callCommon(i); c != nil && len(c.Args) > 0 {
					for _, v := range retVals(ret, 0) {
						if v != nil && canon(c.Args[0]) == canon(v) {
							okRet = true
						}
					}
				}
			}
		})
	}
	r.Sites++
	r.Check(okRet, fs.Key+".returns-accumulator", "R-FOLD", p.Pos(fn.Pos()), "the result is the accumulator", funcName(fn)+" does not return what it accumulated")
}

// atomsAtWithin: facts at b established inside the region dominated by `within`.
func atomsAtWithin(b, within *ssa.BasicBlock) []Atom {
	var out []Atom
	for _, f := range factsAt(b) {
		if dominatesBlock(within, f.If.Block()) {
			out = append(out, atomOf(f.Cond, f.True))
		}
	}
	return out
}

func isAppendTo(name string) instrPred {
	return func(in ssa.Instruction) bool {
		c, ok := in.(*ssa.Call)
		if !ok {
			return false
		}
		b, isB := c.Call.Value.(*ssa.Builtin)
		if !isB || b.Name() != "append" {
			return false
		}
		n, ok := localName(c.Call.Args[0])
		return ok && n == name
	}
}

func runC08(p *Prog, r *Report) {
	mainPkg := "cmd/connectconformance"
	// ---- fold ----
	ruleFold(p, r, foldSpec{Key: "fold.argsToPatterns", Fn: p.Func(mainPkg, "", "argsToPatterns"), InputParam: 0, Accumulate: isAppendTo("patterns"), ErrIdx: 1})
	ruleFold(p, r, foldSpec{Key: "fold.parsePatternFile", Fn: p.Func(mainPkg, "", "parsePatternFile"), InputParam: 0,
		Derive: func(v, in ssa.Value) bool {
			c, ok := v.(*ssa.Call)
			return ok && isCallToNamed(&c.Call, "bytes", "", "Split") && canon(c.Call.Args[0]) == in
		},
		Accumulate: isAppendTo("patterns"),
		Skip: func(a Atom) bool {
			// len(line) == 0  or  line[0] == '#'
			if a.Op != token.EQL {
				return false
			}
			if z, ok := constInt(a.Y); ok {
				if _, isLen := lenArg(a.X); isLen && z == 0 {
					return true
				}
				if z == '#' {
					if u, ok := canon(a.X).(*ssa.UnOp); ok {
						if ia, ok := u.X.(*ssa.IndexAddr); ok {
							if k, ok := constInt(ia.Index); ok && k == 0 {
								return true
							}
						}
					}
				}
			}
			return false
		}, ErrIdx: -1})
	addPattern := p.TypeFunc(pkgCC, "testTrie", "addPattern")
	ruleFold(p, r, foldSpec{Key: "fold.parsePatterns", Fn: p.Func(pkgCC, "", "parsePatterns"), InputParam: 0, Accumulate: func(in ssa.Instruction) bool {
		c := callCommon(in)
		return c != nil && calleeObj(c) == addPattern
	}, ErrIdx: -1})
	// argsToPatterns: the @file branch contributes the parsed file, the plain branch the argument itself
	if atp := p.Func(mainPkg, "", "argsToPatterns"); atp != nil {
		ppf := p.TypeFunc(mainPkg, "", "parsePatternFile")
		nApp, okFile := 0, false
		eachInstr(atp, func(in ssa.Instruction) {
			if !isAppendTo("patterns")(in) {
				return
			}
			nApp++
			c := in.(*ssa.Call)
			if cc, ok := canon(c.Call.Args[1]).(*ssa.Call); ok && calleeObj(&cc.Call) == ppf {
				okFile = true
			}
		})
		r.Sites++
		r.Check(nApp == 2 && okFile, "fold.argsToPatterns.file-contents", "R-FOLD", p.Pos(atp.Pos()), "plain arguments and the parsed contents of @files are both appended", "argsToPatterns does not append both plain arguments and the parsed contents of every @file")
	}

	// ---- wire ----
	mainRun := p.Func(mainPkg, "", "run")
	Run := p.Func(pkgCC, "", "Run")
	run := p.Func(pkgCC, "", "run")
	argsTo := p.TypeFunc(mainPkg, "", "argsToPatterns")
	parseP := p.TypeFunc(pkgCC, "", "parsePatterns")
	if mainRun == nil || Run == nil || run == nil {
		r.Undecided("wire", "R-WIRE", "main.run / Run / run not found")
	} else {
		for _, f := range []*ssa.Function{mainRun, Run, run} {
			r.Func(funcName(f))
		}
		kinds := []struct{ flag, Field string }{{"runPatterns", "RunPatterns"}, {"skipPatterns", "SkipPatterns"}, {"knownFailingPatterns", "KnownFailingPatterns"}, {"knownFlakyPatterns", "KnownFlakyPatterns"}}
		for _, kd := range kinds {
			dst := p.Field(pkgCC, "Flags", kd.Field)
			src := p.Field(mainPkg, "flags", kd.flag)
			r.Sites++
			ok := false
			for _, st := range storesToField([]*ssa.Function{mainRun}, dst) {
				if ex, isEx := canon(st.Val).(*ssa.Extract); isEx && ex.Index == 0 {
					if c, isC := ex.Tuple.(*ssa.Call); isC && calleeObj(&c.Call) == argsTo && loadedField(canon(c.Call.Args[0])) == src {
						ok = true
					}
				}
			}
			r.Check(ok, "wire.flag-to-Flags."+kd.Field, "R-WIRE", p.Pos(mainRun.Pos()), "Flags."+kd.Field+" ← argsToPatterns(flags."+kd.flag+")", "Flags."+kd.Field+" is not filled from argsToPatterns(flags."+kd.flag+"): a pattern list reaches the wrong consumer")
		}
		// Run: parsePatterns(flags.X) -> run(..) argument positions
		var runCall *ssa.Call
		eachInstr(Run, func(in ssa.Instruction) {
			if c, ok := in.(*ssa.Call); ok && calleeObj(&c.Call) == funcObj(run) {
				runCall = c
			}
		})
		if runCall == nil {
			r.Undecided("wire.Run-to-run", "R-WIRE", "call of run not found in Run")
		} else {
			for _, w := range []struct {
				idx   int
				Field string
			}{{1, "KnownFailingPatterns"}, {2, "KnownFlakyPatterns"}, {3, "RunPatterns"}, {4, "SkipPatterns"}} {
				f := p.Field(pkgCC, "Flags", w.Field)
				r.Sites++
				ok := false
				for _, l := range phiLeaves(canon(runCall.Call.Args[w.idx])) {
					if c, isC := canon(l.Val).(*ssa.Call); isC && calleeObj(&c.Call) == parseP && loadedField(canon(c.Call.Args[0])) == f {
						ok = true
					}
				}
				r.Check(ok, "wire.Run-to-run."+w.Field, "R-WIRE", p.InstrPos(runCall), fmt.Sprintf("run's argument #%d ← parsePatterns(flags.%s)", w.idx, w.Field), fmt.Sprintf("run's argument #%d is not parsePatterns(flags.%s): pattern lists are crossed between their flags and their consumers", w.idx, w.Field))
			}
		}
		// run: newResults(_, knownFailing, knownFlaky, _), newFilter(run, skip)
		prm := func(name string) ssa.Value {
			for _, q := range run.Params {
				if q.Name() == name {
					return q
				}
			}
			return nil
		}
		newRes, newFil := p.TypeFunc(pkgCC, "", "newResults"), p.TypeFunc(pkgCC, "", "newFilter")
		r.Sites += 2
		okNR, okNF := false, false
		for _, c := range findInstrs(run, isCallObj(newRes)) {
			cc := callCommon(c)
			okNR = canon(cc.Args[1]) == prm("knownFailing") && canon(cc.Args[2]) == prm("knownFlaky")
		}
		for _, c := range findInstrs(run, isCallObj(newFil)) {
			cc := callCommon(c)
			okNF = canon(cc.Args[0]) == prm("run") && canon(cc.Args[1]) == prm("skip")
		}
		r.Check(okNR, "wire.run-to-results", "R-WIRE", p.Pos(run.Pos()), "newResults(_, knownFailing, knownFlaky, _)", "newResults does not receive (knownFailing, knownFlaky) in that order")
		r.Check(okNF, "wire.run-to-filter", "R-WIRE", p.Pos(run.Pos()), "newFilter(run, skip)", "newFilter does not receive (run, skip) in that order")
		// constructors keep them apart
		for _, w := range []struct{ fn, typ, field, param string }{{"newResults", "testResults", "knownFailing", "knownFailing"}, {"newResults", "testResults", "knownFlaky", "knownFlaky"}, {"newFilter", "testCaseFilter", "run", "run"}, {"newFilter", "testCaseFilter", "noRun", "noRun"}} {
			fn := p.Func(pkgCC, "", w.fn)
			f := p.Field(pkgCC, w.typ, w.field)
			r.Sites++
			ok := false
			if fn != nil {
				for _, st := range storesToField([]*ssa.Function{fn}, f) {
					if q, isP := canon(st.Val).(*ssa.Parameter); isP && q.Name() == w.param {
						ok = true
					}
				}
			}
			r.Check(ok, "wire.ctor."+w.typ+"."+w.field, "R-WIRE", "-", w.typ+"."+w.field+" ← parameter "+w.param, w.fn+" does not store its parameter "+w.param+" into "+w.typ+"."+w.field)
		}
		// the outcome's flags come from their own tries
		sol := p.Func(pkgCC, "testResults", "setOutcomeLocked")
		matchObj := p.TypeFunc(pkgCC, "testTrie", "match")
		for _, w := range []struct{ out, trie string }{{"knownFailing", "knownFailing"}, {"knownFlaky", "knownFlaky"}} {
			of := p.Field(pkgCC, "testOutcome", w.out)
			tf := p.Field(pkgCC, "testResults", w.trie)
			r.Sites++
			ok := false
			if sol != nil {
				for _, st := range storesToField([]*ssa.Function{sol}, of) {
					if c, isC := canon(st.Val).(*ssa.Call); isC && calleeObj(&c.Call) == matchObj && loadedField(canon(c.Call.Args[0])) == tf {
						ok = true
					}
				}
			}
			r.Check(ok, "wire.outcome."+w.out, "R-WIRE", "-", "outcome."+w.out+" ← r."+w.trie+".match(name)", "the outcome's "+w.out+" flag is not computed from the "+w.trie+" trie")
		}
	}

	// ---- unmatched ----
	tryMatch := p.Func(pkgCC, "", "tryMatchPatterns")
	if run != nil && tryMatch != nil {
		newRes := p.TypeFunc(pkgCC, "", "newResults")
		nrCalls := findInstrs(run, isCallObj(newRes))
		seenTries := map[string]bool{}
		for _, c := range findInstrs(run, isCallObj(funcObj(tryMatch))) {
			cc := callCommon(c)
			q, isP := canon(cc.Args[1]).(*ssa.Parameter)
			if !isP {
				continue
			}
			r.Sites++
			// error propagated and results not yet created
			call := c.(*ssa.Call)
			propagated := false
			for _, ret := range returnsOf(run) {
				if guardedBy(ret, func(a Atom) bool {
					m, isNil := nilTestOn(a, func(v ssa.Value) bool {
						ex, ok := v.(*ssa.Extract)
						return ok && ex.Tuple == ssa.Value(call) && ex.Index == 1
					})
					return m && !isNil
				}) {
					for _, v := range retVals(ret, 1) {
						if !isNilValue(v) {
							propagated = true
						}
					}
				}
			}
			allPerms := false
			if n, ok := localName(cc.Args[2]); ok && n == "allPermutations" {
				allPerms = true
			} else if cl, ok := canon(cc.Args[2]).(*ssa.Call); ok && cl.Call.StaticCallee() != nil && cl.Call.StaticCallee().Name() == "allPermutations" {
				allPerms = true
			}
			before := len(nrCalls) == 1 && reachesInstr(c, nrCalls[0]) && !reachesInstr(nrCalls[0], c)
			if propagated && allPerms && before {
				seenTries[q.Name()] = true
			} else {
				r.Fail("unmatched.validated."+q.Name(), "R-MUSTCALL", p.InstrPos(c), fmt.Sprintf("validation of the %s trie is incomplete (error propagated=%v, against all permutations=%v, before results exist=%v)", q.Name(), propagated, allPerms, before))
			}
		}
		for _, want := range []string{"knownFailing", "knownFlaky", "run", "skip"} {
			r.Check(seenTries[want], "unmatched.validated."+want, "R-MUSTCALL", p.Pos(run.Pos()), "tryMatchPatterns(…, "+want+", allPermutations) with its error returned before results are created", "the "+want+" patterns are not validated against all permutations (a pattern that matches nothing would be silently ignored)")
		}
		// tryMatchPatterns returns an error exactly when something is unmatched
		okT := false
		for _, ret := range returnsOf(tryMatch) {
			vals := retVals(ret, 1)
			nonNil := len(vals) > 0 && !isNilValue(vals[0])
			as := atomsAt(ret.Block())
			empty := hasAtom(as, func(a Atom) bool {
				if a.Op != token.EQL {
					return false
				}
				z, isZ := constInt(a.Y)
				x, isLen := lenArg(a.X)
				if !isZ || z != 0 || !isLen {
					return false
				}
				c, ok := canon(x).(*ssa.Call)
				return ok && c.Call.StaticCallee() != nil && c.Call.StaticCallee().Name() == "allUnmatched"
			})
			if !nonNil && !empty {
				okT = false
				r.Fail("unmatched.error", "R-GUARD", p.InstrPos(ret), "tryMatchPatterns can return success although the set of unmatched patterns was not found empty")
				break
			}
			if nonNil {
				okT = true
			}
		}
		r.Sites++
		if okT {
			r.OK("unmatched.error", "R-GUARD", p.Pos(tryMatch.Pos()), "success only on len(allUnmatched()) == 0, an error otherwise")
		} else {
			r.Fail("unmatched.error", "R-GUARD", p.Pos(tryMatch.Pos()), "tryMatchPatterns never reports unmatched patterns")
		}
		// ---- conflict ----
		mp := p.TypeFunc(pkgCC, "testTrie", "matchPattern")
		okC := false
		eachInstr(run, func(in ssa.Instruction) {
			if !isAppendTo("conflicts")(in) {
				return
			}
			tries := map[string]bool{}
			for _, a := range atomsAt(in.Block()) {
				if m, v := boolTestOn(a, isCallResult(func(c *ssa.CallCommon) bool { return calleeObj(c) == mp })); m && v {
					if c, ok := canon(a.X).(*ssa.Call); ok {
						if q, isP := canon(c.Call.Args[0]).(*ssa.Parameter); isP {
							tries[q.Name()] = true
						}
					}
				}
			}
			okC = tries["knownFailing"] && tries["knownFlaky"]
		})
		okCE := false
		for _, ret := range returnsOf(run) {
			if guardedBy(ret, func(a Atom) bool {
				if a.Op != token.GTR && a.Op != token.NEQ {
					return false
				}
				z, isZ := constInt(a.Y)
				x, isLen := lenArg(a.X)
				n, _ := localName(x)
				return isZ && z == 0 && isLen && n == "conflicts"
			}) {
				for _, v := range retVals(ret, 1) {
					if !isNilValue(v) {
						okCE = true
					}
				}
			}
		}
		r.Sites++
		r.Check(okC && okCE, "conflict", "R-GUARD", p.Pos(run.Pos()), "a name matched by both tries is collected and makes run fail", "a test name matched as both known-failing and known-flaky is not rejected")
	}

	// ---- compose ----
	acc := p.Func(pkgCC, "testCaseFilter", "accept")
	app := p.Func(pkgCC, "testCaseFilter", "apply")
	if acc == nil || app == nil {
		r.Undecided("compose", "R-GUARD", "accept/apply not found")
	} else {
		r.Func(funcName(acc))
		mp := p.TypeFunc(pkgCC, "testTrie", "matchPattern")
		runF, noRunF := p.Field(pkgCC, "testCaseFilter", "run"), p.Field(pkgCC, "testCaseFilter", "noRun")
		matchOn := func(f *types.Var, want bool) func(Atom) bool {
			return func(a Atom) bool {
				m, v := boolTestOn(a, isCallResult(func(c *ssa.CallCommon) bool { return calleeObj(c) == mp && loadedField(canon(c.Args[0])) == f }))
				return m && v == want
			}
		}
		nonNil := func(f *types.Var) func(Atom) bool {
			return func(a Atom) bool { m, isNil := nilTestOn(a, isLoadOfField(f)); return m && !isNil }
		}
		var falseRets, trueRets []string
		for _, ret := range returnsOf(acc) {
			r.Sites++
			b, isC := constBool(ret.Results[0])
			if !isC {
				falseRets = append(falseRets, "non-constant")
				continue
			}
			as := atomsAt(ret.Block())
			switch {
			case !b && hasAtom(as, nonNil(runF)) && hasAtom(as, matchOn(runF, false)):
				falseRets = append(falseRets, "run∧¬match")
			case !b && hasAtom(as, nonNil(noRunF)) && hasAtom(as, matchOn(noRunF, true)):
				falseRets = append(falseRets, "skip∧match")
			case !b:
				falseRets = append(falseRets, "other:"+atomsString(as))
			case b:
				trueRets = append(trueRets, atomsString(as))
			}
		}
		sort.Strings(falseRets)
		r.Check(fmt.Sprint(falseRets) == "[run∧¬match skip∧match]" && len(trueRets) == 2, "compose.accept", "R-GUARD", p.Pos(acc.Pos()), "rejected exactly on (run trie ∧ no match) and (skip trie ∧ match)", fmt.Sprintf("testCaseFilter.accept does not reject exactly on (run trie present ∧ no match) and (skip trie present ∧ match): false-returns %v", falseRets))
		okA := false
		eachInstr(app, func(in ssa.Instruction) {
			if isAppendTo("results")(in) {
				as := atomsAtWithin(in.Block(), in.Block().Idom())
				_ = as
				okA = guardedBy(in, func(a Atom) bool {
					m, v := boolTestOn(a, isCallResult(func(c *ssa.CallCommon) bool { return calleeObj(c) == funcObj(acc) }))
					return m && v
				})
			}
		})
		r.Sites++
		r.Check(okA, "compose.apply", "R-GUARD", p.Pos(app.Pos()), "apply keeps exactly the accepted cases", "testCaseFilter.apply does not keep exactly the cases accept() admits")
	}

	// ---- separator ----
	sepOK := true
	nsep := 0
	for _, w := range []struct{ recv, name string }{{"testTrie", "addPattern"}, {"testTrie", "matchPattern"}, {"testResults", "setOutcomeLocked"}} {
		fn := p.Func(pkgCC, w.recv, w.name)
		if fn == nil {
			sepOK = false
			continue
		}
		eachInstr(fn, func(in ssa.Instruction) {
			c := callCommon(in)
			if c != nil && isCallToNamed(c, "strings", "", "Split") {
				nsep++
				r.Sites++
				if s, ok := constString(c.Args[1]); !ok || s != "/" {
					sepOK = false
					r.Fail("separator@"+w.name, "R-TABLE-AGREE", p.InstrPos(in), w.name+" splits on "+path(c.Args[1])+" instead of \"/\": patterns and names would be cut into components differently")
				}
			}
		})
	}
	if m := p.Func(pkgCC, "", "addGRPCMarkerToName"); m != nil {
		found := false
		eachInstr(m, func(in ssa.Instruction) {
			if bo, ok := in.(*ssa.BinOp); ok && bo.Op == token.ADD {
				if s, ok := constString(bo.Y); ok && s == "/" {
					found = true
				}
			}
		})
		r.Sites++
		if !found {
			sepOK = false
			r.Fail("separator@addGRPCMarkerToName", "R-TABLE-AGREE", p.Pos(m.Pos()), "the gRPC marker is not inserted as its own \"/\"-separated component")
		}
	}
	match := p.Func(pkgCC, "testTrie", "match")
	children := p.Field(pkgCC, "testTrie", "children")
	wild := map[string]bool{}
	if match != nil {
		eachInstr(match, func(in ssa.Instruction) {
			if lk, ok := in.(*ssa.Lookup); ok && loadedField(lk.X) == children {
				if s, ok := constString(lk.Index); ok {
					wild[s] = true
				}
			}
		})
	}
	r.Sites++
	if fmt.Sprint(sortedKeys(wild)) != "[* **]" {
		sepOK = false
		r.Fail("separator.wildcards", "R-TABLE-AGREE", "-", fmt.Sprintf("the matcher looks up the wildcard keys %v, expected exactly [* **]", sortedKeys(wild)))
	}
	if sepOK {
		r.OK("separator", "R-TABLE-AGREE", "-", fmt.Sprintf("%d split sites use \"/\"; marker inserted with \"/\"; wildcard keys are * and **", nsep))
	}
	r.Floor("split-sites", nsep, 4)

	// ---- alternatives ----
	if match != nil {
		r.Func(funcName(match))
		isLookup := func(key string) instrPred {
			return func(in ssa.Instruction) bool {
				lk, ok := in.(*ssa.Lookup)
				if !ok || loadedField(lk.X) != children {
					return false
				}
				s, isS := constString(lk.Index)
				return isS && s == key
			}
		}
		bad := false
		for _, ret := range returnsOf(match) {
			// base case (no components left) is exempt
			if guardedBy(ret, func(a Atom) bool {
				if a.Op != token.EQL {
					return false
				}
				z, isZ := constInt(a.Y)
				_, isLen := lenArg(a.X)
				return isZ && z == 0 && isLen
			}) && !precededBy(ret, isLookup("*")) {
				continue
			}
			if b, isC := constBool(ret.Results[0]); isC && b {
				continue
			}
			r.Sites++
			if !precededBy(ret, isLookup("*")) || !precededBy(ret, isLookup("**")) {
				bad = true
				r.Fail("alternatives", "R-MUSTCALL", p.InstrPos(ret), "testTrie.match returns a result other than `true` before both the `*` and the `**` child were looked up: a failing alternative hides its siblings (e.g. patterns `S/*/x` and `S/**/y` in one trie: `S/a/y` is reported as not matching)")
			}
		}
		if !bad {
			r.OK("alternatives", "R-MUSTCALL", p.Pos(match.Pos()), "every non-true result is returned only after the literal, `*` and `**` children were all tried")
		}
	}
}
